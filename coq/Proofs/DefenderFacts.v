(* Facts about the global-defender model (M3). *)
From NSG Require Import Base.Prelude Model.Defender.

(* ---------- specification-level notions, independent of the code's way of computing ---- *)

(* l contains k consecutive occurrences of t *)
Definition has_run (t : atype) (k : nat) (l : list atype) : Prop :=
  exists l1 l2, l = l1 ++ repeat t k ++ l2.

Fixpoint first_run (t : atype) (l : list atype) : nat :=
  match l with
  | [] => 0
  | x :: tl => if atype_eqb t x then S (first_run t tl) else 0
  end.

Fixpoint longest_run (t : atype) (l : list atype) : nat :=
  match l with
  | [] => 0
  | x :: tl => Nat.max (first_run t l) (longest_run t tl)
  end.

Lemma first_run_prefix t l : exists r, l = repeat t (first_run t l) ++ r.
Proof.
  induction l as [|x tl IH]; simpl.
  - exists []; reflexivity.
  - destruct (atype_eqb_spec t x) as [->|Hne].
    + destruct IH as [r Hr]. exists r. simpl. f_equal. exact Hr.
    + exists (x :: tl). reflexivity.
Qed.

Lemma first_run_ge t k l2 : k <= first_run t (repeat t k ++ l2).
Proof.
  induction k as [|k IH]; simpl; [lia|].
  rewrite atype_eqb_refl. lia.
Qed.

Lemma repeat_split {A} (x : A) a b : repeat x (a + b) = repeat x a ++ repeat x b.
Proof. induction a; simpl; congruence. Qed.

Lemma longest_run_spec t k l : k <= longest_run t l <-> has_run t k l.
Proof.
  split.
  - induction l as [|x tl IH]; intros Hk.
    + simpl in Hk. assert (k = 0) by lia. subst. exists [], []. reflexivity.
    + cbn [longest_run] in Hk.
      destruct (Nat.le_gt_cases k (first_run t (x :: tl))) as [Hf|Hf].
      * destruct (first_run_prefix t (x :: tl)) as [r Hr].
        exists [], (repeat t (first_run t (x :: tl) - k) ++ r).
        rewrite app_nil_l, app_assoc, <- repeat_split.
        replace (k + (first_run t (x :: tl) - k)) with (first_run t (x :: tl)) by lia.
        exact Hr.
      * assert (Hk' : k <= longest_run t tl) by lia.
        destruct (IH Hk') as (l1 & l2 & ->).
        exists (x :: l1), l2. reflexivity.
  - intros (l1 & l2 & ->).
    induction l1 as [|x l1 IH].
    + rewrite app_nil_l. destruct k as [|k]; [lia|].
      change (repeat t (S k) ++ l2) with (t :: (repeat t k ++ l2)).
      cbn [longest_run].
      pose proof (first_run_ge t (S k) l2) as H.
      change (repeat t (S k) ++ l2) with (t :: (repeat t k ++ l2)) in H. lia.
    + change ((x :: l1) ++ repeat t k ++ l2) with (x :: (l1 ++ repeat t k ++ l2)).
      cbn [longest_run]. lia.
Qed.

(* ---------- the code's groupby-based computation equals the specification -------------- *)

Lemma count_type_cons t x l :
  count_type t (x :: l) = (if atype_eqb t x then 1 else 0) + count_type t l.
Proof. unfold count_type. simpl. destruct (atype_eqb t x); reflexivity. Qed.

Lemma groupby_cons x tl :
  groupby (x :: tl) =
  match groupby tl with
  | (y :: g) :: gs => if atype_eqb x y then (x :: y :: g) :: gs else [x] :: (y :: g) :: gs
  | gs => [x] :: gs
  end.
Proof. reflexivity. Qed.

Lemma groupby_head x tl : exists g gs, groupby (x :: tl) = (x :: g) :: gs.
Proof.
  revert x. induction tl as [|y tl IH]; intros x.
  - exists [], []. reflexivity.
  - destruct (IH y) as (g & gs & Hg). rewrite groupby_cons, Hg.
    destruct (atype_eqb x y); eauto.
Qed.

Lemma groupby_first_count t l :
  l <> [] -> count_type t (hd [] (groupby l)) = first_run t l.
Proof.
  induction l as [|x tl IH]; [congruence|]. intros _.
  destruct tl as [|y tl'].
  - simpl. unfold count_type. simpl. destruct (atype_eqb t x); reflexivity.
  - destruct (groupby_head y tl') as (g & gs & Hg).
    assert (IH' : count_type t (y :: g) = first_run t (y :: tl')).
    { rewrite <- IH by congruence. rewrite Hg. reflexivity. }
    rewrite groupby_cons, Hg.
    destruct (atype_eqb_spec x y) as [->|Hxy].
    + cbn [hd]. rewrite count_type_cons, IH'. cbn [first_run].
      destruct (atype_eqb t y); lia.
    + cbn [hd]. rewrite count_type_cons. cbn [first_run count_type filter length].
      destruct (atype_eqb_spec t x) as [->|Htx]; [|reflexivity].
      destruct (atype_eqb_spec x y); [congruence|]. reflexivity.
Qed.

Lemma max_consecutive_cons t x tl :
  max_consecutive t (x :: tl) = Nat.max (first_run t (x :: tl)) (max_consecutive t tl).
Proof.
  pose proof (groupby_first_count t (x :: tl) ltac:(congruence)) as HA.
  unfold max_consecutive.
  destruct tl as [|y tl'].
  - simpl in *. lia.
  - destruct (groupby_head y tl') as (g & gs & Hg).
    pose proof (groupby_first_count t (y :: tl') ltac:(congruence)) as HB.
    rewrite (groupby_cons x (y :: tl')) in *. rewrite Hg in *.
    destruct (atype_eqb x y).
    + cbn [hd map fold_right] in *. rewrite HA.
      rewrite count_type_cons in HA. rewrite HB in HA. lia.
    + cbn [hd map fold_right] in *. rewrite HA. reflexivity.
Qed.

Lemma max_consecutive_longest_run t l : max_consecutive t l = longest_run t l.
Proof.
  induction l as [|x tl IH]; [reflexivity|].
  rewrite max_consecutive_cons, IH. reflexivity.
Qed.

Lemma max_consecutive_spec t k l : k <= max_consecutive t l <-> has_run t k l.
Proof. rewrite max_consecutive_longest_run. apply longest_run_spec. Qed.

(* counts are count_occ *)
Lemma count_type_count_occ t l :
  count_type t l = count_occ (fun a b => match atype_eqb_spec a b with ReflectT _ p => left p | ReflectF _ p => right p end) l t.
Proof.
  induction l as [|x tl IH]; [reflexivity|].
  rewrite count_type_cons. simpl. rewrite IH.
  destruct (atype_eqb_spec x t) as [->|Hne].
  - rewrite atype_eqb_refl. reflexivity.
  - destruct (atype_eqb_spec t x); [congruence|]. reflexivity.
Qed.

Lemma act_eqb_eq a b : act_eqb a b = true <-> a = b.
Proof.
  destruct a as [t n], b as [t' n']. unfold act_eqb. simpl.
  rewrite andb_true_iff, atype_eqb_eq, N.eqb_eq. split; [intros [-> ->]; reflexivity | intros [= -> ->]; auto].
Qed.

Lemma lastn_length {A} n (l : list A) : n <= length l -> length (lastn n l) = n.
Proof. intros H. unfold lastn. rewrite skipn_length. lia. Qed.

Lemma lastn_suffix {A} n (l : list A) : exists p, l = p ++ lastn n l.
Proof. exists (firstn (length l - n) l). unfold lastn. symmetry. apply firstn_skipn. Qed.

(* ---------- the decision rule ------------------------------------------------------------ *)

Definition window (tw : nat) (hist : list act) (a : act) : list atype :=
  map fst (lastn tw (hist ++ [a])).

(* share of the type in the window reaches the ratio threshold: not (cnt / tw < r) *)
Definition share_reached (T : tables) tw hist a : Prop :=
  exists r, t_ratio T (fst a) = Some r /\
    (fst r * Z.of_nat tw <= Z.of_nat (count_type (fst a) (window tw hist a)) * Zpos (snd r))%Z.

Definition trigger (T : tables) tw hist a : Prop :=
  share_reached T tw hist a \/
  (exists c, t_consec T (fst a) = Some c /\ has_run (fst a) c (window tw hist a)) \/
  (t_consec T (fst a) = None /\ exists r, t_repeat T (fst a) = Some r /\ r <= count_act a (hist ++ [a])).

Definition draw_below (T : tables) (t : atype) (roll : rat) : Prop :=
  exists p, t_prob T t = Some p /\ (fst roll * Zpos (snd p) < fst p * Zpos (snd roll))%Z.

Lemma wf_tables_spec T t :
  wf_tables T = true -> monitored T t = true ->
  exists r p, t_ratio T t = Some r /\ t_prob T t = Some p.
Proof.
  unfold wf_tables, monitored. rewrite forallb_forall. intros H Hm.
  specialize (H t (all_atypes_complete t)).
  destruct (t_consec T t), (t_repeat T t), (t_ratio T t), (t_prob T t); try discriminate; eauto.
Qed.

Theorem decide_total T tw hist a roll :
  wf_tables T = true -> exists b, decide T tw hist a roll = Some b.
Proof.
  intros Hwf. unfold decide, stochastic.
  destruct (Nat.leb tw (length (hist ++ [a]))); [|eauto].
  destruct (t_consec T (fst a)) eqn:Hc.
  - destruct (wf_tables_spec T (fst a) Hwf) as (r & p & -> & ->).
    { unfold monitored. rewrite Hc. reflexivity. }
    destruct (_ && _); eauto.
  - destruct (t_repeat T (fst a)) eqn:Hr; [|eauto].
    destruct (wf_tables_spec T (fst a) Hwf) as (r & p & -> & ->).
    { unfold monitored. rewrite Hc, Hr. reflexivity. }
    destruct (_ && _); eauto.
Qed.

Theorem decide_iff T tw hist a roll :
  wf_tables T = true ->
  (decide T tw hist a roll = Some true <->
   tw <= length hist + 1 /\ monitored T (fst a) = true /\ trigger T tw hist a /\ draw_below T (fst a) roll).
Proof.
  intros Hwf. unfold decide, stochastic, trigger, share_reached, draw_below, monitored, frac_lt, rat_lt.
  fold (window tw hist a).
  rewrite app_length. simpl length.
  destruct (Nat.leb_spec tw (length hist + 1)) as [Hlen|Hlen].
  2:{ split; [discriminate | intros (H & _); lia]. }
  destruct (t_consec T (fst a)) as [c|] eqn:Hc.
  - destruct (wf_tables_spec T (fst a) Hwf) as (r & p & Hr & Hp).
    { unfold monitored. rewrite Hc. reflexivity. }
    rewrite Hr, Hp.
    destruct (Z.ltb_spec (Z.of_nat (count_type (fst a) (window tw hist a)) * Zpos (snd r)) (fst r * Z.of_nat tw)) as [Hs|Hs];
    destruct (Nat.ltb_spec (max_consecutive (fst a) (window tw hist a)) c) as [Hm|Hm]; cbn [andb].
    + split; [discriminate|].
      intros (_ & _ & Htr & _). exfalso.
      destruct Htr as [(r' & [= <-] & Hge) | [(c' & [= <-] & Hrun) | (Hn & _)]]; try discriminate.
      * lia.
      * apply max_consecutive_spec in Hrun. lia.
    + split.
      * intros [= Hlt]. apply Z.ltb_lt in Hlt.
        split; [exact Hlen|]. split; [reflexivity|]. split.
        -- right; left. exists c. split; [reflexivity|]. apply max_consecutive_spec. exact Hm.
        -- exists p. split; [reflexivity | exact Hlt].
      * intros (_ & _ & _ & (p' & [= <-] & Hlt)). f_equal. apply Z.ltb_lt. exact Hlt.
    + split.
      * intros [= Hlt]. apply Z.ltb_lt in Hlt.
        split; [exact Hlen|]. split; [reflexivity|]. split.
        -- left. exists r. split; [reflexivity | exact Hs].
        -- exists p. split; [reflexivity | exact Hlt].
      * intros (_ & _ & _ & (p' & [= <-] & Hlt)). f_equal. apply Z.ltb_lt. exact Hlt.
    + split.
      * intros [= Hlt]. apply Z.ltb_lt in Hlt.
        split; [exact Hlen|]. split; [reflexivity|]. split.
        -- left. exists r. split; [reflexivity | exact Hs].
        -- exists p. split; [reflexivity | exact Hlt].
      * intros (_ & _ & _ & (p' & [= <-] & Hlt)). f_equal. apply Z.ltb_lt. exact Hlt.
  - destruct (t_repeat T (fst a)) as [rt|] eqn:Hrt.
    2:{ split; [discriminate | intros (_ & H & _); discriminate]. }
    destruct (wf_tables_spec T (fst a) Hwf) as (r & p & Hr & Hp).
    { unfold monitored. rewrite Hc, Hrt. reflexivity. }
    rewrite Hr, Hp.
    destruct (Z.ltb_spec (Z.of_nat (count_type (fst a) (window tw hist a)) * Zpos (snd r)) (fst r * Z.of_nat tw)) as [Hs|Hs];
    destruct (Nat.ltb_spec (count_act a (hist ++ [a])) rt) as [Hm|Hm]; cbn [andb].
    + split; [discriminate|].
      intros (_ & _ & Htr & _). exfalso.
      destruct Htr as [(r' & [= <-] & Hge) | [(c' & Hc' & _) | (_ & rt' & Hrt' & Hge)]]; try discriminate.
      * lia.
      * injection Hrt' as <-. exact (Nat.lt_irrefl _ (Nat.le_lt_trans _ _ _ Hge Hm)).
    + split.
      * intros [= Hlt]. apply Z.ltb_lt in Hlt.
        split; [exact Hlen|]. split; [reflexivity|]. split.
        -- right; right. split; [reflexivity|]. exists rt. split; [reflexivity | exact Hm].
        -- exists p. split; [reflexivity | exact Hlt].
      * intros (_ & _ & _ & (p' & [= <-] & Hlt)). f_equal. apply Z.ltb_lt. exact Hlt.
    + split.
      * intros [= Hlt]. apply Z.ltb_lt in Hlt.
        split; [exact Hlen|]. split; [reflexivity|]. split.
        -- left. exists r. split; [reflexivity | exact Hs].
        -- exists p. split; [reflexivity | exact Hlt].
      * intros (_ & _ & _ & (p' & [= <-] & Hlt)). f_equal. apply Z.ltb_lt. exact Hlt.
    + split.
      * intros [= Hlt]. apply Z.ltb_lt in Hlt.
        split; [exact Hlen|]. split; [reflexivity|]. split.
        -- left. exists r. split; [reflexivity | exact Hs].
        -- exists p. split; [reflexivity | exact Hlt].
      * intros (_ & _ & _ & (p' & [= <-] & Hlt)). f_equal. apply Z.ltb_lt. exact Hlt.
Qed.

Theorem decide_draw T tw hist a roll p :
  wf_tables T = true -> tw <= length hist + 1 -> monitored T (fst a) = true -> trigger T tw hist a ->
  t_prob T (fst a) = Some p ->
  (decide T tw hist a roll = Some true <-> rat_lt roll p = true).
Proof.
  intros Hwf Hlen Hmon Htr Hp. rewrite (decide_iff T tw hist a roll Hwf).
  unfold draw_below, rat_lt. rewrite Hp. split.
  - intros (_ & _ & _ & (p' & [= <-] & Hlt)). apply Z.ltb_lt. exact Hlt.
  - intros Hlt. apply Z.ltb_lt in Hlt. repeat split; try assumption.
    exists p. split; [reflexivity | exact Hlt].
Qed.
