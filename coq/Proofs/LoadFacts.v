(* Facts about the scenario loader model: everything the scenario defines is in the tables
   (and nothing else), the loaded world is pristine. *)
From stdpp Require Import gmap.
From Coq Require Import ZArith NArith.
From NSG Require Import Model.World Model.Load Proofs.WorldStep Proofs.WorldInv.

Section Fold.
  Context {K A X : Type} `{Countable K} `{Countable A}.
  Variables (k : X -> K) (e : X -> A).
  Definition addall (l : list X) (m0 : gmap K (gset A)) : gmap K (gset A) :=
    fold_left (fun m x => add_to m (k x) {[e x]}) l m0.

  Lemma get_add_to_gen (m : gmap K (gset A)) k0 s x :
    get (add_to m k0 s) x = if bool_decide (x = k0) then get m k0 ∪ s else get m x.
  Proof.
    unfold add_to, get. case_bool_decide as E.
    - subst. rewrite lookup_insert. reflexivity.
    - rewrite lookup_insert_ne by congruence. reflexivity.
  Qed.

  Lemma addall_spec l m0 k0 a :
    a ∈ get (addall l m0) k0 <-> a ∈ get m0 k0 \/ exists x, x ∈ l /\ k x = k0 /\ e x = a.
  Proof.
    revert m0. induction l as [|y tl IH]; intros m0; simpl.
    - split; [auto|]. intros [?|(x & Hx & _)]; [assumption|]. inversion Hx.
    - rewrite IH, get_add_to_gen. split.
      + intros [Ha|(x & Hx & Hk & He)].
        * case_bool_decide as E.
          -- apply elem_of_union in Ha as [Ha|Ha]; [left; congruence|].
             apply elem_of_singleton in Ha. right. exists y. split; [left|]. auto.
          -- left. exact Ha.
        * right. exists x. split; [right; exact Hx | auto].
      + intros [Ha|(x & Hx & Hk & He)].
        * left. case_bool_decide as E; [subst; set_solver | exact Ha].
        * apply elem_of_cons in Hx as [->|Hx].
          -- left. rewrite bool_decide_eq_true_2 by congruence. set_solver.
          -- right. eauto.
  Qed.
End Fold.

Lemma get_empty {K A} `{Countable K} `{Countable A} (k : K) : get (∅ : gmap K (gset A)) k = ∅.
Proof. unfold get. rewrite lookup_empty. reflexivity. Qed.

(* ---- services and data: exactly what the scenario defines ---- *)
Theorem load_services_spec sc n s :
  s ∈ get (load_services sc) n <-> (n, s) ∈ all_services sc.
Proof.
  unfold load_services. pose proof (addall_spec fst snd (all_services sc) ∅ n s) as HH. unfold addall in HH.
  rewrite HH. clear HH. rewrite get_empty. split.
  - intros [Hs|([n' s'] & Hx & <- & <-)]; [set_solver | exact Hx].
  - intros Hx. right. exists (n, s). auto.
Qed.

Theorem load_data_spec sc n d :
  d ∈ get (load_data sc) n <-> (n, d) ∈ all_data sc.
Proof.
  unfold load_data. pose proof (addall_spec fst snd (all_data sc) ∅ n d) as HH. unfold addall in HH.
  rewrite HH. clear HH. rewrite get_empty. split.
  - intros [Hs|([n' d'] & Hx & <- & <-)]; [set_solver | exact Hx].
  - intros Hx. right. exists (n, d). auto.
Qed.

(* every datapoint of every (non-marker) service of every node is loaded: completeness against
   the scenario definition *)
Theorem load_data_complete sc nd s d :
  nd ∈ s_nodes sc -> s ∈ real_svcs nd -> d ∈ sv_data s ->
  (fst d, snd d, 0%Z, str_empty) ∈ get (w_data (load sc)) (nc_id nd) /\
  (fst d, snd d, 0%Z, str_empty) ∈ get (w_data0 (load sc)) (nc_id nd).
Proof.
  intros Hn Hs Hd. simpl.
  assert (H : (nc_id nd, (fst d, snd d, 0%Z, str_empty)) ∈ all_data sc).
  { unfold all_data. apply elem_of_list_In, in_flat_map. exists nd. split; [apply elem_of_list_In, Hn|].
    apply in_flat_map. exists s. split; [apply elem_of_list_In, Hs|].
    apply in_map_iff. exists d. split; [reflexivity | apply elem_of_list_In, Hd]. }
  split; apply load_data_spec, H.
Qed.

Theorem load_services_complete sc nd s :
  nd ∈ s_nodes sc -> s ∈ real_svcs nd ->
  (sv_name s, str_passive, sv_version s, sv_local s) ∈ get (w_services (load sc)) (nc_id nd).
Proof.
  intros Hn Hs. simpl. apply load_services_spec. unfold all_services.
  apply elem_of_list_In, in_flat_map. exists nd. split; [apply elem_of_list_In, Hn|].
  apply in_map_iff. exists s. split; [reflexivity | apply elem_of_list_In, Hs].
Qed.

(* ---- interfaces: every address is a host of the world and a member of its network ---- *)
Lemma fold_insert_is_Some (l : list (node * (ip * net))) (m0 : gmap ip node) i :
  (is_Some (m0 !! i) \/ exists x, x ∈ l /\ fst (snd x) = i) ->
  is_Some (fold_left (fun m x => <[fst (snd x) := fst x]> m) l m0 !! i).
Proof.
  revert m0. induction l as [|y tl IH]; intros m0; simpl.
  - intros [H|(x & Hx & _)]; [exact H | inversion Hx].
  - intros [H|(x & Hx & Hi)]; apply IH.
    + left. destruct (decide (fst (snd y) = i)) as [<-|Hne]; [rewrite lookup_insert; eauto | rewrite lookup_insert_ne by congruence; exact H].
    + apply elem_of_cons in Hx as [->|Hx]; [left; rewrite Hi, lookup_insert; eauto | right; eauto].
Qed.

Theorem load_ifaces_complete sc x :
  x ∈ all_ifaces sc ->
  is_Some (w_ip2host (load sc) !! fst (snd x)) /\ fst (snd x) ∈ get (w_nets (load sc)) (snd (snd x)).
Proof.
  intros Hx. simpl. split.
  - unfold load_ip2host. apply fold_insert_is_Some. right. eauto.
  - unfold load_nets.
    pose proof (addall_spec (fun x : node * (ip * net) => snd (snd x)) (fun x => fst (snd x)) (all_ifaces sc) ∅ (snd (snd x)) (fst (snd x))) as HH.
    unfold addall in HH. apply HH. right. eauto.
Qed.

Theorem load_nets_sound sc n i :
  i ∈ get (w_nets (load sc)) n -> exists x, x ∈ all_ifaces sc /\ snd (snd x) = n /\ fst (snd x) = i.
Proof.
  simpl. unfold load_nets.
  pose proof (addall_spec (fun x : node * (ip * net) => snd (snd x)) (fun x => fst (snd x)) (all_ifaces sc) ∅ n i) as HH.
  unfold addall in HH. rewrite HH. clear HH. rewrite get_empty.
  intros [H|H]; [set_solver | exact H].
Qed.

Theorem load_pristine sc : pristine (load sc).
Proof. repeat split. Qed.

(* ScanNetwork against the scenario definition: every interface address of every node and
   (non-internet) router that lies in the target network and that the source may connect to is
   discovered *)
Theorem scan_complete sc v src tn x :
  src ∈ v_ctrl v -> x ∈ all_ifaces sc -> in_net (fst (snd x)) tn = true ->
  fst (snd x) ∈ get (w_fw (load sc)) src ->
  fst (snd x) ∈ v_hosts (snd (step (load sc) v (AScan src tn))).
Proof.
  intros Hs Hx Hn Hf. destruct (scan_effect (load sc) v src tn Hs) as (v' & -> & _ & _ & _ & _ & _ & Hh).
  simpl. apply Hh. right. split; [|auto]. apply (load_ifaces_complete sc x Hx).
Qed.
