(* Facts about the action codec model (M1, actions). *)
From Coq Require Import String ZArith List Bool Permutation.
From NSG Require Import Base.Prelude Model.Json Model.Ipv4Text Model.Codec.
Import ListNotations.
Open Scope string_scope.

Lemma pkey_eqb_eq a b : pkey_eqb a b = true <-> a = b.
Proof. destruct a, b; simpl; split; congruence. Qed.
Lemma pkey_eqb_refl a : pkey_eqb a a = true.
Proof. destruct a; reflexivity. Qed.

Lemma pkey_eqb_sym a b : pkey_eqb a b = pkey_eqb b a.
Proof. destruct a, b; reflexivity. Qed.

Lemma pkey_of_name_name k : pkey_of_name (pkey_name k) = Some k.
Proof. destruct k; reflexivity. Qed.

Lemma pkey_of_name_inv s k : pkey_of_name s = Some k -> s = pkey_name k.
Proof.
  unfold pkey_of_name. intros H. apply find_some in H. destruct H as [_ H].
  apply String.eqb_eq in H. exact H.
Qed.

Lemma atype_of_string_str t : atype_of_string (atype_str t) = Some t.
Proof. destruct t; reflexivity. Qed.

Lemma atype_of_string_name t : atype_of_string (atype_name t) = Some t.
Proof. destruct t; reflexivity. Qed.

Lemma pval_eqb_eq a b : pval_eqb a b = true <-> a = b.
Proof.
  destruct a as [x|[x m]|[[[a1 a2] a3] a4]|[[[a1 a2] a3] a4]|[a1 a2]|x],
           b as [y|[y n]|[[[b1 b2] b3] b4]|[[[b1 b2] b3] b4]|[b1 b2]|y]; simpl;
    try (split; [discriminate | congruence]).
  - rewrite String.eqb_eq. split; congruence.
  - rewrite andb_true_iff, String.eqb_eq, Z.eqb_eq. split; [intros [-> ->]; reflexivity | intros [= -> ->]; auto].
  - rewrite !andb_true_iff, !String.eqb_eq, Bool.eqb_true_iff.
    split; [intros [[[-> ->] ->] ->]; reflexivity | intros [= -> -> -> ->]; auto].
  - rewrite !andb_true_iff, !String.eqb_eq, Z.eqb_eq.
    split; [intros [[[-> ->] ->] ->]; reflexivity | intros [= -> -> -> ->]; auto].
  - rewrite andb_true_iff, !String.eqb_eq. split; [intros [-> ->]; reflexivity | intros [= -> ->]; auto].
  - rewrite Bool.eqb_true_iff. split; congruence.
Qed.

Lemma opt_pval_eqb_eq a b : opt_pval_eqb a b = true <-> a = b.
Proof.
  destruct a, b; simpl; try (split; [discriminate|congruence]); [|tauto].
  rewrite pval_eqb_eq. split; congruence.
Qed.

(* ---- round trip of one parameter value -------------------------------------------------- *)
Lemma dec_enc_pval k v : well_typed k v = true -> dec_pval k (enc_pval v) = Some v.
Proof.
  destruct k, v as [i|[s m]|[[[n t] ve] l]|[[[o i] sz] t]|[n r]|b]; simpl; try discriminate; intros H;
    try reflexivity.
  all: try (rewrite H; reflexivity).
  destruct b; reflexivity.
Qed.

Lemma dec_enc_params p :
  forallb (fun kv => well_typed (fst kv) (snd kv)) p = true ->
  mapM dec_param (map (fun kv => (pkey_name (fst kv), enc_pval (snd kv))) p) = Some p.
Proof.
  induction p as [|[k v] tl IH]; simpl; [reflexivity|].
  rewrite andb_true_iff. intros [Hv Htl].
  unfold dec_param at 1. simpl. rewrite pkey_of_name_name, (dec_enc_pval k v Hv), (IH Htl). reflexivity.
Qed.

Theorem dec_enc_action a : valid_action a = true -> dec_action (enc_action a) = Some a.
Proof.
  destruct a as [t p]. unfold valid_action. simpl. rewrite andb_true_iff. intros [_ Hp].
  rewrite atype_of_string_str, (dec_enc_params p Hp). reflexivity.
Qed.

(* the same through the text level: json.dumps / json.loads are library code, assumed to be
   inverse on the JSON value domain (exercised for real by the correspondence check) *)
Section Text.
  Variable text : Type.
  Variable dumps : json -> text.
  Variable loads : text -> option json.
  Hypothesis loads_dumps : forall j, loads (dumps j) = Some j.
  Definition to_json (a : action) : text := dumps (enc_action a).
  Definition from_json (s : text) : option action :=
    match loads s with Some j => dec_action j | None => None end.
  Theorem from_json_to_json a : valid_action a = true -> from_json (to_json a) = Some a.
  Proof. intros H. unfold from_json, to_json. rewrite loads_dumps. apply dec_enc_action, H. Qed.
End Text.

(* ---- equality is dict equality --------------------------------------------------------- *)
Lemma params_eqb_spec p q :
  params_eqb p q = true <-> forall k, plookup k p = plookup k q.
Proof.
  unfold params_eqb. rewrite forallb_forall. split.
  - intros H k. apply opt_pval_eqb_eq, H. destruct k; simpl; tauto.
  - intros H k _. apply opt_pval_eqb_eq, H.
Qed.

Theorem action_eqb_spec a b :
  action_eqb a b = true <-> fst a = fst b /\ forall k, plookup k (snd a) = plookup k (snd b).
Proof. unfold action_eqb. rewrite andb_true_iff, atype_eqb_eq, params_eqb_spec. tauto. Qed.

Lemma action_eqb_refl a : action_eqb a a = true.
Proof. apply action_eqb_spec. split; reflexivity. Qed.

Lemma existsb_key_false k (p : params) :
  existsb (fun kv => pkey_eqb k (fst kv)) p = false -> plookup k p = None.
Proof.
  induction p as [|[k' v] tl IH]; simpl; [reflexivity|].
  rewrite orb_false_iff. intros [H1 H2]. rewrite H1. apply IH, H2.
Qed.

Lemma plookup_perm p q : Permutation p q -> nodup_keys p = true -> forall k, plookup k p = plookup k q.
Proof.
  induction 1 as [| [k0 v0] l l' Hp IH | [k1 v1] [k2 v2] l | l l' l'' H1 IH1 H2 IH2]; intros Hnd k.
  - reflexivity.
  - simpl in *. apply andb_true_iff in Hnd. destruct Hnd as [_ Hnd].
    destruct (pkey_eqb k k0); [reflexivity | apply IH, Hnd].
  - simpl in *. rewrite !andb_true_iff, negb_true_iff, orb_false_iff in Hnd.
    destruct Hnd as [[Hne _] _].
    destruct (pkey_eqb k k1) eqn:E1, (pkey_eqb k k2) eqn:E2; try reflexivity.
    apply pkey_eqb_eq in E1, E2. subst. rewrite pkey_eqb_refl in Hne. discriminate.
  - rewrite IH1 by exact Hnd. apply IH2.
    (* nodup_keys is preserved by permutation *)
    clear IH1 IH2 H2 k l''. revert Hnd. induction H1 as [| [k0 v0] l l' Hp IH | [k1 v1] [k2 v2] l | l l' l'' H1 IH1 H2 IH2]; intros Hnd.
    + reflexivity.
    + simpl in *. rewrite andb_true_iff, negb_true_iff in *. destruct Hnd as [Hk Hnd]. split; [|apply IH, Hnd].
      rewrite <- Hk. clear - Hp. induction Hp as [| x l l' Hp IH | x y l | l l' l'' H1 IH1 H2 IH2]; simpl.
      * reflexivity.
      * rewrite IH. reflexivity.
      * destruct (pkey_eqb k0 (fst x)), (pkey_eqb k0 (fst y)); reflexivity.
      * congruence.
    + simpl in *. rewrite !andb_true_iff, !negb_true_iff, !orb_false_iff in *.
      destruct Hnd as [[Hne Hk2] [Hk1 Hnd]]. rewrite (pkey_eqb_sym k1 k2). repeat split; assumption.
    + auto.
Qed.

Theorem action_eqb_perm t p q : Permutation p q -> nodup_keys p = true -> action_eqb (t, p) (t, q) = true.
Proof.
  intros Hp Hnd. apply action_eqb_spec. split; [reflexivity|]. simpl. apply plookup_perm; assumption.
Qed.

Theorem action_hash_eq (H : Type) (hv : pval -> H) (htop : atype -> list (pkey * H) -> H) a b :
  action_eqb a b = true -> action_hash H hv htop a = action_hash H hv htop b.
Proof.
  rewrite action_eqb_spec. intros [Ht Hk]. unfold action_hash, canon. rewrite Ht. f_equal. f_equal.
  induction all_pkeys as [|k tl IH]; simpl; [reflexivity|]. rewrite (Hk k), IH. reflexivity.
Qed.

Theorem action_neq_type a b : fst a <> fst b -> action_eqb a b = false.
Proof.
  intros H. destruct (action_eqb a b) eqn:E; [|reflexivity]. apply action_eqb_spec in E. tauto.
Qed.

Theorem action_neq_param a b k : plookup k (snd a) <> plookup k (snd b) -> action_eqb a b = false.
Proof.
  intros H. destruct (action_eqb a b) eqn:E; [|reflexivity]. apply action_eqb_spec in E.
  destruct E as [_ E]. exfalso. apply H, E.
Qed.

(* ---- the decoder only produces supported actions, and refuses the rest ------------------ *)
Lemma dec_pval_well_typed k j v : dec_pval k j = Some v -> well_typed k v = true.
Proof.
  destruct k; simpl; unfold option_map.
  all: try (destruct (dec_agent j); intros [= <-]; reflexivity).
  all: try (destruct (dec_data j); intros [= <-]; reflexivity).
  all: try (destruct (dec_flag j); intros [= <-]; reflexivity).
  all: try (destruct (dec_net j); intros [= <-]; reflexivity).
  all: try (destruct (dec_svc j); intros [= <-]; reflexivity).
  all: destruct (dec_ip j) as [i|] eqn:E; intros [= <-]; simpl;
    unfold dec_ip in E; destruct j; try discriminate;
    destruct (keys_within l ["ip"]); try discriminate;
    destruct (jstr (jget "ip" l)); try discriminate;
    destruct (ipv4_ok s) eqn:Ev; [injection E as <-; exact Ev | discriminate].
Qed.

Lemma mapM_dec_param_typed ps p :
  mapM dec_param ps = Some p -> forallb (fun kv => well_typed (fst kv) (snd kv)) p = true.
Proof.
  revert p. induction ps as [|[s j] tl IH]; simpl; intros p.
  - intros [= <-]. reflexivity.
  - unfold dec_param at 1. simpl. destruct (pkey_of_name s) as [k|]; [|discriminate].
    destruct (dec_pval k j) as [v|] eqn:Ev; [|discriminate].
    destruct (mapM dec_param tl) as [p'|]; [|discriminate]. intros [= <-].
    simpl. rewrite (dec_pval_well_typed k j v Ev), (IH p' eq_refl). reflexivity.
Qed.

Theorem dec_action_typed j a :
  dec_action j = Some a -> forallb (fun kv => well_typed (fst kv) (snd kv)) (snd a) = true.
Proof.
  unfold dec_action. destruct j; try discriminate.
  destruct (jstr (jget "action_type" l)); try discriminate.
  destruct (jget "parameters" l) as [[]|]; try discriminate.
  destruct (atype_of_string s); try discriminate.
  destruct (mapM dec_param l0) as [p|] eqn:E; try discriminate.
  intros [= <-]. simpl. apply (mapM_dec_param_typed l0 p E).
Qed.

(* what the decoder accepts, exactly: an object with a known action type and a `parameters`
   object all of whose entries are a supported key with a value of that key's shape *)
Definition describes (j : json) : Prop :=
  exists o ts t ps, j = JObj o /\ jget "action_type" o = Some (JStr ts) /\ atype_of_string ts = Some t /\
    jget "parameters" o = Some (JObj ps) /\
    Forall (fun kv => exists k, pkey_of_name (fst kv) = Some k /\ dec_pval k (snd kv) <> None) ps.

Lemma mapM_some_iff {A B} (f : A -> option B) l : (exists r, mapM f l = Some r) <-> Forall (fun x => f x <> None) l.
Proof.
  induction l as [|x tl IH]; simpl.
  - split; [constructor | eauto].
  - split.
    + intros [r H]. destruct (f x) eqn:E; [|discriminate]. destruct (mapM f tl) eqn:E2; [|discriminate].
      constructor; [congruence | apply IH; eauto].
    + intros H. inversion H as [|? ? Hx Htl]; subst. apply IH in Htl. destruct Htl as [r ->].
      destruct (f x); [eauto | congruence].
Qed.

Theorem dec_action_iff j : (exists a, dec_action j = Some a) <-> describes j.
Proof.
  unfold describes, dec_action. split.
  - intros [a H]. destruct j; try discriminate. exists l.
    destruct (jget "action_type" l) as [[]|] eqn:E1; simpl in H; try discriminate.
    destruct (jget "parameters" l) as [[]|] eqn:E2; try discriminate.
    destruct (atype_of_string s) eqn:E3; try discriminate.
    destruct (mapM dec_param l0) eqn:E4; try discriminate.
    exists s, a0, l0. repeat split; try reflexivity; try assumption.
    assert (Hx : exists r, mapM dec_param l0 = Some r) by eauto.
    apply mapM_some_iff in Hx. eapply Forall_impl; [|exact Hx].
    intros [k v] Hkv. unfold dec_param in Hkv. simpl in *.
    destruct (pkey_of_name k) as [pk|]; [|congruence]. exists pk. split; [reflexivity|].
    destruct (dec_pval pk v); congruence.
  - intros (o & ts & t & ps & -> & H1 & H2 & H3 & H4). rewrite H1, H3. simpl. rewrite H2.
    assert (Hx : exists r, mapM dec_param ps = Some r).
    { apply mapM_some_iff. eapply Forall_impl; [|exact H4]. intros [k v] (pk & Hk & Hv). simpl in *.
      unfold dec_param. simpl. rewrite Hk. destruct (dec_pval pk v); congruence. }
    destruct Hx as [r ->]. eauto.
Qed.

Theorem refuse_unknown_type o ts : jget "action_type" o = Some (JStr ts) -> atype_of_string ts = None ->
  dec_action (JObj o) = None.
Proof. intros H1 H2. unfold dec_action. rewrite H1. simpl. destruct (jget "parameters" o) as [[]|]; try reflexivity. rewrite H2. reflexivity. Qed.

Theorem refuse_unknown_key s j : pkey_of_name s = None -> dec_param (s, j) = None.
Proof. intros H. unfold dec_param. simpl. rewrite H. reflexivity. Qed.

Theorem refuse_bad_ip s : ipv4_ok s = false -> dec_ip (enc_ip s) = None.
Proof. intros H. simpl. rewrite H. reflexivity. Qed.

Theorem refuse_bad_param ps k v rest :
  pkey_of_name k = None -> mapM dec_param (ps ++ (k, v) :: rest) = None.
Proof.
  intros H. induction ps as [|x tl IH]; simpl.
  - rewrite (refuse_unknown_key k v H). reflexivity.
  - destruct (dec_param x); [|reflexivity]. rewrite IH. reflexivity.
Qed.
