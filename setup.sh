#!/bin/bash
# Build the framework from files on disk only (offline): regenerate coq/Gen from /repo and build
# the whole Coq development (full .vo build).
here="$(cd "$(dirname "$0")" && pwd)"
cd "$here"
export PYTHONPATH=$here/harness/pyshim:${VERIF_REPO:-/repo}:$here/harness:$here/harness/translate
mkdir -p _build evidence replays
/venv/bin/python - <<'PY'
import os, sys
here = os.getcwd()
sys.path[:0] = [os.path.join(here, "harness"), os.path.join(here, "harness", "translate")]
import check
class C:  # minimal ctx
    stage_errors = []
check.regen(C, check.TRANSLATORS_AVAILABLE())
for e in C.stage_errors: print("translator problem:", e)
rc, out = check.coq_build(timeout=3000)
print(out[-3000:])
sys.exit(0)
PY
