"""C08: a reset restores the world."""
import check as CK
from props import worldcommon as WC
from props.c02 import ASSUME
from props.c02 import replay as _walk_replay

TRANSLATORS = ["enums", "defender", "dispatch"]
COQ_FILES = ["Props/C08.v"]


def replay(ctx, payload):
    if payload.get("kind") in ("coordinator_session", "coordinator_session_reuse_twin"):
        from props import coordcommon as CC
        return CC.replay_session(ctx, "C08", payload)
    if payload.get("kind") == "episode_replay_probe":
        c2 = CK.Ctx("C08", "quick", 1)
        episode_replay_probe(c2)
        for v in c2.violations:
            print(v["what"])
        if c2.violations:
            print("VIOLATION property=C08 replay=(this file)")
        return 1 if c2.violations else 0
    return _walk_replay(ctx, payload)


def episode_replay_probe(ctx):
    """One rich script - scans, service discovery, two exploits, data discovery, an exfiltration between two hosts that BOTH hold
    data of their own, an exfiltration to the outside host, a block - is played in four consecutive episodes on the real world:
    every episode must give the observations of the first one, and after every reset the live tables AND the pristine copies
    must be what they were at the start (an exfiltration that reaches into the pristine copy shows two resets later)."""
    import copy as _copy
    nsgenv, WL, WR = WC._imports()
    from AIDojoCoordinator.game_components import Action, ActionType, IP, Network
    stats = {"episodes": 0, "observations_compared": 0}
    for use_fw in (True, False):
        cfg = nsgenv.base_config("scenario1_small", use_firewall=use_fw)
        try:
            drv = WR.start_world(cfg)
        except Exception as e:
            ctx.stage_errors.append(("episode replay probe", f"{type(e).__name__}: {e}"))
            continue
        g = drv.g
        replay = {"kind": "episode_replay_probe", "use_firewall": use_fw}
        try:
            T0 = WL.impl_tables(g)
            addr = ("10.1.8.1", 1)
            sp = {"known_networks": set(), "known_hosts": set(), "known_data": {}, "known_services": {},
                  "controlled_hosts": [IP("213.47.23.195"), IP("192.168.2.2")]}
            first = None
            for episode in range(4):
                gs = WL.run_coro(g.register_agent(addr, "Attacker", sp) if episode == 0 else g.reset_agent(addr, "Attacker", sp))
                seq = [WL.impl_view(gs)]

                def play(act):
                    nonlocal gs
                    gs = WL.run_coro(g.step(addr, gs, act))
                    seq.append(WL.impl_view(gs))
                me, smb, db, out = IP("192.168.2.2"), IP("192.168.1.2"), IP("192.168.1.3"), IP("213.47.23.195")
                play(Action(ActionType.ScanNetwork, {"source_host": me, "target_network": Network("192.168.1.0", 24)}))
                for h in (smb, db):
                    play(Action(ActionType.FindServices, {"source_host": me, "target_host": h}))
                for h in (smb, db):
                    for sv in sorted(gs.known_services.get(h, []), key=lambda x: x.name):
                        if h not in gs.controlled_hosts:
                            play(Action(ActionType.ExploitService, {"source_host": me, "target_host": h, "target_service": sv}))
                for h in (smb, db):
                    play(Action(ActionType.FindData, {"source_host": h, "target_host": h}))
                for d in sorted(gs.known_data.get(smb, []), key=lambda x: x.id)[:2]:
                    play(Action(ActionType.ExfiltrateData, {"source_host": smb, "target_host": db, "data": d}))      # onto a host with data of its own
                for d in sorted(gs.known_data.get(db, []), key=lambda x: x.id)[:1]:
                    play(Action(ActionType.ExfiltrateData, {"source_host": db, "target_host": out, "data": d}))
                play(Action(ActionType.BlockIP, {"source_host": smb, "target_host": smb, "blocked_host": me}))
                play(Action(ActionType.FindData, {"source_host": db, "target_host": db}))
                play(Action(ActionType.ScanNetwork, {"source_host": me, "target_network": Network("192.168.1.0", 24)}))
                stats["episodes"] += 1
                stats["observations_compared"] += len(seq)
                if first is None:
                    first = seq
                    if WL.impl_tables(g)["data"] == T0["data"]:
                        ctx.stage_errors.append(("episode replay probe", "the script no longer changes the world (no exfiltration happened)"))
                elif seq != first:
                    k = next((i for i, (x, y) in enumerate(zip(first, seq)) if x != y), min(len(first), len(seq)))
                    ctx.violations.append({"key": f"episode {episode + 1} differs from episode 1 (use_firewall={use_fw})",
                                           "what": f"the same script gives a different observation at step {k} of episode {episode + 1} than in episode 1: {WR.canon(seq[k]) if k < len(seq) else None} instead of {WR.canon(first[k]) if k < len(first) else None}",
                                           "replay": replay})
                    break
                WL.run_coro(g.reset())
                T = WL.impl_tables(g)
                if not WR.same_world(T, T0):
                    diff = [k for k in WR.WORLD_KEYS if WR.canon(T[k]) != WR.canon(T0[k])]
                    ctx.violations.append({"key": f"reset leaves {diff} (episode replay, use_firewall={use_fw})",
                                           "what": f"after the reset that follows episode {episode + 1} the world tables {diff} (live tables and pristine copies) differ from their initial condition",
                                           "replay": replay})
                    break
        except Exception as e:
            import traceback
            ctx.stage_errors.append(("episode replay probe", f"{type(e).__name__}: {e}\n{traceback.format_exc()[-500:]}"))
        finally:
            drv.close()
    ctx.coverage["episode_replay_probe"] = stats


def correspondence(ctx):
    th = ctx.tier == "thorough"
    # the reset as the GAME performs it (coordinator reset task, after any interleaving of actions, departures and joins):
    # multi-agent sessions on the real coordinator; a monitor compares the world tables with the pristine ones whenever the
    # reset task has reset the game (tagged C08 in coordcommon); the sessions are also followed by the coordinator model
    from props import coordcommon as CC
    CC.run_sessions(ctx, "C08", 86 if th else 54,
                    lambda r: dict(n_events=r.choice([50, 80]), burst=0.15, fault=0.06, bad=0.02, resets=0.3),
                    lambda r: dict(required=r.choice([1, 2, 2, 3]), max_steps=r.choice([2, 3, 6])))
    sess_cov = {k: ctx.coverage.get(k) for k in ("sessions", "labels_followed", "response_and_barrier_statistics")}
    ctx.coverage = {"coordinator_sessions": sess_cov}
    WC.world_suite(ctx, "C08", tags={"reset", "init", "load"}, walks_per_spec=4 if th else 1, n_generated=24 if th else 6,
                   n_steps=160 if th else 80, perturb=0.0, resets=20)
    episode_replay_probe(ctx)
    ctx.assumptions += ASSUME + ["static addresses (dynamic re-labelling is C13)"]
