(* Facts about the goal check (Model/Goal.v), for every goal and every view. *)
From stdpp Require Import gmap.
From Coq Require Import ZArith NArith.
From NSG Require Import Model.World Model.Goal Proofs.WorldStep Proofs.WorldInv.

Section Dict.
  Context {A : Type} `{Countable A}.

  Lemma dict_ok_spec (g known : gmap ip (gset A)) :
    dict_ok g known = true <-> forall h S, g !! h = Some S -> exists S', known !! h = Some S' /\ S ⊆ S'.
  Proof.
    unfold dict_ok. rewrite bool_decide_eq_true. unfold map_Forall, entry_ok. split.
    - intros Hf h S Hg. specialize (Hf h S Hg). destruct (known !! h) as [S'|]; [eauto | contradiction].
    - intros Hf h S Hg. destruct (Hf h S Hg) as (S' & -> & Hs). exact Hs.
  Qed.

  (* the view's dictionary grows: keys stay, item sets grow *)
  Definition dict_le (k k' : gmap ip (gset A)) : Prop := dom k ⊆ dom k' /\ forall h, get k h ⊆ get k' h.

  Lemma dict_ok_mono (g k k' : gmap ip (gset A)) : dict_le k k' -> dict_ok g k = true -> dict_ok g k' = true.
  Proof.
    intros [Hd Hg]. rewrite !dict_ok_spec. intros Hf h S Hs. destruct (Hf h S Hs) as (S' & Hk & Hsub).
    assert (Hin : h ∈ dom k') by (apply Hd, elem_of_dom; eauto).
    apply elem_of_dom in Hin as [S'' Hk']. exists S''. split; [exact Hk'|].
    specialize (Hg h). unfold get in Hg. rewrite Hk, Hk' in Hg. simpl in Hg. set_solver.
  Qed.

  Lemma dict_ok_empty (k : gmap ip (gset A)) : dict_ok ∅ k = true.
  Proof. apply dict_ok_spec. intros h S Hs. rewrite lookup_empty in Hs. discriminate. Qed.

  Lemma dict_le_refl (k : gmap ip (gset A)) : dict_le k k.
  Proof. split; [reflexivity | intros h; reflexivity]. Qed.

  Lemma dict_le_add_to (k : gmap ip (gset A)) h s : dict_le k (add_to k h s).
  Proof.
    split.
    - rewrite dom_add_to. set_solver.
    - intros x. apply get_add_to_sub.
  Qed.

  Lemma dict_le_trans (a b c : gmap ip (gset A)) : dict_le a b -> dict_le b c -> dict_le a c.
  Proof. intros [A1 A2] [B1 B2]. split; [etrans; eauto | intros h; etrans; eauto]. Qed.
End Dict.

(* ---- the goal check says: everything the goal lists is in the view ---- *)
Theorem goal_ok_spec g v :
  goal_ok g v = true <->
  g_nets g ⊆ v_nets v /\ g_hosts g ⊆ v_hosts v /\ g_ctrl g ⊆ v_ctrl v /\
  (forall h S, g_svcs g !! h = Some S -> exists S', v_svcs v !! h = Some S' /\ S ⊆ S') /\
  (forall h S, g_data g !! h = Some S -> exists S', v_data v !! h = Some S' /\ S ⊆ S') /\
  (forall h S, g_blocks g !! h = Some S -> exists S', v_blocks v !! h = Some S' /\ S ⊆ S').
Proof.
  unfold goal_ok. rewrite !andb_true_iff, !bool_decide_eq_true, !dict_ok_spec. tauto.
Qed.

(* an empty goal (a role configured without any goal item) is reached in every view - at the agent's first action *)
Theorem goal_ok_empty v : goal_ok empty_goal v = true.
Proof. apply goal_ok_spec. simpl. repeat split; try set_solver; intros h S Hs; rewrite lookup_empty in Hs; discriminate. Qed.

(* what the agent knows grows: a goal that is reached stays reached *)
Definition view_incl (v v' : view) : Prop :=
  v_nets v ⊆ v_nets v' /\ v_hosts v ⊆ v_hosts v' /\ v_ctrl v ⊆ v_ctrl v' /\
  dict_le (v_svcs v) (v_svcs v') /\ dict_le (v_data v) (v_data v') /\ dict_le (v_blocks v) (v_blocks v').

Theorem goal_ok_mono g v v' : view_incl v v' -> goal_ok g v = true -> goal_ok g v' = true.
Proof.
  intros (H1 & H2 & H3 & H4 & H5 & H6). unfold goal_ok. rewrite !andb_true_iff, !bool_decide_eq_true.
  intros (((((G1 & G2) & G3) & G4) & G5) & G6). repeat split; try (etrans; eauto); eapply dict_ok_mono; eauto.
Qed.

(* every action except FindServices only adds to the view (FindServices REPLACES what is known about the target's services:
   a configured start position may list services the host does not run) *)
Lemma step_svcs_same w v a : (forall src tgt, a <> AFindServices src tgt) -> v_svcs (snd (step w v a)) = v_svcs v.
Proof.
  intros Hn. destruct a as [src tn|src tgt|src tgt|src tgt s|src tgt d|src tgt b]; cbn [step snd].
  - unfold step_scan. case_bool_decide; reflexivity.
  - exfalso. eapply Hn. reflexivity.
  - unfold step_find_data. destruct (_ && _); reflexivity.
  - unfold step_exploit. destruct (exploit_pre _ _ _ _ _); reflexivity.
  - unfold step_exfil. destruct (exfil_pre _ _ _ _ _); [|reflexivity]. destruct (w_ip2host w !! tgt); reflexivity.
  - unfold step_block. destruct (block_pre _ _ _ _ _); reflexivity.
Qed.

Lemma step_data_le w v a : dict_le (v_data v) (v_data (snd (step w v a))).
Proof.
  destruct a as [src tn|src tgt|src tgt|src tgt s|src tgt d|src tgt b]; cbn [step snd].
  - unfold step_scan. case_bool_decide; apply dict_le_refl.
  - unfold step_find_services. destruct (_ && _); [|apply dict_le_refl]. case_bool_decide; apply dict_le_refl.
  - unfold step_find_data. destruct (_ && _); [|apply dict_le_refl]. simpl. case_bool_decide; [apply dict_le_refl | apply dict_le_add_to].
  - unfold step_exploit. destruct (exploit_pre _ _ _ _ _); apply dict_le_refl.
  - unfold step_exfil. destruct (exfil_pre _ _ _ _ _); [|apply dict_le_refl]. destruct (w_ip2host w !! tgt); [|apply dict_le_refl].
    simpl. apply dict_le_add_to.
  - unfold step_block. destruct (block_pre _ _ _ _ _); apply dict_le_refl.
Qed.

Lemma step_blocks_le w v a : dict_le (v_blocks v) (v_blocks (snd (step w v a))).
Proof.
  destruct a as [src tn|src tgt|src tgt|src tgt s|src tgt d|src tgt b]; cbn [step snd].
  - unfold step_scan. case_bool_decide; apply dict_le_refl.
  - unfold step_find_services. destruct (_ && _); [|apply dict_le_refl]. case_bool_decide; apply dict_le_refl.
  - unfold step_find_data. destruct (_ && _); [|apply dict_le_refl]. simpl. case_bool_decide; [apply dict_le_refl | apply dict_le_add_to].
  - unfold step_exploit. destruct (exploit_pre _ _ _ _ _); apply dict_le_refl.
  - unfold step_exfil. destruct (exfil_pre _ _ _ _ _); [|apply dict_le_refl]. destruct (w_ip2host w !! tgt); apply dict_le_refl.
  - unfold step_block. destruct (block_pre _ _ _ _ _); [|apply dict_le_refl]. simpl.
    eapply dict_le_trans; apply dict_le_add_to.
Qed.

Theorem step_incl w v a : (forall src tgt, a <> AFindServices src tgt) -> view_incl v (snd (step w v a)).
Proof.
  intros Hn. destruct (step_mono w v a) as (M1 & M2 & M3 & _).
  split; [exact M1|]. split; [exact M2|]. split; [exact M3|].
  split; [rewrite (step_svcs_same w v a Hn); apply dict_le_refl|].
  split; [apply step_data_le | apply step_blocks_le].
Qed.

(* FindServices keeps every part but the services, and the services of every OTHER host *)
Theorem find_services_frame w v src tgt :
  let v' := step_find_services w v src tgt in
  v_nets v ⊆ v_nets v' /\ v_hosts v ⊆ v_hosts v' /\ v_ctrl v' = v_ctrl v /\ v_data v' = v_data v /\ v_blocks v' = v_blocks v /\
  dom (v_svcs v) ⊆ dom (v_svcs v') /\ forall h, h <> tgt -> v_svcs v' !! h = v_svcs v !! h.
Proof.
  unfold step_find_services. destruct (_ && _); [|repeat split; reflexivity].
  case_bool_decide; [repeat split; reflexivity|]. simpl.
  repeat split; try reflexivity; try (case_bool_decide; set_solver).
  - rewrite dom_insert. set_solver.
  - intros h Hh. rewrite lookup_insert_ne by congruence. reflexivity.
Qed.

(* consequence: a goal that lists no services, once reached, stays reached whatever the agent does next *)
Theorem goal_stable_step g w v a :
  g_svcs g = ∅ -> goal_ok g v = true -> goal_ok g (snd (step w v a)) = true.
Proof.
  intros Hs Hg. destruct a as [src tn|src tgt|src tgt|src tgt s|src tgt d|src tgt b];
    try (eapply goal_ok_mono; [apply step_incl; intros ? ?; discriminate | exact Hg]).
  cbn [step snd]. destruct (find_services_frame w v src tgt) as (F1 & F2 & F3 & F4 & F5 & _).
  apply goal_ok_spec in Hg as (G1 & G2 & G3 & G4 & G5 & G6). apply goal_ok_spec.
  rewrite F3, F4, F5. repeat split; try (etrans; eauto); try assumption.
  intros h S Hh. rewrite Hs, lookup_empty in Hh. discriminate.
Qed.
