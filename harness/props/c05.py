"""C05: rewards (coordinator model Model/Coord.v, trace-following correspondence, direct monitor)."""
import json
import check as CK
from props import coordcommon as CC

TRANSLATORS = ["enums", "defender", "dispatch"]
COQ_FILES = ["Props/C05.v", "Props/C05_scale.v", "Obl/DispatchOk.v", "Obl/EnumsOk.v"]


def correspondence(ctx):
    n = 400 if ctx.tier == "thorough" else 52
    CC.run_sessions(ctx, "C05", n, lambda rng: dict(n_events=rng.choice([40,70]), burst=0.3, fault=0.12, bad=0.05, resets=0.1), lambda rng: dict(max_steps=rng.choice([1,2,3,4])), scale=True)


def replay(ctx, payload):
    return CC.replay_session(ctx, "C05", payload)
