(* M3: the global defender (AIDojoCoordinator/global_defender.py), as a pure function of
   (tables, window size, episode history, action, draw).  No proofs in this file. *)
From NSG Require Import Base.Prelude.

(* a parametrised action as the defender sees it: its type and an identifier of the whole
   as_dict value (equal identifiers <-> equal dictionaries) *)
Definition act := (atype * N)%type.
Definition act_eqb (a b : act) : bool := atype_eqb (fst a) (fst b) && N.eqb (snd a) (snd b).

(* exact rationals as (numerator, positive denominator) *)
Definition rat := (Z * positive)%type.
Definition rat_lt (a b : rat) : bool := (fst a * Zpos (snd b) <? fst b * Zpos (snd a))%Z.
(* c / t < r, for natural c and t > 0 *)
Definition frac_lt (c t : nat) (r : rat) : bool :=
  (Z.of_nat c * Zpos (snd r) <? fst r * Z.of_nat t)%Z.

Record tables := {
  t_prob   : atype -> option rat;   (* _DEFAULT_DETECTION_PROBS *)
  t_ratio  : atype -> option rat;   (* _TW_TYPE_RATIOS_THRESHOLD *)
  t_consec : atype -> option nat;   (* _TW_CONSECUTIVE_TYPE_THRESHOLD *)
  t_repeat : atype -> option nat;   (* _EPISODE_REPEATED_ACTION_THRESHOLD *)
}.

(* temp_episode_actions[-tw:] for len >= tw >= 1 *)
Definition lastn {A} (n : nat) (l : list A) : list A := skipn (length l - n) l.

Definition count_type (t : atype) (l : list atype) : nat :=
  length (filter (atype_eqb t) l).
Definition count_act (a : act) (l : list act) : nat :=
  length (filter (act_eqb a) l).

(* itertools.groupby: maximal runs of equal consecutive elements *)
Fixpoint groupby (l : list atype) : list (list atype) :=
  match l with
  | [] => []
  | x :: tl =>
      match groupby tl with
      | (y :: g) :: gs => if atype_eqb x y then (x :: y :: g) :: gs else [x] :: (y :: g) :: gs
      | gs => [x] :: gs
      end
  end.

(* max(sum(1 for item in grouped if item == t) for _, grouped in groupby(l)) *)
Definition max_consecutive (t : atype) (l : list atype) : nat :=
  fold_right Nat.max 0 (map (count_type t) (groupby l)).

(* GlobalDefender.stochastic: roll < prob *)
Definition stochastic (T : tables) (t : atype) (roll : rat) : option bool :=
  match t_prob T t with
  | Some p => Some (rat_lt roll p)
  | None => None       (* KeyError in the code *)
  end.

(* GlobalDefender.stochastic_with_threshold.  None = the code raises (KeyError on a table
   that lacks the type); excluded by wf_tables. *)
Definition decide (T : tables) (tw : nat) (hist : list act) (a : act) (roll : rat) : option bool :=
  let temp := hist ++ [a] in
  if Nat.leb tw (length temp) then
    let lastn_types := map fst (lastn tw temp) in
    let cnt := count_type (fst a) lastn_types in
    let repeats := count_act a temp in
    let maxc := max_consecutive (fst a) lastn_types in
    match t_consec T (fst a) with
    | Some cthr =>
        match t_ratio T (fst a) with
        | None => None
        | Some r =>
            if frac_lt cnt tw r && Nat.ltb maxc cthr then Some false
            else stochastic T (fst a) roll
        end
    | None =>
        match t_repeat T (fst a) with
        | Some rthr =>
            match t_ratio T (fst a) with
            | None => None
            | Some r =>
                if frac_lt cnt tw r && Nat.ltb repeats rthr then Some false
                else stochastic T (fst a) roll
            end
        | None => Some false
        end
    end
  else Some false.

(* every type with a consecutive or repeat threshold has a ratio threshold and a probability *)
Definition wf_tables (T : tables) : bool :=
  forallb (fun t =>
    match t_consec T t, t_repeat T t with
    | None, None => true
    | _, _ => match t_ratio T t, t_prob T t with Some _, Some _ => true | _, _ => false end
    end) all_atypes.

Definition monitored (T : tables) (t : atype) : bool :=
  match t_consec T t, t_repeat T t with None, None => false | _, _ => true end.
