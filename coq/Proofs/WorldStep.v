(* Facts about single steps of the world model (M2): no effect without precondition (C02) and
   the exact effect with it (C03). *)
From stdpp Require Import gmap.
From Coq Require Import ZArith NArith.
From NSG Require Import Model.World.

Lemma view_eta v : {| v_ctrl := v_ctrl v; v_hosts := v_hosts v; v_svcs := v_svcs v; v_data := v_data v;
                      v_nets := v_nets v; v_blocks := v_blocks v |} = v.
Proof. destruct v; reflexivity. Qed.

Lemma world_eta w : {| w_ip2host := w_ip2host w; w_nets := w_nets w; w_services := w_services w; w_data := w_data w;
                       w_fw := w_fw w; w_blocks := w_blocks w; w_data0 := w_data0 w; w_fw0 := w_fw0 w |} = w.
Proof. destruct w; reflexivity. Qed.

Lemma data_in_not_ctrl w h c : h ∉ c -> data_in w h c = ∅.
Proof. intros H. unfold data_in. rewrite bool_decide_eq_false_2 by exact H. reflexivity. Qed.
Lemma blocks_in_not_ctrl w h c : h ∉ c -> blocks_in w h c = ∅.
Proof. intros H. unfold blocks_in. rewrite bool_decide_eq_false_2 by exact H. reflexivity. Qed.

(* ---- C02 ---- *)
Theorem step_noop w v a : pre w v a = false -> step w v a = (w, v).
Proof.
  destruct a as [src tn|src tgt|src tgt|src tgt s|src tgt d|src tgt b]; cbn [pre step]; intros Hp.
  - unfold step_scan. rewrite Hp. reflexivity.
  - unfold step_find_services. rewrite Hp. reflexivity.
  - unfold step_find_data.
    destruct (bool_decide (src ∈ v_ctrl v) && fw_allows w src tgt) eqn:E; [|reflexivity].
    cbn [andb] in Hp. apply bool_decide_eq_false in Hp.
    rewrite (data_in_not_ctrl _ _ _ Hp), (blocks_in_not_ctrl _ _ _ Hp).
    rewrite !bool_decide_eq_true_2 by reflexivity. rewrite view_eta. reflexivity.
  - unfold step_exploit. rewrite Hp. reflexivity.
  - unfold step_exfil. rewrite Hp. reflexivity.
  - unfold step_block. rewrite Hp. reflexivity.
Qed.

(* ---- C03: the effect when the precondition holds, in closed form ---- *)

(* ScanNetwork: exactly the existing hosts of the target network that the source may connect to *)
Theorem scan_effect w v src tn :
  src ∈ v_ctrl v ->
  exists v', step w v (AScan src tn) = (w, v') /\
    v_ctrl v' = v_ctrl v /\ v_svcs v' = v_svcs v /\ v_data v' = v_data v /\ v_nets v' = v_nets v /\ v_blocks v' = v_blocks v /\
    forall i, i ∈ v_hosts v' <-> i ∈ v_hosts v \/ (is_Some (w_ip2host w !! i) /\ in_net i tn = true /\ i ∈ get (w_fw w) src).
Proof.
  intros Hs. simpl. unfold step_scan. rewrite bool_decide_eq_true_2 by exact Hs.
  eexists. split; [reflexivity|]. simpl. repeat split; try reflexivity.
  - intros H. apply elem_of_union in H as [H|H]; [left; exact H|right].
    apply elem_of_filter in H as [[H1 H2] H3]. apply elem_of_dom in H3.
    unfold fw_allows in H2. apply bool_decide_eq_true in H2. auto.
  - intros [H|(H1 & H2 & H3)]; apply elem_of_union; [left; exact H|right].
    apply elem_of_filter. split; [split; [exact H2|]|apply elem_of_dom; exact H1].
    unfold fw_allows. apply bool_decide_eq_true. exact H3.
Qed.

(* FindServices *)
Theorem find_services_effect w v src tgt :
  src ∈ v_ctrl v -> tgt ∈ get (w_fw w) src ->
  let found := services_of w tgt (v_ctrl v) in
  step w v (AFindServices src tgt) =
  (w, if bool_decide (found = ∅) then v else
        {| v_ctrl := v_ctrl v;
           v_hosts := if bool_decide (tgt ∈ v_hosts v) then v_hosts v else v_hosts v ∪ {[tgt]};
           v_svcs := <[tgt := found]> (v_svcs v);
           v_data := v_data v;
           v_nets := if bool_decide (tgt ∈ v_hosts v) then v_nets v else v_nets v ∪ nets_of w tgt;
           v_blocks := v_blocks v |}).
Proof.
  intros Hs Hf found. subst found. cbn [step]. unfold step_find_services, fw_allows.
  rewrite (bool_decide_eq_true_2 _ Hs), (bool_decide_eq_true_2 _ Hf). cbn [andb]. destruct (bool_decide (services_of _ _ _ = ∅)); reflexivity.
Qed.

(* all services of the host (local ones only if controlled) *)
Theorem services_of_spec w h c s :
  s ∈ services_of w h c <->
  exists n SS, w_ip2host w !! h = Some n /\ w_services w !! n = Some SS /\ s ∈ SS /\ (h ∈ c \/ svc_is_local s = false).
Proof.
  unfold services_of. split.
  - destruct (w_ip2host w !! h) as [n|] eqn:E1; [|set_solver].
    destruct (w_services w !! n) as [SS|] eqn:E2; [|set_solver].
    destruct (bool_decide (h ∈ c)) eqn:E3.
    + apply bool_decide_eq_true in E3. intros H. exists n, SS. auto.
    + intros H. apply elem_of_filter in H as [H1 H2]. exists n, SS. auto.
  - intros (n & SS & -> & -> & Hs & Hc).
    destruct (bool_decide (h ∈ c)) eqn:E3; [exact Hs|].
    apply bool_decide_eq_false in E3. apply elem_of_filter. split; [|exact Hs]. destruct Hc; [contradiction|assumption].
Qed.

Theorem nets_of_spec w h n : n ∈ nets_of w h <-> exists ips, w_nets w !! n = Some ips /\ h ∈ ips.
Proof.
  unfold nets_of. rewrite elem_of_dom. split.
  - intros [ips H]. apply map_filter_lookup_Some in H as [H1 H2]. eauto.
  - intros (ips & H1 & H2). exists ips. apply map_filter_lookup_Some. auto.
Qed.

(* FindData: all data located on the target and the blocks applied to it *)
Theorem find_data_effect w v src tgt :
  src ∈ v_ctrl v -> tgt ∈ get (w_fw w) src -> tgt ∈ v_ctrl v ->
  let nd := match w_ip2host w !! tgt with Some n => get (w_data w) n | None => ∅ end in
  let nb := match w_ip2host w !! tgt with Some _ => get (w_blocks w) tgt | None => ∅ end in
  step w v (AFindData src tgt) =
  (w, {| v_ctrl := v_ctrl v; v_hosts := v_hosts v; v_svcs := v_svcs v;
         v_data := if bool_decide (nd = ∅) then v_data v else <[tgt := get (v_data v) tgt ∪ nd]> (v_data v);
         v_nets := v_nets v;
         v_blocks := if bool_decide (nb = ∅) then v_blocks v else <[tgt := get (v_blocks v) tgt ∪ nb]> (v_blocks v) |}).
Proof.
  intros Hs Hf Ht nd nb. subst nd nb. cbn [step]. unfold step_find_data, fw_allows, data_in, blocks_in, add_to.
  rewrite (bool_decide_eq_true_2 _ Hs), (bool_decide_eq_true_2 _ Hf), (bool_decide_eq_true_2 _ Ht). cbn [andb]. reflexivity.
Qed.

(* ExploitService *)
Theorem exploit_effect w v src tgt s :
  exploit_pre w v src tgt s = true ->
  step w v (AExploit src tgt s) =
  (w, {| v_ctrl := v_ctrl v ∪ {[tgt]}; v_hosts := v_hosts v; v_svcs := v_svcs v; v_data := v_data v;
         v_nets := v_nets v ∪ nets_of w tgt; v_blocks := v_blocks v |}).
Proof. intros H. simpl. unfold step_exploit. rewrite H. reflexivity. Qed.

Theorem exploit_pre_spec w v src tgt s :
  exploit_pre w v src tgt s = true <->
  src ∈ v_ctrl v /\ tgt ∈ get (w_fw w) src /\
  (exists n SS, w_ip2host w !! tgt = Some n /\ w_services w !! n = Some SS /\ s ∈ SS) /\
  (exists K, v_svcs v !! tgt = Some K /\ s ∈ K).
Proof.
  unfold exploit_pre, fw_allows. split.
  - intros H. apply andb_true_iff in H as [H1 H].
    destruct (w_ip2host w !! tgt) as [n|] eqn:E1; [|discriminate].
    apply andb_true_iff in H as [H2 H].
    destruct (w_services w !! n) as [SS|] eqn:E2; [|discriminate].
    apply andb_true_iff in H as [H3 H].
    destruct (v_svcs v !! tgt) as [K|] eqn:E3; [|discriminate].
    apply bool_decide_eq_true in H1, H2, H3, H.
    split; [exact H1|]. split; [exact H2|]. split; [exists n, SS; auto | exists K; auto].
  - intros (H1 & H2 & (n & SS & -> & -> & H3) & (K & -> & H4)).
    rewrite !bool_decide_eq_true_2 by assumption. reflexivity.
Qed.

(* ExfiltrateData: the datum is copied to the target host, in the view and in the world *)
Theorem exfil_effect w v src tgt d nt :
  exfil_pre w v src tgt d = true -> w_ip2host w !! tgt = Some nt ->
  step w v (AExfil src tgt d) =
  (set_data w (<[nt := get (w_data w) nt ∪ {[d]}]> (w_data w)),
   {| v_ctrl := v_ctrl v; v_hosts := v_hosts v; v_svcs := v_svcs v;
      v_data := <[tgt := get (v_data v) tgt ∪ {[d]}]> (v_data v); v_nets := v_nets v; v_blocks := v_blocks v |}).
Proof. intros H Hn. simpl. unfold step_exfil. rewrite H, Hn. reflexivity. Qed.

Theorem exfil_pre_spec w v src tgt d :
  exfil_pre w v src tgt d = true <->
  tgt ∈ v_ctrl v /\ src ∈ v_ctrl v /\ tgt ∈ get (w_fw w) src /\
  (exists K, v_data v !! src = Some K /\ d ∈ K) /\
  (exists n D, w_ip2host w !! src = Some n /\ w_data w !! n = Some D /\ d ∈ D).
Proof.
  unfold exfil_pre, fw_allows. split.
  - intros H. apply andb_true_iff in H as [H H5]. apply andb_true_iff in H as [H H4].
    apply andb_true_iff in H as [H H3]. apply andb_true_iff in H as [H1 H2].
    destruct (v_data v !! src) as [K|] eqn:E1; [|discriminate].
    destruct (w_ip2host w !! src) as [n|] eqn:E2; [|discriminate].
    destruct (w_data w !! n) as [D|] eqn:E3; [|discriminate].
    apply bool_decide_eq_true in H1, H2, H3, H4, H5.
    split; [exact H1|]. split; [exact H2|]. split; [exact H3|]. split; [exists K; auto | exists n, D; auto].
  - intros (H1 & H2 & H3 & (K & -> & H4) & (n & D & -> & -> & H5)).
    rewrite !bool_decide_eq_true_2 by assumption. reflexivity.
Qed.

(* whoever controls the target host afterwards finds the datum there (shared through the world) *)
Theorem exfil_shared w v src tgt d nt w' v' (u : view) (s2 : ip) :
  exfil_pre w v src tgt d = true -> w_ip2host w !! tgt = Some nt ->
  step w v (AExfil src tgt d) = (w', v') ->
  tgt ∈ v_ctrl u -> d ∈ data_in w' tgt (v_ctrl u).
Proof.
  intros H Hn Hs Hc. rewrite (exfil_effect w v src tgt d nt H Hn) in Hs. injection Hs as <- <-.
  unfold data_in. rewrite bool_decide_eq_true_2 by exact Hc. simpl. rewrite Hn.
  unfold get at 1. rewrite lookup_insert. simpl. set_solver.
Qed.

(* BlockIP *)
Theorem block_effect w v src tgt b :
  block_pre w v src tgt b = true ->
  step w v (ABlock src tgt b) =
  ({| w_ip2host := w_ip2host w; w_nets := w_nets w; w_services := w_services w; w_data := w_data w;
      w_fw := fw_remove (fw_remove (w_fw w) tgt b) b tgt;
      w_blocks := add_to (add_to (w_blocks w) tgt {[b]}) b {[tgt]};
      w_data0 := w_data0 w; w_fw0 := w_fw0 w |},
   {| v_ctrl := v_ctrl v; v_hosts := v_hosts v; v_svcs := v_svcs v; v_data := v_data v; v_nets := v_nets v;
      v_blocks := add_to (add_to (v_blocks v) tgt {[b]}) b {[tgt]} |}).
Proof. intros H. simpl. unfold step_block. rewrite H. reflexivity. Qed.

Theorem block_pre_spec w v src tgt b :
  block_pre w v src tgt b = true <-> src ∈ v_ctrl v /\ tgt ∈ v_ctrl v /\ tgt ∈ get (w_fw w) src /\ tgt <> b.
Proof.
  unfold block_pre, fw_allows. rewrite !andb_true_iff, !bool_decide_eq_true, negb_true_iff, N.eqb_neq. tauto.
Qed.

Lemma get_fw_remove fw a b x : get (fw_remove fw a b) x = if bool_decide (x = a) then get fw a ∖ {[b]} else get fw x.
Proof.
  unfold fw_remove, get. destruct (fw !! a) as [SS|] eqn:E.
  - destruct (bool_decide (x = a)) eqn:Ex.
    + apply bool_decide_eq_true in Ex. subst. rewrite lookup_insert. reflexivity.
    + apply bool_decide_eq_false in Ex. rewrite lookup_insert_ne by congruence. reflexivity.
  - destruct (bool_decide (x = a)) eqn:Ex; [|reflexivity].
    apply bool_decide_eq_true in Ex. subst. rewrite E. simpl. set_solver.
Qed.

(* connectivity between target and blocked host is removed in both directions, nothing else *)
Theorem block_connectivity w v src tgt b w' v' :
  block_pre w v src tgt b = true -> step w v (ABlock src tgt b) = (w', v') ->
  forall x y, y ∈ get (w_fw w') x <-> y ∈ get (w_fw w) x /\ ~ (x = tgt /\ y = b) /\ ~ (x = b /\ y = tgt).
Proof.
  intros H Hs x y. rewrite (block_effect w v src tgt b H) in Hs. injection Hs as <- <-. simpl.
  apply block_pre_spec in H as (_ & _ & _ & Hne).
  rewrite !get_fw_remove.
  destruct (bool_decide (x = b)) eqn:E1; destruct (bool_decide (x = tgt)) eqn:E2;
    try apply bool_decide_eq_true in E1; try apply bool_decide_eq_true in E2;
    try apply bool_decide_eq_false in E1; try apply bool_decide_eq_false in E2; subst.
  - congruence.
  - rewrite bool_decide_eq_false_2 by congruence. set_solver.
  - set_solver.
  - set_solver.
Qed.

(* ... and the block is recorded for both hosts, in the world and in the view *)
Lemma get_add_to {A} `{Countable A} (m : gmap ip (gset A)) k s x :
  get (add_to m k s) x = if bool_decide (x = k) then get m k ∪ s else get m x.
Proof.
  unfold add_to, get. destruct (bool_decide (x = k)) eqn:E.
  - apply bool_decide_eq_true in E. subst. rewrite lookup_insert. reflexivity.
  - apply bool_decide_eq_false in E. rewrite lookup_insert_ne by congruence. reflexivity.
Qed.

Theorem block_recorded w v src tgt b w' v' :
  block_pre w v src tgt b = true -> step w v (ABlock src tgt b) = (w', v') ->
  b ∈ get (w_blocks w') tgt /\ tgt ∈ get (w_blocks w') b /\ b ∈ get (v_blocks v') tgt /\ tgt ∈ get (v_blocks v') b.
Proof.
  intros H Hs. rewrite (block_effect w v src tgt b H) in Hs. injection Hs as <- <-. simpl.
  rewrite !get_add_to. repeat split; repeat case_bool_decide; set_solver.
Qed.
