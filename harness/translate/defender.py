"""global_defender.py threshold tables -> coq/Gen/DefenderTables.v (fail closed)."""
import ast
from fractions import Fraction
from common import parse, write_if_changed, TranslationError, find_class, find_func, ATYPES

TABLES = {
    "_DEFAULT_DETECTION_PROBS": "prob",
    "_TW_TYPE_RATIOS_THRESHOLD": "ratio",
    "_TW_CONSECUTIVE_TYPE_THRESHOLD": "consec",
    "_EPISODE_REPEATED_ACTION_THRESHOLD": "repeat",
}


def read_tables():
    src, tree = parse("AIDojoCoordinator/global_defender.py")
    cls = find_class(tree, "GlobalDefender")
    init = find_func(cls, "__init__")
    out = {}
    for st in init.body:
        if isinstance(st, ast.Expr) and isinstance(st.value, ast.Constant):
            continue  # docstring
        if not (isinstance(st, ast.Assign) and len(st.targets) == 1):
            raise TranslationError(f"unexpected statement in GlobalDefender.__init__ line {st.lineno}")
        tgt = st.targets[0]
        if not (isinstance(tgt, ast.Attribute) and isinstance(tgt.value, ast.Name) and tgt.value.id == "self"):
            raise TranslationError(f"unexpected assignment target line {st.lineno}")
        if tgt.attr not in TABLES:
            raise TranslationError(f"unknown table {tgt.attr}")
        if not isinstance(st.value, ast.Dict):
            raise TranslationError(f"{tgt.attr} is not a dict literal")
        entries = {}
        for k, v in zip(st.value.keys, st.value.values):
            if not (isinstance(k, ast.Attribute) and isinstance(k.value, ast.Name) and k.value.id == "ActionType"
                    and k.attr in ATYPES):
                raise TranslationError(f"{tgt.attr}: key is not ActionType.<member> (line {k.lineno})")
            if not (isinstance(v, ast.Constant) and isinstance(v.value, (int, float)) and not isinstance(v.value, bool)):
                raise TranslationError(f"{tgt.attr}: value is not a numeric literal (line {v.lineno})")
            if k.attr in entries:
                raise TranslationError(f"{tgt.attr}: duplicate key {k.attr}")
            text = ast.get_source_segment(src, v)
            entries[k.attr] = (v.value, text)
        out[TABLES[tgt.attr]] = entries
    if set(out) != set(TABLES.values()):
        raise TranslationError(f"missing tables: {set(TABLES.values()) - set(out)}")
    # default window size and the shape of `stochastic`
    swt = find_func(cls, "stochastic_with_threshold")
    names = [a.arg for a in swt.args.args]
    if names != ["self", "action", "episode_actions", "tw_size"] or len(swt.args.defaults) != 1:
        raise TranslationError("stochastic_with_threshold signature changed")
    d = swt.args.defaults[0]
    if not (isinstance(d, ast.Constant) and isinstance(d.value, int)):
        raise TranslationError("tw_size default is not an int literal")
    out["tw_size"] = d.value
    # stochastic must be: roll = random(); if roll < probs[t]: return True else: return False
    st = find_func(cls, "stochastic")
    body = [s for s in st.body if not (isinstance(s, ast.Expr) and isinstance(s.value, ast.Constant))]
    ok = (len(body) == 2 and isinstance(body[0], ast.Assign) and isinstance(body[0].value, ast.Call)
          and isinstance(body[0].value.func, ast.Name) and body[0].value.func.id == "random"
          and isinstance(body[1], ast.If) and isinstance(body[1].test, ast.Compare)
          and len(body[1].test.ops) == 1 and isinstance(body[1].test.ops[0], ast.Lt)
          and isinstance(body[1].test.left, ast.Name) and body[1].test.left.id == body[0].targets[0].id
          and ast.unparse(body[1].test.comparators[0]) == "self._DEFAULT_DETECTION_PROBS[action_type]"
          and len(body[1].body) == 1 and isinstance(body[1].body[0], ast.Return)
          and isinstance(body[1].body[0].value, ast.Constant) and body[1].body[0].value.value is True
          and len(body[1].orelse) == 1 and isinstance(body[1].orelse[0], ast.Return)
          and isinstance(body[1].orelse[0].value, ast.Constant) and body[1].orelse[0].value.value is False)
    if not ok:
        raise TranslationError("GlobalDefender.stochastic does not have the shape `roll = random(); roll < prob`")
    return out


def rat(fr):
    return f"(({fr.numerator})%Z, ({fr.denominator})%positive)"


def emit(t):
    L = ["(* GENERATED from AIDojoCoordinator/global_defender.py by harness/translate/defender.py; do not edit *)",
         "From NSG Require Import Base.Prelude Model.Defender.",
         "From Coq Require Import PrimFloat.", ""]

    def table(name, kind, fn):
        L.append(f"Definition {name} (t : atype) : option {kind} :=")
        L.append("  match t with")
        for a in ATYPES:
            if a in fn:
                L.append(f"  | {a} => Some {fn[a]}")
        if len(fn) < len(ATYPES):
            L.append("  | _ => None")
        L.append("  end.")
        L.append("")

    # probabilities: exact value of the binary64 the code compares the draw with
    table("gen_prob", "rat", {a: rat(Fraction(float(v))) for a, (v, _) in t["prob"].items()})
    # the same as written in the source (decimal)
    table("gen_prob_decimal", "rat", {a: rat(Fraction(txt)) for a, (_, txt) in t["prob"].items()})
    # ratio thresholds as written in the source (decimal), and as binary64 literals
    table("gen_ratio", "rat", {a: rat(Fraction(txt)) for a, (_, txt) in t["ratio"].items()})
    table("gen_ratio_float", "float", {a: f"({float(v).hex()})%float" for a, (v, _) in t["ratio"].items()})
    for nm in ("consec", "repeat"):
        for a, (v, _) in t[nm].items():
            if not isinstance(v, int) or v < 0 or v > 1000:
                raise TranslationError(f"{nm}[{a}] is not a small non-negative integer")
        table(f"gen_{nm}", "nat", {a: f"{v}%nat" for a, (v, _) in t[nm].items()})
    L.append("Definition gen_tables : tables :=")
    L.append("  {| t_prob := gen_prob; t_ratio := gen_ratio; t_consec := gen_consec; t_repeat := gen_repeat |}.")
    L.append("")
    L.append(f"Definition gen_tw_size : nat := {t['tw_size']}%nat.")
    L.append("")
    return "\n".join(L)


def main():
    t = read_tables()
    write_if_changed("DefenderTables.v", emit(t))
    return t


if __name__ == "__main__":
    print(main())
