(* C15, coordinator clause - "the view inside every response decodes to exactly the view the coordinator holds for that
   agent" (and with it the reward and the end flag of the observation): statements over the coordinator model
   Model/Coord.v, for every reachable state, any number of agents, any interleaving.  Proofs are in Proofs/CoordObs.v. *)
From Coq Require Import ZArith NArith List Bool.
From NSG Require Import Base.Prelude Model.Defender Model.Coord Model.CoordExec Proofs.CoordKinds Proofs.CoordObs.
Import ListNotations.

(* whatever a handler task puts on a connection's queue in one of its steps - it puts at most one item, on its own
   connection (C01_answer_fits) - says what the coordinator holds for that agent in the state reached by that step:
   CREATED the agent's view; OK the view, the reward and the end flag; FORBIDDEN the view, the reward, the reason, and the
   episode is ended; RESET_DONE the view, the reward and the end flag.  (The remaining responses are BAD_REQUEST, which
   carries no observation; the dispatcher answers only with BAD_REQUEST: C01/C09.) *)
Theorem C15_response_is_held :
  forall (V W G : Type) (wstep : W -> V -> G -> W * V) (wreset : W -> W) (winit : W -> role -> W * V)
         (goal : role -> V -> bool) (detect : list G -> G -> bool) (cfg : config)
         (w : W) (ls : list (@label G)) (s s' : @state V W G) (id : nat) (h : @handler V G),
    execs wstep wreset winit goal detect cfg (init_state w) ls = Some s ->
    find (fun x : @handler V G => Nat.eqb (h_id x) id) (handlers s) = Some h ->
    exec wstep wreset winit goal detect cfg s (LRun (THandler id)) = Some s' ->
    conns s' = conns s \/
    exists q, conns s' = conns_put s (h_addr h) q /\
      match q with
      | QClose => True
      | QResp RBad => True
      | QResp (RCreated v) => forall a, alookup (h_addr h) (agents s') = Some a -> a_view a = v
      | QResp (ROk v r e _) => forall a, alookup (h_addr h) (agents s') = Some a -> a_view a = v /\ a_reward a = r /\ a_ended a = e
      | QResp (RForbidden v r st) =>
          forall a, alookup (h_addr h) (agents s') = Some a -> a_view a = v /\ a_reward a = r /\ a_status a = st /\ a_ended a = true
      | QResp (RResetDone obs _) => forall a, alookup (h_addr h) (agents s') = Some a -> obs = (a_view a, a_reward a, a_ended a)
      end.
Proof. intros V W G wstep wreset winit goal detect cfg w ls s s' id h. exact (response_held_reachable wstep wreset winit goal detect cfg w ls s s' id h). Qed.

(* the invariant behind it: in every reachable state the observation stored for an agent (what FORBIDDEN and RESET_DONE
   are built from) equals (view, reward, end flag) of its record, unless the agent's final reply is still parked at the
   end-of-episode barrier *)
Theorem C15_stored_observation :
  forall (V W G : Type) (wstep : W -> V -> G -> W * V) (wreset : W -> W) (winit : W -> role -> W * V)
         (goal : role -> V -> bool) (detect : list G -> G -> bool) (cfg : config)
         (w : W) (ls : list (@label G)) (s : @state V W G) (c : addr) (a : @agent V G),
    execs wstep wreset winit goal detect cfg (init_state w) ls = Some s ->
    alookup c (agents s) = Some a ->
    a_obs a = (a_view a, a_reward a, a_ended a) \/
    exists h rel act v, In h (handlers s) /\ h_addr h = c /\ h_pc h = PRewards rel act v.
Proof.
  intros V W G wstep wreset winit goal detect cfg w ls s c a H0 Ha.
  destruct (O_sync _ _ (O_reachable wstep wreset winit goal detect cfg w ls s H0) c a Ha) as [H|[r (h & act & v & H1 & H2 & H3)]];
    [left; exact H | right; exists h, r, act, v; auto].
Qed.

(* a join handler released from the start barrier announces the view held for that agent *)
Theorem C15_created_view :
  forall (V W G : Type) (wstep : W -> V -> G -> W * V) (wreset : W -> W) (winit : W -> role -> W * V)
         (goal : role -> V -> bool) (detect : list G -> G -> bool) (cfg : config)
         (w : W) (ls : list (@label G)) (s : @state V W G) (h : @handler V G) (rel : bool) (v : V) (a : @agent V G),
    execs wstep wreset winit goal detect cfg (init_state w) ls = Some s ->
    In h (handlers s) -> h_pc h = PJoinStart rel v -> alookup (h_addr h) (agents s) = Some a -> a_view a = v.
Proof. intros V W G wstep wreset winit goal detect cfg w ls s h rel v a H0. exact (JV_reachable wstep wreset winit goal detect cfg w ls s H0 h rel v a). Qed.

(* non-vacuity: one attacker with a step limit of 1; its first action ends the episode (final reply after the reward
   task), the second action is refused: the FORBIDDEN reply carries the view held (6, the result of the first action),
   the final reward -11 and the reason, and the stored observation is in step with the record *)
Example C15_coord_nonvacuous :
  let cfg := {| required := 1; max_steps := fun _ => Some 1; r_step := (-1)%Z; r_succ := 100%Z; r_fail := (-10)%Z;
                allowed := fun _ => true; save_traj := false |} in
  let ex := execs x_wstep x_wreset x_winit (x_goal []) (x_detect None (0%Z, 1%positive)) cfg in
  let g := MGame (ScanNetwork, 3%N) true in
  let ls0 := [LConnect 1%N; LArrive 1%N (CMsg (MJoin (Some (7%N, Some RAttacker)))); LRun (TConn 1%N); LRun TDispatch; LRun (THandler 0);
              LRun (TConn 1%N); LArrive 1%N (CMsg g); LRun (TConn 1%N); LRun TDispatch; LRun (THandler 1); LRun TRewards;
              LRun (THandler 1); LRun (TConn 1%N); LArrive 1%N (CMsg g); LRun (TConn 1%N); LRun TDispatch] in
  match ex (init_state [5%N; 6%N; 8%N]) ls0 with
  | Some s =>
      match ex s [LRun (THandler 2)], alookup 1%N (agents s) with
      | Some s', Some a =>
          conns s' = conns_put s 1%N (QResp (RForbidden 6%N (-11)%Z STimeout)) /\
          a_view a = 6%N /\ a_reward a = (-11)%Z /\ a_ended a = true /\ a_obs a = (6%N, (-11)%Z, true) /\
          find (fun x : @handler xV xG => Nat.eqb (h_id x) 2) (handlers s) <> None
      | _, _ => False
      end
  | None => False
  end.
Proof. vm_compute. repeat split; try reflexivity. discriminate. Qed.

Print Assumptions C15_response_is_held.
Print Assumptions C15_stored_observation.
Print Assumptions C15_created_view.
