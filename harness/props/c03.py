"""C03: world actions have exactly the documented effect, completely (incl. the scenario loader)."""
import check as CK
from props import worldcommon as WC
from props.c02 import ASSUME, replay

TRANSLATORS = []
COQ_FILES = ["Props/C03.v"]


def correspondence(ctx):
    th = ctx.tier == "thorough"
    WC.world_suite(ctx, "C03", tags={"pre", "load", "init"}, walks_per_spec=4 if th else 1, n_generated=30 if th else 8,
                   n_steps=200 if th else 70, perturb=0.15, resets=25, n_agents=(1, 3), shared_every=3)
    ctx.assumptions += ASSUME
