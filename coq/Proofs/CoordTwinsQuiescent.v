(* Quiescence (no internal label enabled) is the same under a renaming of the peer addresses and under a scaling of the configured
   rewards: the twins of a session are idle exactly when the session is. *)
From Coq Require Import ZArith NArith List Bool Arith Lia.
From NSG Require Import Model.Coord Proofs.CoordRename Proofs.CoordScale.
Import ListNotations.

Section TwinsQuiescent.
  Context {V W G : Type}.
  Variable wstep : W -> V -> G -> W * V.
  Variable wreset : W -> W.
  Variable winit : W -> role -> W * V.
  Variable goal : role -> V -> bool.
  Variable detect : list G -> G -> bool.
  Variable cfg : config.

  Notation state := (@state V W G).
  Notation quiescent := (@quiescent V W G wstep winit goal detect).
  Notation h_wake := (@h_wake V W G wstep winit goal detect).

  Lemma forallb_map {A B} (g : A -> B) (p : B -> bool) l : forallb p (map g l) = forallb (fun x => p (g x)) l.
  Proof. induction l as [|x tl IH]; simpl; [reflexivity|]. rewrite IH. reflexivity. Qed.

  Lemma forallb_ext {A} (p q : A -> bool) l : (forall x, p x = q x) -> forallb p l = forallb q l.
  Proof. intros H. induction l as [|x tl IH]; simpl; [reflexivity|]. rewrite H, IH. reflexivity. Qed.

  Theorem quiescent_rs (f : addr -> addr) (Hf : forall a b, f a = f b -> a = b) (s : state) :
    quiescent cfg (rs f s) = quiescent cfg s.
  Proof.
    unfold Coord.quiescent. change (conns (rs f s)) with (rl f (conns s)). change (aq (rs f s)) with (rl f (aq s)).
    change (handlers (rs f s)) with (map (rh f) (handlers s)). change (ev_end (rs f s)) with (ev_end s). change (ev_reset (rs f s)) with (ev_reset s).
    unfold rl. rewrite !forallb_map. f_equal. f_equal. f_equal.
    - f_equal. destruct (aq s); reflexivity.
    - apply forallb_ext. intros h. rewrite (h_wake_rs wstep winit goal detect cfg f Hf s h). destruct (h_wake cfg s h); reflexivity.
  Qed.

  Theorem quiescent_ks (k : Z) (s : state) :
    quiescent (kcfg cfg k) (ks k s) = quiescent cfg s.
  Proof.
    unfold Coord.quiescent. change (conns (ks k s)) with (mv (kconn k) (conns s)). change (aq (ks k s)) with (aq s).
    change (handlers (ks k s)) with (handlers s). change (ev_end (ks k s)) with (ev_end s). change (ev_reset (ks k s)) with (ev_reset s).
    unfold mv. rewrite forallb_map. f_equal. f_equal. f_equal. f_equal.
    - apply forallb_ext. intros x. simpl. rewrite runnable_k. reflexivity.
    - apply forallb_ext. intros h. rewrite (h_wake_ks wstep winit goal detect cfg k s h). destruct (h_wake cfg s h); reflexivity.
  Qed.
End TwinsQuiescent.
