(* What one label can do to the record of one agent: a complete case list (`achange`), proven for
   every label from every state that satisfies the invariants.  The cross-label statements of the
   properties (rewarded once per episode, an ended episode stays ended until the reset, identity
   and counters) are corollaries by case analysis. *)
From Coq Require Import ZArith NArith List Bool Arith Lia.
From NSG Require Import Model.Coord Proofs.CoordBase Proofs.CoordInv Proofs.CoordInvConn Proofs.CoordInvDispatch
  Proofs.CoordInvHandler Proofs.CoordDirect Proofs.CoordInv2.
Import ListNotations.

Section AgentStep.
  Context {V W G : Type}.
  Variable wstep : W -> V -> G -> W * V.
  Variable wreset : W -> W.
  Variable winit : W -> role -> W * V.
  Variable goal : role -> V -> bool.
  Variable detect : list G -> G -> bool.
  Variable cfg : config.

  Notation state := (@state V W G).
  Notation handler := (@handler V G).
  Notation agent := (@agent V G).
  Notation msg := (@msg G).
  Notation label := (@label G).
  Notation Inv := (@Inv V W G).
  Notation Inv2 := (@Inv2 V W G).
  Notation J := (@J V G).
  Notation exec := (@exec V W G wstep wreset winit goal detect cfg).
  Notation execs := (@execs V W G wstep wreset winit goal detect cfg).
  Notation h_start := (@h_start V W G wstep winit goal detect cfg).
  Notation h_wake := (@h_wake V W G wstep winit goal detect cfg).

  (* the record after the agent's own action *)
  Definition step_rec (a : agent) (st : status) (ended : bool) (v' : V) : agent :=
    {| a_name := a_name a; a_role := a_role a; a_steps := S (a_steps a); a_req := a_req a; a_status := st;
       a_ended := ended; a_view := v'; a_reward := r_step cfg; a_rewarded := a_rewarded a;
       a_obs := a_obs a; a_traj := a_traj a |}.
  (* the record after the answer to a game action has been produced *)
  Definition finish_rec (a : agent) (act : G) (v' : V) : agent :=
    a_set_obs (a_set_traj a (traj_add (a_traj a) act (a_reward a) v')) (a_view a, a_reward a, a_ended a).
  (* the record after the reset *)
  Definition fresh_rec (a : agent) (v : V) : agent :=
    {| a_name := a_name a; a_role := a_role a; a_steps := 0; a_req := false; a_status := init_status (a_role a);
       a_ended := false; a_view := v; a_reward := 0%Z; a_rewarded := false; a_obs := (v, 0%Z, false); a_traj := a_traj a |}.

  (* the record with the step counter advanced (what the status rule looks at) *)
  Definition bump (a : agent) : agent :=
    {| a_name := a_name a; a_role := a_role a; a_steps := S (a_steps a); a_req := a_req a; a_status := a_status a;
       a_ended := a_ended a; a_view := a_view a; a_reward := a_reward a; a_rewarded := a_rewarded a; a_obs := a_obs a; a_traj := a_traj a |}.

  Inductive achange (a : agent) : label -> agent -> Prop :=
  | AC_same l : achange a l a
  | AC_req id : achange a (LRun (THandler id)) (a_set_req a true)
  | AC_step_end id st act v' : a_ended a = false -> a_rewarded a = false -> a_req a = false ->
      st = next_status goal detect cfg (bump a) v' act ->
      achange a (LRun (THandler id)) (step_rec a st true v')
  | AC_step_go id st act v' : a_ended a = false -> a_rewarded a = false -> a_req a = false ->
      st = next_status goal detect cfg (bump a) v' act -> terminal st = false ->
      achange a (LRun (THandler id)) (finish_rec (step_rec a st false v') act v')
  | AC_finish id act : a_ended a = true -> a_req a = false -> achange a (LRun (THandler id)) (finish_rec a act (a_view a))
  | AC_traj id : achange a (LRun (THandler id)) (a_set_traj a (traj_start (a_view a)))
  | AC_reward succ : achange a (LRun TRewards) (reward_agent cfg succ a)
  | AC_reset v : a_req a = true -> achange a (LRun TReset) (fresh_rec a v).

  Definition stepped (ags' : list (addr * agent)) (c : addr) (a : agent) (l : label) : Prop :=
    alookup c ags' = None \/ exists a', alookup c ags' = Some a' /\ achange a l a'.

  Lemma lookup_upd (ags : list (addr * agent)) c k f a :
    alookup k ags = Some a -> alookup k (aupdate c f ags) = Some (if N.eqb c k then f a else a).
  Proof.
    intros Ha. destruct (N.eqb c k) eqn:E.
    - apply N.eqb_eq in E. subst. rewrite alookup_aupdate_eq, Ha. reflexivity.
    - apply N.eqb_neq in E. rewrite alookup_aupdate_ne by exact E. exact Ha.
  Qed.

  Lemma stepped_same ags c a l : alookup c ags = Some a -> stepped ags c a l.
  Proof. intros Ha. right. exists a. split; [exact Ha | constructor]. Qed.

  Lemma stepped_upd ags c k f a l :
    alookup k ags = Some a -> (c = k -> achange a l (f a)) -> stepped (aupdate c f ags) k a l.
  Proof.
    intros Ha Hf. right. rewrite (lookup_upd ags c k f a Ha). destruct (N.eqb c k) eqn:E.
    - apply N.eqb_eq in E. exists (f a). split; [reflexivity | apply Hf, E].
    - exists a. split; [reflexivity | constructor].
  Qed.

  Lemma reset_finish_agents (s : state) id c0 want c a :
    alookup c (agents s) = Some a -> stepped (agents (@reset_finish V W G s id c0 want)) c a (LRun (THandler id)).
  Proof.
    intros Ha. unfold reset_finish. destruct (alookup c0 (agents s)) as [a0|] eqn:H0; [|apply stepped_same, Ha].
    simpl. apply stepped_upd; [exact Ha|]. intros ->. rewrite Ha in H0. injection H0 as <-. constructor.
  Qed.

  Lemma game_finish_agents (s : state) id c0 act v' c a :
    alookup c (agents s) = Some a ->
    (forall a0, alookup c0 (agents s) = Some a0 -> a_ended a0 = true /\ a_view a0 = v' /\ a_req a0 = false) ->
    stepped (agents (@game_finish V W G s id c0 act v')) c a (LRun (THandler id)).
  Proof.
    intros Ha Hp. unfold game_finish. destruct (alookup c0 (agents s)) as [a0|] eqn:H0; [|apply stepped_same, Ha].
    simpl. apply stepped_upd; [exact Ha|]. intros ->. rewrite Ha in H0. injection H0 as <-.
    destruct (Hp a eq_refl) as (He & <- & Hq). apply AC_finish; assumption.
  Qed.

  Theorem agent_step_start (s : state) h m c a :
    Inv s -> J (agents s) (handlers s) -> In h (handlers s) -> h_pc h = PSpawned m -> alookup c (agents s) = Some a ->
    stepped (agents (h_start s (h_id h) (h_addr h) m)) c a (LRun (THandler (h_id h))).
  Proof.
    intros Hi Hj Hin Hpc Ha.
    assert (Hnw : ~ waiting_reset h) by (eapply not_waiting_spawned; eauto).
    destruct m as [|info| |want|act valid].
    - apply stepped_same, Ha.
    - unfold Coord.h_start.
      destruct (alookup (h_addr h) (agents s)) as [a0|] eqn:H0; [apply stepped_same, Ha|].
      destruct info as [[name [r|]]|]; try (apply stepped_same, Ha).
      destruct (negb (allowed cfg r)); [apply stepped_same, Ha|].
      destruct (winit (world s) r) as [w' v] eqn:Ew.
      assert (Hl : alookup c (agents s ++ [(h_addr h, new_agent name r v)]) = Some a) by (rewrite alookup_app, Ha; reflexivity).
      cbv zeta.
      destruct (Nat.eqb (length (agents (set_agents (set_world s w') (agents s ++ [(h_addr h, new_agent name r v)])))) (required cfg)).
      + simpl. apply stepped_same, Hl.
      + destruct (ev_start _); simpl; apply stepped_same, Hl.
    - unfold Coord.h_start. simpl. unfold remove_agent.
      destruct (alookup (h_addr h) (agents s)) as [a0|] eqn:H0; [|apply stepped_same, Ha].
      assert (Hr : stepped (aremove (h_addr h) (agents s)) c a (LRun (THandler (h_id h)))).
      { destruct (N.eq_dec (h_addr h) c) as [E|Hne].
        - left. rewrite E. apply alookup_aremove_eq, (I_agents s Hi).
        - apply stepped_same. rewrite alookup_aremove_ne by exact Hne. exact Ha. }
      destruct (_ && _); destruct (all_ended _); exact Hr.
    - unfold Coord.h_start.
      destruct (alookup (h_addr h) (agents s)) as [a0|] eqn:H0; [|apply stepped_same, Ha].
      assert (Hr : stepped (aupdate (h_addr h) (fun a => a_set_req a true) (agents s)) c a (LRun (THandler (h_id h)))).
      { apply stepped_upd; [exact Ha|]. intros _. constructor. }
      cbv zeta. destruct (all_req _); exact Hr.
    - destruct valid; [|unfold Coord.h_start; destruct (alookup (h_addr h) (agents s)); apply stepped_same, Ha].
      destruct (alookup (h_addr h) (agents s)) as [a0|] eqn:H0;
        [|unfold Coord.h_start; rewrite H0; apply stepped_same, Ha].
      destruct (a_ended a0) eqn:He; [unfold Coord.h_start; rewrite H0, He; apply stepped_same, Ha|].
      destruct (wstep (world s) (a_view a0) act) as [w' v'] eqn:Ew.
      rewrite (game_step_eq wstep winit goal detect cfg s (h_id h) (h_addr h) act a0 w' v' H0 He Ew).
      cbv zeta.
      set (a2 := stepped_agent goal detect cfg s (h_addr h) a0 act v').
      set (ags := aupdate (h_addr h) (fun _ => a2) (agents s)).
      assert (Hnr : a_rewarded a0 = false).
      { destruct (a_rewarded a0) eqn:E; [|reflexivity]. rewrite (J_rewarded _ _ Hj (h_addr h) a0 H0 E) in He. discriminate. }
      assert (Hreq : a_req a0 = false).
      { destruct (a_req a0) eqn:E; [|reflexivity]. exfalso.
        destruct (J_req _ _ Hj (h_addr h) a0 H0 E) as (h0 & Hin0 & Ha0 & Hw0).
        apply (no_waiting_other s h Hi Hin Hnw h0 Hin0 Ha0 Hw0). }
      assert (E2 : a2 = step_rec a0 (a_status a2) (a_ended a2) v') by reflexivity.
      assert (Est : a_status a2 = next_status goal detect cfg (bump a0) v' act) by reflexivity.
      assert (Eend : a_ended a2 = false -> terminal (a_status a2) = false).
      { intros Hx. assert (Hy : a_ended a2 = terminal (a_status a2) || negb (status_eqb (a_status a2) SPlayingTO ||
            existsb (fun x => negb (N.eqb (fst x) (h_addr h)) && status_eqb (a_status (snd x)) SPlayingTO) (agents s))) by reflexivity.
        rewrite Hy in Hx. apply orb_false_elim in Hx as [Hx _]. exact Hx. }
      clearbody a2.
      destruct (a_ended a2) eqn:He2.
      + assert (Hr : stepped ags c a (LRun (THandler (h_id h)))).
        { apply stepped_upd; [exact Ha|]. intros E. rewrite E in H0. rewrite Ha in H0. injection H0 as <-.
          rewrite E2. apply (AC_step_end a (h_id h) (a_status a2) act v'); assumption. }
        destruct (all_ended ags); exact Hr.
      + assert (Hr : forall s2 : state, agents s2 = ags ->
                  stepped (agents (@game_finish V W G s2 (h_id h) (h_addr h) act v')) c a (LRun (THandler (h_id h)))).
        { intros s2 Hs2. unfold game_finish. rewrite Hs2.
          assert (Hl2 : alookup (h_addr h) ags = Some a2) by (unfold ags; rewrite alookup_aupdate_eq, H0; reflexivity).
          rewrite Hl2. simpl. rewrite ?Hs2. unfold ags. rewrite aupdate_aupdate.
          apply stepped_upd; [exact Ha|]. intros E. rewrite E in H0. rewrite Ha in H0. injection H0 as <-.
          rewrite E2. apply (AC_step_go a (h_id h) (a_status a2) act v'); try assumption. apply Eend. reflexivity. }
        destruct (all_ended ags); apply Hr; reflexivity.
  Qed.

  Theorem agent_step_wake (s s' : state) h c a :
    Inv s -> J (agents s) (handlers s) -> In h (handlers s) -> h_wake s h = Some s' -> alookup c (agents s) = Some a ->
    stepped (agents s') c a (LRun (THandler (h_id h))).
  Proof.
    intros Hi Hj Hin Hw Ha. unfold Coord.h_wake in Hw.
    destruct (h_pc h) as [m|rel v|rel act v'|rel want|rel want] eqn:Hpc.
    - injection Hw as <-. apply agent_step_start; assumption.
    - destruct rel; [|discriminate]. injection Hw as <-. apply stepped_same, Ha.
    - destruct rel; [|discriminate]. injection Hw as <-. apply game_finish_agents; [exact Ha|].
      intros a0 H0. destruct (J_parked _ _ Hj h true act v' Hin Hpc) as (a1 & H1 & He & Hv & Hq).
      rewrite H0 in H1. injection H1 as <-. auto.
    - destruct rel; [|discriminate]. destruct (ev_start s); injection Hw as <-.
      + apply reset_finish_agents, Ha.
      + apply stepped_same, Ha.
    - destruct rel; [|discriminate]. injection Hw as <-. apply reset_finish_agents, Ha.
  Qed.

  (* the reset task, forwards *)
  Lemma reset_fold_done (l : list (addr * agent)) w done fl c y :
    alookup c done = Some y ->
    alookup c (snd (fst (fold_left (@reset_one V W G winit cfg) l (w, done, fl)))) = Some y.
  Proof.
    revert w done fl. induction l as [|x tl IH]; intros w done fl Hd; cbn [fold_left]; [exact Hd|].
    destruct (reset_one_effect winit cfg w done fl x) as (w1 & v & _ & ->).
    apply IH. rewrite alookup_app, Hd. reflexivity.
  Qed.

  Lemma reset_fold_fwd (l : list (addr * agent)) w done fl c a :
    alookup c done = None -> alookup c l = Some a ->
    exists v, alookup c (snd (fst (fold_left (@reset_one V W G winit cfg) l (w, done, fl)))) = Some (fresh_rec a v).
  Proof.
    revert w done fl. induction l as [|[k x] tl IH]; intros w done fl Hd Hl; cbn [fold_left]; [discriminate|].
    destruct (reset_one_effect winit cfg w done fl (k, x)) as (w1 & v & _ & ->).
    cbn [alookup] in Hl. destruct (N.eqb c k) eqn:E.
    - apply N.eqb_eq in E. subst k. injection Hl as ->. exists v. apply reset_fold_done.
      rewrite alookup_app, Hd. cbn [alookup fst snd]. rewrite N.eqb_refl. reflexivity.
    - apply IH; [|exact Hl]. rewrite alookup_app, Hd. cbn [alookup fst snd]. rewrite E. reflexivity.
  Qed.

  Theorem agent_step (s s' : state) l c a :
    Inv2 s -> exec s l = Some s' -> alookup c (agents s) = Some a -> stepped (agents s') c a l.
  Proof.
    intros [Hi Hj] He Ha. destruct l as [k|k ch|k|k|k|t]; cbn [Coord.exec] in He.
    - destruct (alookup k (conns s)); [discriminate|]. injection He as <-. apply stepped_same, Ha.
    - destruct (alookup k (conns s)) as [cn|]; [|discriminate]. destruct (c_inbox cn); [discriminate|].
      destruct (c_state cn); try discriminate; (destruct (c_eof cn); [discriminate|]; injection He as <-; apply stepped_same, Ha).
    - destruct (alookup k (conns s)); [|discriminate]. injection He as <-. apply stepped_same, Ha.
    - destruct (alookup k (conns s)); [|discriminate]. injection He as <-. apply stepped_same, Ha.
    - destruct (alookup k (conns s)); [|discriminate]. injection He as <-. apply stepped_same, Ha.
    - destruct t as [k| |id| |].
      + assert (Hcr : forall (t : state) cn, agents (conn_read t k cn) = agents t).
        { intros t cn. unfold conn_read, leave, cleanup. destruct (c_rerr cn); [reflexivity|].
          destruct (c_inbox cn) as [[m|]|]; try reflexivity. destruct (c_eof cn); reflexivity. }
        unfold conn_run in He. destruct (alookup k (conns s)) as [cn|]; [|discriminate].
        destruct (negb (conn_runnable cn)); [discriminate|].
        destruct (c_state cn).
        * destruct (Nat.leb (required cfg) (served s)); injection He as <-; [apply stepped_same, Ha|].
          rewrite Hcr. apply stepped_same, Ha.
        * injection He as <-. rewrite Hcr. apply stepped_same, Ha.
        * destruct (c_queue cn) as [|[r|] q']; [discriminate| |].
          -- destruct (c_wfail cn); injection He as <-; [apply stepped_same, Ha|]. rewrite Hcr. apply stepped_same, Ha.
          -- injection He as <-. apply stepped_same, Ha.
        * discriminate.
      + unfold dispatch_run in He. destruct (aq s) as [|x q]; [discriminate|]. injection He as <-.
        assert (Hd : forall q (t : state), agents (fold_left dispatch1 q t) = agents t).
        { induction q0 as [|[k m] tl IH]; intros t; [reflexivity|]. cbn [fold_left]. rewrite IH. destruct m; reflexivity. }
        change (stepped (agents (fold_left dispatch1 (x :: q) (set_aq s []))) c a (LRun TDispatch)).
        rewrite Hd. apply stepped_same, Ha.
      + unfold handler_run in He. destruct (find (fun h => Nat.eqb (h_id h) id) (handlers s)) as [h|] eqn:Hf; [|discriminate].
        apply find_some in Hf as [Hin Hid]. apply Nat.eqb_eq in Hid. subst id. eapply agent_step_wake; eauto.
      + unfold rewards_run in He. destruct (negb (ev_end s)); [discriminate|].
        destruct (negb (all_ended (agents s))); injection He as <-; [apply stepped_same, Ha|].
        right. simpl. rewrite alookup_map_snd, Ha. simpl. eexists. split; [reflexivity | constructor].
      + unfold reset_run in He. destruct (negb (ev_reset s)); [discriminate|].
        destruct ((match agents s with [] => false | _ => true end) && all_req (agents s)) eqn:Hall; simpl in He;
          [|injection He as <-; apply stepped_same, Ha].
        apply andb_true_iff in Hall as [_ Hall].
        destruct (fold_left _ (agents s) (wreset (world s), [], files s)) as [[w' ags] fl] eqn:Ef.
        injection He as <-. simpl.
        destruct (reset_fold_fwd (agents s) (wreset (world s)) [] (files s) c a eq_refl Ha) as [v Hv].
        rewrite Ef in Hv. simpl in Hv. right. exists (fresh_rec a v). split; [exact Hv|]. constructor.
        unfold all_req in Hall. rewrite forallb_forall in Hall. apply (Hall (c, a)), (alookup_in c _ a Ha).
  Qed.

  (* ---- corollaries: one label ---- *)

  (* identity: name and role never change *)
  Lemma achange_identity (a a' : agent) l : achange a l a' -> a_name a' = a_name a /\ a_role a' = a_role a.
  Proof.
    intros H. destruct H; try (split; reflexivity).
    unfold reward_agent. destruct (_ || _); [split; reflexivity|]. destruct (a_role a) eqn:E; simpl; auto.
  Qed.

  (* C05: a rewarded agent keeps its reward, status and flags until the reset task resets it *)
  Lemma achange_rewarded_kept (a a' : agent) l :
    achange a l a' -> a_rewarded a = true -> a_ended a = true ->
    (a_rewarded a' = true /\ a_reward a' = a_reward a /\ a_status a' = a_status a /\ a_ended a' = true /\
     a_view a' = a_view a /\ a_steps a' = a_steps a) \/
    (l = LRun TReset /\ a_req a = true /\ a_rewarded a' = false /\ a_reward a' = 0%Z /\ a_ended a' = false).
  Proof.
    intros H Hr He. destruct H; try congruence; try (left; simpl; repeat split; assumption).
    - left. rewrite (reward_agent_once cfg succ a Hr). repeat split; assumption.
    - right. simpl. repeat split; assumption.
  Qed.

  (* C04: an ended episode stays ended (and the step counter, the view and the status of an attacker stay put)
     until the reset task *)
  Lemma achange_ended_kept (a a' : agent) l :
    achange a l a' -> a_ended a = true -> l <> LRun TReset ->
    a_ended a' = true /\ a_steps a' = a_steps a /\ a_view a' = a_view a.
  Proof.
    intros H He Hl. destruct H; try congruence; try (simpl; repeat split; assumption).
    unfold reward_agent. destruct (_ || _); [repeat split; assumption|]. destruct (a_role a); simpl; repeat split; assumption.
  Qed.

  (* the bonus is added by the reward task only, to an ended agent that has not been rewarded *)
  Lemma achange_reward_changes (a a' : agent) l :
    achange a l a' -> a_ended a = true -> a_reward a' <> a_reward a ->
    (l = LRun TRewards /\ a_rewarded a = false /\ a_rewarded a' = true) \/ l = LRun TReset.
  Proof.
    intros H He Hne. destruct H; try congruence; try (simpl in Hne; congruence).
    - left. split; [reflexivity|]. unfold reward_agent in *. destruct (a_rewarded a) eqn:Er; simpl in *; [congruence|].
      rewrite He in *. simpl in *. destruct (a_role a); simpl in *; try congruence; auto.
    - right. reflexivity.
  Qed.

  (* C07: only the reset task clears the request; the episode counters are reset only with it *)
  Lemma achange_req_cleared (a a' : agent) l :
    achange a l a' -> a_req a = true -> a_req a' = false -> l = LRun TReset.
  Proof.
    intros H Hq Hq'. destruct H; try congruence; try (simpl in Hq'; congruence).
    unfold reward_agent in Hq'. destruct (_ || _); [congruence|]. destruct (a_role a); simpl in Hq'; congruence.
  Qed.

  Lemma achange_steps (a a' : agent) l : achange a l a' -> l <> LRun TReset -> a_steps a <= a_steps a' <= S (a_steps a).
  Proof.
    intros H Hl. destruct H; try congruence; simpl; try lia.
    unfold reward_agent. destruct (_ || _); [lia|]. destruct (a_role a); simpl; lia.
  Qed.

  (* C16: the trajectory grows by exactly the answered action, or restarts after the reset was answered *)
  Lemma achange_traj (a a' : agent) l :
    achange a l a' ->
    a_traj a' = a_traj a \/
    (exists act r v, a_traj a' = traj_add (a_traj a) act r v /\ a_view a' = v /\ a_reward a' = r) \/
    a_traj a' = traj_start (a_view a).
  Proof.
    intros H. destruct H; try (left; reflexivity).
    - right. left. exists act, (r_step cfg), v'. repeat split.
    - right. left. exists act, (a_reward a), (a_view a). repeat split.
    - right. right. reflexivity.
    - left. unfold reward_agent. destruct (_ || _); [reflexivity|]. destruct (a_role a); reflexivity.
  Qed.

  Lemma achange_req_kept (a a' : agent) l :
    achange a l a' -> l <> LRun TReset -> a_req a = true -> a_req a' = true.
  Proof.
    intros H Hl Hq. destruct H; try congruence; try (simpl; assumption); try reflexivity.
    unfold reward_agent. destruct (_ || _); [assumption|]. destruct (a_role a); simpl; assumption.
  Qed.

  (* ---- along executions ---- *)

  (* the agent at c was absent in some state along the run *)
  Definition gone_along (s : state) (ls : list label) (c : addr) : Prop :=
    exists ls1 ls2 s1, ls = ls1 ++ ls2 /\ execs s ls1 = Some s1 /\ alookup c (agents s1) = None.

  Theorem along (P : agent -> Prop) (ok : label -> Prop) :
    (forall a a' l, achange a l a' -> ok l -> P a -> P a') ->
    forall ls (s s' : state) c a, Inv2 s -> execs s ls = Some s' -> (forall l, In l ls -> ok l) ->
      alookup c (agents s) = Some a -> P a ->
      (exists a', alookup c (agents s') = Some a' /\ P a') \/ gone_along s ls c.
  Proof.
    intros HP. induction ls as [|l tl IH]; intros s s' c a Hi He Hok Ha Hp.
    - injection He as <-. left. eauto.
    - cbn [Coord.execs] in He. destruct (exec s l) as [s1|] eqn:E; [|discriminate].
      destruct (agent_step s s1 l c a Hi E Ha) as [Hn|(a1 & Ha1 & Hc)].
      + right. exists [l], tl, s1. split; [reflexivity|]. split; [cbn [Coord.execs]; rewrite E; reflexivity | exact Hn].
      + assert (Hi1 : Inv2 s1) by (eapply inv2_exec; eauto).
        assert (Hp1 : P a1) by (eapply HP; eauto; apply Hok; left; reflexivity).
        destruct (IH s1 s' c a1 Hi1 He (fun l0 H0 => Hok l0 (or_intror H0)) Ha1 Hp1) as [H|(ls1 & ls2 & s2 & E1 & E2 & E3)]; [left; exact H|].
        right. exists (l :: ls1), ls2, s2. split; [simpl; congruence|]. split; [cbn [Coord.execs]; rewrite E; exact E2 | exact E3].
  Qed.

  Definition no_reset (ls : list label) : Prop := forall l, In l ls -> l <> LRun TReset.

  (* C05: exactly once.  From the moment an agent has been rewarded, whatever happens (any labels, any
     interleaving, other agents acting, leaving, joining, the reward task running again), its reward, status,
     view and counters are exactly the same for as long as it is in the game and the reset task has not run *)
  Theorem rewarded_along ls (s s' : state) c a :
    Inv2 s -> execs s ls = Some s' -> no_reset ls -> alookup c (agents s) = Some a -> a_rewarded a = true ->
    (exists a', alookup c (agents s') = Some a' /\ a_rewarded a' = true /\ a_ended a' = true /\ a_reward a' = a_reward a /\
                a_status a' = a_status a /\ a_view a' = a_view a /\ a_steps a' = a_steps a) \/ gone_along s ls c.
  Proof.
    intros Hi He Hok Ha Hr.
    assert (Hend : a_ended a = true) by (destruct Hi as [_ Hj]; apply (J_rewarded _ _ Hj c a Ha Hr)).
    apply (along (fun a' => a_rewarded a' = true /\ a_ended a' = true /\ a_reward a' = a_reward a /\
                            a_status a' = a_status a /\ a_view a' = a_view a /\ a_steps a' = a_steps a)
                 (fun l => l <> LRun TReset)) with (a := a); try assumption; [|repeat split; assumption].
    intros a0 a1 l Hc Hl (H1 & H2 & H3 & H4 & H5 & H6).
    destruct (achange_rewarded_kept a0 a1 l Hc H1 H2) as [(K1 & K2 & K3 & K4 & K5 & K6)|(K & _)]; [|contradiction].
    repeat split; congruence.
  Qed.

  (* C04: an ended episode stays ended; the step counter and the view do not move any more *)
  Theorem ended_along ls (s s' : state) c a :
    Inv2 s -> execs s ls = Some s' -> no_reset ls -> alookup c (agents s) = Some a -> a_ended a = true ->
    (exists a', alookup c (agents s') = Some a' /\ a_ended a' = true /\ a_steps a' = a_steps a /\ a_view a' = a_view a) \/
    gone_along s ls c.
  Proof.
    intros Hi He Hok Ha Hr.
    apply (along (fun a' => a_ended a' = true /\ a_steps a' = a_steps a /\ a_view a' = a_view a)
                 (fun l => l <> LRun TReset)) with (a := a); try assumption; [|repeat split; assumption].
    intros a0 a1 l Hc Hl (H1 & H2 & H3).
    destruct (achange_ended_kept a0 a1 l Hc H1 Hl) as (K1 & K2 & K3). repeat split; congruence.
  Qed.

  (* C07: a reset request stays registered until the reset task runs *)
  Theorem request_along ls (s s' : state) c a :
    Inv2 s -> execs s ls = Some s' -> no_reset ls -> alookup c (agents s) = Some a -> a_req a = true ->
    (exists a', alookup c (agents s') = Some a' /\ a_req a' = true) \/ gone_along s ls c.
  Proof.
    intros Hi He Hok Ha Hr.
    apply (along (fun a' => a_req a' = true) (fun l => l <> LRun TReset)) with (a := a); try assumption.
    intros a0 a1 l Hc Hl H1. eapply achange_req_kept; eauto.
  Qed.

  (* name and role of the agent behind an address never change, resets included *)
  Theorem identity_along ls (s s' : state) c a :
    Inv2 s -> execs s ls = Some s' -> alookup c (agents s) = Some a ->
    (exists a', alookup c (agents s') = Some a' /\ a_name a' = a_name a /\ a_role a' = a_role a) \/ gone_along s ls c.
  Proof.
    intros Hi He Ha.
    apply (along (fun a' => a_name a' = a_name a /\ a_role a' = a_role a) (fun _ => True)) with (a := a); try assumption; auto.
    intros a0 a1 l Hc _ (H1 & H2). destruct (achange_identity a0 a1 l Hc) as (K1 & K2). split; congruence.
  Qed.

  (* C16: trajectories of all agents are well formed in every reachable state, and one label changes a
     trajectory only by appending the answered step or by restarting it after RESET_DONE *)
  Theorem traj_step (s s' : state) l c a :
    Inv2 s -> exec s l = Some s' -> alookup c (agents s) = Some a ->
    alookup c (agents s') = None \/
    exists a', alookup c (agents s') = Some a' /\
      (a_traj a' = a_traj a \/
       (exists act r v, a_traj a' = traj_add (a_traj a) act r v /\ a_view a' = v /\ a_reward a' = r) \/
       a_traj a' = traj_start (a_view a)).
  Proof.
    intros Hi He Ha. destruct (agent_step s s' l c a Hi He Ha) as [H|(a' & Ha' & Hc)]; [left; exact H|].
    right. exists a'. split; [exact Ha' | eapply achange_traj; eauto].
  Qed.

  (* the reachable-state versions *)
  Theorem rewarded_once_reachable w ls0 ls (s s' : state) c a :
    execs (init_state w) ls0 = Some s -> execs s ls = Some s' -> no_reset ls ->
    alookup c (agents s) = Some a -> a_rewarded a = true ->
    (exists a', alookup c (agents s') = Some a' /\ a_rewarded a' = true /\ a_ended a' = true /\ a_reward a' = a_reward a /\
                a_status a' = a_status a /\ a_view a' = a_view a /\ a_steps a' = a_steps a) \/ gone_along s ls c.
  Proof. intros H0. apply rewarded_along. eapply inv2_reachable; eauto. Qed.

  Theorem ended_stays_reachable w ls0 ls (s s' : state) c a :
    execs (init_state w) ls0 = Some s -> execs s ls = Some s' -> no_reset ls ->
    alookup c (agents s) = Some a -> a_ended a = true ->
    (exists a', alookup c (agents s') = Some a' /\ a_ended a' = true /\ a_steps a' = a_steps a /\ a_view a' = a_view a) \/
    gone_along s ls c.
  Proof. intros H0. apply ended_along. eapply inv2_reachable; eauto. Qed.

  Theorem request_stays_reachable w ls0 ls (s s' : state) c a :
    execs (init_state w) ls0 = Some s -> execs s ls = Some s' -> no_reset ls ->
    alookup c (agents s) = Some a -> a_req a = true ->
    (exists a', alookup c (agents s') = Some a' /\ a_req a' = true) \/ gone_along s ls c.
  Proof. intros H0. apply request_along. eapply inv2_reachable; eauto. Qed.

  Theorem agent_step_reachable w ls0 (s s' : state) l c a :
    execs (init_state w) ls0 = Some s -> exec s l = Some s' -> alookup c (agents s) = Some a -> stepped (agents s') c a l.
  Proof. intros H0. apply agent_step. eapply inv2_reachable; eauto. Qed.

  Theorem traj_step_reachable w ls0 (s s' : state) l c a :
    execs (init_state w) ls0 = Some s -> exec s l = Some s' -> alookup c (agents s) = Some a ->
    alookup c (agents s') = None \/
    exists a', alookup c (agents s') = Some a' /\
      (a_traj a' = a_traj a \/
       (exists act r v, a_traj a' = traj_add (a_traj a) act r v /\ a_view a' = v /\ a_reward a' = r) \/
       a_traj a' = traj_start (a_view a)).
  Proof. intros H0. apply traj_step. eapply inv2_reachable; eauto. Qed.

  Theorem traj_wf_reachable w ls (s : state) c a :
    execs (init_state w) ls = Some s -> alookup c (agents s) = Some a -> traj_wf (a_traj a).
  Proof. intros H0 Ha. destruct (inv2_reachable wstep wreset winit goal detect cfg w ls s H0) as [_ Hj]. apply (J_traj _ _ Hj c a Ha). Qed.

  (* a rewarded agent has finished its episode; a handler parked at the rewards barrier belongs to a finished
     agent and will report exactly the stored view *)
  Theorem rewarded_ended_reachable w ls (s : state) c a :
    execs (init_state w) ls = Some s -> alookup c (agents s) = Some a -> a_rewarded a = true -> a_ended a = true.
  Proof. intros H0 Ha. destruct (inv2_reachable wstep wreset winit goal detect cfg w ls s H0) as [_ Hj]. apply (J_rewarded _ _ Hj c a Ha). Qed.

  Theorem parked_view_reachable w ls (s : state) h rel act v' :
    execs (init_state w) ls = Some s -> In h (handlers s) -> h_pc h = PRewards rel act v' ->
    exists a, alookup (h_addr h) (agents s) = Some a /\ a_ended a = true /\ a_view a = v' /\ a_req a = false.
  Proof. intros H0. destruct (inv2_reachable wstep wreset winit goal detect cfg w ls s H0) as [_ Hj]. apply (J_parked _ _ Hj). Qed.

  Theorem request_has_handler_reachable w ls (s : state) c a :
    execs (init_state w) ls = Some s -> alookup c (agents s) = Some a -> a_req a = true ->
    exists h, In h (handlers s) /\ h_addr h = c /\ waiting_reset h.
  Proof. intros H0. destruct (inv2_reachable wstep wreset winit goal detect cfg w ls s H0) as [_ Hj]. apply (J_req _ _ Hj). Qed.
End AgentStep.
