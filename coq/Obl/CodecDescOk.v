(* Per-run obligations of C14/C15: the shapes of the codec functions in game_components.py and
   utils.observation_as_dict (regenerated into Gen/CodecDesc.v on every run) are exactly the shapes
   that Model/Codec.v and Model/ViewCodec.v implement.  The right-hand sides below are part of
   the model: change them only together with the model. *)
From Coq Require Import String List.
From NSG Require Import Gen.CodecDesc.
Import ListNotations.
Open Scope string_scope.

Theorem desc_fields_IP_ok : gen_fields_IP = [("ip", "str", None)].
Proof. reflexivity. Qed.

Theorem desc_fields_Network_ok : gen_fields_Network = [("ip", "str", None); ("mask", "int", None)].
Proof. reflexivity. Qed.

Theorem desc_fields_Service_ok : gen_fields_Service = [("name", "str", None); ("type", "str", Some "'unknown'"); ("version", "str", Some "'unknown'"); ("is_local", "bool", Some "True")].
Proof. reflexivity. Qed.

Theorem desc_fields_Data_ok : gen_fields_Data = [("owner", "str", None); ("id", "str", None); ("size", "int", Some "0"); ("type", "str", Some "''")].
Proof. reflexivity. Qed.

Theorem desc_fields_AgentInfo_ok : gen_fields_AgentInfo = [("name", "str", None); ("role", "str", None)].
Proof. reflexivity. Qed.

Theorem desc_ip_repr_ok : gen_ip_repr = "return self.ip".
Proof. reflexivity. Qed.

Theorem desc_from_dict_arms_ok : gen_from_dict_arms = [(["source_host"; "target_host"; "blocked_host"], "params[k] = IP.from_dict(v)"); (["target_network"], "params[k] = Network.from_dict(v)"); (["target_service"], "params[k] = Service.from_dict(v)"); (["data"], "params[k] = Data.from_dict(v)"); (["agent_info"], "params[k] = AgentInfo.from_dict(v)"); (["request_trajectory"], "params[k] = ast.literal_eval(v)"); (["_"], "raise ValueError(f'Unsupported value in {k}: {v}')")].
Proof. reflexivity. Qed.

Theorem desc_from_dict_frame_ok : gen_from_dict_frame = ["action_type = ActionType.from_string(data_dict['action_type'])"; "params = {}"; "return cls(action_type=action_type, parameters=params)"].
Proof. reflexivity. Qed.

(* ActionType.from_string removes the enum prefix only where it LEADS the text (Model/Codec.v strip_prefix) and looks the rest up by name *)
Theorem desc_atype_from_string_ok : gen_atype_from_string = ["if name.startswith('ActionType.'):
    name = name[len('ActionType.'):]"; "try:
    return cls[name]
except KeyError:
    raise ValueError(f'Invalid ActionType: {name}')"].
Proof. reflexivity. Qed.

Theorem desc_action_from_json_ok : gen_action_from_json = ["data_dict = json.loads(json_string)"; "return cls.from_dict(data_dict)"].
Proof. reflexivity. Qed.

Theorem desc_action_to_json_ok : gen_action_to_json = ["return json.dumps(self.as_dict)"].
Proof. reflexivity. Qed.

Theorem desc_action_hash_ok : gen_action_hash = ["sorted_params = tuple(sorted(((k, hash(v)) for k, v in self.parameters.items())))"; "return hash((self.action_type, sorted_params))"].
Proof. reflexivity. Qed.

Theorem desc_view_enc_ok : gen_view_enc = [("known_networks", "[dataclasses.asdict(x) for x in self.known_networks]"); ("known_hosts", "[dataclasses.asdict(x) for x in self.known_hosts]"); ("controlled_hosts", "[dataclasses.asdict(x) for x in self.controlled_hosts]"); ("known_services", "{str(host): [dataclasses.asdict(s) for s in services] for host, services in self.known_services.items()}"); ("known_data", "{str(host): [dataclasses.asdict(d) for d in data] for host, data in self.known_data.items()}"); ("known_blocks", "{str(target_host): [dataclasses.asdict(blocked_host) for blocked_host in blocked_hosts] for target_host, blocked_hosts in self.known_blocks.items()}")].
Proof. reflexivity. Qed.

Theorem desc_view_from_dict_ok : gen_view_from_dict = [("controlled_hosts", "{IP(x['ip']) for x in D['controlled_hosts']}"); ("known_blocks", "known_blocks"); ("known_data", "{IP(k): {Data(v['owner'], v['id'], v.get('size', 0), v.get('type', '')) for v in values} for k, values in D['known_data'].items()}"); ("known_hosts", "{IP(x['ip']) for x in D['known_hosts']}"); ("known_networks", "{Network(x['ip'], x['mask']) for x in D['known_networks']}"); ("known_services", "{IP(k): {Service(s['name'], s['type'], s['version'], s['is_local']) for s in services} for k, services in D['known_services'].items()}")].
Proof. reflexivity. Qed.

Theorem desc_view_from_json_ok : gen_view_from_json = [("controlled_hosts", "{IP(x['ip']) for x in D['controlled_hosts']}"); ("known_blocks", "{IP(target_host): {IP(blocked_host['ip']) for blocked_host in blocked_hosts} for target_host, blocked_hosts in D['known_blocks'].items()}"); ("known_data", "{IP(k): {Data(v['owner'], v['id'], v.get('size', 0), v.get('type', '')) for v in values} for k, values in D['known_data'].items()}"); ("known_hosts", "{IP(x['ip']) for x in D['known_hosts']}"); ("known_networks", "{Network(x['ip'], x['mask']) for x in D['known_networks']}"); ("known_services", "{IP(k): {Service(s['name'], s['type'], s['version'], s['is_local']) for s in services} for k, services in D['known_services'].items()}")].
Proof. reflexivity. Qed.

Theorem desc_view_from_json_pre_ok : gen_view_from_json_pre = ["D = json.loads(json_string)"; "return state"].
Proof. reflexivity. Qed.

Theorem desc_view_as_json_ok : gen_view_as_json = ["ret_dict = self.as_dict"; "return json.dumps(ret_dict)"].
Proof. reflexivity. Qed.

Theorem desc_obs_ok : gen_obs = [("state", "observation.state.as_dict"); ("reward", "observation.reward"); ("end", "observation.end"); ("info", "observation.info")].
Proof. reflexivity. Qed.
