"""C08: a reset restores the world."""
import check as CK
from props import worldcommon as WC
from props.c02 import ASSUME, replay

TRANSLATORS = []
COQ_FILES = ["Props/C08.v"]


def correspondence(ctx):
    th = ctx.tier == "thorough"
    WC.world_suite(ctx, "C08", tags={"reset", "init", "load"}, walks_per_spec=4 if th else 1, n_generated=24 if th else 6,
                   n_steps=160 if th else 80, perturb=0.0, resets=20)
    ctx.assumptions += ASSUME + ["static addresses (dynamic re-labelling is C13)"]
