"""Coordinator sessions on the real code, recorded as label sequences with the observable state
after every atomic task step, for the trace-following correspondence with Model/Coord.v.

Requires PYTHONPATH=/verif/harness/pyshim:/repo:/verif/harness."""
import ast
import asyncio
import copy
import inspect
import json
import os
import shutil
import tempfile
from fractions import Fraction

import nsgenv
import worldlib as WL
from driver import Driver

REPO = os.environ.get("VERIF_REPO", "/repo")
ROLE_CODE = {"Attacker": 0, "Defender": 1, "Benign": 2}
STATUS_CODE = {"Playing": 0, "PlayingWithTimeout": 1, "TimeoutReached": 2, "Success": 3, "Fail": 4}
ATYPES = ["ScanNetwork", "FindServices", "FindData", "ExploitService", "ExfiltrateData", "BlockIP", "JoinGame", "QuitGame", "ResetGame"]


def await_table():
    """(function name, line) -> code of the await the task is parked at; recomputed from the
    source's AST on every run so that edits which move lines do not matter."""
    src = open(os.path.join(REPO, "AIDojoCoordinator/coordinator.py")).read()
    tree = ast.parse(src)
    tab = {}
    for fn in ast.walk(tree):
        if isinstance(fn, ast.AsyncFunctionDef):
            for n in ast.walk(fn):
                if isinstance(n, ast.Await):
                    t = ast.unparse(n.value)
                    code = None
                    if fn.name == "_process_join_game_action" and t == "self._episode_start_event.wait()":
                        code = 1
                    elif fn.name == "_process_game_action" and t == "self._episode_rewards_condition.wait()":
                        code = 2
                    elif fn.name == "_process_reset_game_action" and t == "self._reset_done_condition.wait()":
                        code = 3
                    elif fn.name == "_process_reset_game_action" and t == "self._episode_start_event.wait()":
                        code = 4
                    elif fn.name == "handle_new_agent" and t.startswith("reader.read("):
                        code = "read"
                    elif fn.name == "handle_new_agent" and "response_queue.get()" in t:
                        code = "get"        # also when wrapped (e.g. in asyncio.wait_for): the timer monitor deals with that
                    if code is not None:
                        for ln in range(n.lineno, (n.end_lineno or n.lineno) + 1):
                            tab[(fn.name, ln)] = code
    need = {1, 2, 3, 4, "read", "get"}
    if not need <= set(tab.values()):
        raise RuntimeError(f"coordinator.py: cannot locate the awaits {need - set(tab.values())}")
    return tab


def canon_json(x):
    """Canonical text of a JSON-like value in which lists that encode sets are sorted."""
    def norm(v):
        if isinstance(v, dict):
            return {k: norm(val) for k, val in sorted(v.items())}
        if isinstance(v, list):
            return sorted((norm(i) for i in v), key=lambda z: json.dumps(z, sort_keys=True))
        return v
    return json.dumps(norm(x), sort_keys=True)


# rewards may be fractions (the configuration accepts any number): the model computes in Z, so a session whose rewards are
# multiples of 1/RSCALE is followed at that scale (the coordinator only adds configured values)
RSCALE = [1]


def zsigned(z):
    v = z * RSCALE[0]
    if v != int(v):
        return [2, 0]           # not a multiple of the configured granularity: no state of the model serialises to this
    v = int(v)
    return [1 if v < 0 else 0, abs(v)]


def reward_scale(cfg):
    rew = (cfg.get("env") or {}).get("rewards") or {}
    vals = [v for v in rew.values() if isinstance(v, (int, float)) and not isinstance(v, bool)]
    return 1 if all(float(v).is_integer() for v in vals) else 16


def ser_list(f, l):
    out = [len(l)]
    for x in l:
        out += f(x)
    return out


class Session:
    def __init__(self, cfg, seed=42, draw=None, objs=None, workdir=None):
        self.cfg = cfg
        self.draw = draw
        self.trace = []          # (label term, serialised state)
        self.events = []         # replayable description of the external events
        self.views = {}          # canonical view json -> id
        self.view_objs = {}      # id -> as_dict
        self.actions = {}        # canonical action dict -> id
        self.names = {}
        self.addr_ids = {}
        self.conn_order = []
        self.oracle = []         # view ids returned by the world, in call order
        self.handler_ids = {}    # task -> id
        self.handler_tasks = []
        self.tab = await_table()
        self.cwd0 = os.getcwd()
        self.workdir = workdir or tempfile.mkdtemp(prefix="sess_", dir=nsgenv.BUILD)
        os.makedirs(self.workdir, exist_ok=True)
        os.chdir(self.workdir)
        RSCALE[0] = reward_scale(cfg)
        self.rscale = RSCALE[0]
        import AIDojoCoordinator.global_defender as gd
        self._gd = gd
        self._gd_random = gd.random
        if draw is not None:
            gd.random = lambda: draw
        from AIDojoCoordinator.utils.utils import ConfigParser
        orig = ConfigParser.get_scenario
        if objs is not None:
            ConfigParser.get_scenario = lambda self_: objs
        try:
            self.d = nsgenv.start(cfg, seed=seed)
        finally:
            ConfigParser.get_scenario = orig
        self.g = self.d.g
        g = self.g
        # record the results of the world calls (instance attributes, no source change)
        for name in ("step", "register_agent", "reset_agent"):
            orig_m = getattr(g, name)

            def wrap(orig_m=orig_m):
                async def w(*a, **k):
                    r = await orig_m(*a, **k)
                    self.oracle.append(self.view_id(r))
                    return r
                return w
            setattr(g, name, wrap())
        self.d.on_segment = self._segment
        self._orig_create = None
        # handler ids: creation order of the handler tasks
        orig_spawn = g._spawn_task

        def spawn(coroutine, *a, **k):
            t = orig_spawn(coroutine, *a, **k)
            if coroutine.__name__.startswith("_process_"):
                self.handler_ids[t] = len(self.handler_ids)
                self.handler_tasks.append(t)
            return t
        g._spawn_task = spawn

    # ---- interning -----------------------------------------------------------------------------
    def aid(self, addr):
        if addr not in self.addr_ids:
            self.addr_ids[addr] = len(self.addr_ids) + 1
        return self.addr_ids[addr]

    def view_id(self, gs_or_dict):
        d = gs_or_dict if isinstance(gs_or_dict, dict) else gs_or_dict.as_dict
        k = canon_json(d)
        if k not in self.views:
            self.views[k] = len(self.views) + 1
            # for the reference goal check: the view in the scenario's own addresses (dynamic addresses: read back through the
            # address maps published by the world at the moment the view first appears)
            self.view_objs[self.views[k]] = self.view_back(json.loads(json.dumps(d)))
        return self.views[k]

    def view_back(self, d):
        g = getattr(self, "g", None)
        ipm = getattr(g, "_ip_mapping", None) if g is not None else None
        if not ipm or all(str(a) == str(b) for a, b in ipm.items()):
            return d
        back = {str(cur): str(orig) for orig, cur in ipm.items()}
        nback = {(str(cur.ip), cur.mask): (str(orig.ip), orig.mask) for orig, cur in getattr(g, "_network_mapping", {}).items()}
        t = lambda x: back.get(x, x)

        def net(n):
            a, m = nback.get((n["ip"], n["mask"]), (n["ip"], n["mask"]))
            return {"ip": a, "mask": m}
        return {"known_networks": [net(n) for n in d["known_networks"]],
                "known_hosts": [{"ip": t(h["ip"])} for h in d["known_hosts"]],
                "controlled_hosts": [{"ip": t(h["ip"])} for h in d["controlled_hosts"]],
                "known_services": {t(k): v for k, v in d["known_services"].items()},
                "known_data": {t(k): v for k, v in d["known_data"].items()},
                "known_blocks": {t(k): [{"ip": t(b["ip"])} for b in v] for k, v in d["known_blocks"].items()}}

    def action_id(self, a_or_dict):
        d = a_or_dict if isinstance(a_or_dict, dict) else a_or_dict.as_dict
        k = json.dumps(d, sort_keys=True)
        if k not in self.actions:
            self.actions[k] = len(self.actions) + 1
        return self.actions[k]

    def name_id(self, n):
        if n not in self.names:
            self.names[n] = len(self.names) + 1
        return self.names[n]

    # ---- serialisation of the implementation's observable state --------------------------------
    def ser_traj(self, t):
        tr = t["trajectory"]
        return (ser_list(lambda s: [self.view_id(s)], tr["states"]) + ser_list(lambda a: [self.action_id(a)], tr["actions"]) +
                ser_list(zsigned, tr["rewards"]))

    def ser_resp_doc(self, doc):
        st = doc.get("status")
        if st == "GameStatus.BAD_REQUEST":
            return [0]
        obs = doc.get("observation")
        if st == "GameStatus.CREATED":
            return [1, self.view_id(obs["state"])]
        if st == "GameStatus.OK":
            er = obs["info"].get("end_reason")
            return [2, self.view_id(obs["state"])] + zsigned(obs["reward"]) + [1 if obs["end"] else 0,
                                                                              0 if er is None else 1 + STATUS_CODE[er.replace("AgentStatus.", "")]]
        if st == "GameStatus.FORBIDDEN":
            return [3, self.view_id(obs["state"])] + zsigned(obs["reward"]) + [STATUS_CODE[obs["info"]["end_reason"].replace("AgentStatus.", "")]]
        if st == "GameStatus.RESET_DONE":
            lt = doc["message"].get("last_trajectory")
            return [4, self.view_id(obs["state"])] + zsigned(obs["reward"]) + [1 if obs["end"] else 0] + ([1] + self.ser_traj(lt) if lt is not None else [0])
        raise ValueError(f"unknown response {doc}")

    def conn_state(self, c):
        t = c.task
        if t.done():
            return 3
        coro = t.get_coro()
        if inspect.getcoroutinestate(coro) == inspect.CORO_CREATED:
            return 0
        inner = coro.cr_await
        if inner is None or not hasattr(inner, "cr_frame") or inner.cr_frame is None:
            return 3
        code = self.tab.get(("handle_new_agent", inner.cr_frame.f_lineno))
        return {"read": 1, "get": 2}.get(code, 3)

    def handler_pc(self, t):
        coro = t.get_coro()
        if inspect.getcoroutinestate(coro) == inspect.CORO_CREATED:
            return [0]
        fr = coro.cr_frame
        code = self.tab.get((coro.__name__, fr.f_lineno))
        loc = fr.f_locals
        if code == 1:
            return [1, self.view_id(loc["observation"].state)]
        if code == 2:
            return [2, self.action_id(loc["action"]), self.view_id(loc["new_state"])]
        if code in (3, 4):
            ra = loc["reset_action"]
            return [code, 1 if ra.parameters.get("request_trajectory") else 0]
        return [99, fr.f_lineno]

    def ser_files(self):
        recs = []
        d = os.path.join(self.workdir, "trajectories")
        if os.path.isdir(d):
            for fn in sorted(os.listdir(d)):
                with open(os.path.join(d, fn)) as f:
                    for line in f:
                        if line.strip():
                            r = json.loads(line)
                            recs.append((self.name_id(r["agent_name"]), ROLE_CODE[r["agent_role"]], r))
        recs.sort(key=lambda x: (x[0], x[1]))       # stable: insertion order within a file is kept
        return ser_list(lambda x: [x[0], x[1]] + self.ser_traj(x[2]), recs)

    def ser(self):
        g, d = self.g, self.d
        srv = d.server_cb
        out = [srv.current_connections, int(g._episode_start_event.is_set()), int(g._episode_end_event.is_set()),
               int(g._reset_event.is_set()), g._agent_action_queue.qsize()]

        def agent(addr):
            name, role = g.agents[addr]
            obs = g._agent_observations[addr]
            return ([self.aid(addr), self.name_id(name), ROLE_CODE[role], g._agent_steps[addr], int(g._reset_requests[addr]),
                     STATUS_CODE[g._agent_status[addr].value], int(g._episode_ends[addr]), self.view_id(g._agent_states[addr])] +
                    zsigned(g._agent_rewards[addr]) + [int(addr in g._agents_rewarded)] +
                    [self.view_id(obs.state)] + zsigned(obs.reward) + [int(obs.end)] + self.ser_traj(g._agent_trajectories[addr]))
        out += ser_list(agent, list(g.agents))

        def conn(addr):
            c = d.conns[addr]
            q = srv.answers_queues.get(addr)
            items = list(q._queue) if q is not None else []
            qs = ser_list(lambda it: [9] if it is None else self.ser_resp_doc(json.loads(it)), items)
            def _resp(raw):
                try:
                    doc = json.loads(raw[:-3].decode())
                    if not isinstance(doc, dict):
                        raise ValueError
                except Exception:
                    return [99]            # not a JSON document: no response of the model serialises to this
                return self.ser_resp_doc(doc)
            outs = ser_list(_resp, c.writer.chunks)
            return [self.aid(addr), self.conn_state(c)] + qs + outs
        out += ser_list(conn, self.conn_order)
        live = [t for t in self.handler_tasks if not t.done()]
        out += ser_list(lambda t: [self.handler_ids[t], self.aid(self._task_addr(t))] + self.handler_pc(t), live)
        out += self.ser_files()
        return out

    def _task_addr(self, t):
        coro = t.get_coro()
        fr = coro.cr_frame
        if fr is not None and "agent_addr" in fr.f_locals:
            t._verif_addr = fr.f_locals["agent_addr"]
        return getattr(t, "_verif_addr", None)

    # ---- task steps -> labels ------------------------------------------------------------------------
    def _segment(self, lab, task):
        name, addr = lab
        if name in ("__call__", "handle_new_agent"):
            term = f"LRun (TConn {self.aid(self._conn_addr(task))}%N)"
        elif name == "run_game":
            term = "LRun TDispatch"
        elif name.startswith("_process_"):
            term = f"LRun (THandler {self.handler_ids[task]})"
        elif name == "_assign_rewards_episode_end":
            term = "LRun TRewards"
        elif name == "_reset_game":
            term = "LRun TReset"
        else:
            return
        self.trace.append((term, self.ser()))

    def _conn_addr(self, task):
        for a, c in self.d.conns.items():
            if c.task is task:
                return a
        raise KeyError(task)

    # ---- external events ----------------------------------------------------------------------------
    def connect(self, addr, peer=None):
        self.d.connect(addr, peer)
        self.conn_order.append(addr)
        # remember the address for the label of the (possibly already finished) task
        self.trace.append((f"LConnect {self.aid(addr)}%N", self.ser()))
        self.events.append(["connect", list(addr)])

    def send(self, addr, text, desc):
        """desc: model-level description of the message (independent of the implementation's parser)."""
        c = self.d.conns[addr]
        if c.task.done() or len(c.reader._buffer) != 0 or c.reader._eof or c.reader._exception is not None:
            # the peer cannot send on a connection the server has ended, after its own EOF/abort, or a second message while the
            # first is unread (it would be coalesced into one malformed chunk): not an event of the model, skipped
            self.skipped_sends = getattr(self, "skipped_sends", 0) + 1
            return False
        self.d.send(addr, text)
        self.trace.append((f"LArrive {self.aid(addr)}%N {self.chunk_term(desc)}", self.ser()))
        self.events.append(["send", list(addr), text if isinstance(text, str) else text.hex(), desc])
        return True

    def eof(self, addr):
        self.d.eof(addr)
        self.trace.append((f"LEof {self.aid(addr)}%N", self.ser()))
        self.events.append(["eof", list(addr)])

    def read_error(self, addr):
        # a connection can die in more than one way: a reset (ConnectionError) or another operating-system error (a time-out of a
        # dead peer, no route to host) - every second injected fault is of the second kind
        self.read_faults = getattr(self, "read_faults", 0) + 1
        self.d.read_error(addr, None if self.read_faults % 2 else TimeoutError(110, "Connection timed out"))
        self.trace.append((f"LReadErr {self.aid(addr)}%N", self.ser()))
        self.events.append(["readerr", list(addr)])

    def write_fail(self, addr):
        self.write_faults_n = getattr(self, "write_faults_n", 0) + 1
        self.d.write_error(addr, None if self.write_faults_n % 2 else OSError(113, "No route to host"), on="write")
        self.trace.append((f"LWriteFail {self.aid(addr)}%N", self.ser()))
        self.events.append(["writefail", list(addr)])

    def settle(self):
        self.d.settle()
        self.events.append(["settle"])

    def run_iters(self, k):
        self.d.run_iters(k)
        self.events.append(["run", k])

    def chunk_term(self, desc):
        k = desc["kind"]
        if k == "undecodable":
            return "CUndecodable"
        if k == "garbage":
            return "(CMsg MGarbage)"
        if k == "join":
            if not desc.get("info", True):
                return "(CMsg (MJoin None))"
            role = desc["role"]
            r = {"Attacker": "RAttacker", "Defender": "RDefender", "Benign": "RBenign"}.get(role) if isinstance(role, str) else None
            return f"(CMsg (MJoin (Some ({self.name_id(desc['name'])}%N, {('Some ' + r) if r else 'None'}))))"
        if k == "quit":
            return "(CMsg MQuit)"
        if k == "reset":
            return f"(CMsg (MReset {'true' if desc.get('traj') else 'false'}))"
        if k == "game":
            return f"(CMsg (MGame ({desc['atype']}, {self.action_id(desc['as_dict'])}%N) {'true' if desc['valid'] else 'false'}))"
        raise ValueError(k)

    def close(self):
        try:
            self.d.close()
        finally:
            self._gd.random = self._gd_random
            os.chdir(self.cwd0)
            shutil.rmtree(self.workdir, ignore_errors=True)


# ------------------------------------------------------------------------------------------------------
# reference goal check (independent of coordinator.goal_check): every goal component is included

def ref_goal(goal, view_dict):
    """goal: {'known_networks': [...'a/m'], 'known_hosts': [...], 'controlled_hosts': [...],
    'known_services': {ip: [[name,type,version,is_local]...]}, 'known_data': {ip: [[owner,id]...]},
    'known_blocks': {ip: [ip...]}} as written in the configuration; view_dict: GameState.as_dict."""
    nets = {f"{n['ip']}/{n['mask']}" for n in view_dict["known_networks"]}
    hosts = {h["ip"] for h in view_dict["known_hosts"]}
    ctrl = {h["ip"] for h in view_dict["controlled_hosts"]}
    if not set(goal.get("known_networks", [])) <= nets:
        return False
    if not set(goal.get("known_hosts", [])) <= hosts:
        return False
    if not set(goal.get("controlled_hosts", [])) <= ctrl:
        return False
    for ip_, svcs in goal.get("known_services", {}).items():
        have = {(s["name"], s["type"], s["version"], s["is_local"]) for s in view_dict["known_services"].get(ip_, [])} if ip_ in view_dict["known_services"] else None
        if have is None or not {tuple(s) for s in svcs} <= have:
            return False
    for ip_, data in goal.get("known_data", {}).items():
        have = {(d["owner"], d["id"]) for d in view_dict["known_data"].get(ip_, []) if d.get("size", 0) == 0 and d.get("type", "") == ""} if ip_ in view_dict["known_data"] else None
        if have is None or not {tuple(d) for d in data} <= have:
            return False
    for ip_, bl in goal.get("known_blocks", {}).items():
        have = {b["ip"] for b in view_dict["known_blocks"].get(ip_, [])} if ip_ in view_dict["known_blocks"] else None
        if have is None or not set(bl) <= have:
            return False
    return True


def session_to_coq(sess, goals_by_role, use_defender):
    """The Coq case file for one recorded session."""
    cfg = sess.cfg
    env = cfg["env"]
    ag = cfg["coordinator"]["agents"]

    def ms(role):
        v = ag.get(role, {}).get("max_steps")
        return "None" if v is None else f"(Some {int(v)})"
    rew = env.get("rewards", {})
    goal_tab = []
    for vid, vd in sess.view_objs.items():
        for role, code in ROLE_CODE.items():
            g = goals_by_role.get(role)
            if g is not None and ref_goal(g, vd):
                goal_tab.append(f"({code}%Z, {vid}%N)")
    draw = Fraction(sess.draw) if sess.draw is not None else Fraction(0)
    L = ["From Coq Require Import ZArith NArith List Bool.",
         "From NSG Require Import Base.Prelude Model.Defender Model.Coord Model.CoordExec Gen.DefenderTables.",
         "Import ListNotations.",
         "Definition cfg : config := {| required := %d; max_steps := fun r => match r with RAttacker => %s | RDefender => %s | RBenign => %s end;"
         " r_step := (%d)%%Z; r_succ := (%d)%%Z; r_fail := (%d)%%Z; allowed := fun _ => true; save_traj := %s |}." %
         (int(env.get("required_players", 1)), ms("Attacker"), ms("Defender"), ms("Benign"), int(round(rew.get("step", 0) * sess.rscale)), int(round(rew.get("success", 0) * sess.rscale)),
          int(round(rew.get("fail", 0) * sess.rscale)), "true" if env.get("save_trajectories") else "false"),
         "Definition goal_tab : list (Z * N) := [" + "; ".join(goal_tab) + "].",
         "Definition oracle : list N := [" + "; ".join(f"{v}%N" for v in sess.oracle) + "].",
         f"Definition tabs : option tables := {'Some gen_tables' if use_defender else 'None'}.",
         f"Definition roll : rat := (({draw.numerator})%Z, ({draw.denominator})%positive).",
         "Definition tr : list (@label xG * list Z) := ["]
    L.append(";\n".join(f"({lab}, [{'; '.join(str(z) for z in ser)}]%Z)" for lab, ser in sess.trace))
    L.append("].")
    L.append("Eval vm_compute in (follow goal_tab tabs roll cfg 0 (init_state oracle) tr).")
    return "\n".join(L)
