(* The global defender inside the game: where the status Fail comes from, and what a detection does.
   All statements are for every label from every state that satisfies the invariants (hence for every
   reachable state), for an arbitrary detection function; Props/C17.v instantiates it with the
   defender's decision (Model/Defender.v). *)
From Coq Require Import ZArith NArith List Bool Arith Lia.
From NSG Require Import Model.Coord Proofs.CoordBase Proofs.CoordInv Proofs.CoordInvConn Proofs.CoordInvDispatch
  Proofs.CoordInvHandler Proofs.CoordDirect Proofs.CoordInv2 Proofs.CoordAgentStep.
Import ListNotations.

Section Detect.
  Context {V W G : Type}.
  Variable wstep : W -> V -> G -> W * V.
  Variable wreset : W -> W.
  Variable winit : W -> role -> W * V.
  Variable goal : role -> V -> bool.
  Variable detect : list G -> G -> bool.
  Variable cfg : config.

  Notation state := (@state V W G).
  Notation agent := (@agent V G).
  Notation label := (@label G).
  Notation exec := (@exec V W G wstep wreset winit goal detect cfg).
  Notation execs := (@execs V W G wstep wreset winit goal detect cfg).
  Notation achange := (@achange V G goal detect cfg).
  Notation next_status := (@Coord.next_status V G goal detect cfg).

  (* the status rule around detection *)
  Lemma next_status_fail (a : agent) v' act :
    next_status a v' act = SFail -> a_status a <> SFail ->
    goal (a_role a) v' = false /\ detect (t_actions (a_traj a)) act = true.
  Proof.
    unfold Coord.next_status. destruct (goal (a_role a) v'); [discriminate|].
    destruct (detect (t_actions (a_traj a)) act); [auto|].
    destruct (is_timeout cfg a); [discriminate|]. intros H Hn. contradiction.
  Qed.

  Lemma next_status_detected (a : agent) v' act :
    goal (a_role a) v' = false -> detect (t_actions (a_traj a)) act = true -> next_status a v' act = SFail.
  Proof. unfold Coord.next_status. intros -> ->. reflexivity. Qed.

  Lemma next_status_not_detected (a : agent) v' act :
    detect (t_actions (a_traj a)) act = false -> a_status a <> SFail -> next_status a v' act <> SFail.
  Proof.
    unfold Coord.next_status. intros ->. destruct (goal (a_role a) v'); [discriminate|].
    destruct (is_timeout cfg a); [discriminate|]. auto.
  Qed.

  (* the actions the defender is given: the trajectory of the record BEFORE the step (bump leaves it alone) *)
  Lemma bump_traj (a : agent) : a_traj (bump a) = a_traj a.  Proof. reflexivity. Qed.
  Lemma bump_role (a : agent) : a_role (bump a) = a_role a.  Proof. reflexivity. Qed.
  Lemma bump_status (a : agent) : a_status (bump a) = a_status a.  Proof. reflexivity. Qed.

  (* 1. where Fail comes from: one label turns a status that is not Fail into Fail only
        - in the agent's own game handler, by a step in which the goal was not reached and the defender,
          given exactly the actions recorded in the agent's trajectory and the new action, detected it;
          the episode is ended by that very step, which is counted; or
        - in the reward task, for a Defender (the attackers' outcome). *)
  Lemma achange_fail_origin (a a' : agent) l :
    achange a l a' -> a_status a <> SFail -> a_status a' = SFail ->
    (exists id act v', l = LRun (THandler id) /\ goal (a_role a) v' = false /\
        detect (t_actions (a_traj a)) act = true /\ a_ended a = false /\ a_ended a' = true /\
        a_steps a' = S (a_steps a) /\ a_view a' = v' /\ a_reward a' = r_step cfg /\ a_rewarded a' = false) \/
    (l = LRun TRewards /\ a_role a = RDefender /\ a_ended a = true /\ a_rewarded a = false /\ a_rewarded a' = true).
  Proof.
    intros H Hn Hf. destruct H as [l| id | id st act v' He Hr Hq Hst | id st act v' He Hr Hq Hst Ht | id act He Hq | id | succ | v Hq].
    - contradiction.
    - simpl in Hf. contradiction.
    - simpl in Hf. subst st. apply next_status_fail in Hf; [|exact Hn]. destruct Hf as [Hg Hd].
      left. exists id, act, v'. simpl. repeat split; auto.
    - simpl in Hf. subst st. rewrite Hf in Ht. discriminate.
    - simpl in Hf. contradiction.
    - simpl in Hf. contradiction.
    - right. unfold reward_agent in Hf |- *. destruct (a_rewarded a) eqn:Er; [simpl in Hf; contradiction|].
      destruct (a_ended a) eqn:Ee; [|simpl in Hf; contradiction]. simpl in Hf |- *.
      destruct (a_role a) eqn:Erole; simpl in Hf |- *; try contradiction. repeat split; reflexivity.
    - simpl in Hf. destruct (a_role a); discriminate.
  Qed.

  (* 2. what a detection does: whenever one label advances the agent's step counter, the new status is the status
        rule applied to the new view and SOME action, the defender having been given exactly the trajectory's actions;
        a terminal status ends the episode in that very step. *)
  Lemma achange_step_status (a a' : agent) l :
    achange a l a' -> l <> LRun TReset -> a_steps a' = S (a_steps a) ->
    exists act, a_status a' = next_status (bump a) (a_view a') act /\
        (terminal (a_status a') = true -> a_ended a' = true) /\ a_ended a = false /\
                a_reward a' = r_step cfg /\ a_rewarded a' = false.
  Proof.
    intros H Hl Hs. destruct H as [l| id | id st act v' He Hr Hq Hst | id st act v' He Hr Hq Hst Ht | id act He Hq | id | succ | v Hq];
      simpl in Hs; try lia.
    - exists act. simpl. subst st. repeat split; auto.
    - exists act. simpl. subst st. rewrite Ht. repeat split; auto.
    - exfalso. unfold reward_agent in Hs. destruct (a_rewarded a || negb (a_ended a)); [lia|]. destruct (a_role a); simpl in Hs; lia.
  Qed.

  Lemma achange_detected (a a' : agent) l :
    achange a l a' -> l <> LRun TReset -> a_steps a' = S (a_steps a) ->
    goal (a_role a) (a_view a') = false ->
    (forall act, detect (t_actions (a_traj a)) act = true) ->
    a_status a' = SFail /\ a_ended a' = true.
  Proof.
    intros H Hl Hs Hg Hd. destruct (achange_step_status a a' l H Hl Hs) as [act [Hst [Ht _]]].
    rewrite (next_status_detected (bump a) (a_view a') act) in Hst by (simpl; auto).
    split; [exact Hst|]. apply Ht. rewrite Hst. reflexivity.
  Qed.

  (* ---- for every reachable state ---- *)
  Theorem fail_origin_reachable w ls0 (s s' : state) l c a a' :
    execs (init_state w) ls0 = Some s -> exec s l = Some s' ->
    alookup c (agents s) = Some a -> alookup c (agents s') = Some a' ->
    a_status a <> SFail -> a_status a' = SFail ->
    (exists id act v', l = LRun (THandler id) /\ goal (a_role a) v' = false /\
        detect (t_actions (a_traj a)) act = true /\ a_ended a = false /\ a_ended a' = true /\
        a_steps a' = S (a_steps a) /\ a_view a' = v' /\ a_reward a' = r_step cfg /\ a_rewarded a' = false) \/
    (l = LRun TRewards /\ a_role a = RDefender /\ a_ended a = true /\ a_rewarded a = false /\ a_rewarded a' = true).
  Proof.
    intros H0 He Ha Ha'. destruct (agent_step_reachable wstep wreset winit goal detect cfg w ls0 s s' l c a H0 He Ha) as [Hn | [a2 [H2 Hc]]].
    - rewrite Hn in Ha'. discriminate.
    - rewrite H2 in Ha'. injection Ha' as <-. apply achange_fail_origin. exact Hc.
  Qed.

  Theorem step_status_reachable w ls0 (s s' : state) l c a a' :
    execs (init_state w) ls0 = Some s -> exec s l = Some s' ->
    alookup c (agents s) = Some a -> alookup c (agents s') = Some a' ->
    l <> LRun TReset -> a_steps a' = S (a_steps a) ->
    exists act, a_status a' = next_status (bump a) (a_view a') act /\
                (terminal (a_status a') = true -> a_ended a' = true) /\ a_ended a = false /\
                a_reward a' = r_step cfg /\ a_rewarded a' = false.
  Proof.
    intros H0 He Ha Ha'. destruct (agent_step_reachable wstep wreset winit goal detect cfg w ls0 s s' l c a H0 He Ha) as [Hn | [a2 [H2 Hc]]].
    - rewrite Hn in Ha'. discriminate.
    - rewrite H2 in Ha'. injection Ha' as <-. apply achange_step_status. exact Hc.
  Qed.

  (* the fail reward: the reward task pays an ended, not yet rewarded attacker whose status is Fail the fail reward
     on top of the step reward, once *)
  Lemma reward_agent_fail succ (a : agent) :
    a_role a = RAttacker -> a_status a = SFail -> a_ended a = true -> a_rewarded a = false ->
    a_reward (reward_agent cfg succ a) = (a_reward a + r_fail cfg)%Z /\ a_rewarded (reward_agent cfg succ a) = true /\
    a_status (reward_agent cfg succ a) = SFail.
  Proof.
    intros Hr Hs He Hw. unfold reward_agent. rewrite Hw, He, Hr, Hs. simpl. repeat split; reflexivity.
  Qed.
End Detect.
