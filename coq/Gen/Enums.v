(* GENERATED from AIDojoCoordinator/game_components.py by harness/translate/enums.py; do not edit *)
From NSG Require Import Base.Prelude.
From Coq Require Import String.
Open Scope string_scope.

Definition gen_action_type_names : list string := ["ScanNetwork"; "FindServices"; "FindData"; "ExploitService"; "ExfiltrateData"; "BlockIP"; "JoinGame"; "QuitGame"; "ResetGame"].
Definition gen_game_status : list (string * Z) := [("OK", 200%Z); ("CREATED", 201%Z); ("RESET_DONE", 202%Z); ("BAD_REQUEST", 400%Z); ("FORBIDDEN", 403%Z)].
Definition gen_agent_status_names : list string := ["Playing"; "PlayingWithTimeout"; "TimeoutReached"; "ResetRequested"; "Success"; "Fail"].
Definition gen_end_of_message : string := "EOF".
Definition gen_buffer_size : Z := 8192%Z.
