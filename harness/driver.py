"""In-process driver for the real NetSecGame coordinator under full schedule control.

The real `NSGCoordinator.start_tasks()` runs on a manually stepped asyncio loop.  No sockets:
`asyncio.start_server` is patched to capture the `AgentServer` callback; a connection is an
`asyncio.StreamReader` plus a fake writer.  Every task step (one atomic run-to-next-suspension
segment) is logged through a task factory.

Must be imported with PYTHONPATH=/verif/harness/pyshim:/repo (see harness/env.py).
"""
import asyncio
import asyncio.tasks
import json
import logging
import os
import sys

_PyTask = asyncio.tasks._PyTask


class SegTask(_PyTask):
    """Python Task that reports every step to the driver."""

    def _Task__step(self, exc=None):
        drv = getattr(self._loop, "_verif_driver", None)
        if drv is not None:
            drv._before_step(self)
        try:
            return super()._Task__step(exc)
        finally:
            if drv is not None:
                drv._after_step(self)


class FakeWriter:
    def __init__(self, addr, peer=None):
        self.addr = addr          # the harness' key of the connection
        self.peer = peer if peer is not None else addr      # what the server sees as the peer address
        self.chunks = []          # raw bytes written
        self.closed = False
        self.fail_write = None    # exception to raise on next write
        self.fail_drain = None

    def get_extra_info(self, key):
        if key == "peername":
            return self.peer
        return None

    def write(self, data):
        if self.fail_write is not None:
            e, self.fail_write = self.fail_write, None
            raise e
        self.chunks.append(bytes(data))

    async def drain(self):
        if self.fail_drain is not None:
            e, self.fail_drain = self.fail_drain, None
            raise e

    def close(self):
        self.closed = True

    def is_closing(self):
        return self.closed

    async def wait_closed(self):
        # asyncio semantics: when the connection was lost with an exception (reset by peer, broken pipe), the transport hands
        # that exception to the close waiter and StreamWriter.wait_closed() re-raises it
        if self.lost_exc is not None:
            raise self.lost_exc
        return None

    lost_exc = None


class FakeServer:
    sockets = []

    def close(self):
        pass

    async def wait_closed(self):
        pass


class Conn:
    def __init__(self, drv, addr, peer=None):
        self.drv = drv
        self.addr = addr
        self.peer = peer if peer is not None else addr
        self.reader = asyncio.StreamReader(loop=drv.loop)
        self.writer = FakeWriter(addr, peer)
        self.task = None
        self.sent = 0            # requests sent by the harness
        self.consumed = 0        # chunks already returned to the caller

    def responses(self):
        """Decoded responses written so far (list of (raw, json-or-None))."""
        out = []
        for c in self.writer.chunks:
            out.append(c)
        return out


class Driver:
    def __init__(self, coordinator_factory):
        """coordinator_factory() -> coordinator instance (created while the loop is current)."""
        self.loop = asyncio.new_event_loop()
        self.loop._verif_driver = self
        self.loop.set_task_factory(lambda loop, coro, **kw: SegTask(coro, loop=loop, **kw))
        self.loop.set_exception_handler(self._exc_handler)
        self.loop.add_signal_handler = lambda *a, **k: None
        self.task_errors = []     # (coroutine name, repr(exception))
        self.seglog = []          # (task label, )
        self.on_segment = None    # callback(label) after each task step
        self.server_cb = None
        self.conns = {}
        self._orig_start_server = asyncio.start_server
        self._cur = None

        async def fake_start_server(cb, host=None, port=None, **kw):
            self.server_cb = cb
            return FakeServer()

        asyncio.start_server = fake_start_server
        asyncio.events._set_running_loop(self.loop)
        try:
            self.g = coordinator_factory()
            self.main_task = self.loop.create_task(self.g.start_tasks())
            self.settle()
        finally:
            asyncio.start_server = self._orig_start_server
        # the timers the idle coordinator keeps armed (its heart-beat sleeps): any further timer makes behaviour depend on
        # wall-clock time, which the model does not have
        self.timers0 = self.armed_timers()

    # ---- task step logging -------------------------------------------------
    def label_of(self, task):
        coro = task.get_coro()
        name = getattr(coro, "__qualname__", str(coro)).split(".")[-1]
        fr = getattr(coro, "cr_frame", None)
        addr = None
        if fr is not None:
            loc = fr.f_locals
            if name == "handle_new_agent" or name == "__call__":
                w = loc.get("writer")
                addr = getattr(w, "addr", None)
            else:
                addr = loc.get("agent_addr")
        return (name, addr)

    def _before_step(self, task):
        self._cur = self.label_of(task)

    def _after_step(self, task):
        lab = self._cur
        if task.done() and not task.cancelled():
            exc = task.exception() if task._exception is not None else None
            if exc is not None:
                self.task_errors.append((lab, repr(exc)))
                task._log_traceback = False
        self.seglog.append(lab)
        if self.on_segment is not None:
            self.on_segment(lab, task)

    def _exc_handler(self, loop, context):
        exc = context.get("exception")
        self.task_errors.append((("loop", None), repr(exc) if exc else context.get("message")))

    # ---- time ------------------------------------------------------------------
    def armed_timers(self):
        return sum(1 for h in self.loop._scheduled if not h._cancelled)

    def extra_timers(self):
        return self.armed_timers() - getattr(self, "timers0", 0)

    def advance_time(self, seconds):
        """Virtual time: everything armed within `seconds` from now becomes due (and fires at the next loop iteration)."""
        import time as _time
        self._time_offset = getattr(self, "_time_offset", 0.0) + seconds
        self.loop.time = lambda: _time.monotonic() + self._time_offset
        for _ in range(3):
            self.loop._run_once()
        self.settle()

    # ---- stepping ----------------------------------------------------------
    def run_once(self):
        self.loop._run_once()

    def quiescent(self):
        return not self.loop._ready

    def settle(self, max_iter=100000):
        n = 0
        while self.loop._ready:
            self.loop._run_once()
            n += 1
            if n > max_iter:
                raise RuntimeError("coordinator does not become quiescent")
        return n

    def run_iters(self, k):
        for _ in range(k):
            if not self.loop._ready:
                break
            self.loop._run_once()

    # ---- external events -----------------------------------------------------
    def connect(self, addr, peer=None):
        """peer: the address the server sees (default: addr); a later connection may come from the peer address of an earlier,
        finished one (port reuse) while the harness keeps addressing the two by different keys."""
        c = Conn(self, addr, peer)
        self.conns[addr] = c
        c.task = self.loop.create_task(self.server_cb(c.reader, c.writer))
        return c

    def send(self, addr, data):
        c = self.conns[addr]
        if isinstance(data, str):
            data = data.encode()
        c.reader.feed_data(data)
        c.sent += 1

    def eof(self, addr):
        self.conns[addr].reader.feed_eof()

    def read_error(self, addr, exc=None):
        exc = exc or ConnectionResetError("reset by peer")
        self.conns[addr].writer.lost_exc = exc
        self.conns[addr].reader.set_exception(exc)

    def write_error(self, addr, exc=None, on="write"):
        w = self.conns[addr].writer
        exc = exc or ConnectionResetError("broken pipe")
        w.lost_exc = exc
        if on == "write":
            w.fail_write = exc
        else:
            w.fail_drain = exc

    def new_output(self, addr):
        """Chunks written to `addr` since the last call."""
        c = self.conns[addr]
        out = c.writer.chunks[c.consumed:]
        c.consumed = len(c.writer.chunks)
        return out

    def close(self):
        try:
            for t in asyncio.all_tasks(self.loop):
                t.cancel()
            self.on_segment = None
            self.loop._verif_driver = None
            for _ in range(50):
                if not self.loop._ready:
                    break
                self.loop._run_once()
        finally:
            asyncio.events._set_running_loop(None)
            try:
                self.loop.close()
            except Exception:
                pass


def selftest_asyncio_facts():
    """The asyncio facts the coordinator model rests on (DESIGN 1.3). Raises on mismatch."""
    loop = asyncio.new_event_loop()
    asyncio.events._set_running_loop(loop)
    try:
        log = []

        async def a():
            lock = asyncio.Lock()
            q = asyncio.Queue()
            ev = asyncio.Event()
            ev.set()
            async with lock:
                log.append("lock")
            await q.put(1)
            log.append("put")
            await q.get()
            log.append("get")
            await ev.wait()
            log.append("evwait")

        async def b():
            log.append("b")

        ta = loop.create_task(a())
        tb = loop.create_task(b())
        loop._run_once()
        assert log == ["lock", "put", "get", "evwait", "b"], log
        # Condition.wait always suspends; Event.set resolves current waiters even if cleared after
        cond = asyncio.Condition()
        ev = asyncio.Event()
        log2 = []

        async def w():
            await ev.wait()
            log2.append("woke")

        async def c():
            async with cond:
                await cond.wait()
            log2.append("cond")

        tw = loop.create_task(w())
        tc = loop.create_task(c())
        loop._run_once()
        ev.set()
        ev.clear()
        while loop._ready:
            loop._run_once()
        assert log2 == ["woke"], log2

        async def n():
            async with cond:
                cond.notify_all()

        loop.create_task(n())
        while loop._ready:
            loop._run_once()
        assert log2 == ["woke", "cond"], log2
    finally:
        asyncio.events._set_running_loop(None)
        loop.close()
    return True
