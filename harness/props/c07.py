"""C07: reset (coordinator model Model/Coord.v, trace-following correspondence, direct monitor)."""
import json
import check as CK
from props import coordcommon as CC

TRANSLATORS = ["enums", "defender", "dispatch"]
COQ_FILES = ["Props/C07.v", "Obl/DispatchOk.v", "Obl/EnumsOk.v"]


def correspondence(ctx):
    n = 400 if ctx.tier == "thorough" else 52
    CC.run_sessions(ctx, "C07", n, lambda rng: dict(n_events=rng.choice([40,70]), burst=0.5, fault=0.1, bad=0.05, resets=0.3), lambda rng: dict(required=rng.choice([1,2,2,3]), max_steps=rng.choice([1,2,3])))


def replay(ctx, payload):
    return CC.replay_session(ctx, "C07", payload)
