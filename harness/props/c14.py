"""C14: actions on the wire.  Differential check of Model/Codec.v against the real
Action.to_json / from_json / __eq__ / __hash__, plus a direct monitor of the property."""
import itertools
import json
import os
import random
import sys

import check as CK
from coqterm import *

TRANSLATORS = ["enums", "codec"]
COQ_FILES = ["Props/C14.v", "Obl/CodecDescOk.v", "Obl/EnumsOk.v"]

KEYS = ["agent_info", "blocked_host", "data", "request_trajectory", "source_host", "target_host",
        "target_network", "target_service"]
STRS = ["", "a", "ssh", "with,comma", "sl/ash", 'qu"ote', "back\\slash", "ünï", "日本語", " spaced ", "ActionType.JoinGame",
        "True", "10.0.0.1", "{}", "[1]", "a.b", "EOF"]
IPS = ["0.0.0.0", "255.255.255.255", "1.2.3.4", "192.168.1.1", "10.0.0.1", "213.47.23.195", "100.200.30.40", "9.9.9.9"]
SIZES = [0, 1, 42, -1, 10 ** 12]
BAD_IPS = ["256.1.1.1", "1.2.3", "1.2.3.4.5", "01.2.3.4", "a.b.c.d", "", "1.2.3.4 ", "1..2.3", "1.2.3.-4", "999.999.999.999", "1.2.3.4/24"]


def _impl():
    sys.path[:0] = [os.path.join(CK.HARNESS, "pyshim"), CK.REPO]
    import AIDojoCoordinator.game_components as gc
    return gc


def gen_value(gc, key, rng):
    if key in ("source_host", "target_host", "blocked_host"):
        if rng.random() < 0.3:
            return gc.IP(".".join(str(rng.randrange(256)) for _ in range(4)))
        return gc.IP(rng.choice(IPS))
    if key == "target_network":
        return gc.Network(rng.choice(IPS + STRS[:4]), rng.choice(list(range(33)) + [-1, 33, 64]))
    if key == "target_service":
        return gc.Service(rng.choice(STRS), rng.choice(STRS + ["unknown"]), rng.choice(STRS + ["unknown"]), rng.random() < 0.5)
    if key == "data":
        return gc.Data(rng.choice(STRS), rng.choice(STRS), rng.choice(SIZES), rng.choice(STRS))
    if key == "agent_info":
        return gc.AgentInfo(rng.choice(STRS), rng.choice(["Attacker", "Defender", "Benign", "x", ""]))
    if key == "request_trajectory":
        return rng.random() < 0.5
    raise KeyError(key)


def gen_actions(gc, rng, n_orderings):
    """all 9 types x all 256 subsets of the 8 parameter keys, orderings sampled"""
    types = list(gc.ActionType)
    out = []
    for t in types:
        for mask in range(256):
            keys = [k for i, k in enumerate(KEYS) if mask >> i & 1]
            for _ in range(n_orderings if len(keys) > 1 else 1):
                rng.shuffle(keys)
                out.append(gc.Action(t, {k: gen_value(gc, k, rng) for k in keys}))
    return out


def malformed_docs(gc, rng, n):
    """JSON documents that are not (quite) encodings of supported actions."""
    docs = []
    base = lambda: json.loads(gc.Action(rng.choice(list(gc.ActionType)),
                                        {k: gen_value(gc, k, rng) for k in rng.sample(KEYS, rng.randrange(0, 4))}).to_json())
    for i in range(n):
        d = base()
        kind = i % 14
        if kind == 0:
            d["action_type"] = rng.choice(["Foo", "ActionType.Foo", "", "scannetwork", "ActionType.", "ActionType.ActionType.ScanNetwork",
                                            # the prefix once more after (or inside) a supported name: still no supported name
                                            "ActionType.QuitGameActionType.", "ActionType.ScanNetworkActionType.x", "ScanActionType.Network",
                                            "ActionType.FindDataActionType.FindData", "QuitGameActionType."])
        elif kind == 1:
            d["parameters"][rng.choice(["foo", "src_host", "", "target"])] = {"ip": "1.1.1.1"}
        elif kind == 2:
            del d["parameters"]
        elif kind == 3:
            del d["action_type"]
        elif kind == 4:
            d["parameters"]["source_host"] = {"ip": rng.choice(BAD_IPS)}
        elif kind == 5:
            d["parameters"]["target_service"] = {"name": "s", "extra": "x"}
        elif kind == 6:
            d["parameters"]["target_service"] = rng.choice([{"type": "t"}, {"name": "only"}, {"name": "n", "is_local": False}, {}])
        elif kind == 7:
            d["parameters"]["data"] = rng.choice([{"owner": "o"}, {"owner": "o", "id": "i"}, {"owner": "o", "id": "i", "size": 3},
                                                  {"id": "i"}, {"owner": "o", "id": "i", "foo": 1}])
        elif kind == 8:
            d["parameters"]["request_trajectory"] = rng.choice(["True", "False", "true", "yes", "", "1 +", "Truee"])
        elif kind == 9:
            d["parameters"]["target_network"] = rng.choice([{"ip": "1.1.1.0"}, {"mask": 24}, {"ip": "1.1.1.0", "mask": 24, "x": 1}, {}])
        elif kind == 10:
            d = rng.choice([[1, 2], "str", 5, None, True, [], {}])
        elif kind == 11:
            d["parameters"] = rng.choice([[], "x", None, 3])
        elif kind == 12:
            d["parameters"]["agent_info"] = rng.choice([{"name": "n"}, {"role": "r"}, {"name": "n", "role": "r", "x": 1}, {}])
        elif kind == 13:
            d["action_type"] = rng.choice(["ScanNetwork", "JoinGame", "ActionType.BlockIP"])   # accepted forms
        docs.append(d)
    return docs


def fields(v):
    """The value as plain data, independent of the implementation's __eq__."""
    import dataclasses
    return (type(v).__name__,) + dataclasses.astuple(v) if dataclasses.is_dataclass(v) else (type(v).__name__, v)


def near_value(gc, key, old, rng):
    """A value that differs from `old` in as little as possible (one field, or host bits inside the same prefix)."""
    try:
        if key == "target_network":
            parts = str(old.ip).split(".")
            if len(parts) == 4 and all(p.isdigit() for p in parts) and rng.random() < 0.7:
                parts[3] = str((int(parts[3]) + rng.choice([1, 5, 128])) % 256)          # same /24 (and shorter) prefix, other host bits
                return gc.Network(".".join(parts), old.mask)
            return gc.Network(old.ip, (old.mask + 1) if isinstance(old.mask, int) else 24)
        if key == "target_service":
            c = rng.randrange(4)
            return gc.Service(old.name + ("x" if c == 0 else ""), old.type + ("x" if c == 1 else ""), old.version + ("x" if c == 2 else ""),
                              (not old.is_local) if c == 3 else old.is_local)
        if key == "data":
            c = rng.randrange(4)
            return gc.Data(old.owner + ("x" if c == 0 else ""), old.id + ("x" if c == 1 else ""), old.size + (1 if c == 2 else 0), old.type + ("x" if c == 3 else ""))
        if key == "agent_info":
            return gc.AgentInfo(old.name, old.role + "x") if rng.random() < 0.5 else gc.AgentInfo(old.name + "x", old.role)
        if key == "request_trajectory":
            return not old
    except Exception:
        pass
    return None


def mutate(gc, a, rng):
    """an action differing from `a` in type or in exactly one parameter"""
    ps = dict(a.parameters)
    r = rng.random()
    if r < 0.25 or not ps:
        t = rng.choice([t for t in gc.ActionType if t != a.action_type])
        return gc.Action(t, ps)
    k = rng.choice(list(ps))
    if r < 0.5:
        del ps[k]
        return gc.Action(a.action_type, ps)
    if r < 0.75:
        v = near_value(gc, k, ps[k], rng)
        if v is not None and fields(v) != fields(ps[k]):
            ps[k] = v
            return gc.Action(a.action_type, ps)
    for _ in range(20):
        v = gen_value(gc, k, rng)
        if fields(v) != fields(ps[k]):          # NOT the implementation's __eq__: that is what is being checked
            ps[k] = v
            return gc.Action(a.action_type, ps)
    del ps[k]
    return gc.Action(a.action_type, ps)


TRICKY = ["EOF", "xEOFy", "GEOFF", "EOFEOF", 'a"b', "a\\b", "}{", "  padded  ", "\u00e9\u4e2d", "tab\tnew\nline", "ActionType.QuitGame", "null", "{\"ip\": 1}", "'", "%s",
          "lone\ud83d", "\udc00tail"]      # unpaired surrogates: legal in JSON text (\\ud83d), echoed back in trajectories


PICKLE_WORKER = r"""
import base64, json, pickle, sys
sys.path[:0] = sys.argv[1:3]
import AIDojoCoordinator.game_components as gc
ip = gc.IP
acts = [gc.Action(gc.ActionType.ScanNetwork, {"source_host": ip("192.168.1.2"), "target_network": gc.Network("192.168.1.0", 24)}),
        gc.Action(gc.ActionType.FindServices, {"source_host": ip("192.168.1.2"), "target_host": ip("192.168.1.3")}),
        gc.Action(gc.ActionType.FindData, {"target_host": ip("192.168.1.3"), "source_host": ip("192.168.1.2")}),
        gc.Action(gc.ActionType.ExploitService, {"source_host": ip("192.168.1.2"), "target_host": ip("192.168.1.3"), "target_service": gc.Service("ssh", "passive", "8.1", False)}),
        gc.Action(gc.ActionType.ExfiltrateData, {"source_host": ip("192.168.1.3"), "target_host": ip("192.168.1.2"), "data": gc.Data("User1", "DataFromServer1")}),
        gc.Action(gc.ActionType.BlockIP, {"source_host": ip("192.168.1.2"), "target_host": ip("192.168.1.2"), "blocked_host": ip("1.1.1.1")}),
        gc.Action(gc.ActionType.JoinGame, {"agent_info": gc.AgentInfo("x", "Attacker")}),
        gc.Action(gc.ActionType.ResetGame, {"request_trajectory": True}),
        gc.Action(gc.ActionType.QuitGame, {})]
table = {a: i for i, a in enumerate(acts)}          # every action has been hashed: used as a key
print(json.dumps({"pickle": base64.b64encode(pickle.dumps(table)).decode(), "json": [a.to_json() for a in acts]}))
"""


def pickle_probe(ctx):
    """Equal actions hash equally - also when one of them has been used as a dictionary key, pickled and loaded by ANOTHER interpreter
    (string hashes differ between interpreters): a table of actions stored by one process must be found under the actions decoded
    from their JSON in another."""
    import base64
    import pickle
    import subprocess
    gc = _impl()
    env = dict(os.environ, PYTHONHASHSEED="12345")
    r = subprocess.run([sys.executable, "-c", PICKLE_WORKER, os.path.join(CK.HARNESS, "pyshim"), CK.REPO], capture_output=True, text=True, env=env, timeout=120)
    try:
        doc = json.loads(r.stdout.strip().split("\n")[-1])
        table = pickle.loads(base64.b64decode(doc["pickle"]))
    except Exception as e:
        ctx.stage_errors.append(("pickle probe", f"{type(e).__name__}: {e}; stderr {r.stderr[-300:]}"))
        return
    n = 0
    for k, text in enumerate(doc["json"]):
        a = gc.Action.from_json(text)
        loaded = [x for x in table if x == a]
        n += 1
        if len(loaded) != 1 or hash(loaded[0]) != hash(a) or table.get(a) != k:
            ctx.violations.append({"key": "equal actions hash differently across interpreters",
                                   "what": f"an action stored as a dictionary key by another interpreter and the action decoded from its JSON here are equal ({len(loaded)} equal key(s)) but hash {'differently' if loaded and hash(loaded[0]) != hash(a) else 'the same'}; looking the decoded action up in the loaded table gives {table.get(a)!r} instead of {k}: {text[:160]}",
                                   "replay": {"kind": "pickle_probe", "action": text}})
    ctx.coverage["pickle_probe"] = {"actions": n}


def wire_probe(ctx):
    """The wire as the coordinator implements it: actions with awkward (but legal) text fields are sent as Action.to_json() to
    the real AgentServer / dispatcher; the action that reaches the game (the one recorded in the trajectory handed out with
    the reset) must equal the action sent - same value, same hash; texts whose action type is not supported must be refused."""
    sys.path[:0] = [CK.HARNESS]
    import nsgenv
    import coordrun as CR
    gc = _impl()
    rng = random.Random(ctx.seed * 131 + 14)
    cfg = nsgenv.base_config("scenario1_small", required_players=1)
    cfg["coordinator"]["agents"]["Attacker"].pop("max_steps", None)
    cfg["coordinator"]["agents"]["Attacker"]["goal"]["known_data"] = {}
    cfg["coordinator"]["agents"]["Attacker"]["goal"]["known_hosts"] = ["1.1.1.1"]
    stats = {"actions_sent": 0, "unsupported_types_sent": 0}
    S = CR.Session(cfg)
    S.d.on_segment = None
    d = S.d
    a = ("10.3.14.1", 1401)
    try:
        d.connect(a); d.settle()
        d.send(a, nsgenv.join("w", "Attacker")); d.settle()
        d.new_output(a)
        sent = []
        pool = list(TRICKY)
        rng.shuffle(pool)
        src, tgt = gc.IP("192.168.2.2"), gc.IP("213.47.23.195")
        for i, t in enumerate(pool):
            t2 = pool[(i + 1) % len(pool)]
            acts = [gc.Action(gc.ActionType.ExfiltrateData, {"source_host": src, "target_host": tgt, "data": gc.Data(t, t2, size=i, type=t)}),
                    gc.Action(gc.ActionType.ExploitService, {"source_host": src, "target_host": src,
                                                             "target_service": gc.Service(t, t2, t, is_local=bool(i % 2))})]
            for act in acts:
                d.send(a, act.to_json()); d.settle()
                out = d.new_output(a)
                stats["actions_sent"] += 1
                st = json.loads(out[0][:-3].decode()).get("status") if len(out) == 1 else None
                if st != "GameStatus.OK":
                    ctx.violations.append({"key": "legal action refused on the wire", "what": f"a well-formed action whose text fields are {t!r}/{t2!r} was answered with {st} ({len(out)} answers) instead of being played",
                                           "replay": {"kind": "wire_probe", "text": t}})
                else:
                    sent.append(act)
        for bogus in ("ActionType.FindEOFData", "EOFActionType.FindData", "ActionType.FindDataEOF", "ActionType.EOF",
                      "ActionType.FindDataActionType.", "ActionType.FindDataActionType.FindData", "FindActionType.Data"):
            d.send(a, json.dumps({"action_type": bogus, "parameters": {"source_host": {"ip": "192.168.2.2"}, "target_host": {"ip": "192.168.2.2"}}})); d.settle()
            out = d.new_output(a)
            stats["unsupported_types_sent"] += 1
            st = json.loads(out[0][:-3].decode()).get("status") if len(out) == 1 else None
            if st != "GameStatus.BAD_REQUEST":
                ctx.violations.append({"key": "unsupported action type accepted on the wire", "what": f"a text naming the unsupported action type {bogus!r} was answered with {st} instead of BAD_REQUEST",
                                       "replay": {"kind": "wire_probe", "text": bogus}})
        d.send(a, nsgenv.msg("ResetGame", request_trajectory="True")); d.settle()
        out = d.new_output(a)
        doc = json.loads(out[0][:-3].decode()) if len(out) == 1 else {}
        rec = ((doc.get("message") or {}).get("last_trajectory") or {}).get("trajectory", {}).get("actions")
        if rec is None:
            ctx.stage_errors.append(("wire probe", f"no trajectory handed out: {str(doc)[:200]} {d.task_errors[:1]}"))
        else:
            got = [gc.Action.from_dict(x) for x in rec]
            if len(got) != len(sent):
                ctx.violations.append({"key": "actions lost or duplicated on the wire", "what": f"{len(sent)} actions were played, the trajectory records {len(got)}", "replay": {"kind": "wire_probe"}})
            for x, y in zip(sent, got):
                if x != y or hash(x) != hash(y):
                    ctx.violations.append({"key": "action changed on the wire", "what": f"sent {x!r}, the game played {y!r}", "replay": {"kind": "wire_probe", "action": x.as_dict}})
                    break
        if d.task_errors:
            ctx.violations.append({"key": "task died in the wire probe", "what": str(d.task_errors[:1]), "replay": {"kind": "wire_probe"}})
    finally:
        S.close()
    # ---- two connections, messages of exactly one read buffer (ProtocolConfig.BUFFER_SIZE bytes): a legal action padded with blanks
    # to that length is played, text of that length that is not JSON is refused - and nothing of either reaches the NEXT message,
    # whichever connection it comes from
    cfg["env"]["required_players"] = 2
    S = CR.Session(cfg)
    S.d.on_segment = None
    d = S.d
    a, b = ("10.3.14.2", 1402), ("10.3.14.3", 1403)
    size = gc.ProtocolConfig.BUFFER_SIZE
    try:
        d.connect(a); d.connect(b); d.settle()
        d.send(a, nsgenv.join("w1", "Attacker")); d.send(b, nsgenv.join("w2", "Attacker")); d.settle()
        d.new_output(a); d.new_output(b)
        src = gc.IP("192.168.2.2")
        plain = lambda i: gc.Action(gc.ActionType.FindServices, {"source_host": src, "target_host": gc.IP("192.168.1.%d" % (i + 2))})
        sent = {a: [], b: []}

        def play(who, act, pad, what):
            text = act.to_json()
            if pad:
                text = text + " " * (size - len(text.encode()))
            d.send(who, text); d.settle()
            out = d.new_output(who)
            stats["actions_sent"] += 1
            st = json.loads(out[0][:-3].decode()).get("status") if len(out) == 1 else None
            if st != "GameStatus.OK":
                ctx.violations.append({"key": "legal action refused on the wire (buffer-sized messages)", "what": f"{what}: a well-formed action was answered with {st} ({len(out)} answers) instead of being played",
                                       "replay": {"kind": "wire_probe", "text": what}})
            else:
                sent[who].append(act)
        for i in range(3):
            play(b, plain(i), True, f"round {i}: an action padded with blanks to exactly {size} bytes")
            play(a, plain(i + 3), False, f"round {i}: the next (ordinary) action of the OTHER connection")
            d.send(b, "x" * size); d.settle()
            out = d.new_output(b)
            st = json.loads(out[0][:-3].decode()).get("status") if len(out) == 1 else None
            if st != "GameStatus.BAD_REQUEST":
                ctx.violations.append({"key": "buffer-sized text that is not JSON is not refused", "what": f"round {i}: {size} bytes that are not JSON were answered with {st} ({len(out)} answers)", "replay": {"kind": "wire_probe", "text": "x*size"}})
            play(a, plain(i + 6), False, f"round {i}: the next action of the other connection after {size} bytes of text that is not JSON")
            play(b, plain(i + 9), False, f"round {i}: the next action of the same connection")
        for who in (a, b):
            d.send(who, nsgenv.msg("ResetGame", request_trajectory="True")); d.settle()
        for who in (a, b):
            out = d.new_output(who)
            doc = json.loads(out[0][:-3].decode()) if len(out) == 1 else {}
            rec = ((doc.get("message") or {}).get("last_trajectory") or {}).get("trajectory", {}).get("actions")
            if rec is None:
                ctx.violations.append({"key": "no trajectory after buffer-sized messages", "what": f"the reset after the buffer-sized messages was answered {str(doc.get('status'))} without the requested trajectory; {d.task_errors[:1]}", "replay": {"kind": "wire_probe"}})
            elif [gc.Action.from_dict(x) for x in rec] != sent[who]:
                ctx.violations.append({"key": "actions lost, duplicated or changed on the wire (buffer-sized messages)", "what": f"{len(sent[who])} actions were played on a connection, its trajectory records {len(rec)} (or other ones)", "replay": {"kind": "wire_probe"}})
    except Exception as e:
        import traceback
        ctx.stage_errors.append(("wire probe (buffer-sized messages)", f"{type(e).__name__}: {e}\n{traceback.format_exc()[-500:]}"))
    finally:
        S.close()
    ctx.coverage["wire_probe"] = stats


def correspondence(ctx):
    gc = _impl()
    wire_probe(ctx)
    pickle_probe(ctx)
    rng = random.Random(ctx.seed)
    thorough = ctx.tier == "thorough"
    actions = gen_actions(gc, rng, 4 if thorough else 1)
    if not thorough:
        # keep every type x subset, but only a sample of the full cross product for the Coq side
        pass
    cases = []      # (kind, coq term, python description)
    dist = {"by_type": {}, "by_nparams": {}, "malformed_kinds": 14}
    samples = []
    # ---- monitor + encode/decode cases
    for a in actions:
        dist["by_type"][a.action_type.name] = dist["by_type"].get(a.action_type.name, 0) + 1
        dist["by_nparams"][len(a.parameters)] = dist["by_nparams"].get(len(a.parameters), 0) + 1
        try:
            txt = a.to_json()
            back = gc.Action.from_json(txt)
            ok = (back == a) and (hash(back) == hash(a)) and (back.parameters == a.parameters)
            why = None if ok else f"decoded {back!r}"
        except Exception as e:
            ok, why, txt = False, f"{type(e).__name__}: {e}", None
        if not ok:
            ctx.violations.append({"key": f"action roundtrip {a.action_type.name}",
                                   "what": f"decoding the JSON encoding of an action does not give an equal action ({why})",
                                   "replay": {"kind": "action_roundtrip", "action_type": a.action_type.name,
                                              "parameters": json.loads(json.dumps(a.as_dict["parameters"])) if why and "decoded" in why else repr(a.parameters)}})
            continue
        j = json.loads(txt)
        cases.append(("enc", f"check_enc {action_term(a)} {json_term(j)}", repr(a)))
        cases.append(("dec", f"check_dec {json_term(j)} (Some {action_term(back)})", txt))
        if len(samples) < 2 and len(a.parameters) >= 3:
            samples.append({"action": repr(a), "json": txt})
    # ---- equality / hash
    pairs = 0
    for a in rng.sample(actions, min(len(actions), 2500 if thorough else 700)):
        # same action, parameters inserted in another order
        ks = list(a.parameters)
        rng.shuffle(ks)
        b = gc.Action(a.action_type, {k: a.parameters[k] for k in ks})
        c = mutate(gc, a, rng)
        for x, y, must_equal in ((a, b, True), (a, c, False)):
            e, h = (x == y), (hash(x) == hash(y))
            pairs += 1
            if e != must_equal or (e and not h) or (x in {y}) != must_equal:
                ctx.violations.append({"key": f"action equality {x.action_type.name}",
                                       "what": f"__eq__/__hash__ inconsistent: eq={e}, hash_eq={h}, expected equal={must_equal}",
                                       "replay": {"kind": "action_eq", "a": repr(x), "b": repr(y), "expected_equal": must_equal}})
            cases.append(("eq", f"check_eq {action_term(x)} {action_term(y)} {cbool(e)} {cbool(h)}", f"{x!r} vs {y!r}"))
    # ---- malformed stream
    refused = accepted = 0
    for d in malformed_docs(gc, rng, 4200 if thorough else 1400):
        try:
            got = gc.Action.from_dict(d) if isinstance(d, dict) else gc.Action.from_json(json.dumps(d))
            hash(got)
            exp = f"(Some {action_term(got)})"
            accepted += 1
            # monitor: whatever is accepted must be a supported action that re-encodes to an equal action
            if gc.Action.from_json(got.to_json()) != got:
                ctx.violations.append({"key": "decoder accepted unsupported document",
                                       "what": "from_dict accepted a document whose result does not survive re-encoding",
                                       "replay": {"kind": "action_doc", "doc": d}})
        except Exception:
            exp = "None"
            refused += 1
        if representable(d):
            cases.append(("mal", f"check_dec {json_term(d)} {exp}", json.dumps(d)))
    # ---- run the model
    casedir = CK.fresh_casedir(ctx)
    shard = 400
    paths, shards = [], []
    for si in range(0, len(cases), shard):
        chunk = cases[si:si + shard]
        body = ["From NSG Require Import Base.Prelude Model.Json Model.Codec Model.CodecCases.",
                "From Coq Require Import String.", "Open Scope string_scope.",
                "Definition cases : list bool := ["]
        body.append(";\n".join(c[1] for c in chunk) + ";")
        body.append("false].   (* canary: must be reported *)")
        body.append("Eval vm_compute in (false_indices 0 cases).")
        p = os.path.join(casedir, f"c14_{si // shard}.v")
        with open(p, "w") as f:
            f.write("\n".join(body))
        paths.append(p)
        shards.append((p, chunk))
    res = CK.run_case_files(ctx, paths)
    disagreements = 0
    for p, chunk in shards:
        ok, out = res[p]
        idx = CK.coq_eval_list(out) if ok else None
        if idx is None:
            ctx.stage_errors.append((f"coqc {os.path.basename(p)}", out[-800:]))
            continue
        idx = [int(x.replace("%nat", "")) for x in idx]
        if len(chunk) not in idx:
            ctx.stage_errors.append((f"canary {os.path.basename(p)}", "deliberately false case not reported"))
        for i in idx:
            if i < len(chunk):
                disagreements += 1
                ctx.broken.append(f"correspondence Model/Codec.v vs game_components.py ({chunk[i][0]}): {chunk[i][2][:300]}")
    ctx.coverage.update({
        "evaluations": len(cases),
        "distinct_nontrivial": len({c[1] for c in cases if c[0] != "enc" or "[]" not in c[1][-4:]}),
        "rule": "all 9 action types x all 256 subsets of the 8 supported parameter keys (insertion orders and values sampled from boundary/unicode/separator pools and random IPv4 addresses) for encode, decode, round trip; equality/hash on reordered and single-mutation pairs; a separate malformed stream of 14 kinds; distinct = distinct Coq case terms, non-trivial = every case (the empty-parameter actions are counted once per type)",
        "input_distribution": dist,
        "malformed_refused": refused, "malformed_accepted": accepted, "eq_pairs": pairs,
        "disagreements_checked": len(cases), "model_impl_disagreements": disagreements,
        "samples": samples,
    })
    ctx.assumptions += [
        "json.dumps/json.loads are library code: premise of C14_roundtrip_text, exercised for real in every case",
        "ipaddress.ip_address validity is modelled for IPv4 dotted quads only (Model/Ipv4Text.v); IPv6 texts are outside the model and not generated",
        "request_trajectory covers the strings 'True'/'False' (ast.literal_eval of other literals is outside the property's value space)",
        "field values of the wrong JSON type (e.g. a number as service name) are outside the model and not generated",
    ]


def replay(ctx, payload):
    gc = _impl()
    k = payload.get("kind")
    if k == "wire_probe":
        c2 = CK.Ctx("C14", "quick", getattr(ctx, "seed", 1))
        wire_probe(c2)
        for v in c2.violations:
            print(v["what"])
        if c2.violations:
            print("VIOLATION property=C14 replay=(this file)")
        return 1 if c2.violations else 0
    if k == "pickle_probe":
        c2 = CK.Ctx("C14", "quick", getattr(ctx, "seed", 1))
        pickle_probe(c2)
        for v in c2.violations:
            print(v["what"])
        if c2.violations:
            print("VIOLATION property=C14 replay=(this file)")
        return 1 if c2.violations else 0
    if k == "action_doc":
        try:
            a = gc.Action.from_dict(payload["doc"])
            print("accepted:", a, "re-decoded equal:", gc.Action.from_json(a.to_json()) == a)
        except Exception as e:
            print("refused:", type(e).__name__, e)
        return 0
    print(json.dumps(payload, indent=1))
    if k == "action_roundtrip" and isinstance(payload.get("parameters"), dict):
        d = {"action_type": payload["action_type"], "parameters": payload["parameters"]}
        a = gc.Action.from_dict(d)
        b = gc.Action.from_json(a.to_json())
        print("round trip equal:", a == b)
        if a != b:
            print("VIOLATION property=C14 replay=(this file)")
            return 1
    return 0
