#!/venv/bin/python
"""Entry point of every registered check:  check.py Cxx [--tier quick|thorough] [--replay path]

Stages (DESIGN.md section 3): regenerate coq/Gen from /repo's working tree, build the Coq
development, compile the property's theorem and obligation files (collecting Print Assumptions),
run the property's correspondence suite and monitor against the real code, classify, write
evidence, print VIOLATION / KNOWN-FINDING lines, exit 0/1.
"""
import argparse
import fcntl
import importlib
import json
import os
import re
import shutil
import subprocess
import sys
import time
import traceback

VERIF = os.path.dirname(os.path.dirname(os.path.abspath(__file__)))
HARNESS = os.path.join(VERIF, "harness")
COQ = os.path.join(VERIF, "coq")
BUILD = os.path.join(VERIF, "_build")
REPO = os.environ.get("VERIF_REPO", "/repo")
PY = "/venv/bin/python"

sys.path.insert(0, HARNESS)
sys.path.insert(0, os.path.join(HARNESS, "translate"))

TRUSTED_BASE = [
    "Coq 8.16.1 kernel incl. its bytecode VM (vm_compute); no native_compute, no extraction",
    "no axioms declared; Print Assumptions output recorded per theorem below",
    "translators harness/translate/*.py (fail-closed Python-ast readers of /repo sources)",
    "correspondence harness: cyst stub package, in-process asyncio loop driver, case generators, in-Coq comparison code of _build/cases/*.v",
    "hand-written Gallina models under coq/Model are tied to the code by differential execution only",
]


class Ctx:
    def __init__(self, prop, tier, seed):
        self.prop = prop
        self.tier = tier
        self.seed = seed
        self.t0 = time.time()
        self.stage_errors = []      # (stage, message): a stage that could not complete
        self.broken = []            # names of theorems / obligations / correspondences that no longer check
        self.violations = []        # dicts: {what, replay(dict)}  concrete failing inputs
        self.obligations = []       # (name, ok, assumptions text)
        self.coverage = {}
        self.assumptions = []
        self.casedir = os.path.join(BUILD, "cases", prop)

    def log(self, *a):
        print(f"[{self.prop} {time.time() - self.t0:6.1f}s]", *a, flush=True)


# ------------------------------------------------------------------------------------------
# stage 1: translators

def TRANSLATORS_AVAILABLE():
    d = os.path.join(HARNESS, "translate")
    return sorted(f[:-3] for f in os.listdir(d) if f.endswith(".py") and f not in ("common.py", "__init__.py"))


def regen(ctx, needed):
    ok = {}
    for name in needed:
        try:
            mod = importlib.import_module(name)
            mod.main()
            ok[name] = None
        except Exception as e:  # TranslationError or anything else: fail closed
            ok[name] = f"{type(e).__name__}: {e}"
            ctx.stage_errors.append((f"translator {name}", ok[name]))
            # the obligations on this translator's output must not be discharged against a stale file
            gen = {"enums": "Enums", "defender": "DefenderTables", "codec": "CodecDesc", "dispatch": "Dispatch",
                   "confdefaults": "ConfigDefaults"}.get(name)
            if gen:
                for ext in (".v", ".vo", ".vok", ".vos", ".glob"):
                    try:
                        os.unlink(os.path.join(COQ, "Gen", gen + ext))
                    except FileNotFoundError:
                        pass
    return ok


# ------------------------------------------------------------------------------------------
# stage 2: Coq build

def _lock():
    os.makedirs(BUILD, exist_ok=True)
    f = open(os.path.join(BUILD, ".coq.lock"), "w")
    fcntl.flock(f, fcntl.LOCK_EX)
    return f


def coq_files():
    out = []
    for d in ("Base", "Gen", "Model", "Proofs", "Props", "Obl"):
        p = os.path.join(COQ, d)
        if os.path.isdir(p):
            for fn in sorted(os.listdir(p)):
                if fn.endswith(".v"):
                    out.append(f"{d}/{fn}")
    return out


def coq_makefile():
    files = coq_files()
    stamp = os.path.join(COQ, ".filelist")
    text = "\n".join(files)
    old = open(stamp).read() if os.path.exists(stamp) else None
    if old != text or not os.path.exists(os.path.join(COQ, "Makefile")):
        subprocess.run(["coq_makefile", "-f", "_CoqProject", "-o", "Makefile"] + files, cwd=COQ,
                       check=True, capture_output=True)
        with open(stamp, "w") as f:
            f.write(text)


def coq_build(ctx=None, targets=None, timeout=1500):
    """Full .vo build (make -k). Returns (returncode, output)."""
    lock = _lock()
    try:
        coq_makefile()
        cmd = ["timeout", str(timeout), "make", "-k", "-j16"] + (targets or [])
        r = subprocess.run(cmd, cwd=COQ, capture_output=True, text=True)
        return r.returncode, r.stdout + r.stderr
    finally:
        lock.close()


def vo_up_to_date(vfile):
    vo = os.path.join(COQ, vfile[:-2] + ".vo")
    v = os.path.join(COQ, vfile)
    return os.path.exists(vo) and os.path.getmtime(vo) >= os.path.getmtime(v)


def compile_prop_file(ctx, vfile, timeout=600):
    """Compile one Props/Obl file (its dependencies are already built) and return
    (ok, output).  Output contains the Print Assumptions text."""
    lock = _lock()
    try:
        r = subprocess.run(["timeout", str(timeout), "coqc", "-Q", ".", "NSG",
                            "-w", "-notation-overridden,-ambiguous-paths,-deprecated-instance-without-locality,-deprecated-hint-rewrite-without-locality",
                            vfile], cwd=COQ, capture_output=True, text=True)
    finally:
        lock.close()
    return r.returncode == 0, (r.stdout + r.stderr)


def theorem_names(vfile):
    src = open(os.path.join(COQ, vfile)).read()
    return re.findall(r"^\s*(?:Theorem|Corollary)\s+([A-Za-z0-9_']+)", src, re.M)


def parse_assumptions(output):
    """Split Print Assumptions output into per-query blocks."""
    blocks = []
    cur = None
    for line in output.splitlines():
        if line.startswith("Closed under the global context"):
            blocks.append("Closed under the global context")
            cur = None
        elif line.startswith("Axioms:"):
            cur = ["Axioms:"]
            blocks.append(cur)
        elif cur is not None and line.strip():
            cur.append(line.strip())
    return [b if isinstance(b, str) else " ".join(b) for b in blocks]


FORBIDDEN = re.compile(r"\b(Admitted|admit|Axiom|Parameter|Conjecture|Unset\s+Guard|bypass_check|Admit\s+Obligations)\b")


def scan_forbidden():
    hits = []
    for vf in coq_files():
        src = open(os.path.join(COQ, vf)).read()
        src_nc = re.sub(r"\(\*.*?\*\)", "", src, flags=re.S)
        for m in FORBIDDEN.finditer(src_nc):
            hits.append(f"{vf}: {m.group(0)}")
    return hits


def prove(ctx, files):
    """Build everything, then compile each of the property's theorem/obligation files."""
    rc, out = coq_build(ctx)
    if rc != 0:
        ctx.log("coq build reported errors (make -k); checking the property's own files")
    hits = scan_forbidden()
    if hits:
        ctx.stage_errors.append(("forbidden constructs in the Coq development", "; ".join(hits)))
    for vf in files:
        if not os.path.exists(os.path.join(COQ, vf)):
            ctx.obligations.append((vf, False, "file missing (its translator failed?)"))
            ctx.broken.append(vf)
            continue
        ok, o = compile_prop_file(ctx, vf)
        names = theorem_names(vf)
        assum = parse_assumptions(o)
        if ok:
            for i, n in enumerate(names):
                ctx.obligations.append((f"{vf}:{n}", True, assum[i] if i < len(assum) else "(not printed)"))
        else:
            err = "\n".join(l for l in o.splitlines() if l.strip())[-1500:]
            ctx.obligations.append((vf, False, err))
            for n in names or [vf]:
                ctx.broken.append(f"{vf}:{n}")
            ctx.log(f"FAILED to check {vf}:\n{err}")
    if ctx.tier == "thorough":
        coqchk(ctx, files)


def coqchk(ctx, files, timeout=1500):
    """Thorough tier: re-check the property's compiled files and everything they depend on with the
    independent checker; its context summary (axioms of every loaded library) goes into the evidence.
    Anything but standard-library axioms, or a failure of the checker, breaks the obligations."""
    mods = ["NSG." + vf[:-2].replace("/", ".") for vf in files if vo_up_to_date(vf)]
    if not mods:
        return
    lock = _lock()
    try:
        r = subprocess.run(["timeout", str(timeout), "coqchk", "-o", "-silent", "-Q", ".", "NSG"] + mods,
                           cwd=COQ, capture_output=True, text=True)
    finally:
        lock.close()
    out = r.stdout + r.stderr
    if r.returncode != 0 or "CONTEXT SUMMARY" not in out:
        ctx.stage_errors.append(("coqchk", out[-800:]))
        return
    summ = out[out.index("CONTEXT SUMMARY"):]
    sect = {}
    cur = None
    for line in summ.splitlines():
        m = re.match(r"\* ([^:]+):\s*(.*)", line)
        if m:
            cur = m.group(1).strip()
            sect[cur] = [m.group(2).strip()] if m.group(2).strip() else []
        elif cur and line.strip() and not set(line.strip()) <= {"="}:
            sect[cur].append(line.strip())
    axioms = [a for a in sect.get("Axioms", []) if a != "<none>"]
    foreign = [a for a in axioms if not a.startswith("Coq.")]
    bad = {k: v for k, v in sect.items() if k not in ("Theory", "Axioms") and v != ["<none>"]}
    if foreign or bad:
        ctx.stage_errors.append(("coqchk context", f"axioms outside the standard library: {foreign}; {bad}"))
    ctx.coverage["coqchk"] = {"modules": mods, "theory": sect.get("Theory"), "axioms_of_all_loaded_libraries": axioms or ["<none>"],
                              "type_in_type": sect.get("Constants/Inductives relying on type-in-type"),
                              "unsafe_fixpoints": sect.get("Constants/Inductives relying on unsafe (co)fixpoints"),
                              "assumed_positivity": sect.get("Inductives whose positivity is assumed")}


# ------------------------------------------------------------------------------------------
# stage 3: running case files (model evaluated inside Coq)

def run_case_files(ctx, paths, timeout=900):
    """Compile generated case files in parallel. Each prints lines 'RESULT <tag> <payload>'.
    Returns {path: (ok, output)}."""
    from concurrent.futures import ThreadPoolExecutor

    def raise_stack():
        # large list literals in case files overflow coqc's default stack (8 MB)
        import resource
        try:
            resource.setrlimit(resource.RLIMIT_STACK, (resource.RLIM_INFINITY, resource.RLIM_INFINITY))
        except Exception:
            try:
                soft, hard = resource.getrlimit(resource.RLIMIT_STACK)
                resource.setrlimit(resource.RLIMIT_STACK, (hard, hard))
            except Exception:
                pass

    def one(p):
        r = subprocess.run(["timeout", str(timeout), "coqc", "-Q", COQ, "NSG",
                            "-w", "-notation-overridden,-ambiguous-paths,-deprecated-instance-without-locality,-deprecated-hint-rewrite-without-locality,-abstract-large-number",
                            p], capture_output=True, text=True, preexec_fn=raise_stack)
        return p, (r.returncode == 0, r.stdout + r.stderr)

    with ThreadPoolExecutor(max_workers=16) as ex:
        return dict(ex.map(one, paths))


def fresh_casedir(ctx):
    shutil.rmtree(ctx.casedir, ignore_errors=True)
    os.makedirs(ctx.casedir, exist_ok=True)
    return ctx.casedir


def coq_eval_list(output):
    """Parse '= [a; b; c]' style vm_compute output of a list of numbers/booleans into python list
    of tokens, robust to line wrapping."""
    m = re.search(r"=\s*\[(.*?)\]\s*:\s*list", output, re.S)
    if not m:
        return None
    body = m.group(1).replace("\n", " ")
    toks = [t.strip() for t in body.split(";")]
    return [t for t in toks if t]


# ------------------------------------------------------------------------------------------
# known findings

def load_known():
    p = os.path.join(VERIF, "known_findings.json")
    if not os.path.exists(p):
        return []
    return json.load(open(p)).get("findings", [])


# ------------------------------------------------------------------------------------------

def write_replay(ctx, payload):
    d = os.path.join(VERIF, "replays")
    os.makedirs(d, exist_ok=True)
    n = 0
    while os.path.exists(os.path.join(d, f"{ctx.prop}-{n}.json")):
        n += 1
    path = os.path.join(d, f"{ctx.prop}-{n}.json")
    payload = dict(payload)
    if isinstance(payload.get("broken"), list) and len(payload["broken"]) > 20:
        payload["broken"] = payload["broken"][:20] + [f"... {len(payload['broken']) - 20} more"]
    payload.setdefault("property", ctx.prop)
    payload.setdefault("seed", ctx.seed)
    payload.setdefault("tier", ctx.tier)
    payload["replay_cmd"] = f"./check {ctx.prop} --replay {os.path.relpath(path, VERIF)}"
    with open(path, "w") as f:
        json.dump(payload, f, indent=1, default=str)
    return os.path.relpath(path, VERIF)


def write_evidence(ctx, nviol):
    ok_n = sum(1 for _, ok, _ in ctx.obligations if ok)
    cov = dict(ctx.coverage)
    cov["obligations"] = len(ctx.obligations)
    cov["discharged"] = ok_n
    cov["checker_cmd"] = "coqc (full .vo build: coq_makefile + make -k, then coqc on the property's Props/ and Obl/ files), Coq 8.16.1"
    cov["trusted_base"] = TRUSTED_BASE + [f"{n}: {a}" for n, ok, a in ctx.obligations if ok]
    cov["obligation_list"] = [{"name": n, "discharged": ok, "detail": (a if not ok else None)} for n, ok, a in ctx.obligations]
    cov.setdefault("samples", [])
    ev = {
        "property_id": ctx.prop,
        "tier": ctx.tier,
        "seed": ctx.seed,
        "level": "proof",
        "coverage": cov,
        "assumptions": ctx.assumptions,
        "wall_s": round(time.time() - ctx.t0, 2),
        "violations": nviol,
    }
    os.makedirs(os.path.join(VERIF, "evidence"), exist_ok=True)
    with open(os.path.join(VERIF, "evidence", f"{ctx.prop}.json"), "w") as f:
        json.dump(ev, f, indent=1, default=str)


def main():
    ap = argparse.ArgumentParser()
    ap.add_argument("prop")
    ap.add_argument("--tier", default=os.environ.get("VERIF_TIER", "quick"))
    ap.add_argument("--replay")
    args = ap.parse_args()
    tier = args.tier if args.tier in ("quick", "thorough") else "quick"
    try:
        seed = int(os.environ.get("VERIF_SEED", "1"))
    except ValueError:
        seed = 1
    ctx = Ctx(args.prop, tier, seed)
    os.environ.setdefault("PYTHONHASHSEED", "0")
    mod = importlib.import_module(f"props.{args.prop.lower()}")

    if args.replay:
        payload = json.load(open(os.path.join(VERIF, args.replay) if not os.path.isabs(args.replay) else args.replay))
        rc = mod.replay(ctx, payload)
        sys.exit(rc)

    try:
        regen(ctx, mod.TRANSLATORS)
        prove(ctx, mod.COQ_FILES)
    except Exception as e:
        ctx.stage_errors.append(("proof stage", f"{type(e).__name__}: {e}"))
        traceback.print_exc()
    try:
        mod.correspondence(ctx)
    except Exception as e:
        ctx.stage_errors.append(("correspondence stage", f"{type(e).__name__}: {e}\n{traceback.format_exc()[-1500:]}"))
        traceback.print_exc()

    # ---- verdict ----
    known = [k for k in load_known() if k.get("property") == ctx.prop and k.get("status") == "open"]
    lines = []
    new_violations = []
    for v in ctx.violations:
        hit = next((k for k in known if k["match"] in v.get("key", "")), None)
        if hit:
            line = f"KNOWN-FINDING: property={ctx.prop} {hit['what']}"
            if line not in lines:
                lines.append(line)
        else:
            new_violations.append(v)
    nviol = 0
    exit_code = 0
    if new_violations:
        for v in new_violations[:3]:
            path = write_replay(ctx, dict(v["replay"], what=v["what"], broken=ctx.broken, stage_errors=ctx.stage_errors))
            lines.append(f"VIOLATION property={ctx.prop} replay={path}")
            nviol += 1
        exit_code = 1
    elif ctx.broken or ctx.stage_errors:
        # the property is no longer shown to hold and no failing input was found
        path = write_replay(ctx, {"what": "proof obligation / correspondence / stage no longer checks; no failing input found",
                                  "broken": ctx.broken, "stage_errors": ctx.stage_errors,
                                  "obligations": [{"name": n, "ok": ok, "detail": a} for n, ok, a in ctx.obligations if not ok]})
        lines.append(f"VIOLATION property={ctx.prop} replay={path} no-failing-input-found")
        nviol = 1
        exit_code = 1
    write_evidence(ctx, nviol)
    for l in lines:
        print(l, flush=True)
    ctx.log(f"done: obligations {sum(1 for _, ok, _ in ctx.obligations if ok)}/{len(ctx.obligations)}, "
            f"violations {nviol}, exit {exit_code}")
    sys.exit(exit_code)


if __name__ == "__main__":
    main()
