(* Per-run obligations of C19: the scalar settings are read from the documented keys and fall back to
   the documented defaults (no step limit, zero rewards, one player, all switches off); the start-up
   code reads each of them.  The right-hand sides are the documented behaviour; the left-hand sides
   are regenerated from utils.py / coordinator.py on every run. *)
From Coq Require Import String List.
From NSG Require Import Gen.ConfigDefaults.
Import ListNotations.
Open Scope string_scope.

Theorem C19_defaults : gen_config_getters = [
  ("get_max_steps", ["coordinator"; "agents"; "<role>"; "max_steps"], "int", "None", ["KeyError"; "TypeError"], "max_steps");
  ("get_rewards", ["env"; "rewards"; "<name>"], "", "0", ["KeyError"], "rewards");
  ("get_use_dynamic_addresses", ["env"; "use_dynamic_addresses"], "", "False", ["KeyError"], "bool(use_dynamic_addresses)");
  ("get_store_trajectories", ["env"; "save_trajectories"], "", "False", ["KeyError"], "store_rb");
  ("get_use_firewall", ["env"; "use_firewall"], "", "False", ["KeyError"], "use_firewall");
  ("get_use_global_defender", ["env"; "use_global_defender"], "", "False", ["KeyError"], "use_global_defender");
  ("get_required_num_players", ["env"; "required_players"], "int", "1", ["KeyError"; "ValueError"], "required_players")
].
Proof. reflexivity. Qed.

Theorem C19_startup_reads_settings : gen_startup_glue = [
  ("_get_max_steps_per_role", "max_steps = {role: self.task_config.get_max_steps(role) for role in self.ALLOWED_ROLES}");
  ("if", "self.task_config.get_use_global_defender()");
  ("self._min_required_players", "self.task_config.get_required_num_players()");
  ("self._rewards", "self.task_config.get_rewards(['step', 'success', 'fail'])");
  ("self._use_dynamic_ips", "self.task_config.get_use_dynamic_addresses()")
].
Proof. reflexivity. Qed.

(* spelled out: the documented defaults *)
Definition default_of (getter : string) : option string :=
  match find (fun x => String.eqb (fst (fst (fst (fst (fst x))))) getter) gen_config_getters with
  | Some x => Some (snd (fst (fst x)))
  | None => None
  end.
Theorem C19_documented_defaults :
  default_of "get_max_steps" = Some "None" /\ default_of "get_rewards" = Some "0" /\
  default_of "get_required_num_players" = Some "1" /\ default_of "get_use_firewall" = Some "False" /\
  default_of "get_use_dynamic_addresses" = Some "False" /\ default_of "get_use_global_defender" = Some "False" /\
  default_of "get_store_trajectories" = Some "False".
Proof. vm_compute. repeat split; reflexivity. Qed.
