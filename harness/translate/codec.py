"""game_components.py / utils.observation_as_dict codec shapes -> coq/Gen/CodecDesc.v (fail closed).

Emits structured descriptors (which parameter key is decoded by which class, dataclass fields and
defaults, how each GameState part is written) and normalised source text of the expressions
that rebuild each GameState part and of Action.__eq__/__hash__.  Obl/CodecDescOk.v compares them
with what the Gallina model implements."""
import ast
from common import parse, write_if_changed, TranslationError, find_class, find_func


def coq_str(s):
    return '"' + s.replace('"', '""') + '"'


def coq_list(items):
    return "[" + "; ".join(items) + "]"


def dataclass_fields(cls):
    out = []
    for st in cls.body:
        if isinstance(st, ast.AnnAssign) and isinstance(st.target, ast.Name):
            ty = ast.unparse(st.annotation)
            d = None if st.value is None else ast.unparse(st.value)
            out.append((st.target.id, ty, d))
    return out


def from_dict_is_kwargs(cls):
    f = find_func(cls, "from_dict")
    body = [s for s in f.body if not (isinstance(s, ast.Expr) and isinstance(s.value, ast.Constant))]
    return len(body) == 1 and ast.unparse(body[0]) == "return cls(**data)"


def read():
    src, tree = parse("AIDojoCoordinator/game_components.py")
    d = {}
    # --- dataclasses
    d["fields"] = {}
    for name in ("IP", "Network", "Service", "Data", "AgentInfo"):
        cls = find_class(tree, name)
        d["fields"][name] = dataclass_fields(cls)
        if not from_dict_is_kwargs(cls):
            raise TranslationError(f"{name}.from_dict is not `return cls(**data)`")
    ipc = find_class(tree, "IP")
    post = find_func(ipc, "__post_init__")
    if "ipaddress.ip_address(self.ip)" not in ast.unparse(post) or "raise ValueError" not in ast.unparse(post):
        raise TranslationError("IP.__post_init__ does not validate with ipaddress.ip_address")
    d["ip_repr"] = ast.unparse(find_func(ipc, "__repr__").body[-1])
    # --- Action
    act = find_class(tree, "Action")
    fd = find_func(act, "from_dict")
    arms = None
    for n in ast.walk(fd):
        if isinstance(n, ast.Match):
            if ast.unparse(n.subject) != "k":
                raise TranslationError("Action.from_dict: match subject is not the key")
            arms = []
            for case in n.cases:
                pat = case.pattern
                if isinstance(pat, ast.MatchOr):
                    keys = [p.value.value for p in pat.patterns]
                elif isinstance(pat, ast.MatchValue):
                    keys = [pat.value.value]
                elif isinstance(pat, ast.MatchAs) and pat.pattern is None:
                    keys = ["_"]
                else:
                    raise TranslationError("Action.from_dict: unexpected case pattern")
                if len(case.body) != 1:
                    raise TranslationError("Action.from_dict: case body is not a single statement")
                arms.append((keys, ast.unparse(case.body[0])))
    if arms is None:
        raise TranslationError("Action.from_dict: no match statement")
    d["from_dict_arms"] = arms
    pre = [ast.unparse(s) for s in fd.body if not isinstance(s, (ast.For, ast.Expr))]
    d["from_dict_frame"] = pre
    loops = [s for s in fd.body if isinstance(s, ast.For)]
    if len(loops) != 1 or ast.unparse(loops[0].iter) != "data_dict['parameters'].items()":
        raise TranslationError("Action.from_dict: parameters loop changed")
    d["from_json"] = [ast.unparse(s) for s in find_func(act, "from_json").body if not (isinstance(s, ast.Expr) and isinstance(s.value, ast.Constant))]
    d["to_json"] = [ast.unparse(s) for s in find_func(act, "to_json").body if not (isinstance(s, ast.Expr) and isinstance(s.value, ast.Constant))]
    d["as_dict"] = [ast.unparse(s) for s in find_func(act, "as_dict").body if not (isinstance(s, ast.Expr) and isinstance(s.value, ast.Constant))]
    d["eq"] = [ast.unparse(s) for s in find_func(act, "__eq__").body]
    d["hash"] = [ast.unparse(s) for s in find_func(act, "__hash__").body]
    ats = find_class(tree, "ActionType")
    d["from_string"] = [ast.unparse(s) for s in find_func(ats, "from_string").body if not (isinstance(s, ast.Expr) and isinstance(s.value, ast.Constant))]
    for b in ats.body:
        if isinstance(b, ast.FunctionDef) and b.name in ("__str__", "__repr__", "__format__"):
            raise TranslationError("ActionType overrides __str__/__repr__: str(action_type) is no longer 'ActionType.<name>'")
    # --- GameState
    gs = find_class(tree, "GameState")
    asd = find_func(gs, "as_dict")
    enc = None
    for n in ast.walk(asd):
        if isinstance(n, ast.Dict) and all(isinstance(k, ast.Constant) for k in n.keys) and len(n.keys) >= 6:
            enc = [(k.value, ast.unparse(v)) for k, v in zip(n.keys, n.values)]
    if enc is None:
        raise TranslationError("GameState.as_dict: dict literal not found")
    d["view_enc"] = enc
    if [ast.unparse(s) for s in asd.body if not (isinstance(s, ast.Expr) and isinstance(s.value, ast.Constant))][-1] != "return ret_dict":
        raise TranslationError("GameState.as_dict does not return the dict literal")

    def decoder_parts(fn, var):
        """keyword arguments of the GameState(...) call, with the input variable renamed to D"""
        parts = {}
        pre = []
        for st in fn.body:
            if isinstance(st, ast.Expr) and isinstance(st.value, ast.Constant):
                continue
            txt = ast.unparse(st)
            for n in ast.walk(st):
                if isinstance(n, ast.Call) and isinstance(n.func, ast.Name) and n.func.id == "GameState":
                    if n.args:
                        raise TranslationError("GameState(...) called with positional arguments in a decoder")
                    for kw in n.keywords:
                        parts[kw.arg] = ast.unparse(kw.value).replace(var, "D")
            if "GameState(" not in txt:
                pre.append(txt.replace(var, "D"))
        return parts, pre

    d["from_dict_parts"], d["from_dict_pre"] = decoder_parts(find_func(gs, "from_dict"), "data_dict")
    d["from_json_parts"], d["from_json_pre"] = decoder_parts(find_func(gs, "from_json"), "json_data")
    d["as_json"] = [ast.unparse(s) for s in find_func(gs, "as_json").body if not (isinstance(s, ast.Expr) and isinstance(s.value, ast.Constant))]
    if any(isinstance(b, ast.FunctionDef) and b.name == "__eq__" for b in gs.body):
        raise TranslationError("GameState defines __eq__: equality is no longer the dataclass field-wise equality")
    # --- observation_as_dict
    usrc, utree = parse("AIDojoCoordinator/utils/utils.py")
    obs = None
    for n in utree.body:
        if isinstance(n, ast.FunctionDef) and n.name == "observation_as_dict":
            for m in ast.walk(n):
                if isinstance(m, ast.Dict):
                    obs = [(k.value, ast.unparse(v)) for k, v in zip(m.keys, m.values)]
    if obs is None:
        raise TranslationError("observation_as_dict not found")
    d["obs"] = obs
    return d


def emit(d):
    L = ["(* GENERATED from AIDojoCoordinator/game_components.py and utils/utils.py by harness/translate/codec.py; do not edit *)",
         "From Coq Require Import String List.", "Import ListNotations.", "Open Scope string_scope.", ""]

    def pairs(name, items):
        L.append(f"Definition {name} : list (string * string) := " +
                 coq_list(f"({coq_str(a)}, {coq_str(b)})" for a, b in items) + ".")

    def strs(name, items):
        L.append(f"Definition {name} : list string := " + coq_list(coq_str(x) for x in items) + ".")

    for cname, fs in d["fields"].items():
        L.append(f"Definition gen_fields_{cname} : list (string * string * option string) := " +
                 coq_list(f"({coq_str(n)}, {coq_str(t)}, {'None' if dv is None else 'Some ' + coq_str(dv)})" for n, t, dv in fs) + ".")
    L.append(f"Definition gen_ip_repr : string := {coq_str(d['ip_repr'])}.")
    L.append("Definition gen_from_dict_arms : list (list string * string) := " +
             coq_list(f"({coq_list(coq_str(k) for k in keys)}, {coq_str(body)})" for keys, body in d["from_dict_arms"]) + ".")
    strs("gen_from_dict_frame", d["from_dict_frame"])
    strs("gen_action_from_json", d["from_json"])
    strs("gen_action_to_json", d["to_json"])
    strs("gen_action_as_dict", d["as_dict"])
    strs("gen_action_eq", d["eq"])
    strs("gen_action_hash", d["hash"])
    strs("gen_atype_from_string", d["from_string"])
    pairs("gen_view_enc", d["view_enc"])
    pairs("gen_view_from_dict", sorted(d["from_dict_parts"].items()))
    strs("gen_view_from_dict_pre", d["from_dict_pre"])
    pairs("gen_view_from_json", sorted(d["from_json_parts"].items()))
    strs("gen_view_from_json_pre", d["from_json_pre"])
    strs("gen_view_as_json", d["as_json"])
    pairs("gen_obs", d["obs"])
    L.append("")
    return "\n".join(L)


def main():
    d = read()
    write_if_changed("CodecDesc.v", emit(d))
    return d


if __name__ == "__main__":
    import pprint
    pprint.pprint(main())
