(* C09 - Bad or out-of-order messages are rejected without any effect on anyone
   Statements only (printed by Coq from the proof files); proofs are in coq/Proofs/Coord*.v.
   bad_request s c m: garbage, second join, join without agent_info or with an unknown role, reset or game
   action from an address that has not joined, game action with missing/invalid parameters.
*)
From Coq Require Import ZArith NArith List Bool Arith.
From NSG Require Import Base.Prelude Model.Defender Model.Coord Proofs.CoordBase Proofs.CoordInv Proofs.CoordInvConn Proofs.CoordInvDispatch Proofs.CoordInvHandler Proofs.CoordProps Proofs.CoordDirect Proofs.CoordInv2 Proofs.CoordAgentStep Proofs.CoordBarrier Proofs.CoordMeasure Proofs.CoordIsolation Proofs.CoordLimit Proofs.CoordKinds Proofs.CoordFiles.
Import ListNotations.

(* garbage: BAD_REQUEST from the dispatcher; agents, world, events, trajectory files, handlers and all other connections unchanged *)
Theorem C09_garbage :
  forall (V W G : Type) (s : @state V W G) (c : addr),
       @dispatch1 V W G s (c, @MGarbage G) = @respond V W G s c (@RBad V G) /\
       @game_part V W G (@dispatch1 V W G s (c, @MGarbage G)) = @game_part V W G s /\
       @handlers V W G (@dispatch1 V W G s (c, @MGarbage G)) = @handlers V W G s /\
       (forall k : addr,
        k <> c ->
        @alookup (@conn V G) k (@conns V W G (@dispatch1 V W G s (c, @MGarbage G))) =
        @alookup (@conn V G) k (@conns V W G s)).
Proof. exact (@reject_garbage). Qed.

(* every other bad request: its handler answers BAD_REQUEST ... *)
Theorem C09_reject :
  forall (V W G : Type) (wstep : W -> V -> G -> W * V) (winit : W -> role -> W * V)
         (goal : role -> V -> bool) (detect : list G -> G -> bool) (cfg : config) 
         (s : @state V W G) (id : nat) (c : addr) (m : @msg G),
       m <> @MGarbage G ->
       @bad_request V W G cfg s c m = true ->
       @h_start V W G wstep winit goal detect cfg s id c m =
       @respond V W G (@remove_handler V W G s id) c (@RBad V G).
Proof. exact (@reject_bad_request). Qed.

(* ... and answering changes nothing but the sender's response queue and the finished handler *)
Theorem C09_frame :
  forall (V W G : Type) (s : @state V W G) (id : nat) (c : addr) (r : @resp V G),
       @game_part V W G (@respond V W G (@remove_handler V W G s id) c r) = @game_part V W G s /\
       @aq V W G (@respond V W G (@remove_handler V W G s id) c r) = @aq V W G s /\
       (forall k : addr,
        k <> c ->
        @alookup (@conn V G) k (@conns V W G (@respond V W G (@remove_handler V W G s id) c r)) =
        @alookup (@conn V G) k (@conns V W G s)) /\
       (forall h : @handler V G,
        @In (@handler V G) h (@handlers V W G (@respond V W G (@remove_handler V W G s id) c r)) <->
        @In (@handler V G) h (@handlers V W G s) /\ @h_id V G h <> id).
Proof. exact (@respond_frame). Qed.

(* the dispatcher itself answers only unparsable messages: BAD_REQUEST on the sender's queue, nothing else *)
Theorem C09_dispatcher_answers :
  forall (V W G : Type) (s : @state V W G) (x : addr * @msg G),
       match @snd addr (@msg G) x with
       | MGarbage =>
           @conns V W G (@dispatch1 V W G s x) =
           @conns_put V W G s (@fst addr (@msg G) x) (@QResp V G (@RBad V G))
       | _ => @conns V W G (@dispatch1 V W G s x) = @conns V W G s
       end.
Proof. exact (@dispatch1_answer). Qed.

(* whatever the message, the handler working for address c0 leaves the record of every other agent untouched *)
Theorem C09_others :
  forall (V W G : Type) (wstep : W -> V -> G -> W * V) (winit : W -> role -> W * V)
         (goal : role -> V -> bool) (detect : list G -> G -> bool) (cfg : config) 
         (s : @state V W G) (id : nat) (c0 : addr) (m : @msg G) (c : addr),
       c <> c0 ->
       @alookup (@agent V G) c (@agents V W G (@h_start V W G wstep winit goal detect cfg s id c0 m)) =
       @alookup (@agent V G) c (@agents V W G s).
Proof. exact (@h_start_others). Qed.

(* and only game actions and joins can touch the world or the trajectory files *)
Theorem C09_world :
  forall (V W G : Type) (wstep : W -> V -> G -> W * V) (winit : W -> role -> W * V)
         (goal : role -> V -> bool) (detect : list G -> G -> bool) (cfg : config) 
         (s : @state V W G) (id : nat) (c0 : addr) (m : @msg G),
       (forall (act : G) (valid : bool), m <> @MGame G act valid) ->
       (forall info : option (N * option role), m <> @MJoin G info) ->
       @world V W G (@h_start V W G wstep winit goal detect cfg s id c0 m) = @world V W G s /\
       @files V W G (@h_start V W G wstep winit goal detect cfg s id c0 m) = @files V W G s.
Proof. exact (@h_start_world_frame). Qed.

(* the dispatcher keeps serving *)
Theorem C09_alive :
  forall (V W G : Type) (s : @state V W G),
       @aq V W G s <> [] -> @dispatch_run V W G s <> @None (@state V W G).
Proof. exact (@dispatcher_alive). Qed.

(* the handler spawned for a message executes the content of that very message (no dispatcher-local state survives) *)
Theorem C09_no_replay :
  forall (V W G : Type) (s : @state V W G) (c : addr) (m : @msg G),
       m <> @MGarbage G ->
       @handlers V W G (@dispatch1 V W G s (c, m)) =
       @handlers V W G s ++ [{| h_id := @next_hid V W G s; h_addr := c; h_pc := @PSpawned V G m |}].
Proof. exact (@no_replay). Qed.


(* non-vacuity: a concrete run of the executable instance reaches a state in which a request is
   held back at a barrier (two required players, one has joined) and the model is quiescent *)
From NSG Require Import Model.CoordExec.
Example C09_nonvacuous :
  let cfg := {| required := 2; max_steps := fun _ => Some 3; r_step := (-1)%Z; r_succ := 100%Z; r_fail := (-10)%Z;
                allowed := fun _ => true; save_traj := false |} in
  let run := execs x_wstep x_wreset x_winit (x_goal []) (x_detect None (0%Z, 1%positive)) cfg (init_state [5%N; 6%N])
               [LConnect 1%N; LArrive 1%N (CMsg (MJoin (Some (7%N, Some RAttacker)))); LRun (TConn 1%N); LRun TDispatch; LRun (THandler 0)] in
  match run with
  | Some s => quiescent x_wstep x_winit (x_goal []) (x_detect None (0%Z, 1%positive)) cfg s = true /\
              length (handlers s) = 1 /\ length (agents s) = 1 /\ served s = 1
  | None => False
  end.
Proof. vm_compute. repeat split; reflexivity. Qed.

Print Assumptions C09_garbage.
Print Assumptions C09_reject.
Print Assumptions C09_frame.
Print Assumptions C09_dispatcher_answers.
Print Assumptions C09_others.
Print Assumptions C09_world.
Print Assumptions C09_alive.
Print Assumptions C09_no_replay.
