(* M2: the simulated network of worlds/NSEGameCoordinator.py - world tables, views, the six
   action implementations, reset.  Value semantics (views are values).  No proofs in this file. *)
From stdpp Require Import gmap.
From Coq Require Import ZArith NArith.

Definition ip := N.                               (* IPv4 address as its 32-bit value *)
Definition net := (N * N)%type.                   (* Network(ip, mask) *)
Definition node := N.                             (* node id (interned string) *)
Definition svc := (N * N * N * bool)%type.        (* Service(name, type, version, is_local), strings interned *)
Definition data := (N * N * Z * N)%type.          (* Data(owner, id, size, type) *)

Definition svc_is_local (s : svc) : bool := snd s.

(* str(ip) in netaddr.IPNetwork("a/m"), 0 <= m <= 32 *)
Definition in_net (i : ip) (n : net) : bool :=
  N.eqb (N.shiftr i (32 - snd n)) (N.shiftr (fst n) (32 - snd n)).

(* netaddr: IPNetwork(str(net)).ip.is_ipv4_private_use()  (RFC 1918) *)
Definition is_private (a : N) : bool :=
  in_net a (167772160, 8)%N || in_net a (2886729728, 12)%N || in_net a (3232235520, 16)%N.

Record world := {
  w_ip2host  : gmap ip node;            (* _ip_to_hostname *)
  w_nets     : gmap net (gset ip);      (* _networks *)
  w_services : gmap node (gset svc);    (* _services *)
  w_data     : gmap node (gset data);   (* _data (live) *)
  w_fw       : gmap ip (gset ip);       (* _firewall (live): allowed destinations per source *)
  w_blocks   : gmap ip (gset ip);       (* _fw_blocks: blocks visible on a host *)
  w_data0    : gmap node (gset data);   (* _data_original *)
  w_fw0      : gmap ip (gset ip);       (* _firewall_original *)
}.

Record view := {
  v_ctrl   : gset ip;
  v_hosts  : gset ip;
  v_svcs   : gmap ip (gset svc);
  v_data   : gmap ip (gset data);
  v_nets   : gset net;
  v_blocks : gmap ip (gset ip);
}.

(* a validated game action (the coordinator checks the required parameters first) *)
Inductive gaction :=
| AScan (src : ip) (target : net)
| AFindServices (src tgt : ip)
| AFindData (src tgt : ip)
| AExploit (src tgt : ip) (s : svc)
| AExfil (src tgt : ip) (d : data)
| ABlock (src tgt blocked : ip).

Definition get {K A} `{Countable K} `{Empty A} (m : gmap K A) (k : K) : A := default ∅ (m !! k).

(* _firewall_check *)
Definition fw_allows (w : world) (src dst : ip) : bool := bool_decide (dst ∈ get (w_fw w) src).

(* _get_networks_from_host *)
Definition nets_of (w : world) (h : ip) : gset net :=
  dom (filter (fun kv => h ∈ snd kv) (w_nets w)).

(* _get_services_from_host *)
Definition services_of (w : world) (h : ip) (ctrl : gset ip) : gset svc :=
  match w_ip2host w !! h with
  | None => ∅
  | Some n =>
      match w_services w !! n with
      | None => ∅
      | Some SS => if bool_decide (h ∈ ctrl) then SS else filter (fun s => svc_is_local s = false) SS
      end
  end.

(* _get_data_in_host *)
Definition data_in (w : world) (h : ip) (ctrl : gset ip) : gset data :=
  if bool_decide (h ∈ ctrl) then
    match w_ip2host w !! h with
    | None => ∅
    | Some n => get (w_data w) n
    end
  else ∅.

(* _get_known_blocks_in_host *)
Definition blocks_in (w : world) (h : ip) (ctrl : gset ip) : gset ip :=
  if bool_decide (h ∈ ctrl) then
    match w_ip2host w !! h with
    | None => ∅
    | Some _ => get (w_blocks w) h
    end
  else ∅.

Definition add_to {K A} `{Countable K} `{Countable A} (m : gmap K (gset A)) (k : K) (s : gset A) : gmap K (gset A) :=
  <[k := get m k ∪ s]> m.

Definition set_nets (v : view) n := {| v_ctrl := v_ctrl v; v_hosts := v_hosts v; v_svcs := v_svcs v; v_data := v_data v; v_nets := n; v_blocks := v_blocks v |}.

(* ---- the six actions --------------------------------------------------------------------- *)
Definition step_scan (w : world) (v : view) (src : ip) (target : net) : view :=
  if bool_decide (src ∈ v_ctrl v) then
    let new_ips := filter (fun i => in_net i target = true /\ fw_allows w src i = true) (dom (w_ip2host w)) in
    {| v_ctrl := v_ctrl v; v_hosts := v_hosts v ∪ new_ips; v_svcs := v_svcs v; v_data := v_data v;
       v_nets := v_nets v; v_blocks := v_blocks v |}
  else v.

Definition step_find_services (w : world) (v : view) (src tgt : ip) : view :=
  if bool_decide (src ∈ v_ctrl v) && fw_allows w src tgt then
    let found := services_of w tgt (v_ctrl v) in
    if bool_decide (found = ∅) then v
    else
      let known := bool_decide (tgt ∈ v_hosts v) in
      {| v_ctrl := v_ctrl v;
         v_hosts := if known then v_hosts v else v_hosts v ∪ {[tgt]};
         v_svcs := <[tgt := found]> (v_svcs v);
         v_data := v_data v;
         v_nets := if known then v_nets v else v_nets v ∪ nets_of w tgt;
         v_blocks := v_blocks v |}
  else v.

Definition step_find_data (w : world) (v : view) (src tgt : ip) : view :=
  if bool_decide (src ∈ v_ctrl v) && fw_allows w src tgt then
    let new_data := data_in w tgt (v_ctrl v) in
    let new_blocks := blocks_in w tgt (v_ctrl v) in
    {| v_ctrl := v_ctrl v; v_hosts := v_hosts v; v_svcs := v_svcs v;
       v_data := if bool_decide (new_data = ∅) then v_data v else add_to (v_data v) tgt new_data;
       v_nets := v_nets v;
       v_blocks := if bool_decide (new_blocks = ∅) then v_blocks v else add_to (v_blocks v) tgt new_blocks |}
  else v.

Definition exploit_pre (w : world) (v : view) (src tgt : ip) (s : svc) : bool :=
  bool_decide (src ∈ v_ctrl v) &&
  match w_ip2host w !! tgt with
  | None => false
  | Some n =>
      fw_allows w src tgt &&
      match w_services w !! n with
      | None => false
      | Some SS => bool_decide (s ∈ SS) &&
                  match v_svcs v !! tgt with
                  | None => false
                  | Some K => bool_decide (s ∈ K)
                  end
      end
  end.

Definition step_exploit (w : world) (v : view) (src tgt : ip) (s : svc) : view :=
  if exploit_pre w v src tgt s then
    {| v_ctrl := v_ctrl v ∪ {[tgt]}; v_hosts := v_hosts v; v_svcs := v_svcs v; v_data := v_data v;
       v_nets := v_nets v ∪ nets_of w tgt; v_blocks := v_blocks v |}
  else v.

Definition exfil_pre (w : world) (v : view) (src tgt : ip) (d : data) : bool :=
  bool_decide (tgt ∈ v_ctrl v) && bool_decide (src ∈ v_ctrl v) && fw_allows w src tgt &&
  match v_data v !! src with
  | None => false
  | Some K => bool_decide (d ∈ K)
  end &&
  match w_ip2host w !! src with
  | None => false
  | Some n => match w_data w !! n with
              | None => false
              | Some D => bool_decide (d ∈ D)
              end
  end.

Definition set_data (w : world) (dt : gmap node (gset data)) : world :=
  {| w_ip2host := w_ip2host w; w_nets := w_nets w; w_services := w_services w; w_data := dt;
     w_fw := w_fw w; w_blocks := w_blocks w; w_data0 := w_data0 w; w_fw0 := w_fw0 w |}.

Definition step_exfil (w : world) (v : view) (src tgt : ip) (d : data) : world * view :=
  if exfil_pre w v src tgt d then
    match w_ip2host w !! tgt with
    | None => (w, v)        (* unreachable when the firewall only mentions existing hosts *)
    | Some nt =>
        (set_data w (add_to (w_data w) nt {[d]}),
         {| v_ctrl := v_ctrl v; v_hosts := v_hosts v; v_svcs := v_svcs v;
            v_data := add_to (v_data v) tgt {[d]}; v_nets := v_nets v; v_blocks := v_blocks v |})
    end
  else (w, v).

Definition block_pre (w : world) (v : view) (src tgt blocked : ip) : bool :=
  bool_decide (src ∈ v_ctrl v) && bool_decide (tgt ∈ v_ctrl v) && fw_allows w src tgt &&
  negb (N.eqb tgt blocked).

Definition fw_remove (fw : gmap ip (gset ip)) (a b : ip) : gmap ip (gset ip) :=
  match fw !! a with
  | None => fw
  | Some SS => <[a := SS ∖ {[b]}]> fw
  end.

Definition step_block (w : world) (v : view) (src tgt blocked : ip) : world * view :=
  if block_pre w v src tgt blocked then
    ({| w_ip2host := w_ip2host w; w_nets := w_nets w; w_services := w_services w; w_data := w_data w;
        w_fw := fw_remove (fw_remove (w_fw w) tgt blocked) blocked tgt;
        w_blocks := add_to (add_to (w_blocks w) tgt {[blocked]}) blocked {[tgt]};
        w_data0 := w_data0 w; w_fw0 := w_fw0 w |},
     {| v_ctrl := v_ctrl v; v_hosts := v_hosts v; v_svcs := v_svcs v; v_data := v_data v; v_nets := v_nets v;
        v_blocks := add_to (add_to (v_blocks v) tgt {[blocked]}) blocked {[tgt]} |})
  else (w, v).

(* _execute_action *)
Definition step (w : world) (v : view) (a : gaction) : world * view :=
  match a with
  | AScan src target => (w, step_scan w v src target)
  | AFindServices src tgt => (w, step_find_services w v src tgt)
  | AFindData src tgt => (w, step_find_data w v src tgt)
  | AExploit src tgt s => (w, step_exploit w v src tgt s)
  | AExfil src tgt d => step_exfil w v src tgt d
  | ABlock src tgt blocked => step_block w v src tgt blocked
  end.

(* NSGCoordinator.reset (static addresses) *)
Definition reset (w : world) : world :=
  {| w_ip2host := w_ip2host w; w_nets := w_nets w; w_services := w_services w; w_data := w_data0 w;
     w_fw := w_fw0 w; w_blocks := ∅; w_data0 := w_data0 w; w_fw0 := w_fw0 w |}.

(* ---- the preconditions of the property statement (C02), per action type ------------------ *)
Definition pre (w : world) (v : view) (a : gaction) : bool :=
  match a with
  | AScan src _ => bool_decide (src ∈ v_ctrl v)        (* the firewall is applied per discovered host *)
  | AFindServices src tgt => bool_decide (src ∈ v_ctrl v) && fw_allows w src tgt
  | AFindData src tgt => bool_decide (src ∈ v_ctrl v) && fw_allows w src tgt && bool_decide (tgt ∈ v_ctrl v)
  | AExploit src tgt s => exploit_pre w v src tgt s
  | AExfil src tgt d => exfil_pre w v src tgt d
  | ABlock src tgt blocked => block_pre w v src tgt blocked
  end.
