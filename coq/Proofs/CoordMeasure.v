(* Progress of the coordinator model: a natural-number measure that strictly decreases with EVERY internal label
   (every task step), from every state satisfying the structural invariant.  Hence between two external events
   (connection, bytes, EOF, error) the coordinator can take only finitely many task steps, at most `mu s`: it always
   comes to rest, and at rest the barrier theorems (Proofs/CoordBarrier.v) say what is still unanswered.  No
   livelock: no message can be bounced between the tasks for ever. *)
From Coq Require Import ZArith NArith List Bool Arith Lia.
From NSG Require Import Model.Coord Proofs.CoordBase Proofs.CoordInv Proofs.CoordInvConn Proofs.CoordInvDispatch
  Proofs.CoordInvHandler Proofs.CoordInv2.
Import ListNotations.

Section Measure.
  Context {V W G : Type}.
  Variable wstep : W -> V -> G -> W * V.
  Variable wreset : W -> W.
  Variable winit : W -> role -> W * V.
  Variable goal : role -> V -> bool.
  Variable detect : list G -> G -> bool.
  Variable cfg : config.

  Notation state := (@state V W G).
  Notation handler := (@handler V G).
  Notation conn := (@conn V G).
  Notation agent := (@agent V G).
  Notation msg := (@msg G).
  Notation hpc := (@hpc V G).
  Notation Inv := (@Inv V W G).
  Notation exec := (@exec V W G wstep wreset winit goal detect cfg).
  Notation execs := (@execs V W G wstep wreset winit goal detect cfg).
  Notation h_start := (@h_start V W G wstep winit goal detect cfg).
  Notation h_wake := (@h_wake V W G wstep winit goal detect cfg).

  Definition hw (pc : hpc) : nat :=
    match pc with
    | PSpawned _ => 8
    | PJoinStart false _ => 4 | PJoinStart true _ => 3
    | PRewards false _ _ => 4 | PRewards true _ _ => 3
    | PResetDone false _ => 6 | PResetDone true _ => 5
    | PResetStart false _ => 4 | PResetStart true _ => 3
    end.
  Definition iw (cn : conn) : nat := match c_inbox cn with Some _ => 11 | None => 0 end.
  Definition cw (cn : conn) : nat :=
    match c_state cn with
    | CClosed => 0
    | CNew => 11 + iw cn + 2 * length (c_queue cn)
    | CReading | CAwaiting => 10 + iw cn + 2 * length (c_queue cn)
    end.
  Definition sumc (cs : list (addr * conn)) : nat := list_sum (map (fun x => cw (snd x)) cs).
  Definition sumh (hs : list handler) : nat := list_sum (map (fun h => hw (h_pc h)) hs).
  Definition b2n (b : bool) : nat := if b then 1 else 0.
  Definition mu (s : state) : nat :=
    sumc (conns s) + 9 * length (aq s) + sumh (handlers s) + b2n (ev_end s) + b2n (ev_reset s).

  (* ---- sums ---- *)
  Lemma list_sum_cons a l : list_sum (a :: l) = a + list_sum l.
  Proof. reflexivity. Qed.
  Lemma sumc_update (cs : list (addr * conn)) c f cn :
    alookup c cs = Some cn -> sumc (aupdate c f cs) + cw cn = sumc cs + cw (f cn).
  Proof.
    unfold sumc. induction cs as [|[k x] tl IH]; cbn [alookup aupdate]; [discriminate|].
    destruct (N.eqb c k); cbn [map snd]; rewrite !list_sum_cons.
    - intros [= ->]. lia.
    - intros H. specialize (IH H). lia.
  Qed.
  Lemma sumc_update_none (cs : list (addr * conn)) c f : alookup c cs = None -> aupdate c f cs = cs.
  Proof. apply aupdate_none. Qed.
  Lemma sumc_app cs cs' : sumc (cs ++ cs') = sumc cs + sumc cs'.
  Proof. unfold sumc. rewrite map_app, list_sum_app. reflexivity. Qed.

  Lemma sumh_app hs hs' : sumh (hs ++ hs') = sumh hs + sumh hs'.
  Proof. unfold sumh. rewrite map_app, list_sum_app. reflexivity. Qed.

  Lemma sumh_remove (hs : list handler) h :
    NoDup (map h_id hs) -> In h hs -> sumh hs = sumh (filter (fun x => negb (Nat.eqb (h_id x) (h_id h))) hs) + hw (h_pc h).
  Proof.
    intros Hnd Hin. unfold sumh. induction hs as [|x tl IH]; [inversion Hin|].
    inversion Hnd as [|? ? Hnotin Hnd']; subst. cbn [filter map]. rewrite !list_sum_cons.
    destruct Hin as [->|Hin].
    - rewrite Nat.eqb_refl. cbn [negb]. rewrite (filter_id_notin (h_id h) tl Hnotin). lia.
    - destruct (Nat.eqb (h_id x) (h_id h)) eqn:E.
      + apply Nat.eqb_eq in E. exfalso. apply Hnotin. rewrite E. apply in_map, Hin.
      + cbn [negb map]. rewrite !list_sum_cons. specialize (IH Hnd' Hin). lia.
  Qed.

  Lemma sumh_repl (hs : list handler) h pc :
    NoDup (map h_id hs) -> In h hs -> sumh (map (repl (h_id h) pc) hs) + hw (h_pc h) = sumh hs + hw pc.
  Proof.
    intros Hnd Hin. unfold sumh. induction hs as [|x tl IH]; [inversion Hin|].
    inversion Hnd as [|? ? Hnotin Hnd']; subst. cbn [map]. rewrite !list_sum_cons. unfold repl at 1.
    destruct Hin as [->|Hin].
    - rewrite Nat.eqb_refl. cbn [h_pc].
      assert (E : map (repl (h_id h) pc) tl = tl).
      { clear -Hnotin. induction tl as [|y tl IH]; [reflexivity|]. cbn [map]. unfold repl at 1.
        destruct (Nat.eqb (h_id y) (h_id h)) eqn:E; [apply Nat.eqb_eq in E; exfalso; apply Hnotin; left; exact E|].
        rewrite IH; [reflexivity|]. intros H. apply Hnotin. right. exact H. }
      rewrite E. lia.
    - destruct (Nat.eqb (h_id x) (h_id h)) eqn:E.
      + apply Nat.eqb_eq in E. exfalso. apply Hnotin. rewrite E. apply in_map, Hin.
      + specialize (IH Hnd' Hin). lia.
  Qed.

  Lemma sumh_map_le (f : handler -> handler) hs : (forall h, hw (h_pc (f h)) <= hw (h_pc h)) -> sumh (map f hs) <= sumh hs.
  Proof.
    intros Hf. unfold sumh. induction hs as [|x tl IH]; [simpl; lia|]. cbn [map]. rewrite !list_sum_cons. specialize (Hf x). lia.
  Qed.
  Lemma hw_release_start h : hw (h_pc (release_start h)) <= hw (h_pc h).
  Proof. destruct h as [i a pc]; destruct pc as [m|[] v|[] x v|[] t|[] t]; simpl; lia. Qed.
  Lemma hw_release_rewards h : hw (h_pc (release_rewards h)) <= hw (h_pc h).
  Proof. destruct h as [i a pc]; destruct pc as [m|[] v|[] x v|[] t|[] t]; simpl; lia. Qed.
  Lemma hw_release_reset h : hw (h_pc (release_reset h)) <= hw (h_pc h).
  Proof. destruct h as [i a pc]; destruct pc as [m|[] v|[] x v|[] t|[] t]; simpl; lia. Qed.

  (* putting one item on a response queue costs at most 2 *)
  Lemma sumc_put (s : state) c q : sumc (conns (put s c q)) <= sumc (conns s) + 2.
  Proof.
    unfold put. cbn [conns set_conns]. destruct (alookup c (conns s)) as [cn|] eqn:E.
    - pose proof (sumc_update (conns s) c (fun cn => if has_queue cn then c_set_queue cn (c_queue cn ++ [q]) else cn) cn E) as H.
      cbv beta in H.
      assert (Hc : cw (if has_queue cn then c_set_queue cn (c_queue cn ++ [q]) else cn) <= cw cn + 2).
      { unfold has_queue, cw, iw. destruct (c_state cn) eqn:Es; cbn [c_set_queue c_state c_inbox c_queue]; rewrite ?Es, ?app_length; simpl; lia. }
      lia.
    - rewrite aupdate_none by exact E. lia.
  Qed.

  (* the parts of the measure *)
  Definition rest (s : state) : nat := 9 * length (aq s) + sumh (handlers s) + b2n (ev_end s) + b2n (ev_reset s).
  Lemma mu_eq (s : state) : mu s = sumc (conns s) + rest s.
  Proof. unfold mu, rest. lia. Qed.

  (* ---- the connection handler ---- *)
  Lemma cw_closed (cn : conn) : cw (c_set_queue (c_set_state cn CClosed) []) = 0.
  Proof. reflexivity. Qed.

  Lemma mu_cleanup (s : state) c cn : alookup c (conns s) = Some cn -> mu (cleanup s c) + cw cn = mu s.
  Proof.
    intros E. unfold cleanup, mu. cbn [conns aq handlers ev_end ev_reset set_served set_conns].
    pose proof (sumc_update (conns s) c (fun cn => c_set_queue (c_set_state cn CClosed) []) cn E) as H. cbv beta in H. rewrite cw_closed in H. lia.
  Qed.

  Lemma mu_leave (s : state) c cn : alookup c (conns s) = Some cn -> mu (leave s c) + cw cn = mu s + 9.
  Proof.
    intros E. unfold leave. pose proof (mu_cleanup (set_aq s (aq s ++ [(c, quit_msg)])) c cn E) as H.
    assert (Hm : mu (set_aq s (aq s ++ [(c, quit_msg)])) = mu s + 9).
    { unfold mu. cbn [conns aq handlers ev_end ev_reset set_aq]. rewrite app_length. simpl. lia. }
    lia.
  Qed.

  (* the read part: strictly less, provided the connection is open and something is there to read
     (or it is being set to reading from a heavier state) *)
  Lemma mu_conn_read (s : state) c cn :
    alookup c (conns s) = Some cn -> (c_state cn = CReading \/ c_state cn = CAwaiting) ->
    mu (conn_read s c cn) <= mu s + (match c_state cn with CAwaiting => 0 | _ => 0 end) /\
    (c_rerr cn = true \/ c_inbox cn <> None \/ c_eof cn = true -> mu (conn_read s c cn) < mu s).
  Proof.
    intros E Hst. unfold conn_read.
    assert (Hcw : 10 <= cw cn) by (unfold cw; destruct Hst as [-> | ->]; lia).
    destruct (c_rerr cn) eqn:Er.
    - pose proof (mu_leave s c cn E). split; [lia | intros _; lia].
    - destruct (c_inbox cn) as [[m|]|] eqn:Ei.
      + (* a message *)
        match goal with |- context [aupdate c (fun _ => ?CN) _] => set (cn' := CN) end.
        pose proof (sumc_update (conns s) c (fun _ => cn') cn E) as H. cbv beta in H.
        assert (Hc : cw cn' + 11 = cw cn).
        { unfold cw, iw, cn'. cbn [c_state c_inbox c_queue]. rewrite Ei. destruct Hst as [-> | ->]; lia. }
        unfold mu. cbn [conns aq handlers ev_end ev_reset set_aq set_conns]. rewrite app_length. simpl.
        split; [lia | intros _; lia].
      + (* undecodable bytes *)
        set (s1 := set_conns s (aupdate c (fun x => c_set_inbox x None) (conns s))).
        assert (E1 : alookup c (conns s1) = Some (c_set_inbox cn None)) by (unfold s1; cbn [conns set_conns]; rewrite alookup_aupdate_eq, E; reflexivity).
        pose proof (mu_leave s1 c _ E1) as H1.
        pose proof (sumc_update (conns s) c (fun x => c_set_inbox x None) cn E) as H. cbv beta in H.
        assert (Hc : cw (c_set_inbox cn None) + 11 = cw cn).
        { unfold cw, iw. cbn [c_set_inbox c_state c_inbox c_queue]. rewrite Ei. destruct Hst as [-> | ->]; lia. }
        assert (Hm : mu s1 + cw cn = mu s + cw (c_set_inbox cn None)).
        { unfold mu, s1. cbn [conns aq handlers ev_end ev_reset set_conns]. lia. }
        split; [lia | intros _; lia].
      + destruct (c_eof cn) eqn:Ee.
        * pose proof (mu_leave s c cn E). split; [lia | intros _; lia].
        * pose proof (sumc_update (conns s) c (fun x => c_set_state x CReading) cn E) as H. cbv beta in H.
          assert (Hc : cw (c_set_state cn CReading) = cw cn).
          { unfold cw, iw. cbn [c_set_state c_state c_inbox c_queue]. destruct Hst as [-> | ->]; reflexivity. }
          unfold mu. cbn [conns aq handlers ev_end ev_reset set_conns].
          split; [lia | intros [H1|[H1|H1]]; congruence].
  Qed.

  Theorem mu_conn_run (s s' : state) c : conn_run cfg s c = Some s' -> mu s' < mu s.
  Proof.
    unfold conn_run. destruct (alookup c (conns s)) as [cn|] eqn:E; [|discriminate].
    destruct (negb (conn_runnable cn)) eqn:Hr; [discriminate|]. apply negb_false_iff in Hr.
    destruct (c_state cn) eqn:Es.
    - (* new *)
      destruct (Nat.leb (required cfg) (served s)); intros [= <-].
      + pose proof (sumc_update (conns s) c (fun x => c_set_state x CClosed) cn E) as H. cbv beta in H.
        assert (Hc : cw (c_set_state cn CClosed) = 0) by reflexivity.
        assert (Hn : 11 <= cw cn) by (unfold cw; rewrite Es; lia).
        unfold mu. cbn [conns aq handlers ev_end ev_reset set_conns]. lia.
      + set (cn' := c_set_state cn CReading).
        set (s1 := set_served (set_conns s (aupdate c (fun _ => cn') (conns s))) (S (served s))).
        assert (E1 : alookup c (conns s1) = Some cn') by (unfold s1; cbn [conns set_conns set_served]; rewrite alookup_aupdate_eq, E; reflexivity).
        destruct (mu_conn_read s1 c cn' E1 (or_introl eq_refl)) as [Hle _].
        pose proof (sumc_update (conns s) c (fun _ => cn') cn E) as H. cbv beta in H.
        assert (Hc : cw cn' + 1 = cw cn) by (unfold cw, iw, cn'; cbn [c_set_state c_state c_inbox c_queue]; rewrite Es; lia).
        assert (Hm : mu s1 + cw cn = mu s + cw cn') by (unfold mu, s1; cbn [conns aq handlers ev_end ev_reset set_conns set_served]; lia).
        simpl in Hle. lia.
    - (* reading: something is there *)
      intros [= <-]. destruct (mu_conn_read s c cn E (or_introl Es)) as [_ Hlt]. apply Hlt.
      unfold conn_runnable in Hr. rewrite Es in Hr. destruct (c_inbox cn); [right; left; discriminate|].
      apply orb_true_iff in Hr as [Hr|Hr]; auto.
    - (* awaiting: the response queue is not empty *)
      destruct (c_queue cn) as [|[r|] q'] eqn:Eq; [discriminate| |].
      + destruct (c_wfail cn).
        * intros [= <-].
          set (s1 := set_conns s (aupdate c (fun x => c_set_queue x q') (conns s))).
          assert (E1 : alookup c (conns s1) = Some (c_set_queue cn q')) by (unfold s1; cbn [conns set_conns]; rewrite alookup_aupdate_eq, E; reflexivity).
          pose proof (mu_leave s1 c _ E1) as H1.
          pose proof (sumc_update (conns s) c (fun x => c_set_queue x q') cn E) as H. cbv beta in H.
          assert (Hc : cw (c_set_queue cn q') + 2 = cw cn) by (unfold cw, iw; cbn [c_set_queue c_state c_inbox c_queue]; rewrite Es, Eq; simpl; lia).
          assert (Hm : mu s1 + cw cn = mu s + cw (c_set_queue cn q')) by (unfold mu, s1; cbn [conns aq handlers ev_end ev_reset set_conns]; lia).
          assert (10 <= cw (c_set_queue cn q')) by (unfold cw; cbn [c_set_queue c_state]; rewrite Es; lia).
          lia.
        * intros [= <-].
          match goal with |- context [aupdate c (fun _ => ?CN) _] => set (cn' := CN) end.
          set (s1 := set_conns s (aupdate c (fun _ => cn') (conns s))).
          assert (E1 : alookup c (conns s1) = Some cn') by (unfold s1; cbn [conns set_conns]; rewrite alookup_aupdate_eq, E; reflexivity).
          destruct (mu_conn_read s1 c cn' E1 (or_introl eq_refl)) as [Hle _].
          pose proof (sumc_update (conns s) c (fun _ => cn') cn E) as H. cbv beta in H.
          assert (Hc : cw cn' + 2 = cw cn) by (unfold cw, iw, cn'; cbn [c_state c_inbox c_queue]; rewrite Es, Eq; simpl; lia).
          assert (Hm : mu s1 + cw cn = mu s + cw cn') by (unfold mu, s1; cbn [conns aq handlers ev_end ev_reset set_conns]; lia).
          simpl in Hle. lia.
      + intros [= <-].
        set (s1 := set_conns s (aupdate c (fun x => c_set_queue x q') (conns s))).
        assert (E1 : alookup c (conns s1) = Some (c_set_queue cn q')) by (unfold s1; cbn [conns set_conns]; rewrite alookup_aupdate_eq, E; reflexivity).
        pose proof (mu_cleanup s1 c _ E1) as H1.
        pose proof (sumc_update (conns s) c (fun x => c_set_queue x q') cn E) as H. cbv beta in H.
        assert (Hc : cw (c_set_queue cn q') + 2 = cw cn) by (unfold cw, iw; cbn [c_set_queue c_state c_inbox c_queue]; rewrite Es, Eq; simpl; lia).
        assert (Hm : mu s1 + cw cn = mu s + cw (c_set_queue cn q')) by (unfold mu, s1; cbn [conns aq handlers ev_end ev_reset set_conns]; lia).
        lia.
    - discriminate.
  Qed.

  (* ---- the dispatcher ---- *)
  Lemma mu_dispatch1 (s : state) x : aq (dispatch1 s x) = aq s /\ mu (dispatch1 s x) <= mu s + 8.
  Proof.
    unfold dispatch1. destruct (snd x) eqn:Em.
    1: { split; [reflexivity|]. pose proof (sumc_put s (fst x) (QResp RBad)). unfold respond, mu. unfold put in *.
         cbn [conns aq handlers ev_end ev_reset set_conns] in *. lia. }
    all: split; [reflexivity|]; unfold mu; cbn [conns aq handlers ev_end ev_reset set_handlers set_next_hid];
      rewrite sumh_app; unfold sumh at 2; simpl; lia.
  Qed.

  Theorem mu_dispatch_run (s s' : state) : dispatch_run s = Some s' -> mu s' < mu s.
  Proof.
    unfold dispatch_run. destruct (aq s) as [|x q] eqn:Eq; [discriminate|]. intros [= <-].
    assert (Hf : forall l (t : state), mu (fold_left dispatch1 l t) <= mu t + 8 * length l).
    { induction l as [|y tl IH]; intros t; cbn [fold_left length]; [lia|].
      specialize (IH (dispatch1 t y)). destruct (mu_dispatch1 t y) as [_ H1]. lia. }
    specialize (Hf (x :: q) (set_aq s [])).
    assert (Hm : mu (set_aq s []) + 9 * length (x :: q) = mu s).
    { unfold mu. cbn [conns aq handlers ev_end ev_reset set_aq]. rewrite Eq. simpl. lia. }
    change (mu (fold_left dispatch1 (x :: q) (set_aq s [])) < mu s). cbn [length] in *. lia.
  Qed.

  (* ---- handlers ---- *)
  Lemma mu_finish (s : state) h (item : @qitem V G) :
    NoDup (map h_id (handlers s)) -> In h (handlers s) ->
    mu (put (remove_handler s (h_id h)) (h_addr h) item) + hw (h_pc h) <= mu s + 2.
  Proof.
    intros Hnd Hin. pose proof (sumc_put (remove_handler s (h_id h)) (h_addr h) item) as Hp.
    pose proof (sumh_remove (handlers s) h Hnd Hin) as Hr.
    unfold mu. unfold put in *. unfold remove_handler in *. cbn [conns aq handlers ev_end ev_reset set_conns set_handlers] in *. lia.
  Qed.

  Lemma mu_park (s : state) h pc :
    NoDup (map h_id (handlers s)) -> In h (handlers s) -> mu (park s (h_id h) pc) + hw (h_pc h) = mu s + hw pc.
  Proof.
    intros Hnd Hin. pose proof (sumh_repl (handlers s) h pc Hnd Hin) as Hr.
    unfold mu, park. cbn [conns aq handlers ev_end ev_reset set_handlers]. fold (repl (h_id h) pc). lia.
  Qed.

  (* changing only agents and world leaves the measure alone *)
  Lemma mu_ext (s s' : state) :
    conns s' = conns s -> aq s' = aq s -> handlers s' = handlers s -> ev_end s' = ev_end s -> ev_reset s' = ev_reset s -> mu s' = mu s.
  Proof. intros E1 E2 E3 E4 E5. unfold mu. rewrite E1, E2, E3, E4, E5. reflexivity. Qed.

  Lemma mu_game_finish (s : state) h act v' :
    NoDup (map h_id (handlers s)) -> In h (handlers s) ->
    mu (@game_finish V W G s (h_id h) (h_addr h) act v') + hw (h_pc h) <= mu s + 2.
  Proof.
    intros Hnd Hin. unfold game_finish. destruct (alookup (h_addr h) (agents s)) as [a|].
    - match goal with |- context [respond (remove_handler ?S1 _) _ ?R] =>
        pose proof (mu_finish S1 h (QResp R) Hnd Hin) as H; assert (Hm : mu S1 = mu s) by (apply mu_ext; reflexivity) end.
      unfold respond. lia.
    - pose proof (sumh_remove (handlers s) h Hnd Hin) as Hr.
      unfold mu, remove_handler. cbn [conns aq handlers ev_end ev_reset set_handlers]. lia.
  Qed.

  Lemma mu_reset_finish (s : state) h want :
    NoDup (map h_id (handlers s)) -> In h (handlers s) ->
    mu (@reset_finish V W G s (h_id h) (h_addr h) want) + hw (h_pc h) <= mu s + 2.
  Proof.
    intros Hnd Hin. unfold reset_finish. destruct (alookup (h_addr h) (agents s)) as [a|].
    - match goal with |- context [respond (remove_handler ?S1 _) _ ?R] =>
        pose proof (mu_finish S1 h (QResp R) Hnd Hin) as H; assert (Hm : mu S1 = mu s) by (apply mu_ext; reflexivity) end.
      unfold respond. lia.
    - pose proof (sumh_remove (handlers s) h Hnd Hin) as Hr.
      unfold mu, remove_handler. cbn [conns aq handlers ev_end ev_reset set_handlers]. lia.
  Qed.

  Lemma b2n_le b : b2n b <= 1. Proof. destruct b; simpl; lia. Qed.

  Theorem mu_h_start (s : state) h m :
    NoDup (map h_id (handlers s)) -> In h (handlers s) -> h_pc h = PSpawned m ->
    mu (h_start s (h_id h) (h_addr h) m) < mu s.
  Proof.
    intros Hnd Hin Hpc. assert (Hw : hw (h_pc h) = 8) by (rewrite Hpc; reflexivity).
    assert (Hfin : forall item, mu (put (remove_handler s (h_id h)) (h_addr h) item) < mu s).
    { intros item. pose proof (mu_finish s h item Hnd Hin). lia. }
    destruct m as [|info| |want|act valid].
    - unfold Coord.h_start. pose proof (sumh_remove (handlers s) h Hnd Hin) as Hr.
      unfold mu, remove_handler. cbn [conns aq handlers ev_end ev_reset set_handlers]. lia.
    - unfold Coord.h_start.
      destruct (alookup (h_addr h) (agents s)); [apply Hfin|].
      destruct info as [[name [r|]]|]; try apply Hfin.
      destruct (negb (allowed cfg r)); [apply Hfin|].
      destruct (winit (world s) r) as [w' v]. cbv zeta.
      set (s1 := set_agents (set_world s w') (agents s ++ [(h_addr h, new_agent name r v)])).
      assert (Hm1 : mu s1 = mu s) by (apply mu_ext; reflexivity).
      assert (Hh1 : handlers s1 = handlers s) by reflexivity.
      destruct (Nat.eqb (length (agents s1)) (required cfg)).
      + (* start event set: all waiting handlers released; this one answers *)
        assert (Hrel : release_start h = h) by (destruct h as [i a pc]; simpl in *; subst pc; reflexivity).
        assert (Hin2 : In h (handlers (set_start_event s1))).
        { unfold set_start_event. cbn [handlers set_handlers set_ev_start]. rewrite <- Hrel. apply in_map. rewrite Hh1. exact Hin. }
        assert (Hnd2 : NoDup (map h_id (handlers (set_start_event s1)))).
        { unfold set_start_event. cbn [handlers set_handlers set_ev_start]. rewrite map_map, Hh1.
          erewrite map_ext; [exact Hnd|]. intros x. destruct x as [i a pc]; destruct pc; reflexivity. }
        assert (Hm2 : mu (set_start_event s1) <= mu s1).
        { unfold mu, set_start_event. cbn [conns aq handlers ev_end ev_reset set_handlers set_ev_start].
          pose proof (sumh_map_le release_start (handlers s1) hw_release_start). lia. }
        replace (ev_start (set_start_event s1)) with true by reflexivity.
        pose proof (mu_finish (set_start_event s1) h (QResp (RCreated v)) Hnd2 Hin2). unfold respond. lia.
      + destruct (ev_start s1).
        * pose proof (mu_finish s1 h (QResp (RCreated v)) Hnd Hin). unfold respond. lia.
        * pose proof (mu_park s1 h (PJoinStart false v) Hnd Hin). simpl in H. lia.
    - (* quit *)
      unfold Coord.h_start.
      assert (Hra : conns (remove_agent s (h_addr h)) = conns s /\ aq (remove_agent s (h_addr h)) = aq s /\
                    handlers (remove_agent s (h_addr h)) = handlers s).
      { unfold remove_agent. destruct (alookup _ _); [|auto]. destruct (_ && _); destruct (all_ended _); auto. }
      destruct Hra as (E1 & E2 & E3).
      pose proof (mu_finish (remove_agent s (h_addr h)) h QClose) as H. rewrite E3 in H. specialize (H Hnd Hin).
      assert (Hm : mu (remove_agent s (h_addr h)) <= mu s + 2).
      { unfold mu. rewrite E1, E2, E3. pose proof (b2n_le (ev_end (remove_agent s (h_addr h)))).
        pose proof (b2n_le (ev_reset (remove_agent s (h_addr h)))). lia. }
      lia.
    - (* reset request *)
      unfold Coord.h_start. destruct (alookup (h_addr h) (agents s)); [|apply Hfin]. cbv zeta.
      set (s1 := set_agents s (aupdate (h_addr h) (fun a => a_set_req a true) (agents s))).
      assert (Hm1 : mu s1 = mu s) by (apply mu_ext; reflexivity).
      destruct (all_req _).
      + pose proof (mu_park (set_ev_reset s1 true) h (PResetDone false want) Hnd Hin). simpl hw in H.
        assert (mu (set_ev_reset s1 true) <= mu s1 + 1) by (unfold mu; cbn [conns aq handlers ev_end ev_reset set_ev_reset]; pose proof (b2n_le (ev_reset s1)); simpl; lia).
        lia.
      + pose proof (mu_park s1 h (PResetDone false want) Hnd Hin). simpl hw in H. lia.
    - (* a game action *)
      unfold Coord.h_start. destruct (alookup (h_addr h) (agents s)) as [a|]; [|apply Hfin].
      destruct (negb valid); [apply Hfin|]. destruct (a_ended a); [apply Hfin|].
      destruct (wstep (world s) (a_view a) act) as [w' v']. cbv zeta.
      match goal with |- context [all_ended ?AGS] => set (ags := AGS) end.
      set (s1 := set_agents (set_world s w') ags).
      assert (Hm1 : mu s1 = mu s) by (apply mu_ext; reflexivity).
      assert (Hs2 : forall s2 : state, (s2 = s1 \/ s2 = set_ev_end s1 true) ->
                 mu s2 <= mu s + 1 /\ handlers s2 = handlers s).
      { intros s2 [-> | ->]; split; try reflexivity; [lia|].
        unfold mu. cbn [conns aq handlers ev_end ev_reset set_ev_end]. pose proof (b2n_le (ev_end s1)). unfold mu in Hm1. simpl. lia. }
      assert (Hgoal : forall s2 : state, (s2 = s1 \/ s2 = set_ev_end s1 true) -> forall b : bool,
                 mu (if b then park s2 (h_id h) (PRewards false act v') else @game_finish V W G s2 (h_id h) (h_addr h) act v') < mu s).
      { intros s2 H2 b. destruct (Hs2 s2 H2) as [Hle Hh]. destruct b.
        - pose proof (mu_park s2 h (PRewards false act v')) as H. rewrite Hh in H. specialize (H Hnd Hin). simpl hw in H. lia.
        - pose proof (mu_game_finish s2 h act v') as H. rewrite Hh in H. specialize (H Hnd Hin). lia. }
      destruct (all_ended ags); apply Hgoal; auto.
  Qed.

  Theorem mu_h_wake (s s' : state) h :
    NoDup (map h_id (handlers s)) -> In h (handlers s) -> h_wake s h = Some s' -> mu s' < mu s.
  Proof.
    intros Hnd Hin. unfold Coord.h_wake. destruct (h_pc h) as [m|rel v|rel act v'|rel want|rel want] eqn:Hpc.
    - intros [= <-]. apply mu_h_start; assumption.
    - destruct rel; [|discriminate]. intros [= <-]. pose proof (mu_finish s h (QResp (RCreated v)) Hnd Hin). rewrite Hpc in H. simpl in H. unfold respond. lia.
    - destruct rel; [|discriminate]. intros [= <-]. pose proof (mu_game_finish s h act v' Hnd Hin). rewrite Hpc in H. simpl in H. lia.
    - destruct rel; [|discriminate]. destruct (ev_start s); intros [= <-].
      + pose proof (mu_reset_finish s h want Hnd Hin). rewrite Hpc in H. simpl in H. lia.
      + pose proof (mu_park s h (PResetStart false want) Hnd Hin). rewrite Hpc in H. simpl in H. lia.
    - destruct rel; [|discriminate]. intros [= <-]. pose proof (mu_reset_finish s h want Hnd Hin). rewrite Hpc in H. simpl in H. lia.
  Qed.

  (* ---- every internal label ---- *)
  Theorem mu_decreases (s s' : state) t : Inv s -> exec s (LRun t) = Some s' -> mu s' < mu s.
  Proof.
    intros Hi. destruct (I_ids s Hi) as [Hnd _]. cbn [Coord.exec]. destruct t as [c| |id| |].
    - apply mu_conn_run.
    - apply mu_dispatch_run.
    - unfold handler_run. destruct (find (fun h => Nat.eqb (h_id h) id) (handlers s)) as [h|] eqn:Hf; [|discriminate].
      apply find_some in Hf as [Hin _]. apply mu_h_wake; assumption.
    - unfold rewards_run. destruct (ev_end s) eqn:Ee; [|discriminate]. simpl.
      destruct (negb (all_ended (agents s))); intros [= <-]; unfold mu; cbn [conns aq handlers ev_end ev_reset set_ev_end set_agents set_handlers]; rewrite Ee; simpl.
      + lia.
      + pose proof (sumh_map_le release_rewards (handlers s) hw_release_rewards). lia.
    - unfold reset_run. destruct (ev_reset s) eqn:Ee; [|discriminate]. simpl.
      destruct (negb _).
      + intros [= <-]. unfold mu. cbn [conns aq handlers ev_end ev_reset set_ev_reset]. rewrite Ee. simpl. lia.
      + destruct (fold_left _ (agents s) (wreset (world s), [], files s)) as [[w' ags] fl]. intros [= <-].
        unfold mu. cbn [conns aq handlers ev_end ev_reset set_ev_reset set_agents set_handlers set_files set_world]. rewrite Ee. simpl.
        pose proof (sumh_map_le release_reset (handlers s) hw_release_reset). lia.
  Qed.

  (* at most `mu s` task steps between two external events *)
  Definition internal (l : @label G) : Prop := exists t, l = LRun t.

  Theorem bounded_internal_runs ls : forall (s s' : state), Inv s -> (forall l, In l ls -> internal l) ->
    execs s ls = Some s' -> length ls + mu s' <= mu s.
  Proof.
    induction ls as [|l tl IH]; intros s s' Hi Hint; cbn [Coord.execs length].
    - intros [= <-]. lia.
    - destruct (exec s l) as [s1|] eqn:E; [|discriminate]. intros He.
      destruct (Hint l (or_introl eq_refl)) as [t ->].
      pose proof (mu_decreases s s1 t Hi E) as Hd.
      assert (Hi1 : Inv s1) by (eapply inv_exec; eauto).
      specialize (IH s1 s' Hi1 (fun l0 H0 => Hint l0 (or_intror H0)) He). lia.
  Qed.

  Theorem bounded_internal_runs_reachable w ls0 ls (s s' : state) :
    execs (init_state w) ls0 = Some s -> (forall l, In l ls -> internal l) -> execs s ls = Some s' -> length ls <= mu s.
  Proof.
    intros H0 Hint He. pose proof (bounded_internal_runs ls s s' (inv_reachable wstep wreset winit goal detect cfg w ls0 s H0) Hint He). lia.
  Qed.
End Measure.
