(* Executable instance of the coordinator model for the trace-following correspondence check.
   Views are interned identifiers; the world is an oracle stream of the view identifiers that the
   real world returned (Model/World.v is tied to the real world separately); the goal check is a
   table computed by the harness' reference subset check; detection is the defender model M3 on
   the tables generated from the source, with the session's scripted draw. *)
From Coq Require Import ZArith NArith List Bool Arith.
From NSG Require Import Base.Prelude Model.Defender Model.Coord.
Import ListNotations.

Definition xV := N.
Definition xW := list N.
Definition xG := act.           (* (action type, identifier of the parametrised action) *)

Definition x_wstep (w : xW) (_ : xV) (_ : xG) : xW * xV := (tl w, hd 0%N w).
Definition x_wreset (w : xW) : xW := w.
Definition x_winit (w : xW) (_ : role) : xW * xV := (tl w, hd 0%N w).

Definition role_code (r : role) : Z := match r with RAttacker => 0 | RDefender => 1 | RBenign => 2 end.
Definition status_code (s : status) : Z :=
  match s with SPlaying => 0 | SPlayingTO => 1 | STimeout => 2 | SSuccess => 3 | SFail => 4 end.

Section Exec.
  Variable goal_tab : list (Z * N).            (* (role code, view id) pairs for which the goal holds *)
  Variable tables : option tables.             (* None: no global defender *)
  Variable roll : rat.
  Variable cfg : config.

  Definition x_goal (r : role) (v : xV) : bool :=
    existsb (fun p => Z.eqb (fst p) (role_code r) && N.eqb (snd p) v) goal_tab.
  Definition x_detect (hist : list xG) (a : xG) : bool :=
    match tables with
    | None => false
    | Some T => match decide T 5 hist a roll with Some true => true | _ => false end
    end.

  Definition x_exec := @exec xV xW xG x_wstep x_wreset x_winit x_goal x_detect cfg.
  Definition x_quiescent := @quiescent xV xW xG x_wstep x_winit x_goal x_detect cfg.

  (* ---- flat serialisation of the observable state (the harness computes the same from the
          implementation's tables and asyncio objects) ---- *)
  Definition zb (b : bool) : Z := if b then 1 else 0.
  Definition zsigned (z : Z) : list Z := [zb (Z.ltb z 0); Z.abs z].
  Definition ser_list {A} (f : A -> list Z) (l : list A) : list Z := Z.of_nat (length l) :: concat (map f l).

  Definition ser_traj (t : @traj xV xG) : list Z :=
    ser_list (fun v => [Z.of_N v]) (t_states t) ++ ser_list (fun a => [Z.of_N (snd a)]) (t_actions t) ++ ser_list zsigned (t_rewards t).

  Definition ser_agent (x : addr * @agent xV xG) : list Z :=
    let a := snd x in
    [Z.of_N (fst x); Z.of_N (a_name a); role_code (a_role a); Z.of_nat (a_steps a); zb (a_req a); status_code (a_status a);
     zb (a_ended a); Z.of_N (a_view a)] ++ zsigned (a_reward a) ++ [zb (a_rewarded a)] ++
    (let '(v, r, e) := a_obs a in Z.of_N v :: zsigned r ++ [zb e]) ++ ser_traj (a_traj a).

  Definition ser_resp (r : @resp xV xG) : list Z :=
    match r with
    | RBad => [0]
    | RCreated v => [1; Z.of_N v]
    | ROk v rw e st => [2; Z.of_N v] ++ zsigned rw ++ [zb e; match st with Some s => 1 + status_code s | None => 0 end]
    | RForbidden v rw st => [3; Z.of_N v] ++ zsigned rw ++ [status_code st]
    | RResetDone (v, rw, e) t => [4; Z.of_N v] ++ zsigned rw ++ [zb e] ++ match t with Some t => 1 :: ser_traj t | None => [0] end
    end%Z.
  Definition ser_qitem (q : @qitem xV xG) : list Z := match q with QResp r => ser_resp r | QClose => [9%Z] end.

  Definition cstate_code (c : cstate) : Z := match c with CNew => 0 | CReading => 1 | CAwaiting => 2 | CClosed => 3 end.
  Definition ser_conn (x : addr * @conn xV xG) : list Z :=
    let c := snd x in
    [Z.of_N (fst x); cstate_code (c_state c)] ++ ser_list ser_qitem (c_queue c) ++ ser_list ser_resp (c_outs c).

  Definition pc_code (p : @hpc xV xG) : list Z :=
    match p with
    | PSpawned _ => [0]
    | PJoinStart _ v => [1; Z.of_N v]
    | PRewards _ a v => [2; Z.of_N (snd a); Z.of_N v]
    | PResetDone _ t => [3; zb t]
    | PResetStart _ t => [4; zb t]
    end%Z.
  Definition ser_handler (h : @handler xV xG) : list Z := [Z.of_nat (h_id h); Z.of_N (h_addr h)] ++ pc_code (h_pc h).

  (* trajectory files are compared per (agent name, role): stable insertion sort on that key *)
  Definition file_key (f : N * role * @traj xV xG) : Z := let '(n, r, _) := f in (Z.of_N n * 4 + role_code r)%Z.
  Fixpoint insert_file (f : N * role * @traj xV xG) (l : list (N * role * @traj xV xG)) :=
    match l with
    | [] => [f]
    | g :: tl => if Z.ltb (file_key f) (file_key g) then f :: g :: tl else g :: insert_file f tl
    end.
  Definition sort_files (l : list (N * role * @traj xV xG)) := fold_left (fun acc f => insert_file f acc) l [].

  Definition ser_state (s : @state xV xW xG) : list Z :=
    [Z.of_nat (served s); zb (ev_start s); zb (ev_end s); zb (ev_reset s); Z.of_nat (length (aq s))] ++
    ser_list ser_agent (agents s) ++ ser_list ser_conn (conns s) ++ ser_list ser_handler (handlers s) ++
    ser_list (fun f => let '(n, r, t) := f in [Z.of_N n; role_code r] ++ ser_traj t) (sort_files (files s)).

  Fixpoint zlist_eqb (a b : list Z) : bool :=
    match a, b with
    | [], [] => true
    | x :: a', y :: b' => Z.eqb x y && zlist_eqb a' b'
    | _, _ => false
    end.

  (* follow a recorded schedule: after every label the model's serialised state must equal the
     implementation's; returns the index of the first label that is not enabled (code 1) or after
     which the states differ (code 2, with the model's serialisation), or (n, 0, []) if all agree.
     `final_quiescent` additionally demands that no internal label is enabled at the end. *)
  Fixpoint follow (i : nat) (s : @state xV xW xG) (tr : list (@label xG * list Z)) : nat * Z * list Z * bool :=
    match tr with
    | [] => (i, 0%Z, [], x_quiescent s)
    | (l, expected) :: tl =>
        match x_exec s l with
        | None => (i, 1%Z, ser_state s, false)
        | Some s' => if zlist_eqb (ser_state s') expected then follow (S i) s' tl else (i, 2%Z, ser_state s', false)
        end
    end.
End Exec.
