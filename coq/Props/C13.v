(* C13 - Dynamic addresses re-label the network without changing it.
   Statements only; proofs in Proofs/RemapFacts.v, Proofs/RekeyFacts.v, Proofs/Equivariance.v.  valid_mapping (Model/Remap.v) is evaluated inside
   Coq on every re-labelling the implementation performs (props/c13.py); the theorems say what a valid
   mapping guarantees for the re-keyed world. *)
From stdpp Require Import gmap.
From Coq Require Import ZArith NArith.
From NSG Require Import Model.World Model.Load Model.Remap Proofs.RemapFacts Proofs.Equivariance Proofs.InitEquiv.

(* one-to-one on the hosts and on the networks of the world *)
Theorem C13_one_to_one_ips : forall w m, valid_mapping w m = true ->
  forall i j, i ∈ world_ips w -> j ∈ world_ips w -> mip m i = mip m j -> i = j.
Proof. exact valid_ip_inj. Qed.
Theorem C13_one_to_one_nets : forall w m, valid_mapping w m = true ->
  forall a b, a ∈ dom (w_nets w) -> b ∈ dom (w_nets w) -> mnet m a = mnet m b -> a = b.
Proof. exact valid_net_inj. Qed.

(* masks kept, private stays private and public stays public, every address inside its network *)
Theorem C13_shape : forall w m, valid_mapping w m = true ->
  forall n ips, w_nets w !! n = Some ips ->
    snd (mnet m n) = snd n /\ net_private (mnet m n) = net_private n /\
    forall i, i ∈ ips -> in_net (mip m i) (mnet m n) = true.
Proof. exact valid_net_shape. Qed.

(* private networks keep their relative distances *)
Theorem C13_distances : forall w m, valid_mapping w m = true ->
  forall a b, a ∈ dom (w_nets w) -> b ∈ dom (w_nets w) -> net_private a = true -> net_private b = true ->
    (Z.of_N (fst (mnet m a)) - Z.of_N (fst (mnet m b)) = Z.of_N (fst a) - Z.of_N (fst b))%Z.
Proof. exact valid_distances. Qed.

(* every host keeps its node identity, hence its services and data (keyed by node, untouched) *)
Theorem C13_node_identity : forall w m, valid_mapping w m = true ->
  forall i n, w_ip2host w !! i = Some n -> w_ip2host (rekey_world m w) !! mip m i = Some n.
Proof. exact rekey_node_identity. Qed.
Theorem C13_services_data : forall w m,
  w_services (rekey_world m w) = w_services w /\ w_data (rekey_world m w) = w_data w /\ w_data0 (rekey_world m w) = w_data0 w.
Proof. exact rekey_services_data_untouched. Qed.

(* network membership and allowed connections are the old ones read through the mapping *)
Theorem C13_membership : forall w m, valid_mapping w m = true ->
  forall n ips, w_nets w !! n = Some ips -> w_nets (rekey_world m w) !! mnet m n = Some (map_ipset m ips).
Proof. exact rekey_membership. Qed.
Theorem C13_connections : forall w m, valid_mapping w m = true ->
  forall i S, dom (w_fw w) ⊆ world_ips w -> w_fw w !! i = Some S ->
    w_fw (rekey_world m w) !! mip m i = Some (map_ipset m S).
Proof. exact rekey_connections. Qed.
Theorem C13_connections_both_ways : forall w m, valid_mapping w m = true ->
  forall (S : gset ip) j, S ⊆ world_ips w -> j ∈ world_ips w -> (mip m j ∈ map_ipset m S <-> j ∈ S).
Proof. exact map_ipset_member. Qed.

(* non-vacuity: a two-network world and a valid re-labelling of it *)
Example C13_nonvacuous :
  let w := {| w_ip2host := {[3232235778%N := 7%N; 3232236034%N := 8%N]};
              w_nets := {[(3232235776%N, 24%N) := {[3232235778%N]}; (3232236032%N, 24%N) := {[3232236034%N]}]};
              w_services := ∅; w_data := ∅; w_fw := ∅; w_blocks := ∅; w_data0 := ∅; w_fw0 := ∅ |} in
  let m := {| m_ip := {[3232235778%N := 167772419%N; 3232236034%N := 167772677%N]};
              m_net := {[(3232235776%N, 24%N) := (167772416%N, 24%N); (3232236032%N, 24%N) := (167772672%N, 24%N)]} |} in
  valid_mapping w m = true.
Proof. vm_compute. reflexivity. Qed.

(* "any action sequence translated through it produces the translated observations": every action, and by
   induction every action sequence, commutes with a re-labelling that is one-to-one on the addresses and networks
   in play (and under which a scanned network keeps exactly its members): playing the translated actions on the
   re-keyed world from the translated view gives the re-keyed world and the translated view *)
Theorem C13_equivariant_step : forall (m : mapping) (D : gset ip) (DN : gset net) (w : world) (v : view) (a : gaction),
  (forall x y, x ∈ D -> y ∈ D -> mip m x = mip m y -> x = y) ->
  (forall x y, x ∈ DN -> y ∈ DN -> mnet m x = mnet m y -> x = y) ->
  world_all_ips w ⊆ D -> dom (w_nets w) ⊆ DN -> view_ips v ⊆ D -> action_ips a ⊆ D -> scan_faithful m w a = true ->
  step (rekey_world m w) (map_view m v) (map_action m a) =
  (rekey_world m (fst (step w v a)), map_view m (snd (step w v a))).
Proof. exact step_equivariant. Qed.

Theorem C13_equivariant_play : forall (m : mapping) (D : gset ip) (DN : gset net) (acts : list gaction) (w : world) (v : view),
  (forall x y, x ∈ D -> y ∈ D -> mip m x = mip m y -> x = y) ->
  (forall x y, x ∈ DN -> y ∈ DN -> mnet m x = mnet m y -> x = y) ->
  world_all_ips w ⊆ D -> dom (w_nets w) ⊆ DN -> view_ips v ⊆ D ->
  (forall a, a ∈ acts -> action_ips a ⊆ D /\ scan_faithful m w a = true) ->
  play (rekey_world m w) (map_view m v) (map (map_action m) acts) =
  (rekey_world m (fst (play w v acts)), map_view m (snd (play w v acts))).
Proof. exact play_equivariant. Qed.

(* the same with decidable hypotheses; `equiv_ready` is evaluated inside Coq on the re-labellings the implementation
   makes and the action sequences played after them (C13 correspondence) *)
Theorem C13_equivariant_ready : forall (m : mapping) (w : world) (v : view) (acts : list gaction),
  equiv_ready m w v acts = true ->
  play (rekey_world m w) (map_view m v) (map (map_action m) acts) =
  (rekey_world m (fst (play w v acts)), map_view m (snd (play w v acts))).
Proof. exact play_equivariant_ready. Qed.

(* non-vacuity: on the two-network world a scan, a service discovery and an exploit are played; the hypotheses hold,
   the played sequence changes the view, and both sides agree (computed) *)
Example C13_equivariant_nonvacuous :
  let s1 : svc := (1%N, 2%N, 3%N, false) in
  let w := {| w_ip2host := {[3232235778%N := 7%N; 3232236034%N := 8%N]};
              w_nets := {[(3232235776%N, 24%N) := {[3232235778%N]}; (3232236032%N, 24%N) := {[3232236034%N]}]};
              w_services := {[8%N := {[s1]}]}; w_data := ∅;
              w_fw := {[3232235778%N := {[3232235778%N; 3232236034%N]}; 3232236034%N := {[3232235778%N; 3232236034%N]}]};
              w_blocks := ∅; w_data0 := ∅;
              w_fw0 := {[3232235778%N := {[3232235778%N; 3232236034%N]}; 3232236034%N := {[3232235778%N; 3232236034%N]}]} |} in
  let m := {| m_ip := {[3232235778%N := 167772419%N; 3232236034%N := 167772677%N]};
              m_net := {[(3232235776%N, 24%N) := (167772416%N, 24%N); (3232236032%N, 24%N) := (167772672%N, 24%N)]} |} in
  let v := {| v_ctrl := {[3232235778%N]}; v_hosts := {[3232235778%N]}; v_svcs := ∅; v_data := ∅;
              v_nets := {[(3232235776%N, 24%N)]}; v_blocks := ∅ |} in
  let acts := [AScan 3232235778%N (3232236032%N, 24%N); AFindServices 3232235778%N 3232236034%N;
               AExploit 3232235778%N 3232236034%N s1; ABlock 3232236034%N 3232236034%N 3232235778%N] in
  equiv_ready m w v acts = true /\
  bool_decide (3232236034%N ∈ v_ctrl (snd (play w v acts))) = true /\ bool_decide (3232236034%N ∈ v_ctrl v) = false /\
  bool_decide (167772677%N ∈ v_ctrl (snd (play (rekey_world m w) (map_view m v) (map (map_action m) acts)))) = true /\
  bool_decide (3232235778%N ∈ get (w_fw (fst (play w v acts))) 3232236034%N) = false.
Proof. vm_compute. repeat split; reflexivity. Qed.

(* "start positions follow the same re-labelling": for a valid re-labelling, the initial view built on the re-keyed world
   from the translated start position (and the translated random picks) is the translated initial view of the original
   world, on the objects of the scenario (both sides restricted to the scenario's networks: the artificial neighbouring
   networks that are not scenario networks are outside the re-labelling).  With C13_equivariant_play: the whole episode
   played on the re-labelled world is the translation of the episode played on the original one. *)
Theorem C13_start_positions : forall (w : world) (m : mapping), valid_mapping w m = true ->
  forall (sp : start_pos) (o : list ip), sp_in_scenario w sp o ->
  view_restrict (rekey_world m w) (init_view (rekey_world m w) (map_sp m sp) (map (mip m) o)) =
  map_view m (view_restrict w (init_view w sp o)).
Proof. exact init_view_equivariant. Qed.

(* non-vacuity: the two-network world, its valid re-labelling, a start position with a listed host, 'all_local' and a
   listed network; the premises hold and the controlled hosts of the re-labelled initial view are the re-labelled ones *)
Example C13_start_positions_nonvacuous :
  let w := {| w_ip2host := {[3232235778%N := 7%N; 3232236034%N := 8%N]};
              w_nets := {[(3232235776%N, 24%N) := {[3232235778%N]}; (3232236032%N, 24%N) := {[3232236034%N]}]};
              w_services := ∅; w_data := ∅; w_fw := ∅; w_blocks := ∅; w_data0 := ∅; w_fw0 := ∅ |} in
  let m := {| m_ip := {[3232235778%N := 167772419%N; 3232236034%N := 167772677%N]};
              m_net := {[(3232235776%N, 24%N) := (167772416%N, 24%N); (3232236032%N, 24%N) := (167772672%N, 24%N)]} |} in
  let sp := {| sp_nets := [(3232236032%N, 24%N)]; sp_hosts := [3232236034%N]; sp_ctrl := [SHost 3232235778%N]; sp_svcs := []; sp_data := [] |} in
  valid_mapping w m = true /\ sp_in_scenario w sp [] /\
  bool_decide (167772419%N ∈ v_ctrl (init_view (rekey_world m w) (map_sp m sp) [])) = true /\
  bool_decide ((167772672%N, 24%N) ∈ v_nets (view_restrict (rekey_world m w) (init_view (rekey_world m w) (map_sp m sp) []))) = true.
Proof.
  split; [vm_compute; reflexivity|]. split; [|split; vm_compute; reflexivity].
  constructor; simpl.
  - intros h [<-|[]]. vm_compute. set_solver.
  - intros h [[= <-]|[]]. vm_compute. set_solver.
  - intros h [].
  - intros n [<-|[]]. vm_compute. set_solver.
  - split; [constructor | intros k []].
  - split; [constructor | intros k []].
Qed.

Print Assumptions C13_one_to_one_ips.
Print Assumptions C13_one_to_one_nets.
Print Assumptions C13_shape.
Print Assumptions C13_distances.
Print Assumptions C13_node_identity.
Print Assumptions C13_services_data.
Print Assumptions C13_membership.
Print Assumptions C13_connections.
Print Assumptions C13_connections_both_ways.
Print Assumptions C13_equivariant_step.
Print Assumptions C13_equivariant_play.
Print Assumptions C13_equivariant_ready.
Print Assumptions C13_start_positions.
