(* C17 - The global defender detects only past its thresholds, with the stated odds.
   Statements only; proofs are in Proofs/DefenderFacts.v. *)
From NSG Require Import Base.Prelude Model.Defender Proofs.DefenderFacts.

(* The decision, for ALL tables, window sizes, histories, actions and draws:
   detection <-> episode (with this action) at least one window long, monitored type,
   threshold condition (share in the window reaches the ratio threshold, or - depending on the
   type - a run of that length exists in the window / the identical action occurs that often in
   the episode), and the draw is below the type's probability. *)
Theorem C17_iff : forall T tw hist a roll,
  wf_tables T = true ->
  (decide T tw hist a roll = Some true <->
   tw <= length hist + 1 /\ monitored T (fst a) = true /\ trigger T tw hist a /\ draw_below T (fst a) roll).
Proof. exact decide_iff. Qed.

(* the function is total on well-formed tables (the code's dictionary lookups cannot fail) *)
Theorem C17_total : forall T tw hist a roll,
  wf_tables T = true -> exists b, decide T tw hist a roll = Some b.
Proof. exact decide_total. Qed.

(* the code's groupby-based "longest run" is exactly: some k consecutive occurrences exist *)
Theorem C17_run : forall t k l, k <= max_consecutive t l <-> has_run t k l.
Proof. exact max_consecutive_spec. Qed.

(* C17_draw: when the other conjuncts hold, the draws that detect are exactly those below the
   probability, so a uniform draw detects with that probability. *)
Theorem C17_draw : forall T tw hist a roll p,
  wf_tables T = true -> tw <= length hist + 1 -> monitored T (fst a) = true -> trigger T tw hist a ->
  t_prob T (fst a) = Some p ->
  (decide T tw hist a roll = Some true <-> rat_lt roll p = true).
Proof. exact decide_draw. Qed.

(* non-vacuity: a concrete history that satisfies the hypotheses and is detected / not detected *)
Example C17_nonvacuous :
  let T := {| t_prob := fun t => match t with ScanNetwork => Some (1%Z, 20%positive) | _ => None end;
              t_ratio := fun t => match t with ScanNetwork => Some (1%Z, 4%positive) | _ => None end;
              t_consec := fun t => match t with ScanNetwork => Some 2 | _ => None end;
              t_repeat := fun _ => None |} in
  let h := [(FindData, 1%N); (ScanNetwork, 2%N); (FindData, 3%N); (FindServices, 4%N)] in
  wf_tables T = true /\
  decide T 5 h (ScanNetwork, 7%N) (1%Z, 100%positive) = Some true /\
  decide T 5 h (ScanNetwork, 7%N) (1%Z, 20%positive) = Some false /\
  decide T 5 (tl h) (ScanNetwork, 7%N) (0%Z, 1%positive) = Some false.
Proof. vm_compute. repeat split; reflexivity. Qed.

Print Assumptions C17_iff.
Print Assumptions C17_total.
Print Assumptions C17_run.
Print Assumptions C17_draw.
