#!/venv/bin/python
"""Development helper: builds a Props/Cxx.v file whose theorems restate (by `exact`) lemmas of the
proof files, with the statement printed by Coq itself so that it is visible in the property file."""
import re
import subprocess
import sys

HEADER = """From Coq Require Import ZArith NArith List Bool Arith.
From NSG Require Import Base.Prelude Model.Defender Model.Coord Proofs.CoordBase Proofs.CoordInv Proofs.CoordInvConn Proofs.CoordInvDispatch Proofs.CoordInvHandler Proofs.CoordProps Proofs.CoordDirect Proofs.CoordInv2 Proofs.CoordAgentStep Proofs.CoordBarrier Proofs.CoordMeasure Proofs.CoordIsolation Proofs.CoordLimit Proofs.CoordKinds Proofs.CoordFiles{extra}.
Import ListNotations.
"""


def check_type(lemma, extra=""):
    src = HEADER.format(extra=extra) + "Set Printing Width 110.\nSet Printing Depth 1000.\nSet Printing Implicit.\nCheck @%s.\n" % lemma
    open("/tmp/_chk.v", "w").write(src)
    r = subprocess.run(["coqc", "-Q", "/verif/coq", "NSG", "/tmp/_chk.v"], capture_output=True, text=True)
    out = r.stdout
    m = re.search(r"@?%s\s*:\s*(.*)" % re.escape(lemma.split(".")[-1]), out, re.S)
    if not m:
        raise RuntimeError(f"cannot print {lemma}: {r.stderr[-500:]} {out[-300:]}")
    return m.group(1).strip()


def build(prop, title, intro, items, extra="", example=None):
    L = [f"(* {prop} - {title}", "   Statements only (printed by Coq from the proof files); proofs are in coq/Proofs/Coord*.v.", intro, "*)",
         HEADER.format(extra=extra)]
    names = []
    for name, lemma, comment in items:
        ty = check_type(lemma, extra)
        L.append(f"(* {comment} *)")
        L.append(f"Theorem {name} :\n  {ty}.\nProof. exact (@{lemma}). Qed.\n")
        names.append(name)
    if example:
        L.append(example)
    for n in names:
        L.append(f"Print Assumptions {n}.")
    open(f"/verif/coq/Props/{prop}.v", "w").write("\n".join(L) + "\n")


if __name__ == "__main__":
    pass
