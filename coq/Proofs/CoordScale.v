(* Rewards only ever enter the coordinator as the three configured numbers and their sums: scaling the three configured rewards
   by a factor k scales every reward the coordinator stores, sends or records by k and changes nothing else.  (The correspondence
   follows sessions with fractional rewards - binary fractions - at a scale at which they are whole numbers; this is why that is exact.) *)
From Coq Require Import ZArith NArith List Bool Arith Lia.
From NSG Require Import Model.Coord.
Import ListNotations.

Section Scale.
  Context {V W G : Type}.
  Variable wstep : W -> V -> G -> W * V.
  Variable wreset : W -> W.
  Variable winit : W -> role -> W * V.
  Variable goal : role -> V -> bool.
  Variable detect : list G -> G -> bool.
  Variable cfg : config.
  Variable k : Z.

  Notation state := (@state V W G).
  Notation handler := (@handler V G).
  Notation agent := (@agent V G).
  Notation conn := (@conn V G).
  Notation traj := (@traj V G).
  Notation resp := (@resp V G).
  Notation qitem := (@qitem V G).
  Notation label := (@label G).

  Definition kcfg : config :=
    {| required := required cfg; max_steps := max_steps cfg; r_step := (k * r_step cfg)%Z; r_succ := (k * r_succ cfg)%Z;
       r_fail := (k * r_fail cfg)%Z; allowed := allowed cfg; save_traj := save_traj cfg |}.

  Definition ktraj (t : traj) : traj := {| t_states := t_states t; t_actions := t_actions t; t_rewards := map (Z.mul k) (t_rewards t) |}.
  Definition kobs (o : V * Z * bool) : V * Z * bool := (fst (fst o), (k * snd (fst o))%Z, snd o).
  Definition kagent (a : agent) : agent :=
    {| a_name := a_name a; a_role := a_role a; a_steps := a_steps a; a_req := a_req a; a_status := a_status a; a_ended := a_ended a;
       a_view := a_view a; a_reward := (k * a_reward a)%Z; a_rewarded := a_rewarded a; a_obs := kobs (a_obs a); a_traj := ktraj (a_traj a) |}.
  Definition kresp (r : resp) : resp :=
    match r with
    | RBad => RBad
    | RCreated v => RCreated v
    | ROk v x e st => ROk v (k * x)%Z e st
    | RForbidden v x st => RForbidden v (k * x)%Z st
    | RResetDone o t => RResetDone (kobs o) (option_map ktraj t)
    end.
  Definition kq (q : qitem) : qitem := match q with QResp r => QResp (kresp r) | QClose => QClose end.
  Definition kconn (c : conn) : conn :=
    {| c_state := c_state c; c_inbox := c_inbox c; c_eof := c_eof c; c_rerr := c_rerr c; c_wfail := c_wfail c;
       c_queue := map kq (c_queue c); c_reqs := c_reqs c; c_outs := map kresp (c_outs c) |}.
  Definition mv {A} (g : A -> A) (l : list (addr * A)) : list (addr * A) := map (fun x => (fst x, g (snd x))) l.
  Definition kfile (x : N * role * traj) : N * role * traj := (fst x, ktraj (snd x)).
  Definition ks (s : state) : state :=
    {| conns := mv kconn (conns s); served := served s; aq := aq s; agents := mv kagent (agents s); handlers := handlers s;
       next_hid := next_hid s; ev_start := ev_start s; ev_end := ev_end s; ev_reset := ev_reset s; world := world s;
       files := map kfile (files s) |}.

  Lemma alookup_mv {A} (g : A -> A) c (l : list (addr * A)) : alookup c (mv g l) = option_map g (alookup c l).
  Proof. induction l as [|[c' v] tl IH]; simpl; [reflexivity|]. destruct (N.eqb c c'); [reflexivity | exact IH]. Qed.
  Lemma aupdate_mv {A} (g h h' : A -> A) c (l : list (addr * A)) :
    (forall x, h' (g x) = g (h x)) -> aupdate c h' (mv g l) = mv g (aupdate c h l).
  Proof. intros Hc. induction l as [|[c' v] tl IH]; simpl; [reflexivity|]. destruct (N.eqb c c'); simpl; [rewrite Hc; reflexivity | rewrite IH; reflexivity]. Qed.
  Lemma aremove_mv {A} (g : A -> A) c (l : list (addr * A)) : aremove c (mv g l) = mv g (aremove c l).
  Proof. induction l as [|[c' v] tl IH]; simpl; [reflexivity|]. destruct (N.eqb c c'); simpl; [reflexivity | rewrite IH; reflexivity]. Qed.
  Lemma mv_app {A} (g : A -> A) (l l' : list (addr * A)) : mv g (l ++ l') = mv g l ++ mv g l'.
  Proof. apply map_app. Qed.
  Lemma mv_length {A} (g : A -> A) (l : list (addr * A)) : length (mv g l) = length l.
  Proof. apply map_length. Qed.
  Lemma all_ended_mv (l : list (addr * agent)) : all_ended (mv kagent l) = all_ended l.
  Proof. unfold all_ended, mv. induction l as [|x tl IH]; simpl; [reflexivity|]. rewrite IH. reflexivity. Qed.
  Lemma all_req_mv (l : list (addr * agent)) : all_req (mv kagent l) = all_req l.
  Proof. unfold all_req, mv. induction l as [|x tl IH]; simpl; [reflexivity|]. rewrite IH. reflexivity. Qed.
  Lemma mv_nil_test {A} (g : A -> A) (l : list (addr * A)) : match mv g l with [] => false | _ => true end = match l with [] => false | _ => true end.
  Proof. destruct l; reflexivity. Qed.

  (* ---- connections ---- *)
  Lemma put_ks s c q : put (ks s) c (kq q) = ks (put s c q).
  Proof.
    unfold put, ks; simpl. erewrite aupdate_mv; [reflexivity|].
    intros [st ib e re wf qu rq ou]. unfold has_queue, kconn, c_set_queue; simpl. destruct st; cbn; rewrite ?map_app; reflexivity.
  Qed.
  Lemma respond_ks s c r : respond (ks s) c (kresp r) = ks (respond s c r).
  Proof. exact (put_ks s c (QResp r)). Qed.
  Lemma cleanup_ks s c : cleanup (ks s) c = ks (cleanup s c).
  Proof. unfold cleanup, ks; simpl. erewrite aupdate_mv; [reflexivity|]. intros cn. reflexivity. Qed.
  Lemma leave_ks s c : leave (ks s) c = ks (leave s c).
  Proof. unfold leave. rewrite <- cleanup_ks. reflexivity. Qed.
  Lemma conn_read_ks s c cn : conn_read (ks s) c (kconn cn) = ks (conn_read s c cn).
  Proof.
    unfold conn_read. change (c_rerr (kconn cn)) with (c_rerr cn). destruct (c_rerr cn); [apply leave_ks|].
    change (c_inbox (kconn cn)) with (c_inbox cn). destruct (c_inbox cn) as [[m|]|].
    - unfold ks; simpl. erewrite aupdate_mv; [reflexivity|]. intros x. reflexivity.
    - rewrite <- leave_ks. f_equal. unfold ks; simpl. erewrite aupdate_mv; [reflexivity|]. intros x. reflexivity.
    - change (c_eof (kconn cn)) with (c_eof cn). destruct (c_eof cn); [apply leave_ks|]. unfold ks; simpl. erewrite aupdate_mv; [reflexivity|]. intros x. reflexivity.
  Qed.
  Lemma runnable_k cn : conn_runnable (kconn cn) = conn_runnable cn.
  Proof. unfold conn_runnable, kconn; simpl. destruct (c_state cn); try reflexivity. destruct (c_queue cn); reflexivity. Qed.
  Lemma conn_run_ks s c : conn_run kcfg (ks s) c = option_map ks (conn_run cfg s c).
  Proof.
    unfold conn_run. change (conns (ks s)) with (mv kconn (conns s)). rewrite alookup_mv.
    destruct (alookup c (conns s)) as [cn|]; [|reflexivity]. cbn [option_map].
    rewrite runnable_k. destruct (negb (conn_runnable cn)); [reflexivity|].
    change (c_state (kconn cn)) with (c_state cn). destruct (c_state cn).
    - change (served (ks s)) with (served s). change (required kcfg) with (required cfg). destruct (Nat.leb _ _); cbn [option_map]; f_equal.
      + unfold ks; simpl. erewrite aupdate_mv; [reflexivity|]. intros x. reflexivity.
      + change (c_set_state (kconn cn) CReading) with (kconn (c_set_state cn CReading)). rewrite <- conn_read_ks. f_equal.
        unfold ks; simpl. erewrite aupdate_mv; [reflexivity|]. intros x. reflexivity.
    - cbn [option_map]. f_equal. apply conn_read_ks.
    - change (c_queue (kconn cn)) with (map kq (c_queue cn)). destruct (c_queue cn) as [|[r|] q']; [reflexivity| |]; cbn [map kq].
      + change (c_wfail (kconn cn)) with (c_wfail cn). destruct (c_wfail cn); cbn [option_map]; f_equal.
        * rewrite <- leave_ks. f_equal. unfold ks; simpl. erewrite aupdate_mv; [reflexivity|]. intros x. reflexivity.
        * set (cn' := {| c_state := CReading; c_inbox := c_inbox cn; c_eof := c_eof cn; c_rerr := c_rerr cn; c_wfail := false;
                         c_queue := q'; c_reqs := c_reqs cn; c_outs := c_outs cn ++ [r] |}).
          match goal with |- conn_read _ _ ?CN = _ => assert (E : CN = kconn cn') by (unfold kconn, cn'; cbn; rewrite map_app; reflexivity); rewrite E end.
          rewrite <- conn_read_ks. f_equal. unfold ks; simpl. erewrite aupdate_mv; [reflexivity|]. intros x. reflexivity.
      + cbn [option_map]. f_equal. rewrite <- cleanup_ks. f_equal. unfold ks; simpl. erewrite aupdate_mv; [reflexivity|]. intros x. reflexivity.
    - reflexivity.
  Qed.

  (* ---- the dispatcher ---- *)
  Lemma dispatch1_ks s x : dispatch1 (ks s) x = ks (dispatch1 s x).
  Proof. unfold dispatch1. destruct (snd x); try reflexivity. exact (respond_ks s (fst x) RBad). Qed.
  Lemma fold_dispatch_ks q : forall s, fold_left dispatch1 q (ks s) = ks (fold_left dispatch1 q s).
  Proof. induction q as [|x tl IH]; intros s; simpl; [reflexivity|]. rewrite dispatch1_ks. apply IH. Qed.
  Lemma dispatch_run_ks s : dispatch_run (ks s) = option_map ks (dispatch_run s).
  Proof.
    unfold dispatch_run. change (aq (ks s)) with (aq s). destruct (aq s) as [|x tl]; [reflexivity|].
    cbn [option_map]. f_equal. exact (fold_dispatch_ks (x :: tl) (set_aq s [])).
  Qed.

  (* ---- handlers ---- *)
  Lemma remove_handler_ks s id : remove_handler (ks s) id = ks (remove_handler s id).
  Proof. reflexivity. Qed.
  Lemma park_ks s id pc : park (ks s) id pc = ks (park s id pc).
  Proof. reflexivity. Qed.
  Lemma set_start_event_ks s : set_start_event (ks s) = ks (set_start_event s).
  Proof. reflexivity. Qed.
  Lemma remove_agent_ks s c : remove_agent (ks s) c = ks (remove_agent s c).
  Proof.
    unfold remove_agent. change (agents (ks s)) with (mv kagent (agents s)). rewrite alookup_mv.
    destruct (alookup c (agents s)); [|reflexivity]. cbn [option_map]. rewrite aremove_mv, mv_nil_test, all_req_mv, all_ended_mv.
    destruct (_ && _); destruct (all_ended _); reflexivity.
  Qed.
  Lemma game_finish_ks s id c act v' : game_finish (ks s) id c act v' = ks (game_finish s id c act v').
  Proof.
    unfold game_finish. change (agents (ks s)) with (mv kagent (agents s)). rewrite alookup_mv.
    destruct (alookup c (agents s)) as [a|]; [|reflexivity]. cbn [option_map].
    match goal with |- respond _ _ ?R = ks (respond _ _ ?R0) => change R with (kresp R0) end.
    rewrite <- respond_ks. f_equal. unfold remove_handler, ks; simpl.
    erewrite aupdate_mv; [reflexivity|]. intros x. unfold kagent, a_set_obs, a_set_traj, traj_add, ktraj, kobs; cbn. rewrite map_app. reflexivity.
  Qed.
  Lemma reset_finish_ks s id c want : reset_finish (ks s) id c want = ks (reset_finish s id c want).
  Proof.
    unfold reset_finish. change (agents (ks s)) with (mv kagent (agents s)). rewrite alookup_mv.
    destruct (alookup c (agents s)) as [a|]; [|reflexivity]. cbn [option_map].
    match goal with |- respond _ _ ?R = ks (respond _ _ ?R0) => assert (E : R = kresp R0) by (destruct want; reflexivity); rewrite E end.
    rewrite <- respond_ks. f_equal. unfold remove_handler, ks; simpl.
    erewrite aupdate_mv; [reflexivity|]. intros x. reflexivity.
  Qed.
  Lemma bad_ks s id c : respond (remove_handler (ks s) id) c RBad = ks (respond (remove_handler s id) c RBad).
  Proof. rewrite remove_handler_ks. exact (respond_ks _ c RBad). Qed.

  Lemma others_playing_mv c (l : list (addr * agent)) :
    existsb (fun x => negb (N.eqb (fst x) c) && status_eqb (a_status (snd x)) SPlayingTO) (mv kagent l) =
    existsb (fun x => negb (N.eqb (fst x) c) && status_eqb (a_status (snd x)) SPlayingTO) l.
  Proof. induction l as [|x tl IH]; simpl; [reflexivity|]. rewrite IH. reflexivity. Qed.

  Lemma kagent_new name r v : kagent (new_agent name r v) = new_agent name r v.
  Proof. unfold kagent, new_agent, kobs, ktraj, traj_start; cbn. rewrite Z.mul_0_r. reflexivity. Qed.

  Lemma h_start_ks s id c m :
    @h_start V W G wstep winit goal detect kcfg (ks s) id c m = ks (@h_start V W G wstep winit goal detect cfg s id c m).
  Proof.
    destruct m as [|info| |want|act valid]; unfold h_start.
    - reflexivity.
    - change (agents (ks s)) with (mv kagent (agents s)). rewrite alookup_mv.
      destruct (alookup c (agents s)); [apply bad_ks|]. cbn [option_map].
      destruct info as [[name [r|]]|]; try apply bad_ks.
      change (allowed kcfg r) with (allowed cfg r). destruct (negb (allowed cfg r)); [apply bad_ks|].
      change (world (ks s)) with (world s). destruct (winit (world s) r) as [w' v]. cbv zeta.
      set (s1 := set_agents (set_world s w') (agents s ++ [(c, new_agent name r v)])).
      assert (E1 : set_agents (set_world (ks s) w') (mv kagent (agents s) ++ [(c, new_agent name r v)]) = ks s1).
      { unfold s1, ks; simpl. rewrite mv_app. rewrite <- (kagent_new name r v) at 1. reflexivity. }
      rewrite E1. change (agents (ks s1)) with (mv kagent (agents s1)). rewrite mv_length. change (required kcfg) with (required cfg).
      destruct (Nat.eqb (length (agents s1)) (required cfg)).
      + rewrite set_start_event_ks. change (ev_start (ks (set_start_event s1))) with (ev_start (set_start_event s1)).
        destruct (ev_start (set_start_event s1)); [rewrite remove_handler_ks; exact (respond_ks _ c (RCreated v)) | reflexivity].
      + change (ev_start (ks s1)) with (ev_start s1).
        destruct (ev_start s1); [rewrite remove_handler_ks; exact (respond_ks _ c (RCreated v)) | reflexivity].
    - rewrite remove_agent_ks, remove_handler_ks. exact (put_ks _ c QClose).
    - change (agents (ks s)) with (mv kagent (agents s)). rewrite alookup_mv.
      destruct (alookup c (agents s)); [|apply bad_ks]. cbn [option_map]. cbv zeta.
      rewrite (aupdate_mv kagent (fun a0 => a_set_req a0 true) (fun a0 => a_set_req a0 true) c (agents s) (fun x => eq_refl)). rewrite all_req_mv.
      destruct (all_req _); reflexivity.
    - change (agents (ks s)) with (mv kagent (agents s)). rewrite alookup_mv.
      destruct (alookup c (agents s)) as [a|]; [|apply bad_ks]. cbn [option_map].
      destruct (negb valid); [apply bad_ks|].
      change (a_ended (kagent a)) with (a_ended a).
      destruct (a_ended a); [rewrite remove_handler_ks; exact (respond_ks _ c (RForbidden (fst (fst (a_obs a))) (a_reward a) (a_status a)))|].
      change (world (ks s)) with (world s). change (a_view (kagent a)) with (a_view a).
      destruct (wstep (world s) (a_view a) act) as [w' v']. cbv zeta.
      rewrite others_playing_mv.
      match goal with |- context [aupdate c (fun _ => ?A2K) (mv kagent (agents s))] =>
        match goal with |- context [aupdate c (fun _ => ?A2) (agents s)] =>
          rewrite (aupdate_mv kagent (fun _ => A2) (fun _ => A2K) c (agents s) (fun x => eq_refl)) end end.
      rewrite all_ended_mv.
      match goal with |- (if ?E then _ else _) = ks (if ?E0 then _ else _) => change E with E0; destruct E0 end.
      + match goal with |- context [all_ended ?AGS] => destruct (all_ended AGS) end; reflexivity.
      + match goal with |- context [all_ended ?AGS] => destruct (all_ended AGS) end; rewrite <- game_finish_ks; reflexivity.
  Qed.

  Lemma h_wake_ks s h :
    @h_wake V W G wstep winit goal detect kcfg (ks s) h = option_map ks (@h_wake V W G wstep winit goal detect cfg s h).
  Proof.
    unfold h_wake. destruct (h_pc h) as [m|[|] v|[|] a v|[|] w|[|] w]; cbn [option_map]; try reflexivity; f_equal.
    - apply h_start_ks.
    - rewrite remove_handler_ks. exact (respond_ks _ (h_addr h) (RCreated v)).
    - apply game_finish_ks.
    - change (ev_start (ks s)) with (ev_start s). destruct (ev_start s); cbn [option_map]; f_equal; first [apply reset_finish_ks | reflexivity].
    - apply reset_finish_ks.
  Qed.
  Lemma handler_run_ks s id :
    @handler_run V W G wstep winit goal detect kcfg (ks s) id = option_map ks (@handler_run V W G wstep winit goal detect cfg s id).
  Proof.
    unfold handler_run. change (handlers (ks s)) with (handlers s).
    destruct (find _ (handlers s)) as [h|]; [|reflexivity]. apply h_wake_ks.
  Qed.

  (* ---- the background tasks ---- *)
  Lemma successful_mv (l : list (addr * agent)) :
    existsb (fun x => role_eqb (a_role (snd x)) RAttacker && status_eqb (a_status (snd x)) SSuccess) (mv kagent l) =
    existsb (fun x => role_eqb (a_role (snd x)) RAttacker && status_eqb (a_status (snd x)) SSuccess) l.
  Proof. induction l as [|y tl IH]; simpl; [reflexivity|]. rewrite IH. reflexivity. Qed.
  Lemma reward_agent_k b a : reward_agent kcfg b (kagent a) = kagent (reward_agent cfg b a).
  Proof.
    unfold reward_agent. change (a_rewarded (kagent a)) with (a_rewarded a). change (a_ended (kagent a)) with (a_ended a).
    destruct (a_rewarded a || negb (a_ended a)); [reflexivity|].
    change (a_role (kagent a)) with (a_role a). destruct (a_role a); [| |reflexivity].
    - unfold kagent; cbn. f_equal. destruct (status_eqb (a_status a) SSuccess); ring.
    - unfold kagent; cbn. f_equal. destruct b; ring.
  Qed.
  Lemma reward_map_mv b (l : list (addr * agent)) :
    map (fun x => (fst x, reward_agent kcfg b (snd x))) (mv kagent l) = mv kagent (map (fun x => (fst x, reward_agent cfg b (snd x))) l).
  Proof. unfold mv. rewrite !map_map. apply map_ext. intros x. simpl. rewrite reward_agent_k. reflexivity. Qed.
  Lemma rewards_run_ks s : rewards_run kcfg (ks s) = option_map ks (rewards_run cfg s).
  Proof.
    unfold rewards_run. change (ev_end (ks s)) with (ev_end s). destruct (negb (ev_end s)); [reflexivity|].
    change (agents (ks s)) with (mv kagent (agents s)). rewrite all_ended_mv. destruct (negb (all_ended (agents s))); [reflexivity|].
    cbv zeta. rewrite successful_mv, reward_map_mv. reflexivity.
  Qed.

  Definition kacc (x : W * list (addr * agent) * list (N * role * traj)) : W * list (addr * agent) * list (N * role * traj) :=
    (fst (fst x), mv kagent (snd (fst x)), map kfile (snd x)).
  Lemma reset_one_k acc x : reset_one winit kcfg (kacc acc) (fst x, kagent (snd x)) = kacc (reset_one winit cfg acc x).
  Proof.
    destruct acc as [[w done] fl]. unfold reset_one, kacc; cbn. destruct (winit w (a_role (snd x))) as [w' v]. cbn.
    rewrite (map_app _ done). destruct (save_traj cfg); rewrite ?(map_app kfile); cbn; unfold kagent, kobs; cbn; rewrite Z.mul_0_r; reflexivity.
  Qed.
  Lemma fold_reset_k l : forall acc, fold_left (reset_one winit kcfg) (mv kagent l) (kacc acc) = kacc (fold_left (reset_one winit cfg) l acc).
  Proof. induction l as [|x tl IH]; intros acc; [reflexivity|]. cbn [mv map fold_left]. rewrite reset_one_k. apply IH. Qed.
  Lemma reset_run_ks s : reset_run wreset winit kcfg (ks s) = option_map ks (reset_run wreset winit cfg s).
  Proof.
    unfold reset_run. change (ev_reset (ks s)) with (ev_reset s). destruct (negb (ev_reset s)); [reflexivity|].
    change (agents (ks s)) with (mv kagent (agents s)). rewrite mv_nil_test, all_req_mv.
    destruct (negb _); [reflexivity|].
    change (world (ks s)) with (world s). change (files (ks s)) with (map kfile (files s)).
    change (wreset (world s), @nil (addr * agent), map kfile (files s)) with (kacc (wreset (world s), @nil (addr * agent), files s)).
    rewrite fold_reset_k.
    destruct (fold_left (reset_one winit cfg) (agents s) (wreset (world s), [], files s)) as [[w' ags] fl].
    reflexivity.
  Qed.

  (* ---- every label ---- *)
  Notation exec := (@exec V W G wstep wreset winit goal detect).
  Notation execs := (@execs V W G wstep wreset winit goal detect).
  Theorem exec_ks s l : exec kcfg (ks s) l = option_map ks (exec cfg s l).
  Proof.
    destruct l as [c|c m|c|c|c|t]; simpl.
    - change (conns (ks s)) with (mv kconn (conns s)). rewrite alookup_mv. destruct (alookup c (conns s)); [reflexivity|].
      cbn [option_map]. f_equal. unfold ks; simpl. rewrite mv_app. reflexivity.
    - change (conns (ks s)) with (mv kconn (conns s)). rewrite alookup_mv. destruct (alookup c (conns s)) as [cn|]; [|reflexivity].
      cbn [option_map]. change (c_inbox (kconn cn)) with (c_inbox cn). change (c_state (kconn cn)) with (c_state cn). change (c_eof (kconn cn)) with (c_eof cn).
      destruct (c_inbox cn); [reflexivity|]. destruct (c_state cn); try reflexivity;
        (destruct (c_eof cn); [reflexivity|]; cbn [option_map]; f_equal; unfold ks; simpl; erewrite aupdate_mv; [reflexivity|]; intros x; reflexivity).
    - change (conns (ks s)) with (mv kconn (conns s)). rewrite alookup_mv. destruct (alookup c (conns s)); [|reflexivity].
      cbn [option_map]. f_equal. unfold ks; simpl. erewrite aupdate_mv; [reflexivity|]. intros x. reflexivity.
    - change (conns (ks s)) with (mv kconn (conns s)). rewrite alookup_mv. destruct (alookup c (conns s)); [|reflexivity].
      cbn [option_map]. f_equal. unfold ks; simpl. erewrite aupdate_mv; [reflexivity|]. intros x. reflexivity.
    - change (conns (ks s)) with (mv kconn (conns s)). rewrite alookup_mv. destruct (alookup c (conns s)); [|reflexivity].
      cbn [option_map]. f_equal. unfold ks; simpl. erewrite aupdate_mv; [reflexivity|]. intros x. reflexivity.
    - destruct t as [c| |id| |]; simpl.
      + apply conn_run_ks.
      + apply dispatch_run_ks.
      + apply handler_run_ks.
      + apply rewards_run_ks.
      + apply reset_run_ks.
  Qed.

  Theorem execs_ks ls : forall s, execs kcfg (ks s) ls = option_map ks (execs cfg s ls).
  Proof.
    induction ls as [|l tl IH]; intros s; simpl; [reflexivity|].
    rewrite exec_ks. destruct (exec cfg s l) as [s'|]; simpl; [apply IH | reflexivity].
  Qed.

  Lemma ks_init w : ks (init_state w) = init_state w.
  Proof. reflexivity. Qed.
End Scale.
