"""Goal-check correspondence (C04): GameCoordinator.goal_check against Model/Goal.v goal_ok.

Generated (goal, view) pairs - views over a small pool of addresses, services and data; goals derived from the view
(sub-parts: reached) and perturbed (one more item, a host missing in the view, an entry with an empty set, a
superset of the view's items) - go through the real goal_check (called on a stand-in object that has exactly the
attributes the method reads) and through goal_ok inside Coq; the verdicts must agree."""
import logging
import os
import random
import sys
import types

import check as CK

IPS = ["192.168.1.2", "192.168.1.3", "192.168.2.2", "213.47.23.195", "10.0.0.1"]
NETS = [("192.168.1.0", 24), ("192.168.2.0", 24), ("10.0.0.0", 8), ("213.47.23.192", 26)]
SVCS = [("ssh", "passive", "8.1", False), ("http", "active", "1.0", False), ("login", "passive", "1", True), ("smb", "passive", "10", False)]
DATA = [("User1", "DataFromServer1", 0, ""), ("User2", "Data2FromServer1", 0, ""), ("User1", "Big", 42, "pdf"), ("admin", "x", 0, "")]


def subset(rng, pool, p=0.5):
    return {x for x in pool if rng.random() < p}


def gen_view(rng):
    WL = sys.modules["worldlib"]
    n = WL.ip2n
    hosts = subset(rng, IPS, 0.7)
    ctrl = subset(rng, sorted(hosts), 0.5)
    return {"ctrl": {n(i) for i in ctrl}, "hosts": {n(i) for i in hosts},
            "svcs": {n(h): subset(rng, SVCS, 0.5) for h in sorted(hosts) if rng.random() < 0.5},
            "data": {n(h): subset(rng, DATA, 0.5) for h in sorted(ctrl) if rng.random() < 0.6},
            "nets": {(n(a), m) for a, m in subset(rng, NETS, 0.6)},
            "blocks": {n(h): {n(x) for x in subset(rng, IPS, 0.4)} for h in sorted(hosts) if rng.random() < 0.3}}


def gen_goal(rng, v):
    """A goal near the view: each part a random subset of the view's part (reached), then perturbed with some probability."""
    WL = sys.modules["worldlib"]
    n = WL.ip2n
    g = {"nets": subset(rng, sorted(v["nets"]), 0.4), "hosts": subset(rng, sorted(v["hosts"]), 0.4), "ctrl": subset(rng, sorted(v["ctrl"]), 0.4)}
    for part, pool in (("svcs", SVCS), ("data", DATA), ("blocks", None)):
        d = {}
        for h, items in sorted(v[part].items()):
            if rng.random() < 0.5:
                d[h] = subset(rng, sorted(items, key=repr), 0.6)            # possibly the empty set: the key alone must be there
        g[part] = d
    kind = rng.randrange(10)
    if kind == 0:
        g["nets"] = set(g["nets"]) | {(n("172.16.0.0"), 12)}
    elif kind == 1:
        g["hosts"] = set(g["hosts"]) | {n(rng.choice(IPS))}
    elif kind == 2:
        g["ctrl"] = set(g["ctrl"]) | {n(rng.choice(IPS))}
    elif kind == 3:
        h = n(rng.choice(IPS))
        g["data"][h] = set(g["data"].get(h, set())) | {rng.choice(DATA)}
    elif kind == 4:
        h = n(rng.choice(IPS))
        g["svcs"][h] = set(g["svcs"].get(h, set())) | {rng.choice(SVCS)}
    elif kind == 5:
        h = n(rng.choice(IPS))
        g["blocks"][h] = set(g["blocks"].get(h, set())) | {n(rng.choice(IPS))}
    elif kind == 6:
        g["data"][n(rng.choice(IPS))] = set()                                # an entry with nothing in it
    elif kind == 7 and v["data"]:
        h = rng.choice(sorted(v["data"]))
        g["data"][h] = set(v["data"][h]) | {("zz", "more", 0, "")}          # strictly more than the view has
    return g


def impl_goal(gc, g):
    WL = sys.modules["worldlib"]
    ip = lambda x: gc.IP(WL.n2ip(x))
    return {"known_networks": {gc.Network(WL.n2ip(a), m) for a, m in g["nets"]},
            "known_hosts": {ip(i) for i in g["hosts"]}, "controlled_hosts": {ip(i) for i in g["ctrl"]},
            "known_services": {ip(h): {gc.Service(*s) for s in ss} for h, ss in g["svcs"].items()},
            "known_data": {ip(h): {gc.Data(*d) for d in ds} for h, ds in g["data"].items()},
            "known_blocks": {ip(h): {ip(i) for i in bs} for h, bs in g["blocks"].items()}}


def goal_term(g, I):
    WL = sys.modules["worldlib"]
    nn = lambda x: f"{x}%N"
    netf = lambda x: f"({x[0]}%N, {x[1]}%N)"
    return "(mk_goal [%s] %s %s %s %s %s)" % (
        "; ".join(netf(x) for x in sorted(g["nets"])), WL.nl(g["hosts"]), WL.nl(g["ctrl"]),
        WL.assoc(g["svcs"], nn, lambda s: WL.svc_term(s, I)), WL.assoc(g["data"], nn, lambda d: WL.data_term(d, I)),
        WL.assoc(g["blocks"], nn, nn))


def run(ctx, prop, n):
    sys.path[:0] = [CK.HARNESS]
    import worldlib as WL
    import AIDojoCoordinator.game_components as gc
    from AIDojoCoordinator.coordinator import GameCoordinator
    rng = random.Random(ctx.seed * 4049 + 4)
    I = WL.Interner()
    cases = []
    stats = {"pairs": 0, "reached": 0, "not_reached": 0, "implementation_raised": 0}
    addr = ("10.9.9.9", 9)
    log = logging.getLogger("goalcorr")
    log.disabled = True
    for _ in range(n):
        v = gen_view(rng)
        g = gen_goal(rng, v)
        obj = types.SimpleNamespace(logger=log, _win_conditions_per_role={"Attacker": impl_goal(gc, g)},
                                    agents={addr: ("x", "Attacker")}, _agent_states={addr: WL.to_gamestate(v)})
        try:
            verdict = bool(GameCoordinator.goal_check(obj, addr))
        except Exception as e:
            stats["implementation_raised"] += 1
            ctx.violations.append({"key": "goal check raises", "what": f"goal_check raised {type(e).__name__}: {e} on a goal and a view over valid items",
                                   "replay": {"kind": "goal_pair", "goal": repr(g)[:800], "view": repr(v)[:800]}})
            continue
        stats["pairs"] += 1
        stats["reached" if verdict else "not_reached"] += 1
        # reference verdict from the statement (independent of both the implementation and the model)
        ref = (g["nets"] <= v["nets"] and g["hosts"] <= v["hosts"] and g["ctrl"] <= v["ctrl"] and
               all(h in v[p] and set(items) <= set(v[p][h]) for p in ("svcs", "data", "blocks") for h, items in g[p].items()))
        if ref != verdict:
            ctx.violations.append({"key": "win condition is not 'the goal is contained in the view'",
                                   "what": f"goal_check says {verdict} where the configured goal is {'contained' if ref else 'NOT contained'} in the view: goal {g} view {v}",
                                   "replay": {"kind": "goal_pair", "goal": repr(g)[:800], "view": repr(v)[:800]}})
        cases.append((f"check_goal {goal_term(g, I)} {WL.view_term(v, I)} {'true' if verdict else 'false'}", (g, v, verdict)))
    shard = 100
    paths, shards = [], []
    for si in range(0, len(cases), shard):
        chunk = cases[si:si + shard]
        body = ["From stdpp Require Import gmap.", "From Coq Require Import ZArith NArith.",
                "From NSG Require Import Model.World Model.Load Model.WorldCases Model.Goal Model.GoalCases.",
                "Definition cases : list bool := [", ";\n".join(c[0] for c in chunk) + ";", "false].",
                "Eval vm_compute in (false_indices 0 cases)."]
        p = os.path.join(ctx.casedir, f"goal_{si // shard}.v")
        with open(p, "w") as f:
            f.write("\n".join(body))
        paths.append(p)
        shards.append((p, chunk))
    res = CK.run_case_files(ctx, paths)
    disagreements = 0
    for p, chunk in shards:
        ok, out = res[p]
        idx = CK.coq_eval_list(out) if ok else None
        if idx is None:
            ctx.stage_errors.append((f"coqc {os.path.basename(p)}", out[-600:]))
            continue
        idx = [int(x.replace("%nat", "")) for x in idx]
        if len(chunk) not in idx:
            ctx.stage_errors.append((f"canary {os.path.basename(p)}", "deliberately false case not reported"))
        for i in idx:
            if i < len(chunk):
                disagreements += 1
                g, v, verdict = chunk[i][1]
                ctx.broken.append(f"correspondence Model/Goal.v goal_ok vs GameCoordinator.goal_check: implementation says {verdict} on goal {g} view {v}"[:700])
    stats["model_impl_disagreements"] = disagreements
    if stats["pairs"] and min(stats["reached"], stats["not_reached"]) < 0.15 * stats["pairs"]:
        ctx.stage_errors.append(("goal correspondence", f"generator is lopsided: {stats}"))
    ctx.coverage["goal_check_correspondence"] = stats
