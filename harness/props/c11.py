"""C11: views are well-formed, only grow, contain only what exists, and are never modified after
they were returned (the last clause is decided by the harness' deep snapshots: partial)."""
import check as CK
from props import worldcommon as WC
from props.c02 import ASSUME, replay

TRANSLATORS = []
COQ_FILES = ["Props/C11.v"]


def correspondence(ctx):
    th = ctx.tier == "thorough"
    WC.world_suite(ctx, "C11", tags={"pre", "nopre", "init", "reset"}, walks_per_spec=4 if th else 1, n_generated=24 if th else 6,
                   n_steps=200 if th else 80, perturb=0.0, resets=40, n_agents=(1, 3), shared_every=3)
    ctx.assumptions += ASSUME + ["'a returned view is never modified later' is a heap-aliasing statement outside the value-semantic model: decided by deep snapshots of every GameState returned by register/step/reset (partial)"]
