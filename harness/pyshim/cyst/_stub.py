"""Stub of the external `cyst` library (configuration dataclasses only).

NetSecGame uses cyst as a bag of configuration objects: keyword constructors, attribute
reads, isinstance checks, FirewallPolicy.ALLOW, and str(objects) for the configuration hash.
The installed cyst-core does not match the API the scenario files are written against, so the
verification harness puts this package first on sys.path.  Like the real cyst dataclasses every
*Config object gets `id = str(uuid4())` unless one is given, and a dataclass-style repr.
"""
import uuid
from netaddr import IPAddress, IPNetwork  # re-exported, as real cyst does


class _EnumMeta(type):
    def __getattr__(cls, name):
        if name.startswith("__"):
            raise AttributeError(name)
        val = _EnumValue(cls.__name__, name)
        setattr(cls, name, val)
        return val


class _EnumValue:
    def __init__(self, cls_name, name):
        self._cls = cls_name
        self.name = name
        self.value = name

    def __repr__(self):
        return f"<{self._cls}.{self.name}>"

    __str__ = __repr__

    def __eq__(self, other):
        return isinstance(other, _EnumValue) and (self._cls, self.name) == (other._cls, other.name)

    def __hash__(self):
        return hash((self._cls, self.name))

    def __deepcopy__(self, memo):
        return self

    def __copy__(self):
        return self


_POSITIONAL = {
    "InterfaceConfig": ["ip", "net", "index"],
    "FirewallRule": ["src_net", "dst_net", "service", "policy"],
    "AuthorizationConfig": ["identity", "access_level"],
    "DataConfig": ["owner", "description"],
    "ConnectionConfig": ["src_ref", "src_port", "dst_ref", "dst_port"],
}

_DEFAULTS = {
    "NodeConfig": dict(active_services=list, passive_services=list, traffic_processors=list,
                       interfaces=list, shell=str, name=str),
    "RouterConfig": dict(interfaces=list, traffic_processors=list, routing_table=list, name=str),
    "PassiveServiceConfig": dict(private_data=list, public_data=list, local=lambda: False,
                                 version=lambda: "0.0.0"),
    "FirewallConfig": dict(chains=list),
    "FirewallChainConfig": dict(rules=list),
    "InterfaceConfig": dict(index=lambda: -1),
}


class _Config:
    def __init__(self, *args, **kwargs):
        names = _POSITIONAL.get(type(self).__name__, [])
        fields = {}
        for i, a in enumerate(args):
            key = names[i] if i < len(names) else f"_arg{i}"
            fields[key] = a
        fields.update(kwargs)
        for k, dflt in _DEFAULTS.get(type(self).__name__, {}).items():
            if k not in fields:
                fields[k] = dflt()
        if "ref" not in fields:
            fields["ref"] = str(uuid.uuid4())
        if "id" not in fields:
            fields["id"] = str(uuid.uuid4())
        self.__dict__.update(fields)
        self._field_order = list(fields)

    def __call__(self, *args, **kwargs):
        # real cyst config items are callable: item(id=...) returns a copy with a fresh id
        import copy
        new = copy.copy(self)
        new.__dict__ = dict(self.__dict__)
        new.__dict__.update(kwargs)
        if "id" not in kwargs:
            new.__dict__["id"] = str(uuid.uuid4())
        new.__dict__["ref"] = str(uuid.uuid4())
        return new

    def __repr__(self):
        inner = ", ".join(f"{k}={self.__dict__[k]!r}" for k in self._field_order)
        return f"{type(self).__name__}({inner})"


_CLASSES = {}
_ENUM_NAMES = {"AccessLevel", "FirewallPolicy", "FirewallChainType", "ServiceParameter",
               "AuthorizationDomainType", "ExploitCategory", "ExploitLocality",
               "AuthenticationProviderType", "AuthenticationTokenType",
               "AuthenticationTokenSecurity", "ExploitParameterType"}


def get(name):
    if name.startswith("__"):
        raise AttributeError(name)
    if name == "IPAddress":
        return IPAddress
    if name == "IPNetwork":
        return IPNetwork
    if name not in _CLASSES:
        if name in _ENUM_NAMES:
            _CLASSES[name] = _EnumMeta(name, (), {})
        else:
            _CLASSES[name] = type(name, (_Config,), {})
    return _CLASSES[name]
