#!/bin/bash
# run every registered check once (sequentially) with the given VERIF_SEED / tier; print one line per check
cd "$(dirname "$0")/.."
seed=${1:-1}; tier=${2:-quick}
[ -d coq/Gen ] && [ -f coq/Makefile ] || ./setup.sh >/dev/null 2>&1
for i in $(seq -w 1 20); do
  out=$(VERIF_SEED=$seed ./check C$i --tier $tier 2>&1)
  echo "C$i seed=$seed tier=$tier exit=$? $(echo "$out" | grep -c '^VIOLATION') violation(s) $(echo "$out" | grep -c '^KNOWN') known :: $(echo "$out" | tail -1)"
  echo "$out" | grep '^VIOLATION' | head -3
done
