(* The coordinator does not look at the numbers of the peer addresses: the labelled transition system commutes with every
   one-to-one renaming of the addresses.  Which agent is which is decided by the order of the messages (the agents table keeps
   the order of joining, the reset draws follow it), never by an order or a value of the addresses connections come from. *)
From Coq Require Import ZArith NArith List Bool Arith Lia.
From NSG Require Import Model.Coord.
Import ListNotations.

Section Rename.
  Context {V W G : Type}.
  Variable wstep : W -> V -> G -> W * V.
  Variable wreset : W -> W.
  Variable winit : W -> role -> W * V.
  Variable goal : role -> V -> bool.
  Variable detect : list G -> G -> bool.
  Variable cfg : config.
  Variable f : addr -> addr.
  Hypothesis f_inj : forall a b, f a = f b -> a = b.

  Notation state := (@state V W G).
  Notation handler := (@handler V G).
  Notation agent := (@agent V G).
  Notation conn := (@conn V G).
  Notation label := (@label G).
  Notation exec := (@exec V W G wstep wreset winit goal detect cfg).
  Notation execs := (@execs V W G wstep wreset winit goal detect cfg).

  Definition rl {A} (l : list (addr * A)) : list (addr * A) := map (fun x => (f (fst x), snd x)) l.
  Definition rh (h : handler) : handler := {| h_id := h_id h; h_addr := f (h_addr h); h_pc := h_pc h |}.
  Definition rs (s : state) : state :=
    {| conns := rl (conns s); served := served s; aq := rl (aq s); agents := rl (agents s); handlers := map rh (handlers s);
       next_hid := next_hid s; ev_start := ev_start s; ev_end := ev_end s; ev_reset := ev_reset s; world := world s; files := files s |}.
  Definition rt (t : task) : task := match t with TConn c => TConn (f c) | x => x end.
  Definition rlab (l : label) : label :=
    match l with
    | LConnect c => LConnect (f c) | LArrive c k => LArrive (f c) k | LEof c => LEof (f c)
    | LReadErr c => LReadErr (f c) | LWriteFail c => LWriteFail (f c) | LRun t => LRun (rt t)
    end.

  Lemma eqb_f a b : N.eqb (f a) (f b) = N.eqb a b.
  Proof.
    destruct (N.eqb a b) eqn:E.
    - apply N.eqb_eq in E. subst. apply N.eqb_refl.
    - apply N.eqb_neq. intros H. apply f_inj in H. apply N.eqb_neq in E. contradiction.
  Qed.

  Lemma alookup_rl {A} k (l : list (addr * A)) : alookup (f k) (rl l) = alookup k l.
  Proof. induction l as [|[k' v] tl IH]; simpl; [reflexivity|]. rewrite eqb_f, IH. reflexivity. Qed.
  Lemma aupdate_rl {A} k (g : A -> A) (l : list (addr * A)) : aupdate (f k) g (rl l) = rl (aupdate k g l).
  Proof. induction l as [|[k' v] tl IH]; simpl; [reflexivity|]. rewrite eqb_f. destruct (N.eqb k k'); simpl; [reflexivity|]. rewrite IH. reflexivity. Qed.
  Lemma aremove_rl {A} k (l : list (addr * A)) : aremove (f k) (rl l) = rl (aremove k l).
  Proof. induction l as [|[k' v] tl IH]; simpl; [reflexivity|]. rewrite eqb_f. destruct (N.eqb k k'); simpl; [reflexivity|]. rewrite IH. reflexivity. Qed.
  Lemma rl_app {A} (l l' : list (addr * A)) : rl (l ++ l') = rl l ++ rl l'.
  Proof. apply map_app. Qed.
  Lemma rl_length {A} (l : list (addr * A)) : length (rl l) = length l.
  Proof. apply map_length. Qed.
  Lemma all_ended_rl (l : list (addr * agent)) : all_ended (rl l) = all_ended l.
  Proof. unfold all_ended, rl. induction l as [|x tl IH]; simpl; [reflexivity|]. rewrite IH. reflexivity. Qed.
  Lemma all_req_rl (l : list (addr * agent)) : all_req (rl l) = all_req l.
  Proof. unfold all_req, rl. induction l as [|x tl IH]; simpl; [reflexivity|]. rewrite IH. reflexivity. Qed.
  Lemma rl_nil_test {A} (l : list (addr * A)) : match rl l with [] => false | _ => true end = match l with [] => false | _ => true end.
  Proof. destruct l; reflexivity. Qed.

  (* ---- connections ---- *)
  Lemma put_rs s c q : put (rs s) (f c) q = rs (put s c q).
  Proof. unfold put, rs; simpl. rewrite aupdate_rl. reflexivity. Qed.
  Lemma respond_rs s c r : respond (rs s) (f c) r = rs (respond s c r).
  Proof. apply put_rs. Qed.
  Lemma cleanup_rs s c : cleanup (rs s) (f c) = rs (cleanup s c).
  Proof. unfold cleanup, rs; simpl. rewrite aupdate_rl. reflexivity. Qed.
  Lemma leave_rs s c : leave (rs s) (f c) = rs (leave s c).
  Proof. unfold leave. rewrite <- cleanup_rs. f_equal. unfold rs; simpl. rewrite rl_app. reflexivity. Qed.
  Lemma conn_read_rs s c cn : conn_read (rs s) (f c) cn = rs (conn_read s c cn).
  Proof.
    unfold conn_read. destruct (c_rerr cn); [apply leave_rs|].
    destruct (c_inbox cn) as [[m|]|].
    - unfold rs; simpl. rewrite aupdate_rl, rl_app. reflexivity.
    - rewrite <- leave_rs. f_equal. unfold rs; simpl. rewrite aupdate_rl. reflexivity.
    - destruct (c_eof cn); [apply leave_rs|]. unfold rs; simpl. rewrite aupdate_rl. reflexivity.
  Qed.
  Lemma conn_run_rs s c : conn_run cfg (rs s) (f c) = option_map rs (conn_run cfg s c).
  Proof.
    unfold conn_run. change (conns (rs s)) with (rl (conns s)). rewrite alookup_rl.
    destruct (alookup c (conns s)) as [cn|]; [|reflexivity].
    destruct (negb (conn_runnable cn)); [reflexivity|].
    destruct (c_state cn).
    - change (served (rs s)) with (served s). destruct (Nat.leb _ _); simpl.
      + f_equal. unfold rs; simpl. rewrite aupdate_rl. reflexivity.
      + f_equal. rewrite <- conn_read_rs. f_equal. unfold rs; simpl. rewrite aupdate_rl. reflexivity.
    - simpl. f_equal. apply conn_read_rs.
    - destruct (c_queue cn) as [|[r|] q']; [reflexivity| |].
      + destruct (c_wfail cn); simpl; f_equal.
        * rewrite <- leave_rs. f_equal. unfold rs; simpl. rewrite aupdate_rl. reflexivity.
        * rewrite <- conn_read_rs. f_equal. unfold rs; simpl. rewrite aupdate_rl. reflexivity.
      + simpl. f_equal. rewrite <- cleanup_rs. f_equal. unfold rs; simpl. rewrite aupdate_rl. reflexivity.
    - reflexivity.
  Qed.

  (* ---- the dispatcher ---- *)
  Lemma dispatch1_rs s x : dispatch1 (rs s) (f (fst x), snd x) = rs (dispatch1 s x).
  Proof.
    unfold dispatch1; simpl. destruct (snd x); try (unfold rs; simpl; rewrite map_app; reflexivity).
    apply respond_rs.
  Qed.
  Lemma fold_dispatch_rs q : forall s, fold_left dispatch1 (rl q) (rs s) = rs (fold_left dispatch1 q s).
  Proof. induction q as [|x tl IH]; intros s; simpl; [reflexivity|]. rewrite dispatch1_rs. apply IH. Qed.
  Lemma dispatch_run_rs s : dispatch_run (rs s) = option_map rs (dispatch_run s).
  Proof.
    unfold dispatch_run. change (aq (rs s)) with (rl (aq s)). destruct (aq s) as [|x tl]; [reflexivity|].
    cbn [rl map]. cbn [option_map]. f_equal. exact (fold_dispatch_rs (x :: tl) (set_aq s [])).
  Qed.

  (* ---- handlers ---- *)
  Lemma filter_rh id (l : list handler) :
    filter (fun h => negb (Nat.eqb (h_id h) id)) (map rh l) = map rh (filter (fun h => negb (Nat.eqb (h_id h) id)) l).
  Proof. induction l as [|h tl IH]; simpl; [reflexivity|]. destruct (negb (Nat.eqb (h_id h) id)); simpl; rewrite IH; reflexivity. Qed.
  Lemma remove_handler_rs s id : remove_handler (rs s) id = rs (remove_handler s id).
  Proof. unfold remove_handler, rs; simpl. rewrite filter_rh. reflexivity. Qed.
  Lemma park_list id pc (l : list handler) :
    map (fun h => if Nat.eqb (h_id h) id then {| h_id := id; h_addr := h_addr h; h_pc := pc |} else h) (map rh l) =
    map rh (map (fun h => if Nat.eqb (h_id h) id then {| h_id := id; h_addr := h_addr h; h_pc := pc |} else h) l).
  Proof. rewrite !map_map. apply map_ext. intros h. simpl. destruct (Nat.eqb (h_id h) id); reflexivity. Qed.
  Lemma park_rs s id pc : park (rs s) id pc = rs (park s id pc).
  Proof. unfold park, rs, set_handlers; simpl. rewrite park_list. reflexivity. Qed.
  Lemma release_start_list (l : list handler) : map release_start (map rh l) = map rh (map release_start l).
  Proof. rewrite !map_map. apply map_ext. intros [i a p]. unfold release_start, rh; simpl. destruct p; reflexivity. Qed.
  Lemma release_rewards_list (l : list handler) : map release_rewards (map rh l) = map rh (map release_rewards l).
  Proof. rewrite !map_map. apply map_ext. intros [i a p]. unfold release_rewards, rh; simpl. destruct p; reflexivity. Qed.
  Lemma release_reset_list (l : list handler) : map release_reset (map rh l) = map rh (map release_reset l).
  Proof. rewrite !map_map. apply map_ext. intros [i a p]. unfold release_reset, rh; simpl. destruct p; reflexivity. Qed.
  Lemma set_start_event_rs s : set_start_event (rs s) = rs (set_start_event s).
  Proof. unfold set_start_event, rs, set_handlers, set_ev_start; simpl. rewrite release_start_list. reflexivity. Qed.
  Lemma remove_agent_rs s c : remove_agent (rs s) (f c) = rs (remove_agent s c).
  Proof.
    unfold remove_agent. change (agents (rs s)) with (rl (agents s)). rewrite alookup_rl.
    destruct (alookup c (agents s)); [|reflexivity]. rewrite aremove_rl, rl_nil_test, all_req_rl, all_ended_rl.
    destruct (_ && _); destruct (all_ended _); reflexivity.
  Qed.
  Lemma game_finish_rs s id c act v' : game_finish (rs s) id (f c) act v' = rs (game_finish s id c act v').
  Proof.
    unfold game_finish. change (agents (rs s)) with (rl (agents s)). rewrite alookup_rl.
    destruct (alookup c (agents s)) as [a|]; [|apply remove_handler_rs].
    rewrite <- respond_rs. f_equal. rewrite <- remove_handler_rs. f_equal. unfold rs; simpl. rewrite aupdate_rl. reflexivity.
  Qed.
  Lemma reset_finish_rs s id c want : reset_finish (rs s) id (f c) want = rs (reset_finish s id c want).
  Proof.
    unfold reset_finish. change (agents (rs s)) with (rl (agents s)). rewrite alookup_rl.
    destruct (alookup c (agents s)) as [a|]; [|apply remove_handler_rs].
    rewrite <- respond_rs. f_equal. rewrite <- remove_handler_rs. f_equal. unfold rs; simpl. rewrite aupdate_rl. reflexivity.
  Qed.
  Lemma bad_rs s id c : respond (remove_handler (rs s) id) (f c) RBad = rs (respond (remove_handler s id) c RBad).
  Proof. rewrite remove_handler_rs. apply respond_rs. Qed.

  Lemma others_playing_rl c (l : list (addr * agent)) :
    existsb (fun x => negb (N.eqb (fst x) (f c)) && status_eqb (a_status (snd x)) SPlayingTO) (rl l) =
    existsb (fun x => negb (N.eqb (fst x) c) && status_eqb (a_status (snd x)) SPlayingTO) l.
  Proof. induction l as [|x tl IH]; simpl; [reflexivity|]. rewrite eqb_f, IH. reflexivity. Qed.

  Notation h_start := (@h_start V W G wstep winit goal detect cfg).
  Notation h_wake := (@h_wake V W G wstep winit goal detect cfg).

  Lemma h_start_rs s id c m : h_start (rs s) id (f c) m = rs (h_start s id c m).
  Proof.
    destruct m as [|info| |want|act valid]; unfold Coord.h_start.
    - apply remove_handler_rs.
    - change (agents (rs s)) with (rl (agents s)). rewrite alookup_rl.
      destruct (alookup c (agents s)); [apply bad_rs|].
      destruct info as [[name [r|]]|]; try apply bad_rs.
      destruct (negb (allowed cfg r)); [apply bad_rs|].
      change (world (rs s)) with (world s). destruct (winit (world s) r) as [w' v]. cbv zeta.
      set (s1 := set_agents (set_world s w') (agents s ++ [(c, new_agent name r v)])).
      assert (E1 : set_agents (set_world (rs s) w') (rl (agents s) ++ [(f c, new_agent name r v)]) = rs s1).
      { unfold s1, rs; simpl. rewrite rl_app. reflexivity. }
      rewrite E1. change (agents (rs s1)) with (rl (agents s1)). rewrite rl_length.
      destruct (Nat.eqb (length (agents s1)) (required cfg)).
      + rewrite set_start_event_rs. change (ev_start (rs (set_start_event s1))) with (ev_start (set_start_event s1)).
        destruct (ev_start (set_start_event s1)); [rewrite remove_handler_rs; apply respond_rs | apply park_rs].
      + change (ev_start (rs s1)) with (ev_start s1).
        destruct (ev_start s1); [rewrite remove_handler_rs; apply respond_rs | apply park_rs].
    - rewrite remove_agent_rs, remove_handler_rs. apply put_rs.
    - change (agents (rs s)) with (rl (agents s)). rewrite alookup_rl.
      destruct (alookup c (agents s)); [|apply bad_rs]. cbv zeta. rewrite aupdate_rl, all_req_rl.
      destruct (all_req _); rewrite <- park_rs; reflexivity.
    - change (agents (rs s)) with (rl (agents s)). rewrite alookup_rl.
      destruct (alookup c (agents s)) as [a|]; [|apply bad_rs].
      destruct (negb valid); [apply bad_rs|].
      destruct (a_ended a); [rewrite remove_handler_rs; apply respond_rs|].
      change (world (rs s)) with (world s). destruct (wstep (world s) (a_view a) act) as [w' v']. cbv zeta.
      rewrite others_playing_rl, aupdate_rl, all_ended_rl.
      match goal with |- context [all_ended ?AGS] => set (ags := AGS) end.
      match goal with |- (if ?E then _ else _) = _ => destruct E end.
      + destruct (all_ended ags); rewrite <- park_rs; reflexivity.
      + destruct (all_ended ags); rewrite <- game_finish_rs; reflexivity.
  Qed.

  Lemma h_wake_rs s h : h_wake (rs s) (rh h) = option_map rs (h_wake s h).
  Proof.
    unfold Coord.h_wake. change (h_pc (rh h)) with (h_pc h). change (h_id (rh h)) with (h_id h). change (h_addr (rh h)) with (f (h_addr h)).
    destruct (h_pc h) as [m|[|] v|[|] a v|[|] w|[|] w]; simpl; try reflexivity; f_equal.
    - apply h_start_rs.
    - rewrite remove_handler_rs. apply respond_rs.
    - apply game_finish_rs.
    - destruct (ev_start s); simpl; f_equal; [apply reset_finish_rs | apply park_rs].
    - apply reset_finish_rs.
  Qed.

  Lemma find_rh id (l : list handler) :
    find (fun h => Nat.eqb (h_id h) id) (map rh l) = option_map rh (find (fun h => Nat.eqb (h_id h) id) l).
  Proof. induction l as [|h tl IH]; simpl; [reflexivity|]. destruct (Nat.eqb (h_id h) id); [reflexivity | exact IH]. Qed.

  Lemma handler_run_rs s id :
    @handler_run V W G wstep winit goal detect cfg (rs s) id = option_map rs (@handler_run V W G wstep winit goal detect cfg s id).
  Proof.
    unfold handler_run. change (handlers (rs s)) with (map rh (handlers s)). rewrite find_rh.
    destruct (find _ (handlers s)) as [h|]; [|reflexivity]. apply h_wake_rs.
  Qed.

  (* ---- the background tasks ---- *)
  Lemma successful_rl (l : list (addr * agent)) :
    existsb (fun x => role_eqb (a_role (snd x)) RAttacker && status_eqb (a_status (snd x)) SSuccess) (rl l) =
    existsb (fun x => role_eqb (a_role (snd x)) RAttacker && status_eqb (a_status (snd x)) SSuccess) l.
  Proof. induction l as [|y tl IH]; simpl; [reflexivity|]. rewrite IH. reflexivity. Qed.
  Lemma reward_map_rl b (l : list (addr * agent)) :
    map (fun x => (fst x, reward_agent cfg b (snd x))) (rl l) = rl (map (fun x => (fst x, reward_agent cfg b (snd x))) l).
  Proof. unfold rl. rewrite !map_map. apply map_ext. intros x. reflexivity. Qed.
  Lemma rewards_run_rs s : rewards_run cfg (rs s) = option_map rs (rewards_run cfg s).
  Proof.
    unfold rewards_run. change (ev_end (rs s)) with (ev_end s). destruct (negb (ev_end s)); [reflexivity|].
    change (agents (rs s)) with (rl (agents s)). rewrite all_ended_rl. destruct (negb (all_ended (agents s))); [reflexivity|].
    cbv zeta. rewrite successful_rl, reward_map_rl. change (handlers (rs s)) with (map rh (handlers s)). rewrite release_rewards_list.
    reflexivity.
  Qed.

  Definition racc (x : W * list (addr * agent) * list (N * role * @traj V G)) : W * list (addr * agent) * list (N * role * @traj V G) :=
    (fst (fst x), rl (snd (fst x)), snd x).
  Lemma reset_one_rl acc x : reset_one winit cfg (racc acc) (f (fst x), snd x) = racc (reset_one winit cfg acc x).
  Proof.
    destruct acc as [[w done] fl]. unfold reset_one, racc; simpl. destruct (winit w (a_role (snd x))) as [w' v]. simpl.
    rewrite rl_app. reflexivity.
  Qed.
  Lemma fold_reset_rl l : forall acc, fold_left (reset_one winit cfg) (rl l) (racc acc) = racc (fold_left (reset_one winit cfg) l acc).
  Proof. induction l as [|x tl IH]; intros acc; [reflexivity|]. cbn [rl map fold_left]. rewrite reset_one_rl. apply IH. Qed.

  Lemma reset_run_rs s : reset_run wreset winit cfg (rs s) = option_map rs (reset_run wreset winit cfg s).
  Proof.
    unfold reset_run. change (ev_reset (rs s)) with (ev_reset s). destruct (negb (ev_reset s)); [reflexivity|].
    change (agents (rs s)) with (rl (agents s)). rewrite rl_nil_test, all_req_rl.
    destruct (negb _); [reflexivity|].
    change (world (rs s)) with (world s). change (files (rs s)) with (files s).
    change (wreset (world s), @nil (addr * agent), files s) with (racc (wreset (world s), @nil (addr * agent), files s)) at 1.
    rewrite fold_reset_rl.
    destruct (fold_left (reset_one winit cfg) (agents s) (wreset (world s), [], files s)) as [[w' ags] fl].
    unfold racc; simpl. f_equal. unfold rs, set_handlers; simpl. rewrite release_reset_list. reflexivity.
  Qed.

  (* ---- every label ---- *)
  Theorem exec_rs s l : exec (rs s) (rlab l) = option_map rs (exec s l).
  Proof.
    destruct l as [c|c k|c|c|c|t]; simpl.
    - change (conns (rs s)) with (rl (conns s)). rewrite alookup_rl. destruct (alookup c (conns s)); [reflexivity|].
      simpl. f_equal. unfold rs; simpl. rewrite rl_app. reflexivity.
    - change (conns (rs s)) with (rl (conns s)). rewrite alookup_rl. destruct (alookup c (conns s)) as [cn|]; [|reflexivity].
      destruct (c_inbox cn); [reflexivity|]. destruct (c_state cn); try reflexivity;
        (destruct (c_eof cn); [reflexivity|]; simpl; f_equal; unfold rs; simpl; rewrite aupdate_rl; reflexivity).
    - change (conns (rs s)) with (rl (conns s)). rewrite alookup_rl. destruct (alookup c (conns s)); [|reflexivity].
      simpl. f_equal. unfold rs; simpl. rewrite aupdate_rl. reflexivity.
    - change (conns (rs s)) with (rl (conns s)). rewrite alookup_rl. destruct (alookup c (conns s)); [|reflexivity].
      simpl. f_equal. unfold rs; simpl. rewrite aupdate_rl. reflexivity.
    - change (conns (rs s)) with (rl (conns s)). rewrite alookup_rl. destruct (alookup c (conns s)); [|reflexivity].
      simpl. f_equal. unfold rs; simpl. rewrite aupdate_rl. reflexivity.
    - destruct t as [c| |id| |]; simpl.
      + apply conn_run_rs.
      + apply dispatch_run_rs.
      + apply handler_run_rs.
      + apply rewards_run_rs.
      + apply reset_run_rs.
  Qed.

  Theorem execs_rs ls : forall s, execs (rs s) (map rlab ls) = option_map rs (execs s ls).
  Proof.
    induction ls as [|l tl IH]; intros s; simpl; [reflexivity|].
    rewrite exec_rs. destruct (exec s l) as [s'|]; simpl; [apply IH | reflexivity].
  Qed.

  (* what a connection has been sent: the same under the renaming *)
  Theorem outs_rs s c : option_map (@c_outs V G) (alookup (f c) (conns (rs s))) = option_map (@c_outs V G) (alookup c (conns s)).
  Proof. change (conns (rs s)) with (rl (conns s)). rewrite alookup_rl. reflexivity. Qed.
End Rename.
