(* Invariants of the world model over all action sequences of any number of agents:
   reset restores the world (C08); views are well-formed, only grow and contain only what
   exists (C11); agents influence each other only through the world (C12). *)
From stdpp Require Import gmap.
From Coq Require Import ZArith NArith.
From NSG Require Import Model.World Proofs.WorldStep.

(* ---- what a step can change in the world ---- *)
Definition same_static (w w' : world) : Prop :=
  w_ip2host w' = w_ip2host w /\ w_nets w' = w_nets w /\ w_services w' = w_services w /\
  w_data0 w' = w_data0 w /\ w_fw0 w' = w_fw0 w.

Lemma step_cases w v a :
  step w v a = (w, snd (step w v a)) \/
  (exists src tgt d nt, a = AExfil src tgt d /\ exfil_pre w v src tgt d = true /\ w_ip2host w !! tgt = Some nt /\
     fst (step w v a) = set_data w (<[nt := get (w_data w) nt ∪ {[d]}]> (w_data w))) \/
  (exists src tgt b, a = ABlock src tgt b /\ block_pre w v src tgt b = true /\
     fst (step w v a) = {| w_ip2host := w_ip2host w; w_nets := w_nets w; w_services := w_services w; w_data := w_data w;
                           w_fw := fw_remove (fw_remove (w_fw w) tgt b) b tgt;
                           w_blocks := add_to (add_to (w_blocks w) tgt {[b]}) b {[tgt]};
                           w_data0 := w_data0 w; w_fw0 := w_fw0 w |}).
Proof.
  destruct a as [src tn|src tgt|src tgt|src tgt s|src tgt d|src tgt b]; try (left; reflexivity).
  - cbn [step]. unfold step_exfil. destruct (exfil_pre w v src tgt d) eqn:E; [|left; reflexivity].
    destruct (w_ip2host w !! tgt) as [nt|] eqn:En; [|left; reflexivity].
    right; left. exists src, tgt, d, nt. auto.
  - cbn [step]. unfold step_block. destruct (block_pre w v src tgt b) eqn:E; [|left; reflexivity].
    right; right. exists src, tgt, b. auto.
Qed.

Lemma step_static w v a : same_static w (fst (step w v a)).
Proof.
  destruct (step_cases w v a) as [H|[(src & tgt & d & nt & -> & _ & _ & ->)|(src & tgt & b & -> & _ & ->)]].
  - rewrite H. simpl. repeat split.
  - repeat split.
  - repeat split.
Qed.

Lemma step_data_mono w v a n : get (w_data w) n ⊆ get (w_data (fst (step w v a))) n.
Proof.
  destruct (step_cases w v a) as [H|[(src & tgt & d & nt & -> & _ & _ & ->)|(src & tgt & b & -> & _ & ->)]].
  - rewrite H. reflexivity.
  - simpl. unfold get at 2. destruct (decide (n = nt)) as [->|Hne].
    + rewrite lookup_insert. simpl. set_solver.
    + rewrite lookup_insert_ne by congruence. reflexivity.
  - reflexivity.
Qed.

(* ---- C08: reset restores the world ---- *)
Lemma reset_static w w' : same_static w w' -> reset w' = reset w.
Proof. intros (H1 & H2 & H3 & H4 & H5). unfold reset. rewrite H1, H2, H3, H4, H5. reflexivity. Qed.

Definition play (w : world) (l : list (view * gaction)) : world :=
  fold_left (fun w va => fst (step w (fst va) (snd va))) l w.

Lemma play_static w l : same_static w (play w l).
Proof.
  revert w. induction l as [|[v a] tl IH]; intros w; simpl.
  - repeat split.
  - destruct (IH (fst (step w v a))) as (H1 & H2 & H3 & H4 & H5).
    destruct (step_static w v a) as (G1 & G2 & G3 & G4 & G5).
    repeat split; congruence.
Qed.

Theorem reset_play w l : reset (play w l) = reset w.
Proof. apply reset_static, play_static. Qed.

Definition pristine (w : world) : Prop := w_data w = w_data0 w /\ w_fw w = w_fw0 w /\ w_blocks w = ∅.

Theorem reset_pristine w : pristine w -> reset w = w.
Proof. intros (H1 & H2 & H3). destruct w. unfold reset. simpl in *. subst. reflexivity. Qed.

Theorem reset_restores w0 l : pristine w0 -> reset (play w0 l) = w0.
Proof. intros H. rewrite reset_play. apply reset_pristine, H. Qed.

(* the observation sequence of a script: the world evolves, the view is threaded through *)
Fixpoint observe (w : world) (v : view) (script : list gaction) : list view :=
  match script with
  | [] => []
  | a :: tl => let '(w', v') := step w v a in v' :: observe w' v' tl
  end.

Theorem episodes_independent w0 earlier v0 script :
  pristine w0 -> observe (reset (play w0 earlier)) v0 script = observe w0 v0 script.
Proof. intros H. rewrite (reset_restores w0 earlier H). reflexivity. Qed.

(* ---- C11: monotonicity ---- *)
Definition view_le (v v' : view) : Prop :=
  v_nets v ⊆ v_nets v' /\ v_hosts v ⊆ v_hosts v' /\ v_ctrl v ⊆ v_ctrl v' /\
  (forall h, get (v_data v) h ⊆ get (v_data v') h) /\ (forall h, get (v_blocks v) h ⊆ get (v_blocks v') h).

Lemma view_le_refl v : view_le v v.
Proof. repeat split; reflexivity. Qed.
Lemma view_le_trans a b c : view_le a b -> view_le b c -> view_le a c.
Proof. intros (A1 & A2 & A3 & A4 & A5) (B1 & B2 & B3 & B4 & B5). repeat split; try (etrans; eauto); intros h; etrans; eauto. Qed.

Lemma get_add_to_sub {A} `{Countable A} (m : gmap ip (gset A)) k s h : get m h ⊆ get (add_to m k s) h.
Proof. rewrite get_add_to. case_bool_decide; subst; set_solver. Qed.

Theorem step_mono w v a : view_le v (snd (step w v a)).
Proof.
  destruct a as [src tn|src tgt|src tgt|src tgt s|src tgt d|src tgt b]; cbn [step snd].
  - unfold step_scan. case_bool_decide; [|apply view_le_refl]. repeat split; simpl; set_solver.
  - unfold step_find_services. destruct (_ && _); [|apply view_le_refl].
    case_bool_decide; [apply view_le_refl|]. repeat split; simpl; try reflexivity; case_bool_decide; set_solver.
  - unfold step_find_data. destruct (_ && _); [|apply view_le_refl].
    repeat split; simpl; try reflexivity; intros h; case_bool_decide; try reflexivity; apply get_add_to_sub.
  - unfold step_exploit. destruct (exploit_pre _ _ _ _ _); [|apply view_le_refl]. repeat split; simpl; set_solver.
  - unfold step_exfil. destruct (exfil_pre _ _ _ _ _); [|apply view_le_refl].
    destruct (w_ip2host w !! tgt); [|apply view_le_refl].
    repeat split; simpl; try reflexivity. intros h. apply get_add_to_sub.
  - unfold step_block. destruct (block_pre _ _ _ _ _); [|apply view_le_refl].
    repeat split; simpl; try reflexivity. intros h. etrans; [|apply get_add_to_sub]. apply get_add_to_sub.
Qed.

(* ---- C11: well-formedness ---- *)
Definition wf_view (v : view) : Prop :=
  v_ctrl v ⊆ v_hosts v /\ dom (v_svcs v) ⊆ v_hosts v /\ dom (v_data v) ⊆ v_ctrl v.

Lemma dom_add_to {A} `{Countable A} (m : gmap ip (gset A)) k s : dom (add_to m k s) = {[k]} ∪ dom m.
Proof. unfold add_to. apply dom_insert_L. Qed.

Theorem step_wf w v a : wf_view v -> wf_view (snd (step w v a)).
Proof.
  intros (H1 & H2 & H3).
  destruct a as [src tn|src tgt|src tgt|src tgt s|src tgt d|src tgt b]; cbn [step snd].
  - unfold step_scan. case_bool_decide; [|repeat split; assumption]. repeat split; simpl; set_solver.
  - unfold step_find_services. destruct (_ && _); [|repeat split; assumption].
    case_bool_decide; [repeat split; assumption|].
    repeat split; simpl; try assumption; case_bool_decide; rewrite ?dom_insert_L; set_solver.
  - unfold step_find_data. destruct (bool_decide (src ∈ v_ctrl v) && fw_allows w src tgt) eqn:E; [|repeat split; assumption].
    repeat split; simpl; try assumption.
    clear E. case_bool_decide as Hd; [exact H3|]. rewrite dom_add_to.
    assert (tgt ∈ v_ctrl v).
    { destruct (decide (tgt ∈ v_ctrl v)) as [|Hn]; [assumption|]. rewrite (data_in_not_ctrl _ _ _ Hn) in Hd. contradiction. }
    set_solver.
  - unfold step_exploit. destruct (exploit_pre w v src tgt s) eqn:E; [|repeat split; assumption].
    apply exploit_pre_spec in E as (_ & _ & _ & (K & HK & _)).
    assert (tgt ∈ v_hosts v) by (apply H2, elem_of_dom; eauto).
    repeat split; simpl; set_solver.
  - unfold step_exfil. destruct (exfil_pre w v src tgt d) eqn:E; [|repeat split; assumption].
    destruct (w_ip2host w !! tgt); [|repeat split; assumption].
    apply exfil_pre_spec in E as (Ht & _). repeat split; simpl; try assumption. rewrite dom_add_to. set_solver.
  - unfold step_block. destruct (block_pre _ _ _ _ _); repeat split; assumption.
Qed.

(* ---- C11: everything in a view exists where it is reported ---- *)
Definition anchored (w : world) (v : view) : Prop :=
  (forall h, h ∈ v_hosts v ∪ v_ctrl v -> is_Some (w_ip2host w !! h)) /\
  (forall h K s, v_svcs v !! h = Some K -> s ∈ K ->
     exists n SS, w_ip2host w !! h = Some n /\ w_services w !! n = Some SS /\ s ∈ SS) /\
  (forall h K d, v_data v !! h = Some K -> d ∈ K ->
     exists n, w_ip2host w !! h = Some n /\ d ∈ get (w_data w) n).

(* the view of an agent stays anchored when any (other) agent's step changes the world *)
Theorem anchored_world_step w v u a : anchored w v -> anchored (fst (step w u a)) v.
Proof.
  intros (H1 & H2 & H3). destruct (step_static w u a) as (S1 & S2 & S3 & _ & _).
  repeat split.
  - intros h Hh. rewrite S1. apply H1, Hh.
  - intros h K s HK Hs. rewrite S1, S3. eapply H2; eauto.
  - intros h K d HK Hd. rewrite S1. destruct (H3 h K d HK Hd) as (n & Hn & Hin).
    exists n. split; [exact Hn|]. eapply step_data_mono. exact Hin.
Qed.

Lemma lookup_add_to {A} `{Countable A} (m : gmap ip (gset A)) k s h K :
  add_to m k s !! h = Some K -> (h = k /\ K = get m k ∪ s) \/ (h <> k /\ m !! h = Some K).
Proof.
  unfold add_to. destruct (decide (h = k)) as [->|Hne].
  - rewrite lookup_insert. intros [= <-]. left. auto.
  - rewrite lookup_insert_ne by congruence. right. auto.
Qed.

Lemma get_elem {A} `{Countable A} (m : gmap ip (gset A)) k x : x ∈ get m k -> exists K, m !! k = Some K /\ x ∈ K.
Proof. unfold get. destruct (m !! k) as [K|]; simpl; [eauto | set_solver]. Qed.

Theorem step_anchored w v a : anchored w v -> anchored (fst (step w v a)) (snd (step w v a)).
Proof.
  intros Ha. pose proof Ha as (H1 & H2 & H3).
  destruct a as [src tn|src tgt|src tgt|src tgt s|src tgt d|src tgt b]; cbn [step fst snd].
  - unfold step_scan. case_bool_decide; [|exact Ha]. repeat split; simpl; try assumption.
    intros h Hh. apply elem_of_union in Hh as [Hh|Hh]; [|apply H1; set_solver].
    apply elem_of_union in Hh as [Hh|Hh]; [apply H1; set_solver|].
    apply elem_of_filter in Hh as [_ Hh]. apply elem_of_dom in Hh. exact Hh.
  - unfold step_find_services. destruct (_ && _); [|exact Ha].
    case_bool_decide as Hf; [exact Ha|].
    assert (Hex : exists s, s ∈ services_of w tgt (v_ctrl v)) by (apply set_choose_L; exact Hf).
    destruct Hex as [s0 Hs0]. apply services_of_spec in Hs0 as (n0 & SS0 & Hn0 & HS0 & _).
    repeat split; simpl.
    + intros h Hh. case_bool_decide; [apply H1; set_solver|].
      apply elem_of_union in Hh as [Hh|Hh]; [|apply H1; set_solver].
      apply elem_of_union in Hh as [Hh|Hh]; [apply H1; set_solver|].
      apply elem_of_singleton in Hh. subst. eauto.
    + intros h K s HK Hs. destruct (decide (h = tgt)) as [->|Hne].
      * rewrite lookup_insert in HK. injection HK as <-. apply services_of_spec in Hs as (n & SS & Hn & HS & Hin & _). eauto.
      * rewrite lookup_insert_ne in HK by congruence. eapply H2; eauto.
    + assumption.
  - unfold step_find_data. destruct (_ && _); [|exact Ha].
    repeat split; simpl; try assumption.
    intros h K d HK Hd. case_bool_decide as Hnd; [eapply H3; eauto|].
    apply lookup_add_to in HK as [[-> ->]|[Hne HK]]; [|eapply H3; eauto].
    apply elem_of_union in Hd as [Hd|Hd].
    + apply get_elem in Hd as (K0 & HK0 & Hd). eapply H3; eauto.
    + unfold data_in in Hd. case_bool_decide; [|set_solver].
      destruct (w_ip2host w !! tgt) as [n|] eqn:En; [|set_solver]. eauto.
  - unfold step_exploit. destruct (exploit_pre w v src tgt s) eqn:E; [|exact Ha].
    apply exploit_pre_spec in E as (_ & _ & (n & SS & Hn & _) & _).
    repeat split; simpl; try assumption.
    intros h Hh. destruct (decide (h = tgt)) as [->|Hne]; [eauto|]. apply H1. set_solver.
  - unfold step_exfil. destruct (exfil_pre w v src tgt d) eqn:E; [|exact Ha].
    destruct (w_ip2host w !! tgt) as [nt|] eqn:En; [|exact Ha].
    repeat split; simpl; try assumption.
    intros h K x HK Hx.
    apply lookup_add_to in HK as [[-> ->]|[Hne HK]].
    + exists nt. split; [exact En|]. rewrite get_add_to. rewrite bool_decide_eq_true_2 by reflexivity.
      apply elem_of_union in Hx as [Hx|Hx]; [|set_solver].
      apply get_elem in Hx as (K0 & HK0 & Hx). destruct (H3 tgt K0 x HK0 Hx) as (n' & Hn' & Hin).
      rewrite En in Hn'. injection Hn' as <-. set_solver.
    + destruct (H3 h K x HK Hx) as (n & Hn & Hin). exists n. split; [exact Hn|].
      eapply (get_add_to_sub (A := data)). exact Hin.
  - unfold step_block. destruct (block_pre _ _ _ _ _); [|exact Ha]. repeat split; simpl; assumption.
Qed.

(* ---- several agents sharing the world (C11 lifted, C12) ---- *)
Definition mstate := (world * gmap nat view)%type.

Definition mstep (s : mstate) (ag : nat) (a : gaction) : mstate :=
  match snd s !! ag with
  | None => s
  | Some v => (fst (step (fst s) v a), <[ag := snd (step (fst s) v a)]> (snd s))
  end.

Definition mrun (s : mstate) (l : list (nat * gaction)) : mstate :=
  fold_left (fun s x => mstep s (fst x) (snd x)) l s.

Definition minv (s : mstate) : Prop :=
  forall ag v, snd s !! ag = Some v -> wf_view v /\ anchored (fst s) v.

Lemma mstep_inv s ag a : minv s -> minv (mstep s ag a).
Proof.
  intros Hi. unfold mstep. destruct (snd s !! ag) as [v|] eqn:Ev; [|exact Hi].
  intros ag' v' Hv'. simpl in *. destruct (decide (ag' = ag)) as [->|Hne].
  - rewrite lookup_insert in Hv'. injection Hv' as <-. destruct (Hi ag v Ev) as [Hw Ha].
    split; [apply step_wf, Hw | apply step_anchored, Ha].
  - rewrite lookup_insert_ne in Hv' by congruence. destruct (Hi ag' v' Hv') as [Hw Ha].
    split; [exact Hw | apply anchored_world_step, Ha].
Qed.

Theorem mrun_inv s l : minv s -> minv (mrun s l).
Proof. revert s. induction l as [|[ag a] tl IH]; intros s H; simpl; [exact H|]. apply IH, mstep_inv, H. Qed.

Lemma mstep_mono s ag a ag' v : snd s !! ag' = Some v -> exists v', snd (mstep s ag a) !! ag' = Some v' /\ view_le v v'.
Proof.
  intros Hv. unfold mstep. destruct (snd s !! ag) as [u|] eqn:Eu.
  - simpl. destruct (decide (ag' = ag)) as [->|Hne].
    + rewrite lookup_insert. rewrite Hv in Eu. injection Eu as <-. eexists. split; [reflexivity|apply step_mono].
    + rewrite lookup_insert_ne by congruence. exists v. split; [exact Hv|apply view_le_refl].
  - exists v. split; [exact Hv|apply view_le_refl].
Qed.

Theorem mrun_mono s l ag v : snd s !! ag = Some v -> exists v', snd (mrun s l) !! ag = Some v' /\ view_le v v'.
Proof.
  revert s v. induction l as [|[b a] tl IH]; intros s v Hv; simpl.
  - exists v. split; [exact Hv|apply view_le_refl].
  - destruct (mstep_mono s b a ag v Hv) as (v1 & H1 & L1).
    destruct (IH _ v1 H1) as (v2 & H2 & L2). exists v2. split; [exact H2|]. eapply view_le_trans; eauto.
Qed.

(* C12: an action of agent b leaves the view of every other agent exactly as it was *)
Theorem mstep_others s b a ag : ag <> b -> snd (mstep s b a) !! ag = snd s !! ag.
Proof.
  intros Hne. unfold mstep. destruct (snd s !! b); [|reflexivity]. simpl. apply lookup_insert_ne. congruence.
Qed.

(* C12: the result of a step depends on the world only through its live tables; what another
   agent did can matter only by having changed data, firewall or visible blocks *)
Theorem step_channel w1 w2 v a :
  w_ip2host w1 = w_ip2host w2 -> w_nets w1 = w_nets w2 -> w_services w1 = w_services w2 ->
  w_data w1 = w_data w2 -> w_fw w1 = w_fw w2 -> w_blocks w1 = w_blocks w2 ->
  snd (step w1 v a) = snd (step w2 v a).
Proof.
  intros E1 E2 E3 E4 E5 E6.
  destruct a as [src tn|src tgt|src tgt|src tgt s|src tgt d|src tgt b]; cbn [step snd];
    unfold step_scan, step_find_services, step_find_data, step_exploit, step_exfil, step_block,
      exploit_pre, exfil_pre, block_pre, fw_allows, services_of, data_in, blocks_in, nets_of;
    rewrite ?E1, ?E2, ?E3, ?E4, ?E5, ?E6; try reflexivity.
  - destruct (_ && _ && _ && _ && _); [|reflexivity]. destruct (w_ip2host w2 !! tgt); reflexivity.
  - destruct (_ && _ && _ && _); reflexivity.
Qed.

(* C12: no agent gains control or knowledge because another agent acted *)
Corollary no_gift s b a ag v : ag <> b -> snd s !! ag = Some v -> snd (mstep s b a) !! ag = Some v.
Proof. intros Hne Hv. rewrite mstep_others by exact Hne. exact Hv. Qed.
