(* C06 - Start and end-of-episode barriers hold for all agents
   Statements only (printed by Coq from the proof files); proofs are in coq/Proofs/Coord*.v.

*)
From Coq Require Import ZArith NArith List Bool Arith.
From NSG Require Import Base.Prelude Model.Defender Model.Coord Proofs.CoordBase Proofs.CoordInv Proofs.CoordInvConn Proofs.CoordInvDispatch Proofs.CoordInvHandler Proofs.CoordProps Proofs.CoordDirect Proofs.CoordInv2 Proofs.CoordAgentStep Proofs.CoordBarrier Proofs.CoordMeasure Proofs.CoordIsolation Proofs.CoordLimit Proofs.CoordKinds Proofs.CoordFiles.
Import ListNotations.

(* the handlers waiting for the end of the episode are released only by the reward task, and it does nothing unless every agent in the game has finished *)
Theorem C06_end :
  forall (V W G : Type) (cfg : config) (s s' : @state V W G),
       @rewards_run V W G cfg s = @Some (@state V W G) s' ->
       @all_ended V G (@agents V W G s) = false ->
       @agents V W G s' = @agents V W G s /\
       @handlers V W G s' = @handlers V W G s /\ @ev_end V W G s' = false.
Proof. exact (@rewards_only_when_all_ended). Qed.

(* when it acts, it releases ALL of them in the same step (no lost wake-up) *)
Theorem C06_end_all :
  forall (V W G : Type) (cfg : config) (s s' : @state V W G),
       @rewards_run V W G cfg s = @Some (@state V W G) s' ->
       @all_ended V G (@agents V W G s) = true ->
       let successful :=
         @existsb (addr * @agent V G)
           (fun x : addr * @agent V G =>
            role_eqb (@a_role V G (@snd addr (@agent V G) x)) RAttacker &&
            status_eqb (@a_status V G (@snd addr (@agent V G) x)) SSuccess) (@agents V W G s) in
       @agents V W G s' =
       @map (addr * @agent V G) (addr * @agent V G)
         (fun x : addr * @agent V G =>
          (@fst addr (@agent V G) x, @reward_agent V G cfg successful (@snd addr (@agent V G) x)))
         (@agents V W G s) /\
       @handlers V W G s' = @map (@handler V G) (@handler V G) (@release_rewards V G) (@handlers V W G s) /\
       @ev_end V W G s' = false /\ @world V W G s' = @world V W G s.
Proof. exact (@rewards_effect). Qed.

(* when the coordinator is idle, an unanswered request is parked at a barrier whose wait was not released *)
Theorem C06_quiescent :
  forall (V W G : Type) (wstep : W -> V -> G -> W * V) (wreset : W -> W) (winit : W -> role -> W * V)
         (goal : role -> V -> bool) (detect : list G -> G -> bool) (cfg : config) 
         (w : W) (ls : list (@label G)) (s : @state V W G) (c : addr) (cn : @conn V G),
       @execs V W G wstep wreset winit goal detect cfg (@init_state V W G w) ls = @Some (@state V W G) s ->
       @quiescent V W G wstep winit goal detect cfg s = true ->
       @alookup (@conn V G) c (@conns V W G s) = @Some (@conn V G) cn ->
       @c_state V G cn = CAwaiting ->
       exists h : @handler V G,
         @In (@handler V G) h (@handlers V W G s) /\
         @h_addr V G h = c /\
         @parked_unreleased V G h /\
         @naq G c (@aq V W G s) = 0 /\ @c_queue V G cn = [] /\ @nh V G c (@handlers V W G s) = 1.
Proof. exact (@quiescent_reachable). Qed.

(* a non-final observation is never held back: it is answered in the segment that executed the action *)
Theorem C06_nonfinal :
  forall (V W G : Type) (wstep : W -> V -> G -> W * V) (winit : W -> role -> W * V)
         (goal : role -> V -> bool) (detect : list G -> G -> bool) (cfg : config) 
         (s : @state V W G) (id : nat) (c : addr) (act : G) (a : @agent V G) (w' : W) 
         (v' : V),
       @alookup (@agent V G) c (@agents V W G s) = @Some (@agent V G) a ->
       @a_ended V G a = false ->
       wstep (@world V W G s) (@a_view V G a) act = (w', v') ->
       let a2 := @stepped_agent V W G goal detect cfg s c a act v' in
       let ags := @aupdate (@agent V G) c (fun _ : @agent V G => a2) (@agents V W G s) in
       let s1 := @set_agents V W G (@set_world V W G s w') ags in
       let s2 := if @all_ended V G ags then @set_ev_end V W G s1 true else s1 in
       @h_start V W G wstep winit goal detect cfg s id c (@MGame G act true) =
       (if @a_ended V G a2
        then @park V W G s2 id (@PRewards V G false act v')
        else @game_finish V W G s2 id c act v').
Proof. exact (@game_step_eq). Qed.

(* no lost wake-up, for all three barriers: in every reachable idle state an unreleased wait is held by a barrier that is genuinely unmet (somebody has not finished / has not asked / the start event is clear) *)
Theorem C06_unmet :
  forall (V W G : Type) (wstep : W -> V -> G -> W * V) (wreset : W -> W) (winit : W -> role -> W * V)
         (goal : role -> V -> bool) (detect : list G -> G -> bool) (cfg : config) 
         (w : W) (ls : list (@label G)) (s : @state V W G) (h : @handler V G),
       @execs V W G wstep wreset winit goal detect cfg (@init_state V W G w) ls = @Some (@state V W G) s ->
       @quiescent V W G wstep winit goal detect cfg s = true ->
       @In (@handler V G) h (@handlers V W G s) ->
       match @h_pc V G h with
       | PRewards false _ _ => @some_not_ended V W G s
       | PResetDone false _ => @some_not_asked V W G s
       | PJoinStart false _ | PResetStart false _ => @ev_start V W G s = false
       | _ => True
       end.
Proof. exact (@idle_barriers_unmet). Qed.

(* the invariant behind it, for every reachable state, idle or not: an unreleased end wait => somebody has not finished or the reward task is pending; an unreleased reset wait => somebody has not asked or the reset task is pending; an unreleased start wait => start event clear; start event set => at least the required number of players in the game *)
Theorem C06_invariant :
  forall (V W G : Type) (wstep : W -> V -> G -> W * V) (wreset : W -> W) (winit : W -> role -> W * V)
         (goal : role -> V -> bool) (detect : list G -> G -> bool) (cfg : config) 
         (w : W) (ls : list (@label G)) (s : @state V W G),
       @execs V W G wstep wreset winit goal detect cfg (@init_state V W G w) ls = @Some (@state V W G) s ->
       @Kst V W G cfg s.
Proof. exact (@K_reachable). Qed.

(* the start event is set only while at least the required number of players is in the game *)
Theorem C06_start :
  forall (V W G : Type) (wstep : W -> V -> G -> W * V) (wreset : W -> W) (winit : W -> role -> W * V)
         (goal : role -> V -> bool) (detect : list G -> G -> bool) (cfg : config) 
         (w : W) (ls : list (@label G)) (s : @state V W G),
       @execs V W G wstep wreset winit goal detect cfg (@init_state V W G w) ls = @Some (@state V W G) s ->
       @ev_start V W G s = true -> required cfg <= @length (addr * @agent V G) (@agents V W G s).
Proof. exact (@started_enough_players). Qed.

(* released waits are delivered: every run of task steps is bounded by the measure, and in the idle state that follows no released wait is left (C01_quiescent) *)
Theorem C06_progress :
  forall (V W G : Type) (wstep : W -> V -> G -> W * V) (wreset : W -> W) (winit : W -> role -> W * V)
         (goal : role -> V -> bool) (detect : list G -> G -> bool) (cfg : config) 
         (w : W) (ls0 ls : list (@label G)) (s s' : @state V W G),
       @execs V W G wstep wreset winit goal detect cfg (@init_state V W G w) ls0 = @Some (@state V W G) s ->
       (forall l : @label G, @In (@label G) l ls -> @internal G l) ->
       @execs V W G wstep wreset winit goal detect cfg s ls = @Some (@state V W G) s' ->
       @length (@label G) ls <= @mu V W G s.
Proof. exact (@bounded_internal_runs_reachable). Qed.

(* in every reachable state a handler held at the end-of-episode barrier belongs to an agent whose episode has ended, and the view it will report is exactly the stored one (final observations only are held back) *)
Theorem C06_parked_final :
  forall (V W G : Type) (wstep : W -> V -> G -> W * V) (wreset : W -> W) (winit : W -> role -> W * V)
         (goal : role -> V -> bool) (detect : list G -> G -> bool) (cfg : config) 
         (w : W) (ls : list (@label G)) (s : @state V W G) (h : @handler V G) (rel : bool) 
         (act : G) (v' : V),
       @execs V W G wstep wreset winit goal detect cfg (@init_state V W G w) ls = @Some (@state V W G) s ->
       @In (@handler V G) h (@handlers V W G s) ->
       @h_pc V G h = @PRewards V G rel act v' ->
       exists a : @agent V G,
         @alookup (@agent V G) (@h_addr V G h) (@agents V W G s) = @Some (@agent V G) a /\
         @a_ended V G a = true /\ @a_view V G a = v' /\ @a_req V G a = false.
Proof. exact (@parked_view_reachable). Qed.


(* non-vacuity: a concrete run of the executable instance reaches a state in which a request is
   held back at a barrier (two required players, one has joined) and the model is quiescent *)
From NSG Require Import Model.CoordExec.
Example C06_nonvacuous :
  let cfg := {| required := 2; max_steps := fun _ => Some 3; r_step := (-1)%Z; r_succ := 100%Z; r_fail := (-10)%Z;
                allowed := fun _ => true; save_traj := false |} in
  let run := execs x_wstep x_wreset x_winit (x_goal []) (x_detect None (0%Z, 1%positive)) cfg (init_state [5%N; 6%N])
               [LConnect 1%N; LArrive 1%N (CMsg (MJoin (Some (7%N, Some RAttacker)))); LRun (TConn 1%N); LRun TDispatch; LRun (THandler 0)] in
  match run with
  | Some s => quiescent x_wstep x_winit (x_goal []) (x_detect None (0%Z, 1%positive)) cfg s = true /\
              length (handlers s) = 1 /\ length (agents s) = 1 /\ served s = 1
  | None => False
  end.
Proof. vm_compute. repeat split; reflexivity. Qed.

Print Assumptions C06_end.
Print Assumptions C06_end_all.
Print Assumptions C06_quiescent.
Print Assumptions C06_nonfinal.
Print Assumptions C06_unmet.
Print Assumptions C06_invariant.
Print Assumptions C06_start.
Print Assumptions C06_progress.
Print Assumptions C06_parked_final.
