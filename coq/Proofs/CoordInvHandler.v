(* Preservation of the structural invariant by handler tasks and by the two background tasks. *)
From Coq Require Import ZArith NArith List Bool Arith Lia.
From NSG Require Import Model.Coord Proofs.CoordBase Proofs.CoordInv Proofs.CoordInvConn Proofs.CoordInvDispatch.
Import ListNotations.

Section InvHandlerOps.
  Context {V W G : Type}.
  Notation state := (@state V W G).
  Notation conn := (@conn V G).
  Notation handler := (@handler V G).
  Notation hpc := (@hpc V G).
  Notation msg := (@msg G).
  Notation Inv := (@Inv V W G).

  (* same network part: connections, action queue, counters, and handlers up to their wait state *)
  Definition netsame (s s1 : state) : Prop :=
    conns s1 = conns s /\ aq s1 = aq s /\ map hsk (handlers s1) = map hsk (handlers s) /\
    next_hid s1 = next_hid s /\ served s1 = served s.

  Lemma inv_netsame (s s1 : state) :
    Inv s -> netsame s s1 -> NoDup (map fst (agents s1)) ->
    (forall h, In h (handlers s1) -> parked h -> alookup (h_addr h) (agents s1) <> None) -> Inv s1.
  Proof.
    intros Hi (E1 & E2 & E3 & E4 & E5) Hag Hpk.
    constructor; try assumption.
    - intros c cn Hl. rewrite E1 in Hl. pose proof (I_tok s Hi c cn Hl) as Ht.
      unfold tok in *. rewrite E1, E2, (nh_hsk c _ _ E3).
      destruct (c_state cn); try exact Ht.
      destruct Ht as (Hq & Hm & Hh). split; [exact Hq|]. split; [exact Hm|].
      intros h' Hin Ha. destruct (in_hsk _ _ h' E3 Hin) as (h & Hin' & Hs).
      apply hsk_inv in Hs as (_ & Ha' & Hsp). rewrite <- Hsp. apply Hh; [exact Hin' | congruence].
    - intros c m Hin. rewrite E1. rewrite E2 in Hin. eapply I_known_aq; eauto.
    - intros h' Hin. rewrite E1. destruct (in_hsk _ _ h' E3 Hin) as (h & Hin' & Hs).
      apply hsk_inv in Hs as (_ & Ha' & _). rewrite <- Ha'. apply (I_known_h s Hi), Hin'.
    - destruct (I_ids s Hi) as [Hnd Hlt]. split.
      + rewrite (map_id_hsk _ _ E3). exact Hnd.
      + intros h' Hin. rewrite E4. destruct (in_hsk _ _ h' E3 Hin) as (h & Hin' & Hs).
        apply hsk_inv in Hs as (Hid & _ & _). rewrite <- Hid. apply Hlt, Hin'.
    - rewrite E5, E1. apply (I_served s Hi).
    - rewrite E1. apply (I_conns s Hi).
    - intros h' Hin. destruct (in_hsk _ _ h' E3 Hin) as (h & Hin' & Hs).
      apply hsk_inv in Hs as (_ & _ & Hsp). rewrite <- Hsp. apply (I_nogarbage s Hi), Hin'.
  Qed.

  (* a handler exists for c: the connection is awaiting (and this is its only token) or closed *)
  Lemma handler_conn (s : state) h : Inv s -> In h (handlers s) ->
    exists cn, alookup (h_addr h) (conns s) = Some cn /\
      ((c_state cn = CAwaiting /\ naq (h_addr h) (aq s) = 0 /\ nh (h_addr h) (handlers s) = 1 /\ nq (h_addr h) (conns s) = 0) \/
       (c_state cn = CClosed /\ spawned_msg h = Some MQuit)).
  Proof.
    intros Hi Hin. destruct (alookup (h_addr h) (conns s)) as [cn|] eqn:Hl.
    2:{ exfalso. apply (I_known_h s Hi h Hin Hl). }
    exists cn. split; [reflexivity|].
    pose proof (I_tok s Hi _ cn Hl) as Ht. pose proof (nh_pos (h_addr h) (handlers s) h Hin eq_refl) as Hp.
    unfold tok in Ht. destruct (c_state cn); try lia.
    - left. repeat split; try reflexivity; lia.
    - right. split; [reflexivity|]. destruct Ht as (_ & _ & Hh). apply Hh; [exact Hin | reflexivity].
  Qed.

  Lemma parked_not_closed (s : state) h cn : Inv s -> In h (handlers s) -> spawned_msg h <> Some MQuit ->
    alookup (h_addr h) (conns s) = Some cn -> c_state cn = CAwaiting.
  Proof.
    intros Hi Hin Hnq Hl. destruct (handler_conn s h Hi Hin) as (cn' & Hl' & [(Hst & _)|(_ & Hsp)]); [congruence | contradiction].
  Qed.

  (* ---- finishing a handler: remove it and put an item on the sender's queue (if it still has one) ---- *)
  Lemma inv_finish (s : state) h item :
    Inv s -> In h (handlers s) -> Inv (put (remove_handler s (h_id h)) (h_addr h) item).
  Proof.
    intros Hi Hin.
    destruct (handler_conn s h Hi Hin) as (cn & Hl & Hcase).
    destruct (I_ids s Hi) as [Hnd Hlt].
    remember (h_addr h) as c eqn:Ec. remember (h_id h) as id eqn:Eid.
    apply (inv_local s _ c Hi); simpl.
    - intros c' Hne. apply alookup_aupdate_ne. congruence.
    - rewrite map_fst_aupdate. apply (I_conns s Hi).
    - intros c' Hne. split; [reflexivity|].
      rewrite (nh_remove c' (handlers s) h Hnd Hin). rewrite <- Ec, <- Eid.
      destruct (N.eqb c c') eqn:E; [apply N.eqb_eq in E; congruence | lia].
    - intros c' m Hi'. right. exact Hi'.
    - intros h' Hin'. apply in_remove_handler in Hin' as [Hin' _]. right. exists h'. auto.
    - split.
      + clear - Hnd. induction (handlers s) as [|x tl IH]; simpl; [constructor|].
        inversion Hnd as [|? ? Hn Hnd']; subst. destruct (negb (Nat.eqb (h_id x) id)); simpl; [|apply IH, Hnd'].
        constructor; [|apply IH, Hnd']. intros Hx. apply Hn. apply in_map_iff in Hx as (y & Hy & Hiy).
        apply filter_In in Hiy as [Hiy _]. rewrite <- Hy. apply in_map, Hiy.
      + intros h' Hin'. apply in_remove_handler in Hin' as [Hin' _]. apply Hlt, Hin'.
    - rewrite nactive_respond. apply (I_served s Hi).
    - apply (I_agents s Hi).
    - intros h' Hin' Hp. apply in_remove_handler in Hin' as [Hin' _]. apply (I_parked s Hi); assumption.
    - intros cn' Hl'. rewrite alookup_aupdate_eq, Hl in Hl'. simpl in Hl'. injection Hl' as <-.
      pose proof (nh_remove c (handlers s) h Hnd Hin) as Hrm. rewrite <- Ec, <- Eid in Hrm. rewrite N.eqb_refl in Hrm.
      destruct Hcase as [(Hst & Hz1 & Hz2 & Hz3)|(Hst & Hsp)].
      + unfold has_queue. rewrite Hst. simpl. rewrite Hst. unfold tok. simpl.
        rewrite (nq_respond _ c cn _ Hl). unfold has_queue. rewrite Hst.
        unfold nq in Hz3. rewrite Hl in Hz3. lia.
      + unfold has_queue. rewrite Hst. simpl. rewrite Hst.
        pose proof (I_tok s Hi c cn Hl) as Ht. rewrite Hst in Ht. destruct Ht as (Hq & Hm & Hh).
        split; [exact Hq|]. split; [exact Hm|].
        intros h' Hin' Ha. apply in_remove_handler in Hin' as [Hin' _]. apply Hh; assumption.
    - intros _. rewrite alookup_aupdate_eq, Hl. destruct (has_queue cn); discriminate.
    - intros h' Hin' _. apply in_remove_handler in Hin' as [Hin' _]. apply (I_nogarbage s Hi), Hin'.
  Qed.

  (* ---- parking a handler at a wait ---- *)
  Lemma inv_park (s : state) h pc :
    Inv s -> In h (handlers s) -> spawned_msg h <> Some MQuit ->
    (forall m, pc <> PSpawned m) -> alookup (h_addr h) (agents s) <> None ->
    Inv (park s (h_id h) pc).
  Proof.
    intros Hi Hin Hnq Hpc Hag.
    destruct (handler_conn s h Hi Hin) as (cn & Hl & Hcase).
    destruct Hcase as [(Hst & Hz1 & Hz2 & Hz3)|(_ & Hsp)]; [|contradiction].
    destruct (I_ids s Hi) as [Hnd Hlt].
    remember (h_addr h) as c eqn:Ec. remember (h_id h) as id eqn:Eid.
    set (f := fun x : handler => if Nat.eqb (h_id x) id then {| h_id := id; h_addr := h_addr x; h_pc := pc |} else x).
    assert (Hf_addr : forall x, h_addr (f x) = h_addr x) by (intros x; unfold f; destruct (Nat.eqb (h_id x) id); reflexivity).
    assert (Hf_id : forall x, h_id (f x) = h_id x).
    { intros x. unfold f. destruct (Nat.eqb (h_id x) id) eqn:E; [apply Nat.eqb_eq in E; simpl; congruence | reflexivity]. }
    assert (Hf_other : forall x, h_id x <> id -> f x = x).
    { intros x Hne. unfold f. destruct (Nat.eqb (h_id x) id) eqn:E; [apply Nat.eqb_eq in E; contradiction | reflexivity]. }
    assert (Huniq : forall x, In x (handlers s) -> h_id x = id -> x = h).
    { intros x Hx Hid. apply (handler_unique (handlers s) x h Hnd Hx Hin). congruence. }
    apply (inv_local s (park s id pc) c Hi); simpl; fold f.
    - intros c' _. reflexivity.
    - apply (I_conns s Hi).
    - intros c' _. split; [reflexivity|]. apply nh_map_same. exact Hf_addr.
    - intros c' m Hi'. right. exact Hi'.
    - intros h' Hin'. apply in_map_iff in Hin' as (x & <- & Hx).
      destruct (Nat.eq_dec (h_id x) id) as [E|Hne].
      + left. rewrite Hf_addr. rewrite (Huniq x Hx E). symmetry. exact Ec.
      + right. exists x. rewrite (Hf_other x Hne). auto.
    - split.
      + rewrite map_map. rewrite (map_ext _ h_id Hf_id). exact Hnd.
      + intros h' Hin'. apply in_map_iff in Hin' as (x & <- & Hx). rewrite Hf_id. apply Hlt, Hx.
    - apply (I_served s Hi).
    - apply (I_agents s Hi).
    - intros h' Hin' Hp. apply in_map_iff in Hin' as (x & <- & Hx). rewrite Hf_addr.
      destruct (Nat.eq_dec (h_id x) id) as [E|Hne].
      + rewrite (Huniq x Hx E), <- Ec. exact Hag.
      + rewrite (Hf_other x Hne) in Hp. apply (I_parked s Hi); assumption.
    - intros cn' Hl'. rewrite Hl in Hl'. injection Hl' as <-. rewrite Hst. unfold tok. simpl. fold f.
      rewrite (nh_map_same c f _ Hf_addr). lia.
    - intros _. rewrite Hl. discriminate.
    - intros h' Hin' _. apply in_map_iff in Hin' as (x & <- & Hx).
      destruct (Nat.eq_dec (h_id x) id) as [E|Hne].
      + unfold f. rewrite E, Nat.eqb_refl. unfold spawned_msg. simpl. destruct pc; try discriminate. exfalso. eapply Hpc; reflexivity.
      + rewrite (Hf_other x Hne). apply (I_nogarbage s Hi), Hx.
  Qed.
End InvHandlerOps.

Section InvHandlerSteps.
  Context {V W G : Type}.
  Variable wstep : W -> V -> G -> W * V.
  Variable wreset : W -> W.
  Variable winit : W -> role -> W * V.
  Variable goal : role -> V -> bool.
  Variable detect : list G -> G -> bool.
  Variable cfg : config.

  Notation state := (@state V W G).
  Notation conn := (@conn V G).
  Notation handler := (@handler V G).
  Notation agent := (@agent V G).
  Notation hpc := (@hpc V G).
  Notation msg := (@msg G).
  Notation Inv := (@Inv V W G).
  Notation h_start := (@h_start V W G wstep winit goal detect cfg).
  Notation h_wake := (@h_wake V W G wstep winit goal detect cfg).
  Notation game_finish := (@game_finish V W G).
  Notation reset_finish := (@reset_finish V W G).

  (* a change of the agent-level state that keeps every registered address registered *)
  Lemma inv_agents_update (s s1 : state) :
    Inv s -> netsame s s1 -> NoDup (map fst (agents s1)) ->
    (forall k, alookup k (agents s) <> None -> alookup k (agents s1) <> None) -> Inv s1.
  Proof.
    intros Hi Hn Hnd Hk. apply (inv_netsame s s1 Hi Hn Hnd).
    intros h1 Hin Hp. destruct Hn as (_ & _ & E3 & _ & _).
    destruct (in_hsk _ _ h1 E3 Hin) as (h & Hin' & Hs). apply hsk_inv in Hs as (_ & Ha & Hsp).
    rewrite <- Ha. apply Hk. apply (I_parked s Hi h Hin'). unfold parked in *. congruence.
  Qed.

  Lemma netsame_refl (s : state) : netsame s s.
  Proof. repeat split. Qed.

  Lemma alookup_aupdate_some {A} k c (f : A -> A) (l : list (addr * A)) :
    alookup k l <> None -> alookup k (aupdate c f l) <> None.
  Proof.
    destruct (N.eq_dec c k) as [->|Hne].
    - rewrite alookup_aupdate_eq. destruct (alookup k l); simpl; congruence.
    - rewrite alookup_aupdate_ne by exact Hne. auto.
  Qed.

  Lemma in_netsame_handler (s s1 : state) h : netsame s s1 -> In h (handlers s) ->
    exists h1, In h1 (handlers s1) /\ h_id h1 = h_id h /\ h_addr h1 = h_addr h /\ spawned_msg h1 = spawned_msg h.
  Proof.
    intros (_ & _ & E3 & _ & _) Hin. symmetry in E3.
    destruct (in_hsk _ _ h E3 Hin) as (h1 & Hin1 & Hs). apply hsk_inv in Hs as (H1 & H2 & H3).
    exists h1. repeat split; congruence.
  Qed.

  (* finishing / parking after an agent-level update *)
  Lemma inv_finish_via (s s1 : state) h item :
    Inv s1 -> netsame s s1 -> In h (handlers s) -> Inv (put (remove_handler s1 (h_id h)) (h_addr h) item).
  Proof.
    intros Hi1 Hn Hin. destruct (in_netsame_handler s s1 h Hn Hin) as (h1 & Hin1 & E1 & E2 & _).
    rewrite <- E1, <- E2. apply inv_finish; assumption.
  Qed.

  Lemma inv_park_via (s s1 : state) h pc :
    Inv s1 -> netsame s s1 -> In h (handlers s) -> spawned_msg h <> Some MQuit ->
    (forall m, pc <> PSpawned m) -> alookup (h_addr h) (agents s1) <> None ->
    Inv (park s1 (h_id h) pc).
  Proof.
    intros Hi1 Hn Hin Hq Hpc Hag. destruct (in_netsame_handler s s1 h Hn Hin) as (h1 & Hin1 & E1 & E2 & E3).
    rewrite <- E1. apply inv_park; try assumption; congruence.
  Qed.

  Lemma netsame_start_event (s : state) : netsame s (set_start_event s).
  Proof.
    repeat split. simpl. apply map_hsk_map. apply hsk_release_start.
  Qed.

  Lemma netsame_trans (a b c : state) : netsame a b -> netsame b c -> netsame a c.
  Proof. intros (A1 & A2 & A3 & A4 & A5) (B1 & B2 & B3 & B4 & B5). repeat split; congruence. Qed.

  (* game_finish / reset_finish preserve the invariant (the agent exists: the handler is parked
     or has just checked it) *)
  Lemma inv_game_finish (s s1 : state) h act v' :
    Inv s1 -> netsame s s1 -> In h (handlers s) -> alookup (h_addr h) (agents s1) <> None ->
    Inv (game_finish s1 (h_id h) (h_addr h) act v').
  Proof.
    intros Hi1 Hn Hin Hag. unfold Coord.game_finish.
    destruct (alookup (h_addr h) (agents s1)) as [a|] eqn:Ha; [|congruence].
    set (s2 := set_agents s1 (aupdate (h_addr h) (fun _ => a_set_obs (a_set_traj a (traj_add (a_traj a) act (a_reward a) v')) (a_view a, a_reward a, a_ended a)) (agents s1))).
    assert (Hi2 : Inv s2).
    { apply (inv_agents_update s1 s2 Hi1); [repeat split | simpl; rewrite map_fst_aupdate; apply (I_agents s1 Hi1) | intros k; simpl; apply alookup_aupdate_some]. }
    apply (inv_finish_via s s2 h _ Hi2); [|exact Hin]. eapply netsame_trans; [exact Hn | repeat split].
  Qed.

  Lemma inv_reset_finish (s s1 : state) h want :
    Inv s1 -> netsame s s1 -> In h (handlers s) -> alookup (h_addr h) (agents s1) <> None ->
    Inv (reset_finish s1 (h_id h) (h_addr h) want).
  Proof.
    intros Hi1 Hn Hin Hag. unfold Coord.reset_finish.
    destruct (alookup (h_addr h) (agents s1)) as [a|] eqn:Ha; [|congruence].
    set (s2 := set_agents s1 (aupdate (h_addr h) (fun _ => a_set_traj a (traj_start (a_view a))) (agents s1))).
    assert (Hi2 : Inv s2).
    { apply (inv_agents_update s1 s2 Hi1); [repeat split | simpl; rewrite map_fst_aupdate; apply (I_agents s1 Hi1) | intros k; simpl; apply alookup_aupdate_some]. }
    apply (inv_finish_via s s2 h _ Hi2); [|exact Hin]. eapply netsame_trans; [exact Hn | repeat split].
  Qed.

  (* ---- the first step of a handler ---- *)
  Lemma nh1_unique (hs : list handler) c x y : nh c hs = 1 -> In x hs -> In y hs -> h_addr x = c -> h_addr y = c -> x = y.
  Proof.
    unfold nh. induction hs as [|z tl IH]; [intros _ []|]. simpl.
    intros Hn Hx Hy Hax Hay.
    destruct (N.eqb (h_addr z) c) eqn:E.
    - simpl in Hn. assert (Hz : length (filter (fun h => N.eqb (h_addr h) c) tl) = 0) by lia.
      assert (Hnone : forall w, In w tl -> h_addr w <> c).
      { intros w Hw Haw. assert (In w (filter (fun h => N.eqb (h_addr h) c) tl)) by (apply filter_In; split; [exact Hw | apply N.eqb_eq, Haw]).
        destruct (filter (fun h => N.eqb (h_addr h) c) tl); [contradiction | discriminate]. }
      destruct Hx as [->|Hx], Hy as [->|Hy]; try reflexivity; exfalso; eapply Hnone; eauto.
    - apply N.eqb_neq in E. destruct Hx as [->|Hx]; [contradiction|]. destruct Hy as [->|Hy]; [contradiction|].
      apply IH; assumption.
  Qed.

  Theorem inv_h_start (s : state) h m :
    Inv s -> In h (handlers s) -> h_pc h = PSpawned m -> Inv (h_start s (h_id h) (h_addr h) m).
  Proof.
    intros Hi Hin Hpc.
    assert (Hsp : spawned_msg h = Some m) by (unfold spawned_msg; rewrite Hpc; reflexivity).
    pose proof (I_nogarbage s Hi h Hin) as Hng.
    unfold Coord.h_start. destruct m as [|info| |want|act valid].
    - congruence.
    - (* JoinGame *)
      destruct (alookup (h_addr h) (agents s)) as [a0|] eqn:Ha; [apply inv_finish; assumption|].
      destruct info as [[name [r|]]|]; try (apply inv_finish; assumption).
      destruct (negb (allowed cfg r)); [apply inv_finish; assumption|].
      destruct (winit (world s) r) as [w' v] eqn:Ew.
      set (s1 := set_agents (set_world s w') (agents s ++ [(h_addr h, new_agent name r v)])).
      assert (Hn1 : netsame s s1) by (repeat split).
      assert (Hk1 : forall k, alookup k (agents s) <> None -> alookup k (agents s1) <> None).
      { intros k Hk. simpl. rewrite alookup_app. destruct (alookup k (agents s)); congruence. }
      assert (Hi1 : Inv s1).
      { apply (inv_agents_update s s1 Hi Hn1); [|exact Hk1].
        simpl. rewrite map_app. simpl. apply NoDup_app_one; [apply (I_agents s Hi) | apply alookup_none_notin, Ha]. }
      assert (Hag1 : alookup (h_addr h) (agents s1) <> None).
      { simpl. rewrite alookup_app, Ha. simpl. rewrite N.eqb_refl. discriminate. }
      set (s2 := if Nat.eqb (length (agents s1)) (required cfg) then set_start_event s1 else s1).
      assert (Hn2 : netsame s s2).
      { unfold s2. destruct (Nat.eqb _ _); [eapply netsame_trans; [exact Hn1 | apply netsame_start_event] | exact Hn1]. }
      assert (Hi2 : Inv s2).
      { unfold s2. destruct (Nat.eqb _ _); [|exact Hi1].
        apply (inv_agents_update s1 _ Hi1 (netsame_start_event s1)); [apply (I_agents s1 Hi1) | auto]. }
      assert (Hag2 : alookup (h_addr h) (agents s2) <> None).
      { unfold s2. destruct (Nat.eqb _ _); exact Hag1. }
      fold s1. fold s2. destruct (ev_start s2).
      + apply (inv_finish_via s s2 h _ Hi2 Hn2 Hin).
      + apply (inv_park_via s s2 h _ Hi2 Hn2 Hin); [congruence | intros m0; discriminate | exact Hag2].
    - (* QuitGame *)
      set (s1 := remove_agent s (h_addr h)).
      assert (Hn1 : netsame s s1).
      { unfold s1, remove_agent. destruct (alookup (h_addr h) (agents s)); [|apply netsame_refl].
        destruct (_ && _); destruct (all_ended _); repeat split. }
      assert (Hi1 : Inv s1).
      { apply (inv_netsame s s1 Hi Hn1).
        - unfold s1, remove_agent. destruct (alookup (h_addr h) (agents s)); [|apply (I_agents s Hi)].
          destruct (_ && _); destruct (all_ended _); simpl; apply NoDup_aremove, (I_agents s Hi).
        - intros h1 Hin1 Hp1.
          assert (Hh1 : handlers s1 = handlers s).
          { unfold s1, remove_agent. destruct (alookup (h_addr h) (agents s)); [|reflexivity]. destruct (_ && _); destruct (all_ended _); reflexivity. }
          rewrite Hh1 in Hin1.
          assert (Hne : h_addr h1 <> h_addr h).
          { intros Heq. destruct (handler_conn s h Hi Hin) as (cn & Hl & [(Hst & _ & Hone & _)|(Hst & _)]).
            - assert (h1 = h) by (eapply nh1_unique; eauto). subst h1. unfold parked in Hp1. congruence.
            - pose proof (I_tok s Hi _ cn Hl) as Ht. rewrite Hst in Ht. destruct Ht as (_ & _ & Hh).
              specialize (Hh h1 Hin1 Heq). unfold parked in Hp1. congruence. }
          assert (Hag : alookup (h_addr h1) (agents s1) = alookup (h_addr h1) (agents s)).
          { unfold s1, remove_agent. destruct (alookup (h_addr h) (agents s)); [|reflexivity].
            destruct (_ && _); destruct (all_ended _); simpl; apply alookup_aremove_ne; congruence. }
          rewrite Hag. apply (I_parked s Hi); assumption. }
      apply (inv_finish_via s s1 h _ Hi1 Hn1 Hin).
    - (* ResetGame *)
      destruct (alookup (h_addr h) (agents s)) as [a0|] eqn:Ha; [|apply inv_finish; assumption].
      set (ags := aupdate (h_addr h) (fun a => a_set_req a true) (agents s)).
      set (s1 := set_agents s ags).
      set (s2 := if all_req ags then set_ev_reset s1 true else s1).
      assert (Hn2 : netsame s s2) by (unfold s2; destruct (all_req ags); repeat split).
      assert (Hi2 : Inv s2).
      { apply (inv_agents_update s s2 Hi Hn2).
        - unfold s2. destruct (all_req ags); simpl; unfold ags; rewrite map_fst_aupdate; apply (I_agents s Hi).
        - intros k Hk. unfold s2. destruct (all_req ags); simpl; apply alookup_aupdate_some, Hk. }
      apply (inv_park_via s s2 h _ Hi2 Hn2 Hin); [congruence | intros m0; discriminate|].
      unfold s2. destruct (all_req ags); simpl; apply alookup_aupdate_some; congruence.
    - (* a game action *)
      destruct (alookup (h_addr h) (agents s)) as [a|] eqn:Ha; [|apply inv_finish; assumption].
      destruct (negb valid); [apply inv_finish; assumption|].
      destruct (a_ended a); [apply inv_finish; assumption|].
      destruct (wstep (world s) (a_view a) act) as [w' v'] eqn:Ew.
      match goal with |- context [aupdate (h_addr h) (fun _ => ?A2) (agents s)] => set (a2 := A2) end.
      set (ags := aupdate (h_addr h) (fun _ => a2) (agents s)).
      set (s1 := set_agents (set_world s w') ags).
      set (s2 := if all_ended ags then set_ev_end s1 true else s1).
      assert (Hn2 : netsame s s2) by (unfold s2; destruct (all_ended ags); repeat split).
      assert (Hi2 : Inv s2).
      { apply (inv_agents_update s s2 Hi Hn2).
        - unfold s2. destruct (all_ended ags); simpl; unfold ags; rewrite map_fst_aupdate; apply (I_agents s Hi).
        - intros k Hk. unfold s2. destruct (all_ended ags); simpl; apply alookup_aupdate_some, Hk. }
      assert (Hag2 : alookup (h_addr h) (agents s2) <> None).
      { unfold s2. destruct (all_ended ags); simpl; apply alookup_aupdate_some; congruence. }
      fold ags. fold s1. fold s2.
      match goal with |- Inv (if ?b then _ else _) => destruct b end.
      + apply (inv_park_via s s2 h _ Hi2 Hn2 Hin); [congruence | intros m0; discriminate | exact Hag2].
      + apply (inv_game_finish s s2 h act v' Hi2 Hn2 Hin Hag2).
  Qed.

  Theorem inv_h_wake (s s' : state) h : Inv s -> In h (handlers s) -> h_wake s h = Some s' -> Inv s'.
  Proof.
    intros Hi Hin. unfold Coord.h_wake.
    destruct (h_pc h) as [m|rel v|rel act v'|rel want|rel want] eqn:Hpc.
    - intros [= <-]. apply inv_h_start; assumption.
    - destruct rel; [|discriminate]. intros [= <-]. apply inv_finish; assumption.
    - destruct rel; [|discriminate]. intros [= <-].
      apply (inv_game_finish s s h act v' Hi (netsame_refl s) Hin).
      apply (I_parked s Hi h Hin). unfold parked, spawned_msg. rewrite Hpc. reflexivity.
    - destruct rel; [|discriminate].
      assert (Hp : parked h) by (unfold parked, spawned_msg; rewrite Hpc; reflexivity).
      destruct (ev_start s); intros [= <-].
      + apply (inv_reset_finish s s h want Hi (netsame_refl s) Hin). apply (I_parked s Hi h Hin Hp).
      + apply inv_park; try assumption.
        * unfold parked in Hp. congruence.
        * intros m0. discriminate.
        * apply (I_parked s Hi h Hin Hp).
    - destruct rel; [|discriminate]. intros [= <-].
      apply (inv_reset_finish s s h want Hi (netsame_refl s) Hin).
      apply (I_parked s Hi h Hin). unfold parked, spawned_msg. rewrite Hpc. reflexivity.
  Qed.

  Theorem inv_handler_run (s s' : state) id : Inv s -> @handler_run V W G wstep winit goal detect cfg s id = Some s' -> Inv s'.
  Proof.
    intros Hi. unfold handler_run. destruct (find (fun h => Nat.eqb (h_id h) id) (handlers s)) as [h|] eqn:Hf; [|discriminate].
    apply find_some in Hf as [Hin _]. apply inv_h_wake; assumption.
  Qed.

  (* ---- the two background tasks ---- *)
  Lemma alookup_map_snd {A} k (f : A -> A) (l : list (addr * A)) :
    alookup k (map (fun x => (fst x, f (snd x))) l) = option_map f (alookup k l).
  Proof.
    induction l as [|[k' v] tl IH]; simpl; [reflexivity|]. destruct (N.eqb k k'); [reflexivity | exact IH].
  Qed.

  Theorem inv_rewards_run (s s' : state) : Inv s -> @rewards_run V W G cfg s = Some s' -> Inv s'.
  Proof.
    intros Hi. unfold rewards_run. destruct (negb (ev_end s)); [discriminate|].
    destruct (negb (all_ended (agents s))); intros [= <-].
    - apply (inv_agents_update s _ Hi); [repeat split | apply (I_agents s Hi) | auto].
    - apply (inv_agents_update s _ Hi).
      + repeat split. simpl. apply map_hsk_map, hsk_release_rewards.
      + simpl. rewrite map_map. simpl. apply (I_agents s Hi).
      + intros k Hk. simpl. rewrite alookup_map_snd. destruct (alookup k (agents s)); simpl; congruence.
  Qed.

  Lemma reset_fold_keys (l : list (addr * agent)) w done fl :
    map fst (snd (fst (fold_left (@reset_one V W G winit cfg) l (w, done, fl)))) = map fst done ++ map fst l.
  Proof.
    revert w done fl. induction l as [|x tl IH]; intros w done fl; cbn [fold_left]; [simpl; rewrite app_nil_r; reflexivity|].
    assert (E : exists w1 fl1 a1, reset_one winit cfg (w, done, fl) x = (w1, done ++ [(fst x, a1)], fl1)).
    { unfold reset_one. destruct (winit w (a_role (snd x))) as [w' v]. eauto. }
    destruct E as (w1 & fl1 & a1 & ->).
    rewrite IH. rewrite map_app. simpl. rewrite <- app_assoc. reflexivity.
  Qed.

  Lemma alookup_some_iff_in {A} k (l : list (addr * A)) : alookup k l <> None <-> In k (map fst l).
  Proof.
    induction l as [|[k' v] tl IH]; simpl; [split; [congruence | tauto]|].
    destruct (N.eqb k k') eqn:E.
    - apply N.eqb_eq in E. subst. split; [left; reflexivity | discriminate].
    - apply N.eqb_neq in E. rewrite IH. split; [right; assumption | intros [H|H]; [congruence | assumption]].
  Qed.

  Theorem inv_reset_run (s s' : state) : Inv s -> @reset_run V W G wreset winit cfg s = Some s' -> Inv s'.
  Proof.
    intros Hi. unfold reset_run. destruct (negb (ev_reset s)); [discriminate|].
    destruct (negb _); [intros [= <-]; apply (inv_agents_update s _ Hi); [repeat split | apply (I_agents s Hi) | auto]|].
    destruct (fold_left _ (agents s) (wreset (world s), [], files s)) as [[w' ags] fl] eqn:Ef.
    intros [= <-].
    assert (Hk : map fst ags = map fst (agents s)).
    { pose proof (reset_fold_keys (agents s) (wreset (world s)) [] (files s)) as H. rewrite Ef in H. exact H. }
    apply (inv_agents_update s _ Hi).
    - repeat split. simpl. apply map_hsk_map, hsk_release_reset.
    - simpl. rewrite Hk. apply (I_agents s Hi).
    - intros k. simpl. rewrite !alookup_some_iff_in, Hk. auto.
  Qed.

  (* ---- every label preserves the invariant ---- *)
  Theorem inv_exec (s s' : state) l :
    Inv s -> @exec V W G wstep wreset winit goal detect cfg s l = Some s' -> Inv s'.
  Proof.
    intros Hi. destruct l as [c|c k|c|c|c|t]; simpl.
    - destruct (alookup c (conns s)) eqn:Hl; [discriminate|]. intros [= <-]. apply inv_connect; assumption.
    - destruct (alookup c (conns s)) as [cn|]; [|discriminate].
      destruct (c_inbox cn); [discriminate|]. destruct (c_state cn); try discriminate;
        (destruct (c_eof cn); [discriminate|]; intros [= <-]; apply inv_conn_flags; [intros x; split; reflexivity | exact Hi]).
    - destruct (alookup c (conns s)); [|discriminate]. intros [= <-]. apply inv_conn_flags; [intros x; split; reflexivity | exact Hi].
    - destruct (alookup c (conns s)); [|discriminate]. intros [= <-]. apply inv_conn_flags; [intros x; split; reflexivity | exact Hi].
    - destruct (alookup c (conns s)); [|discriminate]. intros [= <-]. apply inv_conn_flags; [intros x; split; reflexivity | exact Hi].
    - destruct t as [c| |id| |].
      + apply inv_conn_run; assumption.
      + apply inv_dispatch_run; assumption.
      + apply inv_handler_run; assumption.
      + apply inv_rewards_run; assumption.
      + apply inv_reset_run; assumption.
  Qed.

  Theorem inv_execs (s s' : state) ls :
    Inv s -> @execs V W G wstep wreset winit goal detect cfg s ls = Some s' -> Inv s'.
  Proof.
    revert s. induction ls as [|l tl IH]; intros s Hi; simpl; [intros [= <-]; exact Hi|].
    destruct (exec wstep wreset winit goal detect cfg s l) as [s1|] eqn:E; [|discriminate].
    apply IH. eapply inv_exec; eauto.
  Qed.

  (* every reachable state *)
  Corollary inv_reachable w ls s : @execs V W G wstep wreset winit goal detect cfg (init_state w) ls = Some s -> Inv s.
  Proof. apply inv_execs, inv_init. Qed.
End InvHandlerSteps.
