# source me: environment for running repo code under the verification harness
export PYTHONPATH=/verif/harness/pyshim:/repo:/verif/harness
export PYTHONHASHSEED=${PYTHONHASHSEED:-0}
export NETSECGAME_VERIF=1
