#!/venv/bin/python
"""Development helper: regenerates coq/Props/C01,C04,C05,C06,C07,C09,C10,C16,C18.v (statements printed by Coq)."""
import sys
sys.path.insert(0, "/verif/harness")
import gen_props as GP

EX = """
(* non-vacuity: a concrete run of the executable instance reaches a state in which a request is
   held back at a barrier (two required players, one has joined) and the model is quiescent *)
From NSG Require Import Model.CoordExec.
Example %s_nonvacuous :
  let cfg := {| required := 2; max_steps := fun _ => Some 3; r_step := (-1)%%Z; r_succ := 100%%Z; r_fail := (-10)%%Z;
                allowed := fun _ => true; save_traj := false |} in
  let run := execs x_wstep x_wreset x_winit (x_goal []) (x_detect None (0%%Z, 1%%positive)) cfg (init_state [5%%N; 6%%N])
               [LConnect 1%%N; LArrive 1%%N (CMsg (MJoin (Some (7%%N, Some RAttacker)))); LRun (TConn 1%%N); LRun TDispatch; LRun (THandler 0)] in
  match run with
  | Some s => quiescent x_wstep x_winit (x_goal []) (x_detect None (0%%Z, 1%%positive)) cfg s = true /\\
              length (handlers s) = 1 /\\ length (agents s) = 1 /\\ served s = 1
  | None => False
  end.
Proof. vm_compute. repeat split; reflexivity. Qed.
"""


EX2 = """
(* non-vacuity of the cross-label theorems: a concrete run of the executable instance (one attacker, step limit 1)
   reaches a state in which the agent has been rewarded (step reward -1 plus fail bonus -10); continuing the run
   (the released handler answers, the agent is refused a further action, the reward task is not enabled again)
   the record is exactly the same *)
Example %s_episode_nonvacuous :
  let cfg := {| required := 1; max_steps := fun _ => Some 1; r_step := (-1)%%Z; r_succ := 100%%Z; r_fail := (-10)%%Z;
                allowed := fun _ => true; save_traj := false |} in
  let ex := execs x_wstep x_wreset x_winit (x_goal []) (x_detect None (0%%Z, 1%%positive)) cfg in
  let g := MGame (ScanNetwork, 3%%N) true in
  let ls0 := [LConnect 1%%N; LArrive 1%%N (CMsg (MJoin (Some (7%%N, Some RAttacker)))); LRun (TConn 1%%N); LRun TDispatch; LRun (THandler 0);
              LRun (TConn 1%%N); LArrive 1%%N (CMsg g); LRun (TConn 1%%N); LRun TDispatch; LRun (THandler 1); LRun TRewards] in
  let ls := [LRun (THandler 1); LRun (TConn 1%%N); LArrive 1%%N (CMsg g); LRun (TConn 1%%N); LRun TDispatch; LRun (THandler 2); LRun (TConn 1%%N)] in
  match ex (init_state [5%%N; 6%%N; 8%%N]) ls0 with
  | Some s =>
      match alookup 1%%N (agents s), ex s ls with
      | Some a, Some s' =>
          a_rewarded a = true /\\ a_ended a = true /\\ a_reward a = (-11)%%Z /\\ a_status a = STimeout /\\
          (exists h, In h (handlers s) /\\ h_pc h = PRewards true (ScanNetwork, 3%%N) 6%%N) /\\
          match alookup 1%%N (agents s') with
          | Some a' => a_reward a' = (-11)%%Z /\\ a_steps a' = 1 /\\ length (t_actions (a_traj a')) = 1
          | None => False
          end
      | _, _ => False
      end
  | None => False
  end.
Proof. vm_compute. repeat split; try reflexivity. eexists. split; [left; reflexivity | reflexivity]. Qed.
"""

GP.build("C01", "Every agent message is answered exactly once",
         "   Model: Model/Coord.v (one internal label = one atomic task step, unconstrained scheduler).",
         [("C01_tokens", "tokens_reachable",
           "token conservation, in EVERY reachable state and for every connection: a request that was read and not yet answered is in exactly one place - the action queue, a handler task, or the response queue; a connection that is not waiting has none"),
          ("C01_alternation", "alt_reachable",
           "requests and responses alternate on every connection: never a response nobody asked for, never two for one request (Alt: reading => #requests = #responses; awaiting => one more request; closed => at most one unanswered, the one answered by closing)"),
          ("C01_queue_bound", "queue_bound_reachable", "the bounded response queue (maxsize 2) can never block a handler: it holds at most one item"),
          ("C01_quiescent", "quiescent_reachable",
           "when no task can run, every connection that awaits an answer has exactly one handler, and it is parked at one of the three barriers with its wait not released"),
          ("C01_idle_unmet", "idle_barriers_unmet",
           "and that barrier is genuinely unmet (no lost wake-up): in every reachable idle state a handler held at the end barrier coexists with an agent that has not finished, one held at the reset barrier with an agent that has not asked, one held at the start barrier with a clear start event - what is unanswered waits for other players, never for the server"),
          ("C01_progress", "mu_decreases",
           "progress: the measure `mu` (Proofs/CoordMeasure.v: weighted count of unread input, queued messages, handler tasks by wait state, queued responses and pending task events) strictly decreases with EVERY task step, from every state satisfying the invariant"),
          ("C01_no_livelock", "bounded_internal_runs_reachable",
           "so from every reachable state at most `mu s` task steps can happen before the coordinator is idle again or new input arrives: an answer whose barrier is met is delivered after finitely many steps (with C01_quiescent / C01_idle_unmet: at rest, nothing is unanswered except behind an unmet barrier)"),
          ("C01_answer_fits", "h_wake_answer",
           "the answer fits the question: a handler step puts at most one item on a response queue, on the queue of the connection it works for, and the item fits the request it was spawned for (JoinGame: CREATED / BAD_REQUEST; ResetGame: RESET_DONE / BAD_REQUEST; game action: OK / FORBIDDEN / BAD_REQUEST; QuitGame: close)"),
          ("C01_keeps_kind", "h_wake_keeps_kind", "and a handler that is held at a barrier keeps the kind of its request, so the eventual answer fits too"),
          ("C01_parked_have_agents", "parked_have_agents_reachable", "a handler parked at a barrier always belongs to a registered agent (its continuation cannot fail)"),
          ("C01_garbage_answered", "reject_garbage", "an unparsable message is answered with BAD_REQUEST by the dispatcher"),
          ("C01_dispatcher_alive", "dispatcher_alive", "the dispatcher can always take the next message")],
         example=EX % "C01")

GP.build("C18", "Connection slots are bounded and always given back",
         "",
         [("C18_bound", "bound_reachable", "in every reachable state the number of served connections is at most the configured number of required players"),
          ("C18_count", "served_reachable", "the counter is exactly the number of connections being served (every end of a served connection gave its slot back, exactly once)"),
          ("C18_reject", "reject_over_limit", "a connection beyond the limit is closed at once: nothing is written, nothing else changes"),
          ("C18_admit", "admit_under_limit", "below the limit a new connection is served"),
          ("C18_release", "cleanup_releases", "the cleanup of a served connection releases one slot")],
         example=EX % "C18")

GP.build("C09", "Bad or out-of-order messages are rejected without any effect on anyone",
         "   bad_request s c m: garbage, second join, join without agent_info or with an unknown role, reset or game\n   action from an address that has not joined, game action with missing/invalid parameters.",
         [("C09_garbage", "reject_garbage", "garbage: BAD_REQUEST from the dispatcher; agents, world, events, trajectory files, handlers and all other connections unchanged"),
          ("C09_reject", "reject_bad_request", "every other bad request: its handler answers BAD_REQUEST ..."),
          ("C09_frame", "respond_frame", "... and answering changes nothing but the sender's response queue and the finished handler"),
          ("C09_dispatcher_answers", "dispatch1_answer", "the dispatcher itself answers only unparsable messages: BAD_REQUEST on the sender's queue, nothing else"),
          ("C09_others", "h_start_others", "whatever the message, the handler working for address c0 leaves the record of every other agent untouched"),
          ("C09_world", "h_start_world_frame", "and only game actions and joins can touch the world or the trajectory files"),
          ("C09_alive", "dispatcher_alive", "the dispatcher keeps serving"),
          ("C09_no_replay", "no_replay", "the handler spawned for a message executes the content of that very message (no dispatcher-local state survives)")],
         example=EX % "C09")

GP.build("C10", "An agent may leave at any moment without harming the others",
         "   Departures observed by the server (EOF, read error, undecodable bytes, write error) forward QuitGame\n   (conn_read / conn_run: `leave`); the quit handler then removes the agent.",
         [("C10_others", "label_touches_one", "every label except the two background tasks leaves the records of all agents but (at most) one exactly as they are: a departure, a fault or a bad message of one agent never touches another agent's view, counters, status, reward or trajectory"),
          ("C10_forget", "quit_effect", "after the quit handler the address is in no per-agent table; every other agent's record (view, steps, status, reward, trajectory) is exactly as before; world and files unchanged"),
          ("C10_slot", "cleanup_releases", "the connection's slot is released exactly once"),
          ("C10_count", "served_reachable", "so the counter always equals the number of live connections"),
          ("C10_tokens", "tokens_reachable", "a closed connection leaves nothing behind but the QuitGame forwarded on its behalf"),
          ("C10_barriers", "quiescent_reachable", "after the departure has been processed, whatever is still unanswered is held by an unmet barrier"),
          ("C10_rejoin", "admit_under_limit", "a new connection is served again once fewer than the limit are connected")],
         example=EX % "C10")

GP.build("C04", "An episode ends exactly when it should, for the right reason, and stays ended",
         "",
         [("C04_status", "status_rule", "the reason: goal reached => Success; else detected => Fail; else step limit reached => TimeoutReached; else unchanged"),
          ("C04_step", "game_step_eq", "the step of a playing agent: counter +1, new view from the world, status by the rule, end = terminal status or (not an attacker still playing and no other attacker still playing); final results wait at the rewards barrier, non-final ones are answered at once"),
          ("C04_reply", "game_finish_eq", "the reply carries the stored view, reward, end flag and the end reason iff the status is terminal"),
          ("C04_absorbing", "forbidden_after_end", "after the end every game action is refused with FORBIDDEN, the last sent view, the current reward and reason ..."),
          ("C04_absorbing_frame", "respond_frame", "... and changes no counter, view, status, world or trajectory"),
          ("C04_defender_reason", "reward_agent_bonus", "a defender's reason becomes Success exactly when no attacker succeeded"),
          ("C04_stays_ended", "ended_stays_reachable", "ACROSS LABELS: from any reachable state in which an agent's episode has ended, along every continuation without a run of the reset task (any interleaving, other agents acting, joining, leaving), the agent - while it is in the game - stays ended and its step counter and view do not move"),
          ("C04_limit", "step_limit_reachable", "the step limit, in EVERY reachable state: an agent whose role has a limit m > 0 has taken at most m steps in its episode, and one that has taken m has ended (the m-th action ends the episode at the latest, whatever the interleaving)"),
          ("C04_origin", "agent_origin", "where the records of the next state come from: from the record of the same address by one of the listed changes, or - for an address that had none - as the fresh record of a successful join"),
          ("C04_one_label", "agent_step_reachable", "what one label can do to one agent's record, from every reachable state: the complete case list `achange` (Proofs/CoordAgentStep.v): nothing; request flag set; own action (only when not ended); answer recorded; trajectory restarted; reward task; reset task (only when it had asked)")],
         example=(EX % "C04") + (EX2 % "C04"))

GP.build("C05", "Rewards follow the configured rule and the end bonus is paid exactly once",
         "",
         [("C05_step", "game_step_eq", "every processed action sets the reward to the step reward"),
          ("C05_bonus", "reward_agent_bonus", "the reward task adds the success/fail bonus by role and outcome and marks the agent rewarded"),
          ("C05_once", "reward_agent_once", "an agent already rewarded in this episode is left exactly as it is when the task runs again"),
          ("C05_only_all_ended", "rewards_only_when_all_ended", "the task does nothing unless every agent in the game has finished"),
          ("C05_effect", "rewards_effect", "what the task does when it acts"),
          ("C05_forbidden", "forbidden_after_end", "refused actions repeat the stored reward and change nothing"),
          ("C05_reset", "reset_one_effect", "a reset returns reward and counters to zero"),
          ("C05_once_episode", "rewarded_once_reachable", "ACROSS LABELS (exactly once): from any reachable state in which an agent has been rewarded, along every continuation without a run of the reset task, the agent - while it is in the game - has exactly the same reward, status, view and step counter: no second bonus, whatever the reward task, other agents or repeated requests do"),
          ("C05_rewarded_ended", "rewarded_ended_reachable", "in every reachable state a rewarded agent has finished its episode (no bonus before the end)"),
          ("C05_reward_moves", "achange_reward_changes", "the reward of a finished agent changes only by the reward task paying an agent not yet rewarded, or by the reset")],
         example=(EX % "C05") + (EX2 % "C05"))

GP.build("C06", "Start and end-of-episode barriers hold for all agents",
         "",
         [("C06_end", "rewards_only_when_all_ended", "the handlers waiting for the end of the episode are released only by the reward task, and it does nothing unless every agent in the game has finished"),
          ("C06_end_all", "rewards_effect", "when it acts, it releases ALL of them in the same step (no lost wake-up)"),
          ("C06_quiescent", "quiescent_reachable", "when the coordinator is idle, an unanswered request is parked at a barrier whose wait was not released"),
          ("C06_nonfinal", "game_step_eq", "a non-final observation is never held back: it is answered in the segment that executed the action"),
          ("C06_unmet", "idle_barriers_unmet", "no lost wake-up, for all three barriers: in every reachable idle state an unreleased wait is held by a barrier that is genuinely unmet (somebody has not finished / has not asked / the start event is clear)"),
          ("C06_invariant", "K_reachable", "the invariant behind it, for every reachable state, idle or not: an unreleased end wait => somebody has not finished or the reward task is pending; an unreleased reset wait => somebody has not asked or the reset task is pending; an unreleased start wait => start event clear; start event set => at least the required number of players in the game"),
          ("C06_start", "started_enough_players", "the start event is set only while at least the required number of players is in the game"),
          ("C06_progress", "bounded_internal_runs_reachable", "released waits are delivered: every run of task steps is bounded by the measure, and in the idle state that follows no released wait is left (C01_quiescent)"),
          ("C06_parked_final", "parked_view_reachable", "in every reachable state a handler held at the end-of-episode barrier belongs to an agent whose episode has ended, and the view it will report is exactly the stored one (final observations only are held back)")],
         example=EX % "C06")

GP.build("C07", "Reset is collective, voluntary and gives every agent a fresh episode",
         "",
         [("C07_collective", "reset_only_when_all_asked", "the reset task does nothing unless the game is non-empty and every agent in it has asked"),
          ("C07_voluntary", "reset_voluntary", "an agent that has not asked keeps its whole record (view, steps, status, reward, trajectory) across any run of the reset task"),
          ("C07_fresh", "reset_one_effect", "what the reset does to each agent: fresh initial view, counters and reward zero, playing status, request cleared; trajectory stored if configured"),
          ("C07_done", "reset_done_content", "RESET_DONE carries that observation, the finished trajectory iff requested, and restarts the trajectory"),
          ("C07_request_stays", "request_stays_reachable", "ACROSS LABELS: a registered reset request stays registered along every continuation until the reset task runs (or the agent leaves)"),
          ("C07_request_handler", "request_has_handler_reachable", "in every reachable state a registered request has its handler waiting for the reset: no request is ever left without somebody to answer RESET_DONE"),
          ("C07_unmet", "idle_barriers_unmet", "in every reachable idle state an agent waiting for RESET_DONE coexists with an agent that has not asked (the reset barrier is never stuck on the server side)"),
          ("C07_cleared_by_reset", "achange_req_cleared", "only the reset task clears a request")],
         example=EX % "C07")

GP.build("C16", "The recorded trajectory is exactly what the agent experienced",
         "",
         [("C16_step", "game_finish_eq", "the triple appended to the trajectory (action, reward, resulting view) is produced in the same step as the OK response, with the same reward"),
          ("C16_refused", "forbidden_after_end", "refused actions are not recorded"),
          ("C16_frame", "respond_frame", "(nor do BAD_REQUEST replies touch any trajectory)"),
          ("C16_handout", "reset_done_content", "RESET_DONE hands the trajectory out iff requested and restarts it from the new initial view"),
          ("C16_files", "reset_one_effect", "with save_trajectories every reset appends exactly one record (name, role, trajectory) per agent in the game"),
          ("C16_files_exact", "reset_files_exact", "when the reset task resets the game, the trajectory files grow by exactly one record (name, role, trajectory) per agent in the game, in the order of the agent table - or by nothing when save_trajectories is off"),
          ("C16_files_frame", "files_frame", "and no other label ever writes a record"),
          ("C16_wf", "traj_wf_reachable", "in every reachable state every agent's trajectory has exactly one more state than actions and as many rewards as actions"),
          ("C16_one_label", "traj_step_reachable", "ACROSS LABELS: from every reachable state one label leaves an agent's trajectory alone, appends exactly one (action, reward, view) triple whose reward and view are the stored ones, or restarts it from the stored view (after RESET_DONE)")],
         example=EX % "C16")
print("generated")
