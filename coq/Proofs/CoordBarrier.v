(* The barrier invariant of the coordinator model: a handler whose wait has not been released is
   held by a barrier that is genuinely unmet, or the task that will release it is already pending.
     - end of episode:  somebody has not finished, or the reward task is pending (ev_end);
     - reset:           somebody has not asked,   or the reset task is pending (ev_reset);
     - start:           the start event is clear; and the start event is set only while at least the
                        required number of players is in the game.
   Preserved by every label from every state satisfying Inv2; with quiescence (no task can run) this is the
   `no lost wake-up` half of C01/C06/C07: whatever is unanswered waits for other PLAYERS, not for the server. *)
From Coq Require Import ZArith NArith List Bool Arith Lia.
From NSG Require Import Model.Coord Proofs.CoordBase Proofs.CoordInv Proofs.CoordInvConn Proofs.CoordInvDispatch
  Proofs.CoordInvHandler Proofs.CoordProps Proofs.CoordDirect Proofs.CoordInv2.
Import ListNotations.

Section Barrier.
  Context {V W G : Type}.
  Variable wstep : W -> V -> G -> W * V.
  Variable wreset : W -> W.
  Variable winit : W -> role -> W * V.
  Variable goal : role -> V -> bool.
  Variable detect : list G -> G -> bool.
  Variable cfg : config.

  Notation state := (@state V W G).
  Notation handler := (@handler V G).
  Notation agent := (@agent V G).
  Notation msg := (@msg G).
  Notation hpc := (@hpc V G).
  Notation Inv := (@Inv V W G).
  Notation Inv2 := (@Inv2 V W G).
  Notation J := (@J V G).
  Notation exec := (@exec V W G wstep wreset winit goal detect cfg).
  Notation execs := (@execs V W G wstep wreset winit goal detect cfg).
  Notation h_start := (@h_start V W G wstep winit goal detect cfg).
  Notation h_wake := (@h_wake V W G wstep winit goal detect cfg).
  Notation quiescent := (@quiescent V W G wstep winit goal detect cfg).

  (* which barrier holds an unreleased wait: 1 end of episode, 2 reset, 3 start; 0: none *)
  Definition wkp (pc : hpc) : nat :=
    match pc with
    | PRewards false _ _ => 1
    | PResetDone false _ => 2
    | PJoinStart false _ => 3
    | PResetStart false _ => 3
    | _ => 0
    end.
  Definition wk (h : handler) : nat := wkp (h_pc h).
  Definition waits (k : nat) (hs : list handler) : Prop := exists h, In h hs /\ wk h = k.

  Record K (ags : list (addr * agent)) (hs : list handler) (es ee er : bool) : Prop := {
    K_end : waits 1 hs -> all_ended ags = false \/ ee = true;
    K_reset : waits 2 hs -> all_req ags = false \/ er = true;
    K_wait_start : waits 3 hs -> es = false;
    K_start : es = true -> required cfg <= length ags;
  }.
  Definition Kst (s : state) : Prop := K (agents s) (handlers s) (ev_start s) (ev_end s) (ev_reset s).

  Lemma K_init w : Kst (init_state w).
  Proof. constructor; simpl; try (intros (h & [] & _)); discriminate. Qed.

  (* ---- handler lists ---- *)
  Definition sub (hs' hs : list handler) : Prop :=
    forall h', In h' hs' -> wk h' <> 0 -> exists h, In h hs /\ wk h = wk h'.

  Lemma waits_sub hs' hs k : sub hs' hs -> k <> 0 -> waits k hs' -> waits k hs.
  Proof. intros Hs Hk (h' & Hin & Hw). destruct (Hs h' Hin) as (h & Hin0 & E); [congruence|]. exists h. split; [exact Hin0 | congruence]. Qed.

  Lemma K_sub ags hs hs' es ee er : K ags hs es ee er -> sub hs' hs -> K ags hs' es ee er.
  Proof.
    intros [K1 K2 K3 K4] Hs. constructor; [| | |exact K4].
    - intros H. apply K1. eapply waits_sub; eauto.
    - intros H. apply K2. eapply waits_sub; eauto.
    - intros H. apply K3. eapply waits_sub; eauto.
  Qed.

  Lemma sub_refl hs : sub hs hs.
  Proof. intros h Hin _. eauto. Qed.

  Lemma sub_remove hs id : sub (filter (fun h : handler => negb (Nat.eqb (h_id h) id)) hs) hs.
  Proof. intros h Hin _. apply filter_In in Hin as [Hin _]. eauto. Qed.

  Lemma sub_trans a b c : sub a b -> sub b c -> sub a c.
  Proof.
    intros H1 H2 h Hin Hw. destruct (H1 h Hin Hw) as (h1 & Hin1 & E1).
    destruct (H2 h1 Hin1) as (h2 & Hin2 & E2); [congruence|]. exists h2. split; [exact Hin2 | congruence].
  Qed.

  Lemma sub_app_spawned hs (h : handler) m : h_pc h = PSpawned m -> sub (hs ++ [h]) hs.
  Proof.
    intros Hp h' Hin Hw. apply in_app_or in Hin as [Hin|[<-|[]]]; [eauto|]. unfold wk in Hw. rewrite Hp in Hw. contradiction.
  Qed.

  Lemma sub_map (f : handler -> handler) hs : (forall h, wk (f h) = wk h \/ wk (f h) = 0) -> sub (map f hs) hs.
  Proof.
    intros Hf h' Hin Hw. apply in_map_iff in Hin as (h & <- & Hin). destruct (Hf h) as [E|E]; [eauto | contradiction].
  Qed.

  Lemma no_waits_map (f : handler -> handler) hs k : (forall h, wk (f h) <> k) -> ~ waits k (map f hs).
  Proof. intros Hf (h' & Hin & Hw). apply in_map_iff in Hin as (h & <- & _). apply (Hf h Hw). Qed.

  Lemma wk_release_start h : (wk (release_start h) = wk h \/ wk (release_start h) = 0) /\ wk (release_start h) <> 3.
  Proof. destruct h as [i a pc]; destruct pc as [m|[] v|[] x v|[] t|[] t]; simpl; split; auto; discriminate. Qed.
  Lemma wk_release_rewards h : (wk (release_rewards h) = wk h \/ wk (release_rewards h) = 0) /\ wk (release_rewards h) <> 1.
  Proof. destruct h as [i a pc]; destruct pc as [m|[] v|[] x v|[] t|[] t]; simpl; split; auto; discriminate. Qed.
  Lemma wk_release_reset h : (wk (release_reset h) = wk h \/ wk (release_reset h) = 0) /\ wk (release_reset h) <> 2.
  Proof. destruct h as [i a pc]; destruct pc as [m|[] v|[] x v|[] t|[] t]; simpl; split; auto; discriminate. Qed.

  (* parking one handler: every wait of the new list is an old one, or the new wait *)
  Lemma waits_repl hs id pc k : k <> 0 -> waits k (map (repl id pc) hs) -> waits k hs \/ wkp pc = k.
  Proof.
    intros Hk (h' & Hin & Hw). apply in_map_iff in Hin as (h & <- & Hin). unfold repl in Hw.
    destruct (Nat.eqb (h_id h) id); [right; exact Hw | left; exists h; auto].
  Qed.

  (* ---- agent tables ---- *)
  Lemma all_ended_upd (ags : list (addr * agent)) c f :
    (forall a, alookup c ags = Some a -> a_ended (f a) = a_ended a) -> all_ended (aupdate c f ags) = all_ended ags.
  Proof.
    induction ags as [|[k x] tl IH]; intros Hf; [reflexivity|]. cbn [aupdate alookup] in *. unfold all_ended in *.
    destruct (N.eqb c k) eqn:E; cbn [forallb snd].
    - rewrite (Hf x eq_refl). reflexivity.
    - rewrite IH; [reflexivity | exact Hf].
  Qed.
  Lemma all_req_upd (ags : list (addr * agent)) c f :
    (forall a, alookup c ags = Some a -> a_req (f a) = a_req a) -> all_req (aupdate c f ags) = all_req ags.
  Proof.
    induction ags as [|[k x] tl IH]; intros Hf; [reflexivity|]. cbn [aupdate alookup] in *. unfold all_req in *.
    destruct (N.eqb c k) eqn:E; cbn [forallb snd].
    - rewrite (Hf x eq_refl). reflexivity.
    - rewrite IH; [reflexivity | exact Hf].
  Qed.
  Lemma length_upd {A} (ags : list (addr * A)) c f : length (aupdate c f ags) = length ags.
  Proof. rewrite <- (map_length fst), map_fst_aupdate, map_length. reflexivity. Qed.

  Lemma all_ended_app_new (ags : list (addr * agent)) c name r v : all_ended (ags ++ [(c, new_agent name r v)]) = false.
  Proof. unfold all_ended. rewrite forallb_app. simpl. apply andb_false_r. Qed.
  Lemma all_req_app_new (ags : list (addr * agent)) c name r v : all_req (ags ++ [(c, new_agent name r v)]) = false.
  Proof. unfold all_req. rewrite forallb_app. simpl. apply andb_false_r. Qed.

  Lemma K_agents ags ags' hs es ee er :
    all_ended ags' = all_ended ags -> all_req ags' = all_req ags -> length ags' = length ags ->
    K ags hs es ee er -> K ags' hs es ee er.
  Proof. intros E1 E2 E3 [K1 K2 K3 K4]. constructor; rewrite ?E1, ?E2, ?E3; assumption. Qed.

  (* a handler holding an unreleased wait is parked (in the sense of the structural invariant) *)
  Lemma wk_parked (h : handler) : wk h <> 0 -> parked h.
  Proof. unfold wk, parked, spawned_msg. destruct (h_pc h); simpl; congruence. Qed.

  (* ---- finishing a handler ---- *)
  Lemma K_finish (s : state) id c (item : @qitem V G) : Kst s -> Kst (put (remove_handler s id) c item).
  Proof. intros Hk. unfold Kst. simpl. eapply K_sub; [exact Hk | apply sub_remove]. Qed.

  Lemma K_park_same (s : state) id pc :
    Kst s -> (wkp pc = 1 -> all_ended (agents s) = false \/ ev_end s = true) ->
    (wkp pc = 2 -> all_req (agents s) = false \/ ev_reset s = true) -> (wkp pc = 3 -> ev_start s = false) ->
    Kst (park s id pc).
  Proof.
    intros [K1 K2 K3 K4] H1 H2 H3. unfold Kst. simpl. fold (repl id pc). constructor; [| | |exact K4].
    - intros Hw. apply waits_repl in Hw as [Hw|Hw]; [auto | auto | discriminate].
    - intros Hw. apply waits_repl in Hw as [Hw|Hw]; [auto | auto | discriminate].
    - intros Hw. apply waits_repl in Hw as [Hw|Hw]; [auto | auto | discriminate].
  Qed.

  Lemma K_game_finish (s : state) id c act v' : Kst s -> Kst (@game_finish V W G s id c act v').
  Proof.
    intros Hk. unfold game_finish. destruct (alookup c (agents s)) as [a|] eqn:Ha.
    - unfold Kst. simpl. eapply K_sub; [|apply sub_remove].
      eapply K_agents; [| | |exact Hk]; [apply all_ended_upd | apply all_req_upd | apply length_upd];
        intros a0 H; rewrite Ha in H; injection H as <-; reflexivity.
    - unfold Kst. simpl. eapply K_sub; [exact Hk | apply sub_remove].
  Qed.

  Lemma K_reset_finish (s : state) id c want : Kst s -> Kst (@reset_finish V W G s id c want).
  Proof.
    intros Hk. unfold reset_finish. destruct (alookup c (agents s)) as [a|] eqn:Ha.
    - unfold Kst. simpl. eapply K_sub; [|apply sub_remove].
      eapply K_agents; [| | |exact Hk]; [apply all_ended_upd | apply all_req_upd | apply length_upd];
        intros a0 H; rewrite Ha in H; injection H as <-; reflexivity.
    - unfold Kst. simpl. eapply K_sub; [exact Hk | apply sub_remove].
  Qed.

  (* ---- the first step of a handler ---- *)
  Theorem K_h_start (s : state) h m :
    Inv s -> J (agents s) (handlers s) -> Kst s -> In h (handlers s) -> h_pc h = PSpawned m ->
    Kst (h_start s (h_id h) (h_addr h) m).
  Proof.
    intros Hi Hj Hk Hin Hpc.
    assert (Hnw : ~ waiting_reset h) by (eapply not_waiting_spawned; eauto).
    destruct m as [|info| |want|act valid].
    - unfold Coord.h_start. unfold Kst. simpl. eapply K_sub; [exact Hk | apply sub_remove].
    - (* join *)
      unfold Coord.h_start.
      destruct (alookup (h_addr h) (agents s)) as [a0|] eqn:H0; [apply K_finish, Hk|].
      destruct info as [[name [r|]]|]; try (apply K_finish, Hk).
      destruct (negb (allowed cfg r)); [apply K_finish, Hk|].
      destruct (winit (world s) r) as [w' v] eqn:Ew. cbv zeta.
      set (ags1 := agents s ++ [(h_addr h, new_agent name r v)]).
      destruct Hk as [K1 K2 K3 K4].
      destruct (Nat.eqb (length (agents (set_agents (set_world s w') ags1))) (required cfg)) eqn:El.
      + apply Nat.eqb_eq in El. simpl in El. unfold Kst. simpl. constructor.
        * intros _. left. apply all_ended_app_new.
        * intros _. left. apply all_req_app_new.
        * intros Hw. exfalso. eapply waits_sub in Hw; [|apply sub_remove|discriminate].
          revert Hw. apply no_waits_map. intros x. apply wk_release_start.
        * intros _. fold ags1. lia.
      + destruct (ev_start (set_agents (set_world s w') ags1)) eqn:Ev; simpl in Ev.
        * unfold Kst. simpl. rewrite Ev. constructor.
          -- intros _. left. apply all_ended_app_new.
          -- intros _. left. apply all_req_app_new.
          -- intros Hw. eapply waits_sub in Hw; [|apply sub_remove|discriminate]. rewrite <- Ev. apply K3, Hw.
          -- intros _. fold ags1. unfold ags1. rewrite app_length. specialize (K4 Ev). simpl. lia.
        * unfold Kst. simpl. rewrite Ev. constructor; try discriminate.
          -- intros _. left. apply all_ended_app_new.
          -- intros _. left. apply all_req_app_new.
          -- reflexivity.
    - (* quit *)
      unfold Coord.h_start. unfold remove_agent.
      destruct (alookup (h_addr h) (agents s)) as [a0|] eqn:H0; [|apply K_finish, Hk].
      set (others := aremove (h_addr h) (agents s)).
      destruct Hk as [K1 K2 K3 K4].
      assert (Hgen : forall ee' er', (all_ended others = true -> ee' = true) ->
                      (others <> [] -> all_req others = true -> er' = true) ->
                      K others (filter (fun x : handler => negb (Nat.eqb (h_id x) (h_id h))) (handlers s)) false ee' er').
      { intros ee' er' He Hr. constructor; try discriminate; [| |reflexivity].
        - intros _. destruct (all_ended others) eqn:E; [right; apply He; reflexivity | left; reflexivity].
        - intros (h' & Hin' & Hw'). apply filter_In in Hin' as [Hin' Hne]. apply negb_true_iff, Nat.eqb_neq in Hne.
          destruct (all_req others) eqn:E; [right | left; reflexivity]. apply Hr; [|reflexivity].
          assert (Hpk : parked h') by (apply wk_parked; congruence).
          pose proof (I_parked s Hi h' Hin' Hpk) as Hag.
          assert (Hne2 : h_addr h' <> h_addr h).
          { intros Ea. destruct (handlers_of_addr s h h' Hi Hin Hin' Ea) as [->|[Hq _]]; [congruence|].
            unfold parked in Hpk. congruence. }
          intros Hnil. apply Hag. rewrite <- (alookup_aremove_ne (h_addr h) (h_addr h') (agents s)) by congruence.
          fold others. rewrite Hnil. reflexivity. }
      clearbody others.
      destruct ((match others with [] => false | _ => true end) && all_req others) eqn:Eq;
        destruct (all_ended others) eqn:Ee; unfold Kst; simpl; apply Hgen; try reflexivity; try discriminate.
      + intros Hne Hq. exfalso. rewrite Hq, andb_true_r in Eq. destruct others; [congruence | discriminate].
      + intros Hne Hq. exfalso. rewrite Hq, andb_true_r in Eq. destruct others; [congruence | discriminate].
    - (* reset request *)
      unfold Coord.h_start.
      destruct (alookup (h_addr h) (agents s)) as [a0|] eqn:H0; [|apply K_finish, Hk].
      cbv zeta. set (ags := aupdate (h_addr h) (fun a => a_set_req a true) (agents s)).
      destruct Hk as [K1 K2 K3 K4].
      assert (E1 : all_ended ags = all_ended (agents s)) by (apply all_ended_upd; intros; reflexivity).
      assert (E3 : length ags = length (agents s)) by apply length_upd.
      assert (Hgen : forall er', (all_req ags = true -> er' = true) ->
                K ags (map (repl (h_id h) (PResetDone false want)) (handlers s)) (ev_start s) (ev_end s) er').
      { intros er' Hr. constructor.
        - intros Hw. apply waits_repl in Hw as [Hw|Hw]; [|discriminate|discriminate]. rewrite E1. apply K1, Hw.
        - intros _. destruct (all_req ags) eqn:E; [right; apply Hr; reflexivity | left; reflexivity].
        - intros Hw. apply waits_repl in Hw as [Hw|Hw]; [|discriminate|discriminate]. apply K3, Hw.
        - rewrite E3. exact K4. }
      destruct (all_req ags) eqn:Eq; unfold Kst; simpl; apply Hgen; [reflexivity | discriminate].
    - (* a game action *)
      destruct valid; [|unfold Coord.h_start; destruct (alookup (h_addr h) (agents s)); apply K_finish, Hk].
      destruct (alookup (h_addr h) (agents s)) as [a0|] eqn:H0; [|unfold Coord.h_start; rewrite H0; apply K_finish, Hk].
      destruct (a_ended a0) eqn:He; [unfold Coord.h_start; rewrite H0, He; apply K_finish, Hk|].
      destruct (wstep (world s) (a_view a0) act) as [w' v'] eqn:Ew.
      rewrite (game_step_eq wstep winit goal detect cfg s (h_id h) (h_addr h) act a0 w' v' H0 He Ew).
      cbv zeta.
      set (a2 := stepped_agent goal detect cfg s (h_addr h) a0 act v').
      assert (Eq2 : a_req a2 = a_req a0) by reflexivity.
      clearbody a2.
      set (ags := aupdate (h_addr h) (fun _ => a2) (agents s)).
      destruct Hk as [K1 K2 K3 K4].
      assert (E2 : all_req ags = all_req (agents s)).
      { apply all_req_upd. intros a Ha. rewrite H0 in Ha. injection Ha as <-. exact Eq2. }
      assert (E3 : length ags = length (agents s)) by apply length_upd.
      assert (Hs2 : forall ee', (all_ended ags = true -> ee' = true) -> (ev_end s = true -> ee' = true) ->
                K ags (handlers s) (ev_start s) ee' (ev_reset s)).
      { intros ee' Hee Hee2. constructor.
        - intros _. destruct (all_ended ags) eqn:E; [right; apply Hee; reflexivity | left; reflexivity].
        - intros Hw. rewrite E2. apply K2, Hw.
        - exact K3.
        - rewrite E3. exact K4. }
      assert (Hs2' : Kst (if all_ended ags then set_ev_end (set_agents (set_world s w') ags) true else set_agents (set_world s w') ags)).
      { destruct (all_ended ags) eqn:E; unfold Kst; simpl; apply Hs2; auto; discriminate. }
      destruct (a_ended a2).
      + apply K_park_same; [exact Hs2'| |discriminate|discriminate].
        intros _. destruct (all_ended ags) eqn:E; [right; reflexivity | left; simpl; exact E].
      + apply K_game_finish, Hs2'.
  Qed.

  Theorem K_h_wake (s s' : state) h :
    Inv s -> J (agents s) (handlers s) -> Kst s -> In h (handlers s) -> h_wake s h = Some s' -> Kst s'.
  Proof.
    intros Hi Hj Hk Hin Hw. unfold Coord.h_wake in Hw.
    destruct (h_pc h) as [m|rel v|rel act v'|rel want|rel want] eqn:Hpc.
    - injection Hw as <-. apply K_h_start; assumption.
    - destruct rel; [|discriminate]. injection Hw as <-. apply K_finish, Hk.
    - destruct rel; [|discriminate]. injection Hw as <-. apply K_game_finish, Hk.
    - destruct rel; [|discriminate]. destruct (ev_start s) eqn:Ev; injection Hw as <-.
      + apply K_reset_finish, Hk.
      + apply K_park_same; [exact Hk|discriminate|discriminate|]. intros _. exact Ev.
    - destruct rel; [|discriminate]. injection Hw as <-. apply K_reset_finish, Hk.
  Qed.

  Lemma all_req_map_reward (ags : list (addr * agent)) succ :
    all_req (map (fun x => (fst x, reward_agent cfg succ (snd x))) ags) = all_req ags.
  Proof.
    unfold all_req. induction ags as [|[k a] tl IH]; [reflexivity|]. cbn [map forallb fst snd]. rewrite IH. f_equal.
    unfold reward_agent. destruct (_ || _); [reflexivity|]. destruct (a_role a); reflexivity.
  Qed.

  Theorem K_exec (s s' : state) l : Inv2 s -> Kst s -> exec s l = Some s' -> Kst s'.
  Proof.
    intros [Hi Hj] Hk He. destruct l as [k|k ch|k|k|k|t]; cbn [Coord.exec] in He.
    - destruct (alookup k (conns s)); [discriminate|]. injection He as <-. exact Hk.
    - destruct (alookup k (conns s)) as [cn|]; [|discriminate]. destruct (c_inbox cn); [discriminate|].
      destruct (c_state cn); try discriminate; (destruct (c_eof cn); [discriminate|]; injection He as <-; exact Hk).
    - destruct (alookup k (conns s)); [|discriminate]. injection He as <-. exact Hk.
    - destruct (alookup k (conns s)); [|discriminate]. injection He as <-. exact Hk.
    - destruct (alookup k (conns s)); [|discriminate]. injection He as <-. exact Hk.
    - destruct t as [k| |id| |].
      + assert (Hcr : forall (t : state) cn, Kst t -> Kst (conn_read t k cn)).
        { intros t cn Ht. unfold conn_read, leave, cleanup. destruct (c_rerr cn); [exact Ht|].
          destruct (c_inbox cn) as [[m|]|]; try exact Ht. destruct (c_eof cn); exact Ht. }
        unfold conn_run in He. destruct (alookup k (conns s)) as [cn|]; [|discriminate].
        destruct (negb (conn_runnable cn)); [discriminate|].
        destruct (c_state cn).
        * destruct (Nat.leb (required cfg) (served s)); injection He as <-; [exact Hk | apply Hcr, Hk].
        * injection He as <-. apply Hcr, Hk.
        * destruct (c_queue cn) as [|[r|] q']; [discriminate| |].
          -- destruct (c_wfail cn); injection He as <-; [exact Hk | apply Hcr, Hk].
          -- injection He as <-. exact Hk.
        * discriminate.
      + unfold dispatch_run in He. destruct (aq s) as [|x q]; [discriminate|]. injection He as <-.
        change (Kst (fold_left dispatch1 (x :: q) (set_aq s []))).
        assert (Hd : forall q (t : state), Kst t -> Kst (fold_left dispatch1 q t)).
        { induction q0 as [|[c m] tl IH]; intros t Ht; [exact Ht|]. cbn [fold_left]. apply IH.
          destruct m; try exact Ht; (unfold Kst; simpl; eapply K_sub; [exact Ht | eapply sub_app_spawned; reflexivity]). }
        apply Hd. exact Hk.
      + unfold handler_run in He. destruct (find (fun h => Nat.eqb (h_id h) id) (handlers s)) as [h|] eqn:Hf; [|discriminate].
        apply find_some in Hf as [Hin _]. eapply K_h_wake; eauto.
      + unfold rewards_run in He. destruct (negb (ev_end s)); [discriminate|].
        destruct Hk as [K1 K2 K3 K4].
        destruct (all_ended (agents s)) eqn:Ea; simpl in He; injection He as <-; unfold Kst; simpl.
        * constructor.
          -- intros Hw. exfalso. revert Hw. apply no_waits_map. intros x. apply wk_release_rewards.
          -- intros Hw. rewrite all_req_map_reward. apply K2. eapply waits_sub; [|discriminate|exact Hw].
             apply sub_map. intros x. apply wk_release_rewards.
          -- intros Hw. apply K3. eapply waits_sub; [|discriminate|exact Hw]. apply sub_map. intros x. apply wk_release_rewards.
          -- rewrite map_length. exact K4.
        * constructor; auto.
      + unfold reset_run in He. destruct (negb (ev_reset s)); [discriminate|].
        destruct Hk as [K1 K2 K3 K4].
        destruct ((match agents s with [] => false | _ => true end) && all_req (agents s)) eqn:Hall; simpl in He.
        * apply andb_true_iff in Hall as [_ Hall].
          destruct (fold_left _ (agents s) (wreset (world s), [], files s)) as [[w' ags] fl] eqn:Ef.
          injection He as <-. unfold Kst. simpl.
          assert (Hlen : length ags = length (agents s)).
          { pose proof (reset_fold_keys winit cfg (agents s) (wreset (world s)) [] (files s)) as H. rewrite Ef in H. simpl in H.
            rewrite <- (map_length fst ags), H, map_length. reflexivity. }
          constructor.
          -- intros Hw. exfalso. eapply waits_sub in Hw; [|apply sub_map; intros x; apply wk_release_reset|discriminate].
             destruct Hw as (h & Hin & Hw). unfold wk in Hw.
             destruct (h_pc h) as [m|[] v|[] act v|[] t|[] t] eqn:Hp; try discriminate.
             destruct (J_parked _ _ Hj h false act v Hin Hp) as (a & Ha & _ & _ & Hq).
             unfold all_req in Hall. rewrite forallb_forall in Hall. specialize (Hall (h_addr h, a) (alookup_in _ _ _ Ha)).
             simpl in Hall. congruence.
          -- intros Hw. exfalso. revert Hw. apply no_waits_map. intros x. apply wk_release_reset.
          -- intros Hw. apply K3. eapply waits_sub; [|discriminate|exact Hw]. apply sub_map. intros x. apply wk_release_reset.
          -- rewrite Hlen. exact K4.
        * injection He as <-. unfold Kst. simpl. constructor; auto.
          intros (h & Hin & Hw). left.
          apply andb_false_iff in Hall as [Hall|Hall]; [|exact Hall]. exfalso.
          assert (Hpk : parked h) by (apply wk_parked; congruence).
          apply (I_parked s Hi h Hin Hpk). destruct (agents s); [reflexivity | discriminate].
  Qed.

  Theorem K_reachable w ls s : execs (init_state w) ls = Some s -> Kst s.
  Proof.
    assert (H0 : Inv2 (@init_state V W G w) /\ Kst (init_state w)) by (split; [apply inv2_init | apply K_init]).
    revert H0. generalize (@init_state V W G w). induction ls as [|l tl IH]; intros s0 [Hi Hk]; simpl; [intros [= <-]; exact Hk|].
    destruct (exec s0 l) as [s1|] eqn:E; [|discriminate]. apply IH. split; [eapply inv2_exec; eauto | eapply K_exec; eauto].
  Qed.

  (* ---- the consequence for idle states: an unanswered request waits for other players ---- *)
  Definition some_not_ended (s : state) : Prop := exists c a, alookup c (agents s) = Some a /\ a_ended a = false.
  Definition some_not_asked (s : state) : Prop := exists c a, alookup c (agents s) = Some a /\ a_req a = false.

  Lemma forallb_false_ex {A} (f : A -> bool) l : forallb f l = false -> exists x, In x l /\ f x = false.
  Proof.
    induction l as [|x tl IH]; simpl; [discriminate|]. destruct (f x) eqn:E; simpl.
    - intros H. destruct (IH H) as (y & Hy & Hf). eauto.
    - intros _. eauto.
  Qed.

  Theorem idle_barriers_unmet w ls (s : state) h :
    execs (init_state w) ls = Some s -> quiescent s = true -> In h (handlers s) ->
    match h_pc h with
    | PRewards false _ _ => some_not_ended s
    | PResetDone false _ => some_not_asked s
    | PJoinStart false _ | PResetStart false _ => ev_start s = false
    | _ => True
    end.
  Proof.
    intros Hr Hq Hin.
    pose proof (K_reachable w ls s Hr) as [K1 K2 K3 K4].
    destruct (inv2_reachable wstep wreset winit goal detect cfg w ls s Hr) as [Hi Hj].
    unfold Coord.quiescent in Hq.
    apply andb_true_iff in Hq as [Hq Hrs]. apply andb_true_iff in Hq as [Hq Hen].
    apply negb_true_iff in Hrs. apply negb_true_iff in Hen.
    destruct (h_pc h) as [m|[] v|[] act v|[] t|[] t] eqn:Hp; try exact I.
    - apply K3. exists h. unfold wk. rewrite Hp. auto.
    - destruct K1 as [E|E]; [exists h; unfold wk; rewrite Hp; auto| |congruence].
      apply forallb_false_ex in E as ([c a] & Hx & Hf). simpl in Hf.
      exists c, a. split; [apply in_alookup; [apply (I_agents s Hi) | exact Hx] | exact Hf].
    - destruct K2 as [E|E]; [exists h; unfold wk; rewrite Hp; auto| |congruence].
      apply forallb_false_ex in E as ([c a] & Hx & Hf). simpl in Hf.
      exists c, a. split; [apply in_alookup; [apply (I_agents s Hi) | exact Hx] | exact Hf].
    - apply K3. exists h. unfold wk. rewrite Hp. auto.
  Qed.

  (* nobody is let into a running game unless at least the required number of players is present *)
  Theorem started_enough_players w ls (s : state) :
    execs (init_state w) ls = Some s -> ev_start s = true -> required cfg <= length (agents s).
  Proof. intros Hr. apply (K_start _ _ _ _ _ (K_reachable w ls s Hr)). Qed.
End Barrier.
