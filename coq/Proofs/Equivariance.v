(* C13, last sentence: "any action sequence translated through the re-labelling produces the translated
   observations".  For a re-labelling that is one-to-one on the addresses and networks in play, every one of
   the six actions commutes with it: executing the translated action on the re-keyed world from the translated
   view yields exactly the re-keyed new world and the translated new view.  By induction, so does every action
   sequence. *)
From stdpp Require Import gmap.
From Coq Require Import ZArith NArith.
From NSG Require Import Model.World Model.Load Model.Remap Proofs.RemapFacts Proofs.RekeyFacts.

Lemma ipmap_ips_key (t : gmap ip (gset ip)) k S : t !! k = Some S -> k ∈ ipmap_ips t /\ S ⊆ ipmap_ips t.
Proof.
  intros Hk. unfold ipmap_ips. split; [apply elem_of_union_l, elem_of_dom; eauto|].
  intros x Hx. apply elem_of_union_r, elem_of_union_list. exists S. split; [|exact Hx].
  apply elem_of_list_fmap. exists (k, S). split; [reflexivity | apply elem_of_map_to_list, Hk].
Qed.

Lemma get_sub (t : gmap ip (gset ip)) k : get t k ⊆ ipmap_ips t.
Proof.
  unfold get. destruct (t !! k) as [S|] eqn:E; simpl; [apply (ipmap_ips_key t k S E) | set_solver].
Qed.

Section Equiv.
  Variables (m : mapping) (D : gset ip).
  Hypothesis Hf : forall x y, x ∈ D -> y ∈ D -> mip m x = mip m y -> x = y.

  Notation f := (mip m).
  Notation g := (mnet m).

  (* ---- tables keyed by address ---- *)
  Lemma keys_lookup {A} (t : gmap ip A) k : dom t ⊆ D -> k ∈ D -> rekey_keys m t !! f k = t !! k.
  Proof.
    intros Hd Hk. change (rekey f (fun x : A => x) t !! f k = t !! k).
    rewrite (rekey_lookup_D f (fun x : A => x) D Hf t k Hd Hk). destruct (t !! k); reflexivity.
  Qed.
  Lemma keys_insert {A} (t : gmap ip A) k x : dom t ⊆ D -> k ∈ D -> rekey_keys m (<[k := x]> t) = <[f k := x]> (rekey_keys m t).
  Proof. intros Hd Hk. apply (rekey_insert f (fun x : A => x) D Hf t k x Hd Hk). Qed.
  Lemma keys_dom {A} (t : gmap ip A) : dom t ⊆ D -> dom (rekey_keys m t) = map_ipset m (dom t).
  Proof. intros Hd. apply (dom_rekey f (fun x : A => x) D Hf t Hd). Qed.

  Lemma ipmap_lookup (t : gmap ip (gset ip)) k : dom t ⊆ D -> k ∈ D -> rekey_ipmap m t !! f k = map_ipset m <$> t !! k.
  Proof. intros Hd Hk. apply (rekey_lookup_D f (map_ipset m) D Hf t k Hd Hk). Qed.
  Lemma ipmap_insert (t : gmap ip (gset ip)) k x : dom t ⊆ D -> k ∈ D ->
    rekey_ipmap m (<[k := x]> t) = <[f k := map_ipset m x]> (rekey_ipmap m t).
  Proof. intros Hd Hk. apply (rekey_insert f (map_ipset m) D Hf t k x Hd Hk). Qed.

  Lemma ipmap_get (t : gmap ip (gset ip)) k : dom t ⊆ D -> k ∈ D -> get (rekey_ipmap m t) (f k) = map_ipset m (get t k).
  Proof.
    intros Hd Hk. unfold get. rewrite ipmap_lookup by assumption. destruct (t !! k); simpl; [reflexivity|].
    unfold map_ipset. rewrite set_map_empty. reflexivity.
  Qed.
  Lemma keys_get {A} `{Countable A} (t : gmap ip (gset A)) k : dom t ⊆ D -> k ∈ D -> get (rekey_keys m t) (f k) = get t k.
  Proof. intros Hd Hk. unfold get. rewrite keys_lookup by assumption. reflexivity. Qed.

  Lemma mem_D (S : gset ip) j : S ⊆ D -> j ∈ D -> bool_decide (f j ∈ map_ipset m S) = bool_decide (j ∈ S).
  Proof. intros HS Hj. apply (decide_map_D f D Hf S j HS Hj). Qed.

  Lemma ipmap_add_to (t : gmap ip (gset ip)) k S : dom t ⊆ D -> k ∈ D ->
    rekey_ipmap m (add_to t k S) = add_to (rekey_ipmap m t) (f k) (map_ipset m S).
  Proof.
    intros Hd Hk. unfold add_to. rewrite ipmap_insert, ipmap_get by assumption. unfold map_ipset. rewrite set_map_union_L. reflexivity.
  Qed.
  Lemma keys_add_to {A} `{Countable A} (t : gmap ip (gset A)) k S : dom t ⊆ D -> k ∈ D ->
    rekey_keys m (add_to t k S) = add_to (rekey_keys m t) (f k) S.
  Proof. intros Hd Hk. unfold add_to. rewrite keys_insert, keys_get by assumption. reflexivity. Qed.

  Lemma dom_add_to {A} `{Countable A} (t : gmap ip (gset A)) k S : dom (add_to t k S) = dom t ∪ {[k]}.
  Proof. unfold add_to. rewrite dom_insert_L. set_solver. Qed.

  Lemma ipmap_fw_remove (t : gmap ip (gset ip)) a b : dom t ⊆ D -> ipmap_ips t ⊆ D -> a ∈ D -> b ∈ D ->
    rekey_ipmap m (fw_remove t a b) = fw_remove (rekey_ipmap m t) (f a) (f b).
  Proof.
    intros Hd Hall Ha Hb. unfold fw_remove. rewrite ipmap_lookup by assumption. destruct (t !! a) as [S|] eqn:E; simpl; [|reflexivity].
    rewrite ipmap_insert by assumption. f_equal. unfold map_ipset.
    apply (set_map_diff_singleton f D Hf); [|exact Hb]. etrans; [apply (ipmap_ips_key t a S E) | exact Hall].
  Qed.
  Lemma dom_fw_remove (t : gmap ip (gset ip)) a b : dom (fw_remove t a b) = dom t.
  Proof.
    unfold fw_remove. destruct (t !! a) as [S|] eqn:E; [|reflexivity]. rewrite dom_insert_L.
    assert (a ∈ dom t) by (apply elem_of_dom; eauto). set_solver.
  Qed.

  (* ---- the world read through the re-labelling ---- *)
  Variable w : world.
  Variable DN : gset net.
  Hypothesis Hg : forall x y, x ∈ DN -> y ∈ DN -> g x = g y -> x = y.
  Hypothesis HwD : world_all_ips w ⊆ D.
  Hypothesis HnD : dom (w_nets w) ⊆ DN.

  Notation w' := (rekey_world m w).

  Lemma HD_hosts : dom (w_ip2host w) ⊆ D.
  Proof. etrans; [|exact HwD]. unfold world_all_ips, world_ips. set_solver. Qed.
  Lemma HD_fw : ipmap_ips (w_fw w) ⊆ D.
  Proof. etrans; [|exact HwD]. unfold world_all_ips. set_solver. Qed.
  Lemma HD_blocks : ipmap_ips (w_blocks w) ⊆ D.
  Proof. etrans; [|exact HwD]. unfold world_all_ips. set_solver. Qed.
  Lemma HD_netips n ips : w_nets w !! n = Some ips -> ips ⊆ D.
  Proof.
    intros Hn. etrans; [|exact HwD]. unfold world_all_ips, world_ips, all_ips. intros x Hx.
    do 3 apply elem_of_union_l. apply elem_of_union_r. apply elem_of_union_list. exists ips. split; [|exact Hx].
    apply elem_of_list_fmap. exists (n, ips). split; [reflexivity | apply elem_of_map_to_list, Hn].
  Qed.
  Lemma dom_sub_ipmap (t : gmap ip (gset ip)) : dom t ⊆ ipmap_ips t.
  Proof. unfold ipmap_ips. set_solver. Qed.

  Lemma E_host i : i ∈ D -> w_ip2host w' !! f i = w_ip2host w !! i.
  Proof. intros Hi. apply (keys_lookup (w_ip2host w) i HD_hosts Hi). Qed.

  Lemma E_dom_hosts : dom (w_ip2host w') = map_ipset m (dom (w_ip2host w)).
  Proof. apply (keys_dom (w_ip2host w) HD_hosts). Qed.

  Lemma E_fw_allows src dst : src ∈ D -> dst ∈ D -> fw_allows w' (f src) (f dst) = fw_allows w src dst.
  Proof.
    intros Hs Hd. unfold fw_allows. simpl. rewrite ipmap_get; [|etrans; [apply dom_sub_ipmap | apply HD_fw] | exact Hs].
    apply mem_D; [|exact Hd]. etrans; [apply get_sub | apply HD_fw].
  Qed.

  Lemma E_nets_of h : h ∈ D -> nets_of w' (f h) = set_map g (nets_of w h).
  Proof.
    intros Hh. unfold nets_of. apply set_eq. intros n'. rewrite elem_of_dom, elem_of_map. split.
    - intros [ips' Hl]. apply map_filter_lookup_Some in Hl as [Hl Hin]. simpl in Hl, Hin.
      apply rekey_lookup_inv in Hl as (n & ips & Hn & -> & ->).
      exists n. split; [reflexivity|]. apply elem_of_dom. exists ips. apply map_filter_lookup_Some. split; [exact Hn|]. simpl.
      apply (elem_of_map_D f D Hf ips h (HD_netips n ips Hn) Hh). exact Hin.
    - intros (n & -> & Hn). apply elem_of_dom in Hn as [ips Hl]. apply map_filter_lookup_Some in Hl as [Hl Hin]. simpl in Hin.
      exists (map_ipset m ips). apply map_filter_lookup_Some. split.
      + simpl. apply (rekey_lookup g (map_ipset m) (w_nets w) n ips); [|exact Hl]. intros x y Hx Hy. apply Hg; apply HnD; assumption.
      + simpl. apply (elem_of_map_D f D Hf ips h (HD_netips n ips Hl) Hh). exact Hin.
  Qed.

  (* ---- a view read through the re-labelling ---- *)
  Variable v : view.
  Hypothesis HvD : view_ips v ⊆ D.
  Notation v' := (map_view m v).

  Lemma HV_ctrl : v_ctrl v ⊆ D. Proof. etrans; [|exact HvD]. unfold view_ips. set_solver. Qed.
  Lemma HV_hosts : v_hosts v ⊆ D. Proof. etrans; [|exact HvD]. unfold view_ips. set_solver. Qed.
  Lemma HV_svcs : dom (v_svcs v) ⊆ D. Proof. etrans; [|exact HvD]. unfold view_ips. set_solver. Qed.
  Lemma HV_data : dom (v_data v) ⊆ D. Proof. etrans; [|exact HvD]. unfold view_ips. set_solver. Qed.
  Lemma HV_blocks : ipmap_ips (v_blocks v) ⊆ D. Proof. etrans; [|exact HvD]. unfold view_ips. set_solver. Qed.

  Lemma E_ctrl i : i ∈ D -> bool_decide (f i ∈ v_ctrl v') = bool_decide (i ∈ v_ctrl v).
  Proof. intros Hi. simpl. apply mem_D; [apply HV_ctrl | exact Hi]. Qed.

  Lemma E_services_of h : h ∈ D -> services_of w' (f h) (v_ctrl v') = services_of w h (v_ctrl v).
  Proof.
    intros Hh. unfold services_of. rewrite E_host by exact Hh. destruct (w_ip2host w !! h) as [n|]; [|reflexivity].
    simpl w_services. destruct (w_services w !! n) as [SS|]; [|reflexivity]. rewrite E_ctrl by exact Hh. reflexivity.
  Qed.
  Lemma E_data_in h : h ∈ D -> data_in w' (f h) (v_ctrl v') = data_in w h (v_ctrl v).
  Proof. intros Hh. unfold data_in. rewrite E_ctrl, E_host by exact Hh. reflexivity. Qed.
  Lemma E_blocks_in h : h ∈ D -> blocks_in w' (f h) (v_ctrl v') = map_ipset m (blocks_in w h (v_ctrl v)).
  Proof.
    intros Hh. unfold blocks_in. rewrite E_ctrl, E_host by exact Hh.
    destruct (bool_decide (h ∈ v_ctrl v)); [|unfold map_ipset; rewrite set_map_empty; reflexivity].
    destruct (w_ip2host w !! h); [|unfold map_ipset; rewrite set_map_empty; reflexivity].
    simpl w_blocks. apply ipmap_get; [etrans; [apply dom_sub_ipmap | apply HD_blocks] | exact Hh].
  Qed.

  (* ---- the six actions ---- *)
  Lemma eq_scan src target : src ∈ D ->
    (forall i, i ∈ dom (w_ip2host w) -> in_net (f i) (g target) = in_net i target) ->
    step_scan w' v' (f src) (g target) = map_view m (step_scan w v src target).
  Proof.
    intros Hs Hfaith. unfold step_scan. rewrite E_ctrl by exact Hs. destruct (bool_decide (src ∈ v_ctrl v)); [|reflexivity].
    rewrite E_dom_hosts. unfold map_view. simpl. f_equal. unfold map_ipset. rewrite set_map_union_L. f_equal.
    apply set_eq. intros y. rewrite elem_of_filter, !elem_of_map. split.
    - intros [[Hin Hfw] (i & -> & Hi)]. exists i. split; [reflexivity|]. apply elem_of_filter. split; [|exact Hi].
      assert (HiD : i ∈ D) by (apply HD_hosts, Hi).
      rewrite Hfaith in Hin by exact Hi. rewrite (E_fw_allows src i Hs HiD) in Hfw. auto.
    - intros (i & -> & Hi). apply elem_of_filter in Hi as [[Hin Hfw] Hi].
      assert (HiD : i ∈ D) by (apply HD_hosts, Hi).
      split; [|exists i; auto]. rewrite Hfaith by exact Hi. rewrite (E_fw_allows src i Hs HiD). auto.
  Qed.

  Lemma eq_find_services src tgt : src ∈ D -> tgt ∈ D ->
    step_find_services w' v' (f src) (f tgt) = map_view m (step_find_services w v src tgt).
  Proof.
    intros Hs Ht. unfold step_find_services. rewrite E_ctrl, E_fw_allows, E_services_of by assumption.
    destruct (bool_decide (src ∈ v_ctrl v) && fw_allows w src tgt); [|reflexivity].
    destruct (bool_decide (services_of w tgt (v_ctrl v) = ∅)); [reflexivity|].
    assert (Ek : bool_decide (f tgt ∈ v_hosts v') = bool_decide (tgt ∈ v_hosts v)) by (simpl; apply mem_D; [apply HV_hosts | exact Ht]).
    rewrite Ek. unfold map_view. simpl. f_equal.
    - destruct (bool_decide (tgt ∈ v_hosts v)); [reflexivity|]. unfold map_ipset. rewrite set_map_union_L, set_map_singleton_L. reflexivity.
    - rewrite keys_insert; [reflexivity | apply HV_svcs | exact Ht].
    - destruct (bool_decide (tgt ∈ v_hosts v)); [reflexivity|]. rewrite set_map_union_L, E_nets_of by exact Ht. reflexivity.
  Qed.

  Lemma eq_find_data src tgt : src ∈ D -> tgt ∈ D ->
    step_find_data w' v' (f src) (f tgt) = map_view m (step_find_data w v src tgt).
  Proof.
    intros Hs Ht. unfold step_find_data. rewrite E_ctrl, E_fw_allows, E_data_in, E_blocks_in by assumption.
    destruct (bool_decide (src ∈ v_ctrl v) && fw_allows w src tgt); [|reflexivity].
    unfold map_view. simpl. f_equal.
    - destruct (bool_decide (data_in w tgt (v_ctrl v) = ∅)); [reflexivity|].
      rewrite keys_add_to; [reflexivity | apply HV_data | exact Ht].
    - assert (Eb : bool_decide (map_ipset m (blocks_in w tgt (v_ctrl v)) = ∅) = bool_decide (blocks_in w tgt (v_ctrl v) = ∅))
        by (apply bool_decide_ext, (set_map_empty_iff f D Hf)).
      rewrite Eb. destruct (bool_decide (blocks_in w tgt (v_ctrl v) = ∅)); [reflexivity|].
      rewrite ipmap_add_to; [reflexivity | etrans; [apply dom_sub_ipmap | apply HV_blocks] | exact Ht].
  Qed.

  Lemma E_exploit_pre src tgt s : src ∈ D -> tgt ∈ D -> exploit_pre w' v' (f src) (f tgt) s = exploit_pre w v src tgt s.
  Proof.
    intros Hs Ht. unfold exploit_pre. rewrite E_ctrl, E_host, E_fw_allows by assumption.
    simpl v_svcs. rewrite keys_lookup; [reflexivity | apply HV_svcs | exact Ht].
  Qed.

  Lemma eq_exploit src tgt s : src ∈ D -> tgt ∈ D ->
    step_exploit w' v' (f src) (f tgt) s = map_view m (step_exploit w v src tgt s).
  Proof.
    intros Hs Ht. unfold step_exploit. rewrite E_exploit_pre by assumption.
    destruct (exploit_pre w v src tgt s); [|reflexivity].
    unfold map_view. simpl. f_equal.
    - unfold map_ipset. rewrite set_map_union_L, set_map_singleton_L. reflexivity.
    - rewrite set_map_union_L, E_nets_of by exact Ht. reflexivity.
  Qed.

  Lemma E_exfil_pre src tgt d : src ∈ D -> tgt ∈ D -> exfil_pre w' v' (f src) (f tgt) d = exfil_pre w v src tgt d.
  Proof.
    intros Hs Ht. unfold exfil_pre. rewrite !E_ctrl, E_host, E_fw_allows by assumption.
    simpl v_data. rewrite keys_lookup; [reflexivity | apply HV_data | exact Hs].
  Qed.

  Lemma eq_exfil src tgt d : src ∈ D -> tgt ∈ D ->
    step_exfil w' v' (f src) (f tgt) d = (rekey_world m (fst (step_exfil w v src tgt d)), map_view m (snd (step_exfil w v src tgt d))).
  Proof.
    intros Hs Ht. unfold step_exfil. rewrite E_exfil_pre, E_host by assumption.
    destruct (exfil_pre w v src tgt d); [|reflexivity].
    destruct (w_ip2host w !! tgt) as [nt|]; [|reflexivity].
    simpl. f_equal. unfold map_view. simpl. f_equal.
    rewrite keys_add_to; [reflexivity | apply HV_data | exact Ht].
  Qed.

  Lemma E_block_pre src tgt b : src ∈ D -> tgt ∈ D -> b ∈ D -> block_pre w' v' (f src) (f tgt) (f b) = block_pre w v src tgt b.
  Proof.
    intros Hs Ht Hb. unfold block_pre. rewrite !E_ctrl, E_fw_allows by assumption. f_equal. f_equal.
    destruct (N.eqb_spec tgt b) as [->|Hne]; [apply N.eqb_refl|]. apply N.eqb_neq. intros E. apply Hne. apply Hf; assumption.
  Qed.

  Lemma eq_block src tgt b : src ∈ D -> tgt ∈ D -> b ∈ D ->
    step_block w' v' (f src) (f tgt) (f b) = (rekey_world m (fst (step_block w v src tgt b)), map_view m (snd (step_block w v src tgt b))).
  Proof.
    intros Hs Ht Hb. unfold step_block. rewrite E_block_pre by assumption.
    destruct (block_pre w v src tgt b); [|reflexivity].
    assert (Hdf : dom (w_fw w) ⊆ D) by (etrans; [apply dom_sub_ipmap | apply HD_fw]).
    assert (Hdb : dom (w_blocks w) ⊆ D) by (etrans; [apply dom_sub_ipmap | apply HD_blocks]).
    assert (Hdv : dom (v_blocks v) ⊆ D) by (etrans; [apply dom_sub_ipmap | apply HV_blocks]).
    cbn [fst snd]. f_equal.
    - unfold rekey_world. simpl. f_equal.
      + rewrite ipmap_fw_remove; [|rewrite dom_fw_remove; exact Hdf| |exact Hb|exact Ht].
        * rewrite ipmap_fw_remove; [reflexivity | exact Hdf | apply HD_fw | exact Ht | exact Hb].
        * (* the addresses of the table after the first removal are among the old ones *)
          unfold ipmap_ips. rewrite dom_fw_remove. apply union_subseteq. split; [exact Hdf|].
          intros x Hx. apply elem_of_union_list in Hx as (S & HS & Hx). apply elem_of_list_fmap in HS as ([k S0] & -> & Hin).
          apply elem_of_map_to_list in Hin. simpl in Hx. unfold fw_remove in Hin.
          destruct (w_fw w !! tgt) as [St|] eqn:Et.
          -- destruct (decide (k = tgt)) as [->|Hne].
             ++ rewrite lookup_insert in Hin. injection Hin as <-. apply elem_of_difference in Hx as [Hx _].
                apply HD_fw. apply (ipmap_ips_key _ _ _ Et). exact Hx.
             ++ rewrite lookup_insert_ne in Hin by congruence. apply HD_fw. apply (ipmap_ips_key _ _ _ Hin). exact Hx.
          -- apply HD_fw. apply (ipmap_ips_key _ _ _ Hin). exact Hx.
      + rewrite ipmap_add_to; [|rewrite dom_add_to; set_solver|exact Hb].
        rewrite ipmap_add_to by assumption. unfold map_ipset. rewrite !set_map_singleton_L. reflexivity.
    - unfold map_view. simpl. f_equal.
      rewrite ipmap_add_to; [|rewrite dom_add_to; set_solver|exact Hb].
      rewrite ipmap_add_to by assumption. unfold map_ipset. rewrite !set_map_singleton_L. reflexivity.
  Qed.
End Equiv.

(* ---- the addresses in play never leave the universe ---- *)
Lemma ipmap_ips_insert (t : gmap ip (gset ip)) k S : ipmap_ips (<[k := S]> t) ⊆ ipmap_ips t ∪ {[k]} ∪ S.
Proof.
  intros x Hx. unfold ipmap_ips in Hx. apply elem_of_union in Hx as [Hx|Hx].
  - rewrite dom_insert in Hx. apply elem_of_union in Hx as [Hx|Hx]; [set_solver|].
    apply elem_of_union_l, elem_of_union_l. unfold ipmap_ips. set_solver.
  - apply elem_of_union_list in Hx as (S0 & HS & Hx). apply elem_of_list_fmap in HS as ([k0 S1] & -> & Hin).
    apply elem_of_map_to_list in Hin. simpl in Hx. destruct (decide (k0 = k)) as [->|Hne].
    + rewrite lookup_insert in Hin. injection Hin as <-. set_solver.
    + rewrite lookup_insert_ne in Hin by congruence. apply elem_of_union_l, elem_of_union_l.
      apply (ipmap_ips_key t k0 S1 Hin). exact Hx.
Qed.

Lemma ipmap_ips_add_to (t : gmap ip (gset ip)) k S : ipmap_ips (add_to t k S) ⊆ ipmap_ips t ∪ {[k]} ∪ S.
Proof.
  unfold add_to. etrans; [apply ipmap_ips_insert|]. pose proof (get_sub t k). set_solver.
Qed.

Lemma ipmap_ips_fw_remove (t : gmap ip (gset ip)) a b : ipmap_ips (fw_remove t a b) ⊆ ipmap_ips t.
Proof.
  unfold fw_remove. destruct (t !! a) as [S|] eqn:E; [|reflexivity].
  etrans; [apply ipmap_ips_insert|]. destruct (ipmap_ips_key t a S E) as [Ha HS]. set_solver.
Qed.

Lemma dom_add_to' {A} `{Countable A} (t : gmap ip (gset A)) k S : dom (add_to t k S) = dom t ∪ {[k]}.
Proof. unfold add_to. rewrite dom_insert_L. set_solver. Qed.

Lemma view_ips_elim (D : gset ip) (v : view) : view_ips v ⊆ D ->
  v_ctrl v ⊆ D /\ v_hosts v ⊆ D /\ dom (v_svcs v) ⊆ D /\ dom (v_data v) ⊆ D /\ ipmap_ips (v_blocks v) ⊆ D.
Proof. unfold view_ips. intros H. repeat split; (etrans; [|exact H]); set_solver. Qed.
Lemma view_ips_intro (D : gset ip) (v : view) :
  v_ctrl v ⊆ D -> v_hosts v ⊆ D -> dom (v_svcs v) ⊆ D -> dom (v_data v) ⊆ D -> ipmap_ips (v_blocks v) ⊆ D -> view_ips v ⊆ D.
Proof. unfold view_ips. intros H1 H2 H3 H4 H5. apply union_least; [apply union_least; [apply union_least; [apply union_least|]|]|]; assumption. Qed.
Lemma world_ips_elim (D : gset ip) (w : world) : world_all_ips w ⊆ D ->
  world_ips w ⊆ D /\ ipmap_ips (w_fw w) ⊆ D /\ ipmap_ips (w_blocks w) ⊆ D /\ ipmap_ips (w_fw0 w) ⊆ D.
Proof. unfold world_all_ips. intros H. repeat split; (etrans; [|exact H]); set_solver. Qed.
Lemma world_ips_intro (D : gset ip) (w : world) :
  world_ips w ⊆ D -> ipmap_ips (w_fw w) ⊆ D -> ipmap_ips (w_blocks w) ⊆ D -> ipmap_ips (w_fw0 w) ⊆ D -> world_all_ips w ⊆ D.
Proof. unfold world_all_ips. intros H1 H2 H3 H4. apply union_least; [apply union_least; [apply union_least|]|]; assumption. Qed.

Section Closed.
  Variables (D : gset ip) (w : world) (v : view).
  Hypothesis HwD : world_all_ips w ⊆ D.
  Hypothesis HvD : view_ips v ⊆ D.

  Lemma blocks_in_sub h ctrl : blocks_in w h ctrl ⊆ ipmap_ips (w_blocks w).
  Proof.
    unfold blocks_in. destruct (bool_decide _); [|set_solver]. destruct (w_ip2host w !! h); [apply get_sub | set_solver].
  Qed.

  Lemma step_closed a : action_ips a ⊆ D ->
    world_all_ips (fst (step w v a)) ⊆ D /\ view_ips (snd (step w v a)) ⊆ D /\
    w_ip2host (fst (step w v a)) = w_ip2host w /\ w_nets (fst (step w v a)) = w_nets w.
  Proof.
    intros Ha.
    destruct (view_ips_elim D v HvD) as (Vc & Vh & Vs & Vd & Vb).
    destruct (world_ips_elim D w HwD) as (Ww & Wf & Wb & W0).
    assert (Whosts : dom (w_ip2host w) ⊆ D) by (etrans; [|exact Ww]; unfold world_ips; set_solver).
    destruct a as [src target|src tgt|src tgt|src tgt s|src tgt d|src tgt b]; cbn [step fst snd action_ips] in *.
    - split; [exact HwD|]. split; [|split; reflexivity]. unfold step_scan. destruct (bool_decide _); [|exact HvD].
      apply view_ips_intro; simpl; try assumption. apply union_least; [exact Vh|].
      intros x Hx. apply elem_of_filter in Hx as [_ Hx]. apply Whosts, Hx.
    - assert (Ht : tgt ∈ D) by (apply Ha; set_solver).
      split; [exact HwD|]. split; [|split; reflexivity]. unfold step_find_services. destruct (_ && _); [|exact HvD].
      destruct (bool_decide (_ = ∅)); [exact HvD|]. apply view_ips_intro; simpl; try assumption.
      + destruct (bool_decide (tgt ∈ v_hosts v)); [exact Vh|]. apply union_least; [exact Vh|]. apply singleton_subseteq_l, Ht.
      + rewrite dom_insert. apply union_least; [apply singleton_subseteq_l, Ht | exact Vs].
    - assert (Ht : tgt ∈ D) by (apply Ha; set_solver).
      split; [exact HwD|]. split; [|split; reflexivity]. unfold step_find_data. destruct (_ && _); [|exact HvD].
      apply view_ips_intro; simpl; try assumption.
      + destruct (bool_decide (data_in _ _ _ = ∅)); [exact Vd|]. rewrite dom_add_to'.
        apply union_least; [exact Vd | apply singleton_subseteq_l, Ht].
      + destruct (bool_decide (blocks_in _ _ _ = ∅)); [exact Vb|]. etrans; [apply ipmap_ips_add_to|].
        apply union_least; [apply union_least|]; [exact Vb | apply singleton_subseteq_l, Ht | etrans; [apply blocks_in_sub | exact Wb]].
    - assert (Ht : tgt ∈ D) by (apply Ha; set_solver).
      split; [exact HwD|]. split; [|split; reflexivity]. unfold step_exploit. destruct (exploit_pre _ _ _ _ _); [|exact HvD].
      apply view_ips_intro; simpl; try assumption. apply union_least; [exact Vc | apply singleton_subseteq_l, Ht].
    - assert (Ht : tgt ∈ D) by (apply Ha; set_solver).
      unfold step_exfil. destruct (exfil_pre _ _ _ _ _); [|repeat split; assumption].
      destruct (w_ip2host w !! tgt); [|repeat split; assumption]. cbn [fst snd].
      split; [exact HwD|]. split; [|split; reflexivity]. apply view_ips_intro; simpl; try assumption.
      rewrite dom_add_to'. apply union_least; [exact Vd | apply singleton_subseteq_l, Ht].
    - assert (Ht : tgt ∈ D) by (apply Ha; set_solver). assert (Hb : b ∈ D) by (apply Ha; set_solver).
      assert (Hadd : forall t : gmap ip (gset ip), ipmap_ips t ⊆ D -> ipmap_ips (add_to (add_to t tgt {[b]}) b {[tgt]}) ⊆ D).
      { intros t Ht0. etrans; [apply ipmap_ips_add_to|].
        apply union_least; [apply union_least|]; try (apply singleton_subseteq_l; assumption).
        etrans; [apply ipmap_ips_add_to|]. apply union_least; [apply union_least|]; try (apply singleton_subseteq_l; assumption). exact Ht0. }
      unfold step_block. destruct (block_pre _ _ _ _ _); [|repeat split; assumption]. cbn [fst snd].
      split; [|split; [|split; reflexivity]].
      + apply world_ips_intro; simpl; try assumption.
        * etrans; [apply ipmap_ips_fw_remove|]. etrans; [apply ipmap_ips_fw_remove|]. exact Wf.
        * apply Hadd, Wb.
      + apply view_ips_intro; simpl; try assumption. apply Hadd, Vb.
  Qed.
End Closed.

(* ---- the theorem: one action ---- *)
Theorem step_equivariant (m : mapping) (D : gset ip) (DN : gset net) (w : world) (v : view) (a : gaction) :
  (forall x y, x ∈ D -> y ∈ D -> mip m x = mip m y -> x = y) ->
  (forall x y, x ∈ DN -> y ∈ DN -> mnet m x = mnet m y -> x = y) ->
  world_all_ips w ⊆ D -> dom (w_nets w) ⊆ DN -> view_ips v ⊆ D -> action_ips a ⊆ D -> scan_faithful m w a = true ->
  step (rekey_world m w) (map_view m v) (map_action m a) =
  (rekey_world m (fst (step w v a)), map_view m (snd (step w v a))).
Proof.
  intros Hf Hg HwD HnD HvD Ha Hs.
  destruct a as [src target|src tgt|src tgt|src tgt s|src tgt d|src tgt b]; cbn [step map_action fst snd action_ips] in *.
  - f_equal. apply (eq_scan m D Hf w DN Hg HwD HnD v HvD); [set_solver|].
    intros i Hi. unfold scan_faithful in Hs. rewrite forallb_forall in Hs.
    specialize (Hs i (proj1 (elem_of_list_In _ _) (proj2 (elem_of_elements _ _) Hi))). apply Bool.eqb_prop in Hs. exact Hs.
  - f_equal. apply (eq_find_services m D Hf w DN Hg HwD HnD v HvD); set_solver.
  - f_equal. apply (eq_find_data m D Hf w DN Hg HwD HnD v HvD); set_solver.
  - f_equal. apply (eq_exploit m D Hf w DN Hg HwD HnD v HvD); set_solver.
  - apply (eq_exfil m D Hf w DN Hg HwD HnD v HvD); set_solver.
  - apply (eq_block m D Hf w DN Hg HwD HnD v HvD); set_solver.
Qed.

(* ---- any action sequence ---- *)
Theorem play_equivariant (m : mapping) (D : gset ip) (DN : gset net) (acts : list gaction) : forall (w : world) (v : view),
  (forall x y, x ∈ D -> y ∈ D -> mip m x = mip m y -> x = y) ->
  (forall x y, x ∈ DN -> y ∈ DN -> mnet m x = mnet m y -> x = y) ->
  world_all_ips w ⊆ D -> dom (w_nets w) ⊆ DN -> view_ips v ⊆ D ->
  (forall a, a ∈ acts -> action_ips a ⊆ D /\ scan_faithful m w a = true) ->
  play (rekey_world m w) (map_view m v) (map (map_action m) acts) =
  (rekey_world m (fst (play w v acts)), map_view m (snd (play w v acts))).
Proof.
  induction acts as [|a tl IH]; intros w v Hf Hg HwD HnD HvD Hacts; [reflexivity|].
  cbn [play map]. destruct (Hacts a) as [Ha Hs]; [left|].
  rewrite (step_equivariant m D DN w v a Hf Hg HwD HnD HvD Ha Hs). cbn [fst snd].
  destruct (step_closed D w v HwD HvD a Ha) as (Hw1 & Hv1 & Eh & En).
  apply IH; try assumption; [rewrite En; exact HnD|].
  intros a' Hin. destruct (Hacts a') as [Ha' Hs']; [right; exact Hin|]. split; [exact Ha'|].
  unfold scan_faithful in *. destruct a'; try reflexivity. rewrite Eh. exact Hs'.
Qed.

(* ---- a decidable form of the hypotheses (evaluated inside Coq on every re-labelling the implementation makes) ---- *)
Theorem play_equivariant_ready (m : mapping) (w : world) (v : view) (acts : list gaction) :
  equiv_ready m w v acts = true ->
  play (rekey_world m w) (map_view m v) (map (map_action m) acts) =
  (rekey_world m (fst (play w v acts)), map_view m (snd (play w v acts))).
Proof.
  unfold equiv_ready. intros H. apply andb_true_iff in H as [H H3]. apply andb_true_iff in H as [H1 H2].
  apply (play_equivariant m (play_universe w v acts) (dom (w_nets w))).
  - apply (inj_on_spec _ _ H1).
  - apply (inj_on_spec _ _ H2).
  - unfold play_universe. set_solver.
  - reflexivity.
  - unfold play_universe. set_solver.
  - intros a Ha. split.
    + unfold play_universe. intros x Hx. apply elem_of_union_r. apply elem_of_union_list. exists (action_ips a).
      split; [apply elem_of_list_fmap; eauto | exact Hx].
    + rewrite forallb_forall in H3. apply H3. apply elem_of_list_In. exact Ha.
Qed.
