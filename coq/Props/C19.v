(* C19 - The task configuration is honoured faithfully, with documented defaults.
   Statements only; proofs in Proofs/InitViewFacts.v.  The scalar settings and their defaults are
   per-run obligations on the source (Obl/C19_defaults.v). *)
From stdpp Require Import gmap.
From Coq Require Import ZArith NArith.
From NSG Require Import Model.World Model.Load Proofs.WorldStep Proofs.WorldInv Proofs.InitViewFacts.

(* every network, host and controlled host listed for the start position is in the initial view;
   controlled hosts are known hosts; no blocks are known at the start *)
Theorem C19_view : forall w sp oracle,
  let v := init_view w sp oracle in
  (forall n, In n (sp_nets sp) -> n ∈ v_nets v) /\
  (forall h, In h (sp_hosts sp) -> h ∈ v_hosts v) /\
  (forall h, In (SHost h) (sp_ctrl sp) -> h ∈ v_ctrl v /\ h ∈ v_hosts v) /\
  v_ctrl v ⊆ v_hosts v /\
  v_blocks v = ∅.
Proof. exact init_view_contains. Qed.

(* wildcards: every controlled host of the initial view is a listed address, one of the random
   picks (taken from the scenario's start hosts by the caller) or, with 'all_local', an address of
   a private network; 'all_local' yields ALL of those *)
Theorem C19_wildcards : forall w l oracle i,
  i ∈ resolve_ctrl w l oracle -> In (SHost i) l \/ In i oracle \/ (In SAllLocal l /\ i ∈ all_local w).
Proof. exact resolve_ctrl_spec. Qed.
Theorem C19_all_local_all : forall w l oracle i, In SAllLocal l -> i ∈ all_local w -> i ∈ resolve_ctrl w l oracle.
Proof. exact resolve_ctrl_all_local. Qed.
Theorem C19_all_local : forall w i,
  i ∈ all_local w <-> exists n ips, w_nets w !! n = Some ips /\ net_private n = true /\ i ∈ ips.
Proof. exact all_local_spec. Qed.

(* the private networks of the controlled hosts are known from the start *)
Theorem C19_own_nets : forall w sp oracle h n,
  h ∈ v_ctrl (init_view w sp oracle) -> n ∈ nets_of w h -> net_private n = true -> n ∈ v_nets (init_view w sp oracle).
Proof. exact init_view_own_nets. Qed.

Example C19_nonvacuous :
  let w := {| w_ip2host := {[3232235778%N := 7%N]}; w_nets := {[(3232235776%N, 24%N) := {[3232235778%N]}]};
              w_services := ∅; w_data := ∅; w_fw := ∅; w_blocks := ∅; w_data0 := ∅; w_fw0 := ∅ |} in
  let sp := {| sp_nets := []; sp_hosts := []; sp_ctrl := [SAllLocal]; sp_svcs := []; sp_data := [] |} in
  3232235778%N ∈ v_ctrl (init_view w sp []) /\ (3232235776%N, 24%N) ∈ v_nets (init_view w sp []).
Proof.
  split.
  - apply resolve_ctrl_all_local; [left; reflexivity|]. apply all_local_spec.
    exists (3232235776%N, 24%N), {[3232235778%N]}. split; [apply lookup_singleton|]. split; [reflexivity | set_solver].
  - vm_compute. set_solver.
Qed.

Print Assumptions C19_view.
Print Assumptions C19_wildcards.
Print Assumptions C19_all_local_all.
Print Assumptions C19_all_local.
Print Assumptions C19_own_nets.
