"""C13: dynamic addresses re-label the network without changing it.

World-level sessions with use_dynamic_addresses on: after every reset the harness derives the
re-labelling step from the maps the implementation publishes, the model re-keys its own world with
it inside Coq (Model/Remap.v) and must (a) find the step a valid re-labelling, (b) arrive at the
implementation's tables, (c) produce the implementation's initial views and step results on the
re-labelled world.  Monitors: the published maps compose, start positions / goals / goal description
follow the re-labelling."""
import copy
import json
import os
import random
import re
import sys

import check as CK
from props import worldcommon as WC

TRANSLATORS = []
COQ_FILES = ["Props/C13.v"]


def correspondence(ctx):
    nsgenv, WL, WR = WC._imports()
    from AIDojoCoordinator.game_components import IP, Network
    rng = random.Random(ctx.seed * 13 + 13)
    th = ctx.tier == "thorough"
    specs = []
    for s in WC.SHIPPED:
        for seed in ([42, 7, 1234] if th else [42]):
            specs.append((s, None, seed))
    for k in range(12 if th else 4):
        r = random.Random(rng.randrange(1 << 30))
        specs.append((f"generated{k}", WL.gen_scenario(r, one_private_block=True), 42))
    n_resets = 10 if th else 4
    casedir = CK.fresh_casedir(ctx)
    paths, metas = [], []
    stats = {"resets": 0, "steps": 0, "agents": 0, "equivariance_checked": 0, "equivariance_not_applicable": 0}
    samples = []
    for name, objs, seed in specs:
        I = WL.Interner()
        cfg = nsgenv.base_config("scenario1_small" if objs is not None else name, use_dynamic_addresses=True, use_firewall=rng.random() < 0.8)
        ops = []
        try:
            drv = WR.start_world(cfg, objs, seed=seed)
        except Exception as e:
            ctx.stage_errors.append((f"start {name}", f"{type(e).__name__}: {e}"))
            continue
        try:
            g = drv.g
            T0 = WL.impl_tables(g)
            all0 = sorted(T0["ip2host"])
            nets0 = sorted(T0["nets"])
            if not all0:
                continue
            # goal / start parts that must follow the re-labelling (set directly in the parsed configuration text)
            agents_cfg = g.task_config.config["coordinator"]["agents"]
            gh = rng.sample(all0, min(2, len(all0)))
            goal0 = {"known_networks": [f"{WL.n2ip(n[0])}/{n[1]}" for n in rng.sample(nets0, min(2, len(nets0)))],
                     "known_hosts": [WL.n2ip(h) for h in gh], "controlled_hosts": [WL.n2ip(gh[0])],
                     "known_services": {WL.n2ip(gh[0]): ["ssh", "passive", "1.0", False]},
                     "known_data": {WL.n2ip(gh[-1]): [["User1", "DataFromServer1"]]},
                     "known_blocks": {WL.n2ip(gh[0]): [WL.n2ip(gh[-1])]},
                     "description": f"Exfiltrate data to '{WL.n2ip(gh[-1])}' via {WL.n2ip(gh[0])}"}
            agents_cfg["Attacker"]["goal"].update(copy.deepcopy(goal0))
            # original start positions (original addresses)
            starts = []
            for ag in range(rng.randrange(1, 3)):
                ctrl = rng.sample(all0, min(len(all0), rng.randrange(1, 3)))
                if rng.random() < 0.4:
                    ctrl.append("all_local")
                starts.append({"nets": rng.sample(nets0, min(len(nets0), rng.randrange(0, 2))),
                               "hosts": rng.sample(all0, min(len(all0), rng.randrange(0, 3))), "ctrl": ctrl})
            stats["agents"] += len(starts)
            cum_ip = {i: i for i in all0}
            cum_net = {n: n for n in nets0}
            views = [None] * len(starts)

            def translate_sp(sp):
                return {"nets": [cum_net[n] for n in sp["nets"]], "hosts": [cum_ip[h] for h in sp["hosts"]],
                        "ctrl": [c if isinstance(c, str) else cum_ip[c] for c in sp["ctrl"]]}

            def init_all(reset_call):
                for ag, sp in enumerate(starts):
                    fn = g.reset_agent if reset_call else g.register_agent
                    gs = WL.run_coro(fn(("10.4.0.%d" % ag, 1), "Attacker", WR.start_pos_dict(sp)))   # ORIGINAL addresses: the world maps them
                    views[ag] = gs
                    v = WL.impl_view(gs)
                    ops.append((f"OInit {ag} {WR.start_pos_term(translate_sp(sp), I)} [] {WL.view_term(v, I)}", f"init {ag}"))
            init_all(False)
            for ep in range(n_resets + 1):
                for _ in range(rng.randrange(4, 10)):
                    ag = rng.randrange(len(starts))
                    T = WL.impl_tables(g)
                    v = WL.impl_view(views[ag])
                    a = WR.gen_action(rng, T, v)
                    # equivariance (Proofs/Equivariance.v): once the world has been re-labelled, the hypotheses of the theorem are
                    # evaluated inside Coq for the mapping current -> original addresses, whenever the action and the view only
                    # mention objects of the (re-labelled) scenario
                    if ep > 0:
                        wips = set(T["ip2host"]) | {i for ips in T["nets"].values() for i in ips}
                        a_ips = {a[k] for k in ("src", "tgt", "blocked") if k in a}
                        v_ips = set(v["ctrl"]) | set(v["hosts"]) | set(v["svcs"]) | set(v["data"]) | set(v["blocks"]) | {x for xs in v["blocks"].values() for x in xs}
                        if a_ips <= wips and v_ips <= wips and (a["type"] != "ScanNetwork" or tuple(a["net"]) in T["nets"]):
                            inv_ip = {n: o for o, n in cum_ip.items()}
                            inv_net = {n: o for o, n in cum_net.items()}
                            minv = ("(mk_mapping [%s] [%s])" % ("; ".join(f"({x}%N, {y}%N)" for x, y in sorted(inv_ip.items())),
                                                                "; ".join(f"(({x[0]}%N, {x[1]}%N), ({y[0]}%N, {y[1]}%N))" for x, y in sorted(inv_net.items()))))
                            ops.append((f"OEquiv {ag} {minv} {WL.action_term(a, I)}", "equivariance hypotheses for " + json.dumps(WC.describe(a, WL))))
                            stats["equivariance_checked"] += 1
                        else:
                            stats["equivariance_not_applicable"] += 1
                    new_gs = WL.run_coro(g.step(("10.4.0.%d" % ag, 1), views[ag], WL.to_action(a)))
                    v2 = WL.impl_view(new_gs)
                    T2 = WL.impl_tables(g)
                    ops.append((f"OStep {ag} {WL.action_term(a, I)} {WL.view_term(v2, I)} (Some {WL.world_term(T2, I)})", json.dumps(WC.describe(a, WL))))
                    views[ag] = new_gs
                    stats["steps"] += 1
                if ep == n_resets:
                    break
                prev_ip = {k: WL.ip2n(v) for k, v in ((WL.ip2n(k), v) for k, v in g._ip_mapping.items())}
                prev_net = {(WL.ip2n(k.ip), k.mask): (WL.ip2n(v.ip), v.mask) for k, v in g._network_mapping.items()}
                try:
                    WL.run_coro(g.reset())
                except BaseException as e:
                    ctx.violations.append({"key": "reset raises", "what": f"a reset with dynamic addresses raised {type(e).__name__}: {e}",
                                           "replay": {"kind": "dynamic", "scenario": name, "seed": seed, "resets_done": ep}})
                    break
                stats["resets"] += 1
                new_ip = {WL.ip2n(k): WL.ip2n(v) for k, v in g._ip_mapping.items()}
                new_net = {(WL.ip2n(k.ip), k.mask): (WL.ip2n(v.ip), v.mask) for k, v in g._network_mapping.items()}
                # ---- monitors on the published maps
                if set(new_ip) != set(all0) or set(new_net) != set(nets0):
                    ctx.violations.append({"key": "maps not total", "what": "the published original->current maps do not cover exactly the scenario's addresses and networks",
                                           "replay": {"kind": "dynamic", "scenario": name, "seed": seed, "resets_done": ep + 1}})
                    break
                if len(set(new_ip.values())) != len(new_ip) or len(set(new_net.values())) != len(new_net):
                    ctx.violations.append({"key": "maps not one-to-one", "what": "two hosts or networks received the same new address",
                                           "replay": {"kind": "dynamic", "scenario": name, "seed": seed, "resets_done": ep + 1}})
                step_ip = {prev_ip[o]: new_ip[o] for o in all0}
                step_net = {prev_net[o]: new_net[o] for o in nets0}
                cum_ip, cum_net = new_ip, new_net
                T = WL.impl_tables(g)
                mterm = ("(mk_mapping [%s] [%s])" % ("; ".join(f"({a}%N, {b}%N)" for a, b in sorted(step_ip.items())),
                                                     "; ".join(f"(({a[0]}%N, {a[1]}%N), ({b[0]}%N, {b[1]}%N))" for a, b in sorted(step_net.items()))))
                ops.append((f"ORemap {mterm} {WL.world_term(T, I)}", f"re-labelling {ep + 1}"))
                if len(samples) < 2:
                    samples.append({"scenario": name, "reset": ep + 1,
                                    "networks": {f"{WL.n2ip(a[0])}/{a[1]}": f"{WL.n2ip(b[0])}/{b[1]}" for a, b in sorted(new_net.items())}})
                # ---- the goal and its description follow the re-labelling
                tr = lambda s: WL.n2ip(new_ip[WL.ip2n(s)])
                w = g._win_conditions_per_role["Attacker"]
                exp_goal = {
                    "known_networks": {Network(WL.n2ip(new_net[WL.key_net(x)][0]), new_net[WL.key_net(x)][1]) for x in goal0["known_networks"]},
                    "known_hosts": {IP(tr(x)) for x in goal0["known_hosts"]},
                    "controlled_hosts": {IP(tr(x)) for x in goal0["controlled_hosts"]},
                    "known_services": {IP(tr(k)) for k in goal0["known_services"]},
                    "known_data": {IP(tr(k)) for k in goal0["known_data"]},
                    "known_blocks": {IP(tr(k)): {IP(tr(x)) for x in v} for k, v in goal0["known_blocks"].items()},
                }
                got_goal = {"known_networks": set(w["known_networks"]), "known_hosts": set(w["known_hosts"]), "controlled_hosts": set(w["controlled_hosts"]),
                            "known_services": set(w["known_services"]), "known_data": set(w["known_data"]),
                            "known_blocks": {k: set(v) for k, v in w["known_blocks"].items()}}
                for part in exp_goal:
                    if got_goal[part] != exp_goal[part]:
                        ctx.violations.append({"key": f"goal part {part} not re-labelled",
                                               "what": f"after the re-labelling the goal's {part} is {got_goal[part]!r}, the re-labelled goal is {exp_goal[part]!r}",
                                               "replay": {"kind": "dynamic", "scenario": name, "seed": seed, "resets_done": ep + 1, "goal": goal0}})
                desc = g._goal_description_per_role["Attacker"]
                exp_desc = re.sub(r"\b(?:[0-9]{1,3}\.){3}[0-9]{1,3}\b", lambda m: tr(m.group(0)) if WL.ip2n(m.group(0)) in new_ip else m.group(0), goal0["description"])
                if desc != exp_desc:
                    ctx.violations.append({"key": "goal description not re-labelled", "what": f"goal description is {desc!r}, expected {exp_desc!r}",
                                           "replay": {"kind": "dynamic", "scenario": name, "seed": seed, "resets_done": ep + 1}})
                try:
                    init_all(True)
                except Exception as e:
                    ctx.violations.append({"key": "initial view after re-labelling raises", "what": f"building the initial view after a re-labelling raised {type(e).__name__}: {e}",
                                           "replay": {"kind": "dynamic", "scenario": name, "seed": seed, "resets_done": ep + 1, "starts": starts}})
                    break
        finally:
            drv.close()
        body = ["From stdpp Require Import gmap.", "From Coq Require Import ZArith NArith.",
                "From NSG Require Import Model.World Model.Load Model.Remap Model.WorldCases.",
                f"Definition w0 : world := {WL.world_term(T0, I)}.",
                "Definition ops : list op := [", ";\n".join(o[0] for o in ops), "].",
                "Eval vm_compute in (false_indices 0 (run w0 [] ops ++ [false]))."]
        p = os.path.join(casedir, f"dyn_{len(paths)}.v")
        with open(p, "w") as f:
            f.write("\n".join(body))
        paths.append(p)
        metas.append((p, name, seed, ops))
    probe_mixed_blocks(ctx, nsgenv, WL, WR)
    probe_many_relabellings(ctx, nsgenv, WL, WR)
    probe_block_boundaries(ctx, nsgenv, WL, WR)
    from props import dynprobe
    dynprobe.run(ctx, "C13")
    res = CK.run_case_files(ctx, paths, timeout=1500)
    disagreements = 0
    total_ops = 0
    for p, name, seed, ops in metas:
        ok, out = res[p]
        idx = CK.coq_eval_list(out) if ok else None
        if idx is None:
            ctx.stage_errors.append((f"coqc {os.path.basename(p)} ({name})", out[-600:]))
            continue
        idx = [int(x.replace("%nat", "")) for x in idx]
        total_ops += len(ops)
        if len(ops) not in idx:
            ctx.stage_errors.append((f"canary {os.path.basename(p)}", "deliberately false case not reported"))
        for i in idx:
            if i < len(ops):
                disagreements += 1
                ctx.broken.append(f"correspondence Model/Remap.v / World.v vs NSEGameCoordinator.py (dynamic addresses) on {name} seed {seed} op {i}: {ops[i][1][:200]}")
    ctx.coverage.update({
        "evaluations": total_ops,
        "distinct_nontrivial": stats["resets"] + stats["steps"],
        "rule": "world-level sessions with dynamic addresses on the playable shipped scenarios and generated topologies, 1-2 agents (incl. 'all_local'), several consecutive re-labellings with actions between them; every re-labelling step is checked for validity and re-keying inside Coq, every initial view and step result against the model on the re-labelled world; distinct = re-labellings + steps (all distinct by the random addresses)",
        "statistics": stats, "disagreements_checked": total_ops, "model_impl_disagreements": disagreements,
        "samples": samples,
    })
    ctx.assumptions += [
        "Faker's random addresses and random.shuffle are an oracle: the check takes the maps the implementation publishes and verifies them (valid_mapping inside Coq); their distribution is not examined",
        "neighbouring networks (+-256) added by the initial view are computed on the current addresses by model and implementation alike",
        "ScanNetwork with CIDR targets that are not scenario networks is outside the equivariance claim",
        "collisions between independently drawn public networks are possible in principle and would be reported by valid_mapping (not one-to-one)",
    ]


def probe_block_boundaries(ctx, nsgenv, WL, WR):
    """The random draws of the re-labelling are an oracle: here they are scripted so that the new base of the private networks
    lies at the very top of each RFC 1918 block (the draw the generator's retry exists to reject: the higher networks would fall
    out of private space), then just below it, then in the middle.  Whatever is drawn, the re-labelling that is finally
    accepted keeps every private network private, keeps the distances, keeps the map one-to-one and every address in its
    network; and it must come from a draw that allows that."""
    import netaddr
    stats = {"scripted_resets": 0}
    scripts = [["192.168.255.7", "172.31.255.9", "10.255.255.3", "192.168.77.5"],
               ["10.255.255.200", "10.200.1.1"], ["172.31.255.1", "172.20.3.3"], ["192.168.255.254", "192.168.100.100"]]
    for scenario in ("scenario1_small", "three_nets"):
        cfg = nsgenv.base_config(scenario, use_dynamic_addresses=True)
        try:
            drv = WR.start_world(cfg)
        except Exception as e:
            ctx.stage_errors.append((f"block boundary probe {scenario}", f"{type(e).__name__}: {e}"))
            continue
        g = drv.g
        try:
            real = g._faker_object

            class Scripted:
                def __init__(self):
                    self.queue = []

                def ipv4_private(self, *a, **k):
                    return self.queue.pop(0) if self.queue else real.ipv4_private(*a, **k)

                def __getattr__(self, name):
                    return getattr(real, name)
            sc = Scripted()
            g._faker_object = sc
            orig_nets = sorted(g._networks, key=lambda n: (str(n.ip), n.mask))
            priv0 = [n for n in orig_nets if netaddr.IPNetwork(str(n)).ip.is_ipv4_private_use()]
            for script in scripts:
                sc.queue = list(script)
                replay = {"kind": "block_boundaries", "scenario": scenario, "script": script}
                try:
                    WL.run_coro(g.reset())
                except BaseException as e:
                    ctx.violations.append({"key": "re-labelling fails on a boundary draw", "what": f"{scenario}: with the private draws {script} the reset ends with {type(e).__name__}({e})", "replay": replay})
                    break
                stats["scripted_resets"] += 1
                nm = g._network_mapping
                cur = {o: nm[o] for o in priv0}
                bad = [f"{o} -> {c}" for o, c in cur.items() if not netaddr.IPNetwork(str(c)).ip.is_ipv4_private_use()]
                if bad:
                    ctx.violations.append({"key": "a private network is re-labelled to a public one",
                                           "what": f"{scenario}: with the private draws {script} (new base at the top of a private block first) the accepted re-labelling maps {bad}: private networks must stay private",
                                           "replay": replay})
                base = priv0[0]
                for o in priv0[1:]:
                    d0 = int(netaddr.IPNetwork(str(o)).ip) - int(netaddr.IPNetwork(str(base)).ip)
                    d1 = int(netaddr.IPNetwork(str(cur[o])).ip) - int(netaddr.IPNetwork(str(cur[base])).ip)
                    if d0 != d1:
                        ctx.violations.append({"key": "private networks do not keep their distance", "what": f"{scenario}: draws {script}: distance {base} - {o} was {d0}, is {d1} after the re-labelling", "replay": replay})
                ips = list(g._ip_mapping.values())
                if len(set(ips)) != len(ips):
                    ctx.violations.append({"key": "address map not one-to-one", "what": f"{scenario}: draws {script}: two hosts share an address", "replay": replay})
                for net, members in g._networks.items():
                    for i in members:
                        if str(i) not in netaddr.IPNetwork(str(net)):
                            ctx.violations.append({"key": "address outside its network", "what": f"{scenario}: draws {script}: {i} is not inside {net}", "replay": replay})
                            break
        except Exception as e:
            import traceback
            ctx.stage_errors.append((f"block boundary probe {scenario}", f"{type(e).__name__}: {e}\n{traceback.format_exc()[-500:]}"))
        finally:
            drv.close()
    ctx.coverage["block_boundary_probe"] = stats


def probe_many_relabellings(ctx, nsgenv, WL, WR):
    """Depth: dozens of CONSECUTIVE re-labellings of the shipped scenarios at the world level (each one starts from the labels the
    previous one produced - a label at the edge of a number's digit length, of a block or of a network is only ever met this way).
    Every one must be produced (no give-up) and must be a valid re-labelling: private stays private, the distances between the
    private networks are kept, addresses are one-to-one and lie in their networks."""
    import netaddr
    n = 150 if ctx.tier == "thorough" else 60
    stats = {"worlds": 0, "relabellings": 0}
    for scenario in ("scenario1_small", "three_nets"):
        for seed in ((42, 7, 3) if ctx.tier == "thorough" else (42, 7)):
            cfg = nsgenv.base_config(scenario, use_dynamic_addresses=True)
            replay = {"kind": "many_relabellings", "scenario": scenario, "seed": seed}
            try:
                drv = WR.start_world(cfg, seed=seed)
            except Exception as e:
                ctx.stage_errors.append((f"many relabellings start {scenario}", f"{type(e).__name__}: {e}"))
                continue
            stats["worlds"] += 1
            try:
                g = drv.g
                priv0 = sorted((netaddr.IPNetwork(str(k)).value, k.mask) for k in g._networks if netaddr.IPNetwork(str(k)).ip.is_ipv4_private_use())
                dist0 = [x[0] - priv0[0][0] for x in priv0]
                for r in range(1, n + 1):
                    try:
                        WL.run_coro(g.reset())
                    except BaseException as e:
                        ctx.violations.append({"key": "a re-labelling of a shipped scenario is not produced",
                                               "what": f"{scenario}, seed {seed}: consecutive reset number {r} with dynamic addresses ended with {type(e).__name__}({e}) - no re-labelling of the networks {sorted(str(k) for k in g._networks)} was produced",
                                               "replay": replay})
                        break
                    stats["relabellings"] += 1
                    priv = sorted((netaddr.IPNetwork(str(k)).value, k.mask) for k in g._networks if netaddr.IPNetwork(str(k)).ip.is_ipv4_private_use())
                    bad = None
                    if len(priv) != len(priv0) or [x[0] - priv[0][0] for x in priv] != dist0:
                        bad = f"private networks {sorted(str(k) for k in g._networks)} do not keep kind or distances"
                    ips = [str(i) for i in g._ip_to_hostname]
                    if bad is None and len(set(ips)) != len(ips):
                        bad = "two hosts share an address"
                    if bad is None:
                        for net, members in g._networks.items():
                            if any(str(i) not in netaddr.IPNetwork(str(net)) for i in members):
                                bad = f"an address of {net} lies outside it"
                                break
                    if bad:
                        ctx.violations.append({"key": "an invalid re-labelling after many resets", "what": f"{scenario}, seed {seed}, consecutive reset number {r}: {bad}", "replay": replay})
                        break
            finally:
                drv.close()
    ctx.coverage["many_relabellings_probe"] = stats


def probe_mixed_blocks(ctx, nsgenv, WL, WR):
    """A topology whose private networks lie in two different RFC 1918 blocks."""
    import cyst.api.configuration as C
    objs = []
    for k, (ipa, net) in enumerate([("192.168.1.2", "192.168.1.0/24"), ("10.0.0.2", "10.0.0.0/24"), ("213.47.23.195", "213.47.23.192/26")]):
        objs.append(C.NodeConfig(active_services=[], passive_services=[C.PassiveServiceConfig(name="ssh", owner="o", version="1", local=False, access_level=C.AccessLevel.LIMITED)],
                                 traffic_processors=[], interfaces=[C.InterfaceConfig(C.IPAddress(ipa), C.IPNetwork(net))], shell="", id=f"node{k}"))
    cfg = nsgenv.base_config("scenario1_small", use_dynamic_addresses=True)
    drv = WR.start_world(cfg, objs)
    try:
        try:
            WL.run_coro(drv.g.reset())
        except BaseException as e:
            ctx.violations.append({"key": "dynamic address sampling fails for private networks in different RFC 1918 blocks",
                                   "what": f"a reset with dynamic addresses on a topology with private networks 192.168.1.0/24 and 10.0.0.0/24 ends with {type(e).__name__}({e}): the sampler gives up after ten failed draws and calls exit(-1)",
                                   "replay": {"kind": "mixed_blocks"}})
    finally:
        drv.close()


def replay(ctx, payload):
    if payload.get("kind") == "many_relabellings":
        nsgenv, WL, WR = WC._imports()
        c2 = CK.Ctx("C13", "quick", 1)
        probe_many_relabellings(c2, nsgenv, WL, WR)
        for v in c2.violations:
            print(v["what"])
        if c2.violations:
            print("VIOLATION property=C13 replay=(this file)")
        return 1 if c2.violations else 0
    if payload.get("kind") == "dynamic_join_probe":
        from props import dynprobe
        c2 = CK.Ctx("C13", "quick", 1)
        dynprobe.run(c2, "C13")
        for v in c2.violations:
            print(v["what"])
        if c2.violations:
            print("VIOLATION property=C13 replay=(this file)")
        return 1 if c2.violations else 0
    if payload.get("kind") == "block_boundaries":
        nsgenv, WL, WR = WC._imports()
        c2 = CK.Ctx("C13", "quick", 1)
        probe_block_boundaries(c2, nsgenv, WL, WR)
        for v in c2.violations:
            print(v["what"])
        if c2.violations:
            print("VIOLATION property=C13 replay=(this file)")
        return 1 if c2.violations else 0
    if payload.get("kind") == "mixed_blocks":
        nsgenv, WL, WR = WC._imports()
        c2 = CK.Ctx("C13", "quick", 1)
        probe_mixed_blocks(c2, nsgenv, WL, WR)
        for v in c2.violations:
            print(v["what"])
        return 1 if c2.violations else 0
    print(json.dumps(payload, indent=1)[:4000])
    return 0
