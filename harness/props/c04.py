"""C04: episode end (coordinator model Model/Coord.v, trace-following correspondence, direct monitor)."""
import json
import check as CK
from props import coordcommon as CC

TRANSLATORS = ["enums", "defender", "dispatch"]
COQ_FILES = ["Props/C04.v", "Props/C04_reason.v", "Props/C04_goal.v", "Obl/DispatchOk.v", "Obl/EnumsOk.v"]


def correspondence(ctx):
    n = 400 if ctx.tier == "thorough" else 52
    CC.run_sessions(ctx, "C04", n, lambda rng: dict(n_events=rng.choice([40,70]), burst=0.2, fault=0.03, bad=0.05, resets=0.08), lambda rng: dict(max_steps=rng.choice([None,1,2,3,4,6])))
    # the goal check itself against Model/Goal.v (generated goal / view pairs)
    from props import goalcorr
    goalcorr.run(ctx, "C04", 3000 if ctx.tier == "thorough" else 600)


def replay(ctx, payload):
    if payload.get("kind") == "goal_pair":
        print(json.dumps(payload, indent=1)[:3000])
        return 0
    return CC.replay_session(ctx, "C04", payload)
