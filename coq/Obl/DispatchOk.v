(* Per-run obligations on the dispatcher and the connection handler of coordinator.py (regenerated
   into Gen/Dispatch.v on every run): every action type is routed to the handler that the model
   runs for it, the default arm and the parse-failure arm reply BAD_REQUEST and the dispatcher
   continues, abnormal ends of a connection forward QuitGame, the cleanup releases the slot. *)
From Coq Require Import String List.
From NSG Require Import Base.Prelude Gen.Dispatch.
Import ListNotations.
Open Scope string_scope.

(* the handler Model/Coord.v runs for each message type (h_start) *)
Definition model_handler (t : atype) : string * bool * bool :=
  match t with
  | JoinGame => ("self._process_join_game_action", true, true)
  | QuitGame => ("self._process_quit_game_action", true, false)
  | ResetGame => ("self._process_reset_game_action", true, true)
  | _ => ("self._process_game_action", true, true)
  end.

Definition arm_ok (x : atype * string * bool * bool) : bool :=
  let '(t, h, a, b) := x in
  let '(h', a', b') := model_handler t in
  String.eqb h h' && Bool.eqb a a' && Bool.eqb b b'.

(* every action type has exactly one arm, and it is the model's *)
Theorem C01_dispatch_total :
  forallb arm_ok gen_dispatch_arms = true /\
  forallb (fun t => Nat.eqb (length (filter (fun x => atype_eqb t (fst (fst (fst x)))) gen_dispatch_arms)) 1) all_atypes = true.
Proof. vm_compute. split; reflexivity. Qed.

Theorem C09_default_replies : gen_default = "reply_bad_request".
Proof. reflexivity. Qed.
Theorem C09_parse_failure_replies : gen_parse_failure = "reply_bad_request_and_continue".
Proof. reflexivity. Qed.
Theorem C10_conn_failure_forwards_quit : gen_conn_failure = "forward_quit".
Proof. reflexivity. Qed.
Theorem C18_cleanup : gen_conn_cleanup = "decrement_pop_queue_close".
Proof. reflexivity. Qed.
Theorem C18_admission : gen_admission = "reject_at_limit".
Proof. reflexivity. Qed.
Theorem C18_limit : gen_limit = "required_players".
Proof. reflexivity. Qed.
