(* How one label can change the view stored for an agent: not at all, by the world's answer to the agent's own action on
   its stored view, or (reset task) by a fresh initial view.  Lifted along executions: any relation on views that the world
   model's step respects (e.g. "only grows") holds between the views of an agent at two points of an episode. *)
From Coq Require Import ZArith NArith List Bool Arith Lia.
From NSG Require Import Model.Coord Proofs.CoordBase Proofs.CoordInv Proofs.CoordInvConn Proofs.CoordInvDispatch
  Proofs.CoordInvHandler Proofs.CoordDirect Proofs.CoordInv2 Proofs.CoordIsolation Proofs.CoordAgentStep.
Import ListNotations.

Section ViewStep.
  Context {V W G : Type}.
  Variable wstep : W -> V -> G -> W * V.
  Variable wreset : W -> W.
  Variable winit : W -> role -> W * V.
  Variable goal : role -> V -> bool.
  Variable detect : list G -> G -> bool.
  Variable cfg : config.

  Notation state := (@state V W G).
  Notation handler := (@handler V G).
  Notation agent := (@agent V G).
  Notation label := (@label G).
  Notation Inv2 := (@Inv2 V W G).
  Notation exec := (@exec V W G wstep wreset winit goal detect cfg).
  Notation execs := (@execs V W G wstep wreset winit goal detect cfg).
  Notation h_start := (@h_start V W G wstep winit goal detect cfg).
  Notation h_wake := (@h_wake V W G wstep winit goal detect cfg).

  Definition view_change (s : state) (l : label) (a a' : agent) : Prop :=
    a_view a' = a_view a \/ (exists act, a_view a' = snd (wstep (world s) (a_view a) act)) \/ l = LRun TReset.

  Lemma vc_upd (s : state) l (ags : list (addr * agent)) c0 f c a a' :
    alookup c ags = Some a -> alookup c (aupdate c0 f ags) = Some a' ->
    (c0 = c -> view_change s l a (f a)) -> view_change s l a a'.
  Proof.
    intros Ha Ha' Hf. destruct (N.eq_dec c0 c) as [->|Hne].
    - rewrite alookup_aupdate_eq, Ha in Ha'. injection Ha' as <-. apply Hf. reflexivity.
    - rewrite alookup_aupdate_ne in Ha' by exact Hne. rewrite Ha in Ha'. injection Ha' as <-. left. reflexivity.
  Qed.

  Lemma vc_game_finish (s0 : state) id c0 act v' c a a' :
    alookup c (agents s0) = Some a -> alookup c (agents (@game_finish V W G s0 id c0 act v')) = Some a' -> a_view a' = a_view a.
  Proof.
    intros Ha Ha'. unfold game_finish in Ha'. destruct (alookup c0 (agents s0)) as [a0|] eqn:H0; [|simpl in Ha'; rewrite Ha in Ha'; congruence].
    simpl in Ha'. destruct (N.eq_dec c0 c) as [->|Hne].
    - rewrite alookup_aupdate_eq, Ha in Ha'. injection Ha' as <-. rewrite Ha in H0. injection H0 as <-. reflexivity.
    - rewrite alookup_aupdate_ne in Ha' by exact Hne. congruence.
  Qed.
  Lemma vc_reset_finish (s0 : state) id c0 want c a a' :
    alookup c (agents s0) = Some a -> alookup c (agents (@reset_finish V W G s0 id c0 want)) = Some a' -> a_view a' = a_view a.
  Proof.
    intros Ha Ha'. unfold reset_finish in Ha'. destruct (alookup c0 (agents s0)) as [a0|] eqn:H0; [|simpl in Ha'; rewrite Ha in Ha'; congruence].
    simpl in Ha'. destruct (N.eq_dec c0 c) as [->|Hne].
    - rewrite alookup_aupdate_eq, Ha in Ha'. injection Ha' as <-. rewrite Ha in H0. injection H0 as <-. reflexivity.
    - rewrite alookup_aupdate_ne in Ha' by exact Hne. congruence.
  Qed.

  Theorem view_h_start (s : state) id c0 m c a a' :
    NoDup (map fst (agents s)) ->
    alookup c (agents s) = Some a -> alookup c (agents (h_start s id c0 m)) = Some a' ->
    view_change s (LRun (THandler id)) a a'.
  Proof.
    intros Hnd Ha Ha'.
    assert (Hsame : forall s1 : state, agents s1 = agents s -> alookup c (agents s1) = Some a' -> view_change s (LRun (THandler id)) a a').
    { intros s1 E H. rewrite E, Ha in H. injection H as <-. left. reflexivity. }
    destruct m as [|info| |want|act valid]; unfold Coord.h_start in Ha'.
    - eapply Hsame; [|exact Ha']. reflexivity.
    - destruct (alookup c0 (agents s)) eqn:H0; [eapply Hsame; [|exact Ha']; reflexivity|].
      destruct info as [[name [r|]]|]; try (eapply Hsame; [|exact Ha']; reflexivity).
      destruct (negb (allowed cfg r)); [eapply Hsame; [|exact Ha']; reflexivity|].
      destruct (winit (world s) r) as [w' v]. cbv zeta in Ha'.
      assert (Hnew : forall s1 : state, agents s1 = agents s ++ [(c0, new_agent name r v)] -> alookup c (agents s1) = Some a' -> view_change s (LRun (THandler id)) a a').
      { intros s1 E H. rewrite E, alookup_app, Ha in H. injection H as <-. left. reflexivity. }
      destruct (Nat.eqb _ _); [eapply Hnew; [|exact Ha']; reflexivity|]. destruct (ev_start _); (eapply Hnew; [|exact Ha']; reflexivity).
    - simpl in Ha'. unfold remove_agent in Ha'. destruct (alookup c0 (agents s)) eqn:H0; [|eapply Hsame; [|exact Ha']; reflexivity].
      assert (Hrm : forall s1 : state, agents s1 = aremove c0 (agents s) -> alookup c (agents s1) = Some a' -> view_change s (LRun (THandler id)) a a').
      { intros s1 E H. rewrite E in H. destruct (N.eq_dec c0 c) as [->|Hne]; [rewrite alookup_aremove_eq in H by exact Hnd; discriminate|].
        rewrite alookup_aremove_ne in H by exact Hne. rewrite Ha in H. injection H as <-. left. reflexivity. }
      destruct (_ && _); destruct (all_ended _); (eapply Hrm; [|exact Ha']; reflexivity).
    - destruct (alookup c0 (agents s)) eqn:H0; [|eapply Hsame; [|exact Ha']; reflexivity]. cbv zeta in Ha'.
      assert (Hup : forall s1 : state, agents s1 = aupdate c0 (fun a => a_set_req a true) (agents s) -> alookup c (agents s1) = Some a' -> view_change s (LRun (THandler id)) a a').
      { intros s1 E H. rewrite E in H. eapply vc_upd; [exact Ha | exact H|]. intros _. left. reflexivity. }
      destruct (all_req _); (eapply Hup; [|exact Ha']; reflexivity).
    - destruct (alookup c0 (agents s)) as [a0|] eqn:H0; [|eapply Hsame; [|exact Ha']; reflexivity].
      destruct (negb valid); [eapply Hsame; [|exact Ha']; reflexivity|]. destruct (a_ended a0); [eapply Hsame; [|exact Ha']; reflexivity|].
      pose proof (eq_refl (wstep (world s) (a_view a0) act)) as Ew.
      destruct (wstep (world s) (a_view a0) act) as [w' v'] eqn:Ew0 in Ha'. cbv zeta in Ha'.
      match type of Ha' with context [aupdate c0 (fun _ => ?A2) (agents s)] => set (a2 := A2) in Ha' end.
      assert (Ev2 : a_view a2 = v') by reflexivity. clearbody a2.
      set (ags := aupdate c0 (fun _ => a2) (agents s)) in Ha'.
      assert (Hags : forall x, alookup c ags = Some x -> view_change s (LRun (THandler id)) a x).
      { intros x Hx. unfold ags in Hx. eapply vc_upd; [exact Ha | exact Hx|]. intros ->. rewrite Ha in H0. injection H0 as <-.
        right. left. exists act. rewrite Ev2, Ew0. reflexivity. }
      assert (Hgoal : forall (s2 : state) (b : bool), agents s2 = ags ->
                alookup c (agents (if b then park s2 id (PRewards false act v') else @game_finish V W G s2 id c0 act v')) = Some a' ->
                view_change s (LRun (THandler id)) a a').
      { intros s2 b E H. destruct b; [simpl in H; rewrite E in H; apply Hags, H|].
        destruct (alookup c (agents s2)) as [x|] eqn:Hx.
        - pose proof (vc_game_finish s2 id c0 act v' c x a' Hx H) as Ev. rewrite E in Hx.
          destruct (Hags x Hx) as [K|[K|K]]; [left | right; left | right; right]; try congruence.
          destruct K as [act0 K]. exists act0. congruence.
        - exfalso. unfold game_finish in H. destruct (alookup c0 (agents s2)); simpl in H; [|congruence].
          destruct (N.eq_dec c0 c) as [->|Hne]; [rewrite alookup_aupdate_eq, Hx in H; discriminate | rewrite alookup_aupdate_ne in H by exact Hne; congruence]. }
      destruct (all_ended ags); (eapply Hgoal; [|exact Ha']; reflexivity).
  Qed.

  Lemma reward_keeps_view succ (a : agent) : a_view (reward_agent cfg succ a) = a_view a.
  Proof. unfold reward_agent. destruct (_ || _); [reflexivity|]. destruct (a_role a); reflexivity. Qed.

  Theorem view_step (s s' : state) l c a a' :
    Inv2 s -> exec s l = Some s' -> alookup c (agents s) = Some a -> alookup c (agents s') = Some a' -> view_change s l a a'.
  Proof.
    intros Hi2 He Ha Ha'. destruct Hi2 as [Hi Hj]. pose proof (I_agents s Hi) as Hnd.
    assert (Hother : (forall id, l <> LRun (THandler id)) -> view_change s l a a').
    { intros Hl. destruct (agent_step wstep wreset winit goal detect cfg s s' l c a (conj Hi Hj) He Ha) as [Hn|(a1 & H1 & Hc)]; [congruence|].
      rewrite H1 in Ha'. injection Ha' as <-.
      inversion Hc; subst; try (left; reflexivity); try (exfalso; eapply Hl; reflexivity).
      - left. apply reward_keeps_view.
      - right. right. reflexivity. }
    destruct l as [k|k ch|k|k|k|t]; try (apply Hother; intros id; discriminate).
    destruct t as [k| |id| |]; try (apply Hother; intros id0; discriminate).
    cbn [Coord.exec] in He. unfold handler_run in He.
    destruct (find (fun h => Nat.eqb (h_id h) id) (handlers s)) as [h|] eqn:Hf; [|discriminate].
    apply find_some in Hf as [Hin Hid]. apply Nat.eqb_eq in Hid. subst id.
    unfold Coord.h_wake in He. destruct (h_pc h) as [m|rel v|rel act v'|rel want|rel want].
    - injection He as <-. eapply view_h_start; eauto.
    - destruct rel; [|discriminate]. injection He as <-. simpl in Ha'. rewrite Ha in Ha'. injection Ha' as <-. left. reflexivity.
    - destruct rel; [|discriminate]. injection He as <-. left. eapply vc_game_finish; eauto.
    - destruct rel; [|discriminate]. destruct (ev_start s); injection He as <-.
      + left. eapply vc_reset_finish; eauto.
      + simpl in Ha'. rewrite Ha in Ha'. injection Ha' as <-. left. reflexivity.
    - destruct rel; [|discriminate]. injection He as <-. left. eapply vc_reset_finish; eauto.
  Qed.

  (* ---- along executions: a preorder on views that the world's step respects ---- *)
  Variable le : V -> V -> Prop.
  Hypothesis le_refl : forall v, le v v.
  Hypothesis le_trans : forall a b c, le a b -> le b c -> le a c.
  Hypothesis le_step : forall w v act, le v (snd (wstep w v act)).

  Theorem views_grow_along ls : forall (s s' : state) c a,
    Inv2 s -> execs s ls = Some s' -> no_reset ls -> alookup c (agents s) = Some a ->
    (exists a', alookup c (agents s') = Some a' /\ le (a_view a) (a_view a')) \/
    gone_along wstep wreset winit goal detect cfg s ls c.
  Proof.
    induction ls as [|l tl IH]; intros s s' c a Hi He Hok Ha.
    - injection He as <-. left. eauto.
    - cbn [Coord.execs] in He. destruct (exec s l) as [s1|] eqn:E; [|discriminate].
      destruct (alookup c (agents s1)) as [a1|] eqn:Ha1.
      + assert (Hle : le (a_view a) (a_view a1)).
        { destruct (view_step s s1 l c a a1 Hi E Ha Ha1) as [K|[(act & K)|K]].
          - rewrite K. apply le_refl.
          - rewrite K. apply le_step.
          - exfalso. apply (Hok l); [left; reflexivity | exact K]. }
        assert (Hi1 : Inv2 s1) by (eapply inv2_exec; eauto).
        destruct (IH s1 s' c a1 Hi1 He (fun l0 H0 => Hok l0 (or_intror H0)) Ha1) as [(a' & Ha' & Hl')|(ls1 & ls2 & s2 & E1 & E2 & E3)].
        * left. exists a'. split; [exact Ha' | eapply le_trans; eauto].
        * right. exists (l :: ls1), ls2, s2. split; [simpl; congruence|]. split; [cbn [Coord.execs]; rewrite E; exact E2 | exact E3].
      + right. exists [l], tl, s1. split; [reflexivity|]. split; [cbn [Coord.execs]; rewrite E; reflexivity | exact Ha1].
  Qed.
End ViewStep.
