(* C02 - World actions have no effect unless their preconditions hold.
   Statements only; proofs in Proofs/WorldStep.v and Proofs/Game.v. *)
From stdpp Require Import gmap.
From Coq Require Import ZArith NArith.
From NSG Require Import Model.Coord Proofs.CoordViews Model.World Model.Load Model.Game Proofs.WorldStep Proofs.Game.

(* For ALL worlds, ALL views (reachable or not) and ALL actions: if the precondition of the
   action fails, the returned view is the previous view and the whole world is unchanged
   (Leibniz equality of every table; gmap/gset are canonical). *)
Theorem C02_noop : forall w v a, pre w v a = false -> step w v a = (w, v).
Proof. exact step_noop. Qed.

(* `pre` is what the property states, spelled out per action type *)
Theorem C02_pre_exploit : forall w v src tgt s,
  pre w v (AExploit src tgt s) = true <->
  src ∈ v_ctrl v /\ tgt ∈ get (w_fw w) src /\
  (exists n SS, w_ip2host w !! tgt = Some n /\ w_services w !! n = Some SS /\ s ∈ SS) /\
  (exists K, v_svcs v !! tgt = Some K /\ s ∈ K).
Proof. exact exploit_pre_spec. Qed.
Theorem C02_pre_exfil : forall w v src tgt d,
  pre w v (AExfil src tgt d) = true <->
  tgt ∈ v_ctrl v /\ src ∈ v_ctrl v /\ tgt ∈ get (w_fw w) src /\
  (exists K, v_data v !! src = Some K /\ d ∈ K) /\
  (exists n D, w_ip2host w !! src = Some n /\ w_data w !! n = Some D /\ d ∈ D).
Proof. exact exfil_pre_spec. Qed.
Theorem C02_pre_block : forall w v src tgt b,
  pre w v (ABlock src tgt b) = true <-> src ∈ v_ctrl v /\ tgt ∈ v_ctrl v /\ tgt ∈ get (w_fw w) src /\ tgt <> b.
Proof. exact block_pre_spec. Qed.
Theorem C02_pre_find_data : forall w v src tgt,
  pre w v (AFindData src tgt) = true <-> src ∈ v_ctrl v /\ tgt ∈ get (w_fw w) src /\ tgt ∈ v_ctrl v.
Proof.
  intros. cbn [pre]. unfold fw_allows. rewrite !andb_true_iff, !bool_decide_eq_true. tauto.
Qed.
Theorem C02_pre_find_services : forall w v src tgt,
  pre w v (AFindServices src tgt) = true <-> src ∈ v_ctrl v /\ tgt ∈ get (w_fw w) src.
Proof. intros. cbn [pre]. unfold fw_allows. rewrite andb_true_iff, !bool_decide_eq_true. tauto. Qed.
Theorem C02_pre_scan : forall w v src tn, pre w v (AScan src tn) = true <-> src ∈ v_ctrl v.
Proof. intros. cbn [pre]. apply bool_decide_eq_true. Qed.

(* non-vacuity: a world and a view where an exfiltration is refused for one reason only *)
Example C02_nonvacuous :
  let w := {| w_ip2host := {[1%N := 10%N; 2%N := 20%N]}; w_nets := ∅; w_services := ∅;
              w_data := {[10%N := {[(5%N, 6%N, 0%Z, 2%N)]}]};
              w_fw := {[1%N := {[2%N]}]}; w_blocks := ∅; w_data0 := ∅; w_fw0 := ∅ |} in
  let v := {| v_ctrl := {[1%N]}; v_hosts := {[1%N; 2%N]}; v_svcs := ∅;
              v_data := {[1%N := {[(5%N, 6%N, 0%Z, 2%N)]}]}; v_nets := ∅; v_blocks := ∅ |} in
  pre w v (AExfil 1 2 (5, 6, 0%Z, 2))%N = false /\
  pre w {| v_ctrl := {[1%N; 2%N]}; v_hosts := v_hosts v; v_svcs := ∅; v_data := v_data v; v_nets := ∅; v_blocks := ∅ |}
      (AExfil 1 2 (5, 6, 0%Z, 2))%N = true.
Proof. vm_compute. split; reflexivity. Qed.

(* the whole game (Model/Game.v): a game action of a playing agent whose preconditions do not hold leaves the world as it
   is, the view stored for and reported to the agent is the view it had, and nobody else's record changes *)
Theorem C02_whole_game : forall (sp : role -> start_pos) (goal : role -> view -> bool) (detect : list gaction -> gaction -> bool)
    (cfg : config) (s : @state view gworld gaction) id c act a,
  alookup c (agents s) = Some a -> a_ended a = false -> pre (fst (Coord.world s)) (a_view a) act = false ->
  let s' := @h_start view gworld gaction g_wstep (g_winit sp) goal detect cfg s id c (MGame act true) in
  Coord.world s' = Coord.world s /\
  (forall a', alookup c (agents s') = Some a' -> a_view a' = a_view a) /\
  (forall k, k <> c -> alookup k (agents s') = alookup k (agents s)).
Proof. exact game_noop. Qed.

Print Assumptions C02_noop.
Print Assumptions C02_pre_exploit.
Print Assumptions C02_pre_exfil.
Print Assumptions C02_pre_block.
Print Assumptions C02_pre_find_data.
Print Assumptions C02_pre_find_services.
Print Assumptions C02_pre_scan.
Print Assumptions C02_whole_game.
