(* C13: "start positions follow the same re-labelling".  For a valid re-labelling m of the world w, the initial view built
   on the re-keyed world from the translated start position (and translated random picks) is the translated initial view
   of the original world - on the objects of the scenario (the artificial neighbouring networks that are not networks of
   the scenario are outside the re-labelling: both sides are restricted to the scenario's networks). *)
From stdpp Require Import gmap.
From Coq Require Import ZArith NArith Lia.
From NSG Require Import Model.World Model.Load Model.Remap Proofs.WorldStep Proofs.WorldInv Proofs.InitViewFacts
  Proofs.RemapFacts Proofs.RekeyFacts.

Section InitEquiv.
  Variables (w : world) (m : mapping).
  Hypothesis Hv : valid_mapping w m = true.
  Notation f := (mip m).
  Notation g := (mnet m).
  Notation w' := (rekey_world m w).

  Lemma net_ips_in_world n ips : w_nets w !! n = Some ips -> ips ⊆ world_ips w.
  Proof.
    intros Hn x Hx. unfold world_ips, all_ips. apply elem_of_union_r, elem_of_union_list. exists ips. split; [|exact Hx].
    apply elem_of_list_fmap. exists (n, ips). split; [reflexivity | apply elem_of_map_to_list, Hn].
  Qed.

  Lemma nets_lookup' n ips : w_nets w !! n = Some ips -> w_nets w' !! g n = Some (map_ipset m ips).
  Proof. apply (rekey_membership w m Hv). Qed.

  Lemma nets_lookup_inv' n' ips' : w_nets w' !! n' = Some ips' -> exists n ips, w_nets w !! n = Some ips /\ n' = g n /\ ips' = map_ipset m ips.
  Proof. simpl. unfold rekey_nets. apply (rekey_lookup_inv g (map_ipset m)). Qed.

  Lemma dom_nets' : dom (w_nets w') = set_map g (dom (w_nets w)).
  Proof.
    apply set_eq. intros n'. rewrite elem_of_dom, elem_of_map. split.
    - intros [ips' H]. apply nets_lookup_inv' in H as (n & ips & Hn & -> & _). exists n. split; [reflexivity | apply elem_of_dom; eauto].
    - intros (n & -> & Hn). apply elem_of_dom in Hn as [ips Hn]. rewrite (nets_lookup' n ips Hn). eauto.
  Qed.

  Lemma private_kept n : n ∈ dom (w_nets w) -> net_private (g n) = net_private n.
  Proof. intros Hn. apply elem_of_dom in Hn as [ips Hn]. apply (valid_net_shape w m Hv n ips Hn). Qed.
  Lemma mask_kept n : n ∈ dom (w_nets w) -> snd (g n) = snd n.
  Proof. intros Hn. apply elem_of_dom in Hn as [ips Hn]. apply (valid_net_shape w m Hv n ips Hn). Qed.

  Lemma member_equiv ips h : ips ⊆ world_ips w -> h ∈ world_ips w -> (f h ∈ map_ipset m ips <-> h ∈ ips).
  Proof. intros H1 H2. apply (map_ipset_member w m Hv ips h H1 H2). Qed.

  (* 'all_local' *)
  Lemma all_local_equiv : all_local w' = map_ipset m (all_local w).
  Proof.
    apply set_eq. intros x. rewrite all_local_spec. unfold map_ipset. rewrite elem_of_map. split.
    - intros (n' & ips' & Hl & Hp & Hx). apply nets_lookup_inv' in Hl as (n & ips & Hn & -> & ->).
      unfold map_ipset in Hx. apply elem_of_map in Hx as (i & -> & Hi). exists i. split; [reflexivity|].
      apply all_local_spec. exists n, ips. split; [exact Hn|]. split; [|exact Hi].
      rewrite <- (private_kept n); [exact Hp | apply elem_of_dom; eauto].
    - intros (i & -> & Hi). apply all_local_spec in Hi as (n & ips & Hn & Hp & Hi).
      exists (g n), (map_ipset m ips). split; [apply nets_lookup', Hn|]. split.
      + rewrite (private_kept n); [exact Hp | apply elem_of_dom; eauto].
      + unfold map_ipset. apply elem_of_map. eauto.
  Qed.

  (* the controlled hosts *)
  Lemma resolve_ctrl_equiv l o : resolve_ctrl w' (map (map_sh m) l) (map f o) = map_ipset m (resolve_ctrl w l o).
  Proof.
    unfold map_ipset. revert o. induction l as [|h tl IH]; intros o; cbn [map resolve_ctrl]; [rewrite set_map_empty; reflexivity|].
    destruct h as [i| |]; cbn [map_sh].
    - rewrite set_map_union_L, set_map_singleton_L, IH. reflexivity.
    - destruct o as [|x os]; cbn [map].
      + apply (IH []).
      + rewrite set_map_union_L, set_map_singleton_L, IH. reflexivity.
    - rewrite set_map_union_L, IH, all_local_equiv. reflexivity.
  Qed.

  (* the networks of a host *)
  Lemma nets_of_equiv h : h ∈ world_ips w -> nets_of w' (f h) = set_map g (nets_of w h).
  Proof.
    intros Hh. unfold nets_of. apply set_eq. intros n'. rewrite elem_of_dom, elem_of_map. split.
    - intros [ips' Hl]. apply map_filter_lookup_Some in Hl as [Hl Hin]. cbn [snd fst] in Hin.
      apply nets_lookup_inv' in Hl as (n & ips & Hn & -> & ->).
      exists n. split; [reflexivity|]. apply elem_of_dom. exists ips. apply map_filter_lookup_Some. split; [exact Hn|]. cbn [snd].
      apply (member_equiv ips h (net_ips_in_world n ips Hn) Hh). exact Hin.
    - intros (n & -> & Hn). apply elem_of_dom in Hn as [ips Hl]. apply map_filter_lookup_Some in Hl as [Hl Hin]. cbn [snd] in Hin.
      exists (map_ipset m ips). apply map_filter_lookup_Some. split; [apply nets_lookup', Hl|]. cbn [snd].
      apply (member_equiv ips h (net_ips_in_world n ips Hl) Hh). exact Hin.
  Qed.

  (* neighbouring networks, within the scenario *)
  Lemma elem_neighbours (x n : net) :
    x ∈ neighbours n <->
    net_private n = true /\ (x = n \/ (is_private (fst n + 256) = true /\ x = ((fst n + 256)%N, snd n)) \/
                             (N.leb 256 (fst n) = true /\ is_private (fst n - 256) = true /\ x = ((fst n - 256)%N, snd n))).
  Proof.
    unfold neighbours. destruct (net_private n); [|split; [intros H; exfalso; set_solver | intros H; destruct H as [H1 H2]; discriminate H1]].
    destruct (is_private (fst n + 256)); destruct (N.leb 256 (fst n)); destruct (is_private (fst n - 256)); cbn [andb];
      set_unfold; intuition (try discriminate; eauto).
  Qed.

  Lemma shift (a b : net) : a ∈ dom (w_nets w) -> b ∈ dom (w_nets w) -> net_private a = true -> net_private b = true ->
    (Z.of_N (fst (g a)) - Z.of_N (fst (g b)) = Z.of_N (fst a) - Z.of_N (fst b))%Z.
  Proof. apply (valid_distances w m Hv). Qed.

  Lemma neighbours_equiv n : n ∈ dom (w_nets w) ->
    filter (fun x => x ∈ dom (w_nets w')) (neighbours (g n)) = set_map g (filter (fun x => x ∈ dom (w_nets w)) (neighbours n)).
  Proof.
    intros Hn. apply set_eq. intros x. rewrite elem_of_filter, elem_of_map, dom_nets', elem_of_map. split.
    - intros [(n2 & -> & Hn2) Hx]. apply elem_neighbours in Hx as [Hp Hx].
      assert (Hpn : net_private n = true) by (rewrite <- (private_kept n Hn); exact Hp).
      destruct Hx as [Hx|[(Hq & Hx)|(Hl & Hq & Hx)]].
      + exists n. split; [exact Hx|]. apply elem_of_filter. split; [exact Hn|]. apply elem_neighbours. auto.
      + exists n2. split; [reflexivity|]. apply elem_of_filter. split; [exact Hn2|].
        assert (Hp2' : net_private (g n2) = true) by (unfold net_private; rewrite Hx; exact Hq).
        assert (Hp2 : net_private n2 = true) by (rewrite <- (private_kept n2 Hn2); exact Hp2').
        pose proof (shift n2 n Hn2 Hn Hp2 Hpn) as Hs. rewrite Hx in Hs. cbn [fst] in Hs.
        pose proof (mask_kept n2 Hn2) as Hm2. pose proof (mask_kept n Hn) as Hm. rewrite Hx in Hm2. cbn [snd] in Hm2.
        assert (E : n2 = ((fst n + 256)%N, snd n)).
        { destruct n2 as [a2 k2]. cbn [fst snd] in *. f_equal; [lia | congruence]. }
        apply elem_neighbours. split; [exact Hpn|]. right. left. split; [|exact E].
        unfold net_private in Hp2. rewrite E in Hp2. exact Hp2.
      + exists n2. split; [reflexivity|]. apply elem_of_filter. split; [exact Hn2|].
        assert (Hp2' : net_private (g n2) = true) by (unfold net_private; rewrite Hx; exact Hq).
        assert (Hp2 : net_private n2 = true) by (rewrite <- (private_kept n2 Hn2); exact Hp2').
        pose proof (shift n2 n Hn2 Hn Hp2 Hpn) as Hs. rewrite Hx in Hs. cbn [fst] in Hs.
        pose proof (mask_kept n2 Hn2) as Hm2. pose proof (mask_kept n Hn) as Hm. rewrite Hx in Hm2. cbn [snd] in Hm2.
        apply N.leb_le in Hl.
        assert (E : n2 = ((fst n - 256)%N, snd n) /\ (256 <= fst n)%N).
        { destruct n2 as [a2 k2]. cbn [fst snd] in *. split; [f_equal; [lia | congruence] | lia]. }
        destruct E as [E Hge]. apply elem_neighbours. split; [exact Hpn|]. right. right.
        split; [apply N.leb_le, Hge|]. split; [|exact E]. unfold net_private in Hp2. rewrite E in Hp2. exact Hp2.
    - intros (n2 & -> & Hf). apply elem_of_filter in Hf as [Hn2 Hx]. apply elem_neighbours in Hx as [Hpn Hx].
      assert (Hp : net_private (g n) = true) by (rewrite (private_kept n Hn); exact Hpn).
      split; [exists n2; auto|]. apply elem_neighbours. split; [exact Hp|].
      destruct Hx as [Hx|[(Hq & Hx)|(Hl & Hq & Hx)]].
      + left. rewrite Hx. reflexivity.
      + right. left.
        assert (Hp2 : net_private n2 = true) by (unfold net_private; rewrite Hx; exact Hq).
        pose proof (shift n2 n Hn2 Hn Hp2 Hpn) as Hs. rewrite Hx in Hs at 2. cbn [fst] in Hs.
        pose proof (mask_kept n2 Hn2) as Hm2. pose proof (mask_kept n Hn) as Hm. rewrite Hx in Hm2 at 2. cbn [snd] in Hm2.
        assert (E : g n2 = ((fst (g n) + 256)%N, snd (g n))).
        { destruct (g n2) as [a2 k2]. cbn [fst snd] in *. f_equal; [lia | congruence]. }
        split; [|exact E]. pose proof (private_kept n2 Hn2) as Hk. rewrite Hp2 in Hk. unfold net_private in Hk. rewrite E in Hk. exact Hk.
      + right. right. apply N.leb_le in Hl.
        assert (Hp2 : net_private n2 = true) by (unfold net_private; rewrite Hx; exact Hq).
        pose proof (shift n2 n Hn2 Hn Hp2 Hpn) as Hs. rewrite Hx in Hs at 2. cbn [fst] in Hs.
        pose proof (mask_kept n2 Hn2) as Hm2. pose proof (mask_kept n Hn) as Hm. rewrite Hx in Hm2 at 2. cbn [snd] in Hm2.
        assert (E : g n2 = ((fst (g n) - 256)%N, snd (g n)) /\ (256 <= fst (g n))%N).
        { destruct (g n2) as [a2 k2]. cbn [fst snd] in *. split; [f_equal; [lia | congruence] | lia]. }
        destruct E as [E Hge]. split; [apply N.leb_le, Hge|]. split; [|exact E].
        pose proof (private_kept n2 Hn2) as Hk. rewrite Hp2 in Hk. unfold net_private in Hk. rewrite E in Hk. exact Hk.
  Qed.

  (* ---- tables given as lists of (address, value) ---- *)
  Lemma list_to_set_map_ip (l : list ip) : (list_to_set (map f l) : gset ip) = map_ipset m (list_to_set l).
  Proof.
    apply set_eq. intros x. unfold map_ipset. rewrite elem_of_list_to_set, elem_of_map. split.
    - intros Hx. apply elem_of_list_fmap in Hx as (y & -> & Hy). exists y. split; [reflexivity | apply elem_of_list_to_set, Hy].
    - intros (y & -> & Hy). apply elem_of_list_fmap. exists y. split; [reflexivity | apply elem_of_list_to_set in Hy; exact Hy].
  Qed.

  Lemma keyed_list_equiv {A} (l : list (ip * A)) :
    NoDup (map fst l) -> (forall k, In k (map fst l) -> k ∈ world_ips w) ->
    (list_to_map (map (fun kv => (f (fst kv), snd kv)) l) : gmap ip A) = rekey_keys m (list_to_map l).
  Proof.
    intros Hnd Hin.
    assert (Hinj : forall x y, x ∈ world_ips w -> y ∈ world_ips w -> f x = f y -> x = y) by apply (valid_ip_inj w m Hv).
    assert (Hdom : dom (list_to_map l : gmap ip A) ⊆ world_ips w).
    { intros k Hk. apply elem_of_dom in Hk as [a Ha]. apply elem_of_list_to_map_2 in Ha. apply Hin.
      apply elem_of_list_In. apply elem_of_list_fmap. exists (k, a). split; [reflexivity | exact Ha]. }
    assert (Hnd' : NoDup (map fst (map (fun kv : ip * A => (f (fst kv), snd kv)) l))).
    { rewrite map_map. cbn [fst]. rewrite <- (map_map fst f). apply (NoDup_fmap_2_strong f); [|exact Hnd].
      intros x y Hx Hy. apply Hinj; apply Hin; apply elem_of_list_In; assumption. }
    apply map_eq. intros k'. apply option_eq. intros a. split.
    - intros Hl. apply elem_of_list_to_map_2 in Hl. apply elem_of_list_fmap in Hl as ([k a0] & [= -> ->] & Hka). cbn [fst snd].
      change (rekey f (fun x : A => x) (list_to_map l) !! f k = Some a0).
      rewrite (rekey_lookup_D f (fun x : A => x) (world_ips w) Hinj (list_to_map l) k Hdom).
      + rewrite (elem_of_list_to_map_1 l k a0 Hnd Hka). reflexivity.
      + apply Hin. apply elem_of_list_In. apply elem_of_list_fmap. exists (k, a0). split; [reflexivity | exact Hka].
    - intros Hl. apply (rekey_lookup_inv f (fun x : A => x)) in Hl as (k & a0 & Hk & -> & ->).
      apply elem_of_list_to_map_1; [exact Hnd'|]. apply elem_of_list_fmap. exists (k, a0). split; [reflexivity|].
      apply elem_of_list_to_map_2, Hk.
  Qed.

  (* ---- the theorem ---- *)
  Record sp_in_scenario (sp : start_pos) (o : list ip) : Prop := {
    ss_hosts : forall h, In h (sp_hosts sp) -> h ∈ world_ips w;
    ss_ctrl : forall h, In (SHost h) (sp_ctrl sp) -> h ∈ world_ips w;
    ss_oracle : forall h, In h o -> h ∈ world_ips w;
    ss_nets : forall n, In n (sp_nets sp) -> n ∈ dom (w_nets w);
    ss_svcs : NoDup (map fst (sp_svcs sp)) /\ forall k, In k (map fst (sp_svcs sp)) -> k ∈ world_ips w;
    ss_data : NoDup (map fst (sp_data sp)) /\ forall k, In k (map fst (sp_data sp)) -> k ∈ world_ips w;
  }.

  Lemma all_local_in_world i : i ∈ all_local w -> i ∈ world_ips w.
  Proof. intros Hi. apply all_local_spec in Hi as (n & ips & Hn & _ & Hi). apply (net_ips_in_world n ips Hn), Hi. Qed.

  Lemma ctrl_in_world sp o i : sp_in_scenario sp o -> i ∈ resolve_ctrl w (sp_ctrl sp) o -> i ∈ world_ips w.
  Proof.
    intros Hs Hi. destruct (resolve_ctrl_spec w _ _ i Hi) as [H|[H|[_ H]]];
      [apply (ss_ctrl sp o Hs), H | apply (ss_oracle sp o Hs), H | apply all_local_in_world, H].
  Qed.

  Lemma nets_of_sub h : nets_of w h ⊆ dom (w_nets w).
  Proof. unfold nets_of. intros n Hn. apply elem_of_dom in Hn as [ips H]. apply map_filter_lookup_Some in H as [H _]. apply elem_of_dom. eauto. Qed.

  Theorem init_view_equivariant sp o : sp_in_scenario sp o ->
    view_restrict w' (init_view w' (map_sp m sp) (map f o)) = map_view m (view_restrict w (init_view w sp o)).
  Proof.
    intros Hs. unfold view_restrict, map_view, init_view. cbn [v_ctrl v_hosts v_svcs v_data v_nets v_blocks map_sp sp_nets sp_hosts sp_ctrl sp_svcs sp_data].
    rewrite !resolve_ctrl_equiv. f_equal.
    - (* known hosts *) rewrite list_to_set_map_ip. unfold map_ipset. rewrite set_map_union_L. reflexivity.
    - (* services *) rewrite map_map. cbn [fst snd].
      rewrite <- (keyed_list_equiv (map (fun kv => (fst kv, list_to_set (snd kv))) (sp_svcs sp))).
      + rewrite map_map. reflexivity.
      + rewrite map_map. cbn [fst]. apply (ss_svcs sp o Hs).
      + rewrite map_map. cbn [fst]. apply (ss_svcs sp o Hs).
    - (* data *) rewrite map_map. cbn [fst snd].
      rewrite <- (keyed_list_equiv (map (fun kv => (fst kv, list_to_set (snd kv))) (sp_data sp))).
      + rewrite map_map. reflexivity.
      + rewrite map_map. cbn [fst]. apply (ss_data sp o Hs).
      + rewrite map_map. cbn [fst]. apply (ss_data sp o Hs).
    - (* networks of the scenario *)
      apply set_eq. intros x. rewrite elem_of_filter, elem_of_map. split.
      + intros [Hd Hx]. apply elem_of_union in Hx as [Hx|Hx].
        * apply elem_of_list_to_set, elem_of_list_fmap in Hx as (y & -> & Hy). exists y. split; [reflexivity|].
          apply elem_of_filter. split; [apply (ss_nets sp o Hs), elem_of_list_In, Hy | apply elem_of_union_l, elem_of_list_to_set, Hy].
        * apply elem_of_union_list_map in Hx as (h' & Hh' & Hx). apply elem_of_elements in Hh'.
          unfold map_ipset in Hh'. apply elem_of_map in Hh' as (h & -> & Hh).
          pose proof (ctrl_in_world sp o h Hs Hh) as HhW.
          apply elem_of_union_list_map in Hx as (n' & Hn' & Hx). apply elem_of_elements in Hn'.
          rewrite (nets_of_equiv h HhW) in Hn'. apply elem_of_map in Hn' as (n & -> & Hn).
          assert (HnD : n ∈ dom (w_nets w)) by (apply (nets_of_sub h), Hn).
          assert (Hxf : x ∈ filter (fun y => y ∈ dom (w_nets w')) (neighbours (g n))) by (apply elem_of_filter; auto).
          rewrite (neighbours_equiv n HnD) in Hxf. apply elem_of_map in Hxf as (y & -> & Hy). apply elem_of_filter in Hy as [HyD Hy].
          exists y. split; [reflexivity|]. apply elem_of_filter. split; [exact HyD|]. apply elem_of_union_r.
          apply elem_of_union_list_map. exists h. split; [apply elem_of_elements, Hh|].
          apply elem_of_union_list_map. exists n. split; [apply elem_of_elements, Hn | exact Hy].
      + intros (y & -> & Hy). apply elem_of_filter in Hy as [HyD Hy]. split.
        * rewrite dom_nets'. apply elem_of_map. eauto.
        * apply elem_of_union in Hy as [Hy|Hy].
          -- apply elem_of_union_l, elem_of_list_to_set, elem_of_list_fmap. exists y. split; [reflexivity | apply elem_of_list_to_set in Hy; exact Hy].
          -- apply elem_of_union_r. apply elem_of_union_list_map in Hy as (h & Hh & Hy). apply elem_of_elements in Hh.
             pose proof (ctrl_in_world sp o h Hs Hh) as HhW.
             apply elem_of_union_list_map in Hy as (n & Hn & Hy). apply elem_of_elements in Hn.
             assert (HnD : n ∈ dom (w_nets w)) by (apply (nets_of_sub h), Hn).
             apply elem_of_union_list_map. exists (f h). split; [apply elem_of_elements; unfold map_ipset; apply elem_of_map; eauto|].
             apply elem_of_union_list_map. exists (g n). split; [apply elem_of_elements; rewrite (nets_of_equiv h HhW); apply elem_of_map; eauto|].
             assert (Hxf : g y ∈ (set_map g (filter (fun z => z ∈ dom (w_nets w)) (neighbours n)) : gset net)).
             { apply elem_of_map. exists y. split; [reflexivity|]. apply elem_of_filter. auto. }
             rewrite <- (neighbours_equiv n HnD) in Hxf. apply elem_of_filter in Hxf as [_ Hxf]. exact Hxf.
  Qed.
End InitEquiv.
