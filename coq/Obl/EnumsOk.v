(* Per-run obligation: the enumerations of game_components.py are the ones the models use. *)
From NSG Require Import Base.Prelude Gen.Enums.
From Coq Require Import String.
Open Scope string_scope.

Definition atype_name (a : atype) : string :=
  match a with
  | ScanNetwork => "ScanNetwork" | FindServices => "FindServices" | FindData => "FindData"
  | ExploitService => "ExploitService" | ExfiltrateData => "ExfiltrateData" | BlockIP => "BlockIP"
  | JoinGame => "JoinGame" | QuitGame => "QuitGame" | ResetGame => "ResetGame"
  end.

Theorem action_types_ok : gen_action_type_names = map atype_name all_atypes.
Proof. vm_compute. reflexivity. Qed.

Theorem game_status_ok :
  gen_game_status = [("OK", 200%Z); ("CREATED", 201%Z); ("RESET_DONE", 202%Z); ("BAD_REQUEST", 400%Z); ("FORBIDDEN", 403%Z)].
Proof. vm_compute. reflexivity. Qed.

Theorem agent_status_ok :
  gen_agent_status_names = ["Playing"; "PlayingWithTimeout"; "TimeoutReached"; "ResetRequested"; "Success"; "Fail"].
Proof. vm_compute. reflexivity. Qed.

Theorem end_of_message_ok : gen_end_of_message = "EOF".
Proof. vm_compute. reflexivity. Qed.
