(* M1: actions on the wire - Action.as_dict / to_json / from_dict / from_json / __eq__ / __hash__
   of AIDojoCoordinator/game_components.py.  No proofs in this file. *)
From Coq Require Import String ZArith List Bool.
From NSG Require Import Base.Prelude Model.Json Model.Ipv4Text.
Import ListNotations.
Open Scope string_scope.

Definition ip := string.                                    (* IP(ip: str) *)
Definition net := (string * Z)%type.                        (* Network(ip: str, mask: int) *)
Definition svc := (string * string * string * bool)%type.   (* Service(name, type, version, is_local) *)
Definition data := (string * string * Z * string)%type.     (* Data(owner, id, size, type) *)
Definition agent_info := (string * string)%type.            (* AgentInfo(name, role) *)

Inductive pkey :=
| K_agent_info | K_blocked_host | K_data | K_request_trajectory
| K_source_host | K_target_host | K_target_network | K_target_service.

(* in alphabetical order of the key names = the order of sorted() in Action.__hash__ *)
Definition all_pkeys : list pkey :=
  [K_agent_info; K_blocked_host; K_data; K_request_trajectory;
   K_source_host; K_target_host; K_target_network; K_target_service].

Definition pkey_name (k : pkey) : string :=
  match k with
  | K_agent_info => "agent_info" | K_blocked_host => "blocked_host" | K_data => "data"
  | K_request_trajectory => "request_trajectory" | K_source_host => "source_host"
  | K_target_host => "target_host" | K_target_network => "target_network"
  | K_target_service => "target_service"
  end.

Definition pkey_eqb (a b : pkey) : bool :=
  match a, b with
  | K_agent_info, K_agent_info | K_blocked_host, K_blocked_host | K_data, K_data
  | K_request_trajectory, K_request_trajectory | K_source_host, K_source_host
  | K_target_host, K_target_host | K_target_network, K_target_network
  | K_target_service, K_target_service => true
  | _, _ => false
  end.

Definition pkey_of_name (s : string) : option pkey :=
  find (fun k => String.eqb s (pkey_name k)) all_pkeys.

Inductive pval :=
| PIp (i : ip) | PNet (n : net) | PSvc (s : svc) | PData (d : data) | PAgent (a : agent_info) | PBool (b : bool).

Definition pval_eqb (a b : pval) : bool :=
  match a, b with
  | PIp x, PIp y => String.eqb x y
  | PNet (x, m), PNet (y, n) => String.eqb x y && Z.eqb m n
  | PSvc (a1, a2, a3, a4), PSvc (b1, b2, b3, b4) =>
      String.eqb a1 b1 && String.eqb a2 b2 && String.eqb a3 b3 && Bool.eqb a4 b4
  | PData (a1, a2, a3, a4), PData (b1, b2, b3, b4) =>
      String.eqb a1 b1 && String.eqb a2 b2 && Z.eqb a3 b3 && String.eqb a4 b4
  | PAgent (a1, a2), PAgent (b1, b2) => String.eqb a1 b1 && String.eqb a2 b2
  | PBool x, PBool y => Bool.eqb x y
  | _, _ => false
  end.

(* Action(action_type, parameters: dict) - the dict as an association list in insertion order *)
Definition params := list (pkey * pval).
Definition action := (atype * params)%type.

Fixpoint plookup (k : pkey) (p : params) : option pval :=
  match p with
  | [] => None
  | (k', v) :: tl => if pkey_eqb k k' then Some v else plookup k tl
  end.

(* the value stored under a key has the type the decoder builds for that key *)
Definition well_typed (k : pkey) (v : pval) : bool :=
  match k, v with
  | (K_source_host | K_target_host | K_blocked_host), PIp i => ipv4_ok i
  | K_target_network, PNet _ => true
  | K_target_service, PSvc _ => true
  | K_data, PData _ => true
  | K_agent_info, PAgent _ => true
  | K_request_trajectory, PBool _ => true
  | _, _ => false
  end.

Fixpoint nodup_keys (p : params) : bool :=
  match p with
  | [] => true
  | (k, _) :: tl => negb (existsb (fun kv => pkey_eqb k (fst kv)) tl) && nodup_keys tl
  end.

(* an action an agent can build from the supported parameters *)
Definition valid_action (a : action) : bool :=
  nodup_keys (snd a) && forallb (fun kv => well_typed (fst kv) (snd kv)) (snd a).

(* ---- ActionType <-> string ---- *)
Definition atype_name (a : atype) : string :=
  match a with
  | ScanNetwork => "ScanNetwork" | FindServices => "FindServices" | FindData => "FindData"
  | ExploitService => "ExploitService" | ExfiltrateData => "ExfiltrateData" | BlockIP => "BlockIP"
  | JoinGame => "JoinGame" | QuitGame => "QuitGame" | ResetGame => "ResetGame"
  end.
Definition atype_str (a : atype) : string := "ActionType." ++ atype_name a.   (* str(ActionType.X) *)

Definition strip_prefix (pre s : string) : string :=
  if String.prefix pre s then String.substring (String.length pre) (String.length s - String.length pre) s else s.

(* ActionType.from_string *)
Definition atype_of_string (s : string) : option atype :=
  let n := strip_prefix "ActionType." s in
  find (fun a => String.eqb n (atype_name a)) all_atypes.

(* ---- encoders: dataclasses.asdict / str ---- *)
Definition enc_ip (i : ip) : json := JObj [("ip", JStr i)].
Definition enc_net (n : net) : json := JObj [("ip", JStr (fst n)); ("mask", JNum (snd n))].
Definition enc_svc (s : svc) : json :=
  let '(n, t, v, l) := s in JObj [("name", JStr n); ("type", JStr t); ("version", JStr v); ("is_local", JBool l)].
Definition enc_data (d : data) : json :=
  let '(o, i, sz, t) := d in JObj [("owner", JStr o); ("id", JStr i); ("size", JNum sz); ("type", JStr t)].
Definition enc_agent (a : agent_info) : json := JObj [("name", JStr (fst a)); ("role", JStr (snd a))].
Definition enc_pval (v : pval) : json :=
  match v with
  | PIp i => enc_ip i | PNet n => enc_net n | PSvc s => enc_svc s | PData d => enc_data d
  | PAgent a => enc_agent a
  | PBool b => JStr (if b then "True" else "False")     (* str(True) *)
  end.

(* Action.as_dict *)
Definition enc_action (a : action) : json :=
  JObj [("action_type", JStr (atype_str (fst a)));
        ("parameters", JObj (map (fun kv => (pkey_name (fst kv), enc_pval (snd kv))) (snd a)))].

(* ---- decoders: Cls.from_dict(v) calls the dataclass constructor with the dict as keyword arguments ---- *)
Definition jstr (j : option json) : option string := match j with Some (JStr s) => Some s | _ => None end.
Definition jnum (j : option json) : option Z := match j with Some (JNum z) => Some z | _ => None end.
Definition jbool (j : option json) : option bool := match j with Some (JBool b) => Some b | _ => None end.
Definition dflt {A} (o : option json) (d : A) (f : option json -> option A) : option A :=
  match o with None => Some d | Some _ => f o end.

Definition dec_ip (j : json) : option ip :=
  match j with
  | JObj o => if keys_within o ["ip"] then
                match jstr (jget "ip" o) with
                | Some s => if ipv4_ok s then Some s else None
                | None => None
                end else None
  | _ => None
  end.

Definition dec_net (j : json) : option net :=
  match j with
  | JObj o => if keys_within o ["ip"; "mask"] then
                match jstr (jget "ip" o), jnum (jget "mask" o) with
                | Some s, Some m => Some (s, m)
                | _, _ => None
                end else None
  | _ => None
  end.

Definition dec_svc (j : json) : option svc :=
  match j with
  | JObj o => if keys_within o ["name"; "type"; "version"; "is_local"] then
                match jstr (jget "name" o),
                      dflt (jget "type" o) "unknown" jstr,
                      dflt (jget "version" o) "unknown" jstr,
                      dflt (jget "is_local" o) true jbool with
                | Some n, Some t, Some v, Some l => Some (n, t, v, l)
                | _, _, _, _ => None
                end else None
  | _ => None
  end.

Definition dec_data (j : json) : option data :=
  match j with
  | JObj o => if keys_within o ["owner"; "id"; "size"; "type"] then
                match jstr (jget "owner" o), jstr (jget "id" o),
                      dflt (jget "size" o) 0%Z jnum, dflt (jget "type" o) "" jstr with
                | Some ow, Some i, Some sz, Some t => Some (ow, i, sz, t)
                | _, _, _, _ => None
                end else None
  | _ => None
  end.

Definition dec_agent (j : json) : option agent_info :=
  match j with
  | JObj o => if keys_within o ["name"; "role"] then
                match jstr (jget "name" o), jstr (jget "role" o) with
                | Some n, Some r => Some (n, r)
                | _, _ => None
                end else None
  | _ => None
  end.

(* ast.literal_eval on the strings "True" / "False" *)
Definition dec_flag (j : json) : option bool :=
  match j with
  | JStr s => if String.eqb s "True" then Some true else if String.eqb s "False" then Some false else None
  | _ => None
  end.

(* the `match k:` of Action.from_dict *)
Definition dec_pval (k : pkey) (j : json) : option pval :=
  match k with
  | K_source_host | K_target_host | K_blocked_host => option_map PIp (dec_ip j)
  | K_target_network => option_map PNet (dec_net j)
  | K_target_service => option_map PSvc (dec_svc j)
  | K_data => option_map PData (dec_data j)
  | K_agent_info => option_map PAgent (dec_agent j)
  | K_request_trajectory => option_map PBool (dec_flag j)
  end.

Definition dec_param (kv : string * json) : option (pkey * pval) :=
  match pkey_of_name (fst kv) with
  | None => None                                   (* raise ValueError("Unsupported value ...") *)
  | Some k => match dec_pval k (snd kv) with Some v => Some (k, v) | None => None end
  end.

(* Action.from_dict *)
Definition dec_action (j : json) : option action :=
  match j with
  | JObj o =>
      match jstr (jget "action_type" o), jget "parameters" o with
      | Some ts, Some (JObj ps) =>
          match atype_of_string ts, mapM dec_param ps with
          | Some t, Some p => Some (t, p)
          | _, _ => None
          end
      | _, _ => None
      end
  | _ => None
  end.

(* ---- Action.__eq__ (dict equality: order independent) and Action.__hash__ ---- *)
Definition opt_pval_eqb (a b : option pval) : bool :=
  match a, b with
  | None, None => true
  | Some x, Some y => pval_eqb x y
  | _, _ => false
  end.

Definition params_eqb (p q : params) : bool :=
  forallb (fun k => opt_pval_eqb (plookup k p) (plookup k q)) all_pkeys.

Definition action_eqb (a b : action) : bool :=
  atype_eqb (fst a) (fst b) && params_eqb (snd a) (snd b).

(* sorted((k, hash(v)) for k, v in parameters.items()): keys in alphabetical order *)
Definition canon (p : params) : list (pkey * pval) :=
  flat_map (fun k => match plookup k p with Some v => [(k, v)] | None => [] end) all_pkeys.

Section Hash.
  Variable H : Type.
  Variable hv : pval -> H.                              (* Python's hash of a parameter value *)
  Variable htop : atype -> list (pkey * H) -> H.        (* hash((action_type, sorted_params)) *)
  Definition action_hash (a : action) : H :=
    htop (fst a) (map (fun kv => (fst kv, hv (snd kv))) (canon (snd a))).
End Hash.
