"""C17: global defender.  Exhaustive correspondence of Model/Defender.v (on the tables generated
from the source) with the real GlobalDefender.stochastic_with_threshold, plus a direct monitor
of the property statement."""
import itertools
import json
import os
import sys
from fractions import Fraction
import math

import check as CK

TRANSLATORS = ["enums", "defender", "dispatch"]
COQ_FILES = ["Props/C17.v", "Obl/C17_tables.v", "Obl/EnumsOk.v"]

GAME_TYPES = ["ScanNetwork", "FindServices", "FindData", "ExploitService", "ExfiltrateData", "BlockIP"]
ALL_TYPES = GAME_TYPES + ["JoinGame", "QuitGame", "ResetGame"]


def _impl():
    sys.path[:0] = [os.path.join(CK.HARNESS, "pyshim"), CK.REPO]
    import AIDojoCoordinator.global_defender as gd
    from AIDojoCoordinator.game_components import Action, ActionType, IP, Network, Service, Data, AgentInfo
    return gd, Action, ActionType, IP, Network, Service, Data, AgentInfo


def make_symbols(types, impl):
    gd, Action, ActionType, IP, Network, Service, Data, AgentInfo = impl
    params = {
        "ScanNetwork": [dict(source_host=IP("10.0.0.1"), target_network=Network("10.0.0.0", 24)),
                        dict(source_host=IP("10.0.0.1"), target_network=Network("10.0.1.0", 24))],
        "FindServices": [dict(source_host=IP("10.0.0.1"), target_host=IP("10.0.0.2")),
                         dict(source_host=IP("10.0.0.1"), target_host=IP("10.0.0.3"))],
        "FindData": [dict(source_host=IP("10.0.0.1"), target_host=IP("10.0.0.2")),
                     dict(source_host=IP("10.0.0.1"), target_host=IP("10.0.0.3"))],
        "ExploitService": [dict(source_host=IP("10.0.0.1"), target_host=IP("10.0.0.2"), target_service=Service("ssh", "passive", "1", False)),
                           dict(source_host=IP("10.0.0.1"), target_host=IP("10.0.0.2"), target_service=Service("http", "passive", "1", False))],
        "ExfiltrateData": [dict(source_host=IP("10.0.0.1"), target_host=IP("10.0.0.2"), data=Data("u", "d1")),
                           dict(source_host=IP("10.0.0.1"), target_host=IP("10.0.0.2"), data=Data("u", "d1", 3, "t"))],
        "BlockIP": [dict(source_host=IP("10.0.0.1"), target_host=IP("10.0.0.2"), blocked_host=IP("10.0.0.3")),
                    dict(source_host=IP("10.0.0.1"), target_host=IP("10.0.0.2"), blocked_host=IP("10.0.0.4"))],
        "JoinGame": [dict(agent_info=AgentInfo("a", "Attacker")), dict(agent_info=AgentInfo("b", "Attacker"))],
        "QuitGame": [dict(), dict(request_trajectory=True)],
        "ResetGame": [dict(), dict(request_trajectory=True)],
    }
    syms = []
    for t in types:
        for v in range(2):
            a = Action(getattr(ActionType, t), params[t][v])
            syms.append((t, v, a, a.as_dict))
    # equal symbol index <-> equal as_dict (the model's action identifier)
    for i, j in itertools.combinations(range(len(syms)), 2):
        assert syms[i][3] != syms[j][3]
    return syms


def rolls_for(t, probs):
    """Draws around the type's probability: exact binary64 values as Fractions."""
    if t in probs:
        p = float(probs[t])
        return [0.0, math.nextafter(p, 0.0), p, math.nextafter(p, 1.0), 0.999]
    return [0.0, 0.999]


def spec_detect(tables, tw, hist_syms, a_sym, roll):
    """The property statement, written independently of the code: returns True/False."""
    probs, ratios, consec, repeat = tables
    t = a_sym[0]
    ep = hist_syms + [a_sym]
    if len(ep) < tw:
        return False
    if t not in consec and t not in repeat:
        return False
    window = [s[0] for s in ep[len(ep) - tw:]]
    share = Fraction(window.count(t), tw)
    trig = share >= Fraction(str(ratios[t]))
    if t in consec:
        k = consec[t]
        trig = trig or any(all(x == t for x in window[i:i + k]) for i in range(0, len(window) - k + 1))
    elif t in repeat:
        trig = trig or sum(1 for s in ep if s[:2] == a_sym[:2]) >= repeat[t]
    return bool(trig and roll < probs[t])


def rat(x):
    f = Fraction(x)
    return f"(({f.numerator})%Z, ({f.denominator})%positive)"


def correspondence(ctx):
    # sessions on the real coordinator with the global defender on, several episodes per session: the history handed to the
    # defender must be exactly the actions answered in the current episode (monitor tagged C17 in coordcommon)
    from props import coordcommon as CC
    CC.run_sessions(ctx, "C17", 86 if ctx.tier == "thorough" else 54,
                    lambda r: dict(n_events=r.choice([50, 80]), burst=0.1, fault=0.02, bad=0.02, resets=0.3),
                    lambda r: dict(defender=True, required=r.choice([1, 1, 2]), max_steps=r.choice([3, 6, None])))
    sess_cov = {k: ctx.coverage.get(k) for k in ("sessions", "labels_followed", "response_and_barrier_statistics")}
    impl = _impl()
    gd = impl[0]
    defender = gd.GlobalDefender()
    probs = {k.value: v for k, v in defender._DEFAULT_DETECTION_PROBS.items()}
    ratios = {k.value: v for k, v in defender._TW_TYPE_RATIOS_THRESHOLD.items()}
    consec = {k.value: v for k, v in defender._TW_CONSECUTIVE_TYPE_THRESHOLD.items()}
    repeat = {k.value: v for k, v in defender._EPISODE_REPEATED_ACTION_THRESHOLD.items()}
    tables = (probs, ratios, consec, repeat)
    cur = {"roll": 0.0}
    gd.random = lambda: cur["roll"]     # module-level name used by GlobalDefender.stochastic

    thorough = ctx.tier == "thorough"
    # blocks: (types, lmin, lmax, tws, all_rolls)
    blocks = [
        (GAME_TYPES, 0, 3, list(range(1, 9)), False),
        (GAME_TYPES, 4, 4, [5], False),
        (ALL_TYPES, 0, 2, [1, 2, 3, 5], True),
    ]
    if thorough:
        blocks += [(GAME_TYPES, 5, 5, [5], False), (GAME_TYPES, 4, 4, [3, 4, 6, 8, 10, 12], False),
                   (ALL_TYPES, 3, 3, [1, 2, 3, 4, 5], True)]
    # ---- long windows (directed, against the independent statement `spec_detect`): a run that reaches the consecutive threshold, or
    # a repeat, inside a window so long that the type's share stays below its ratio threshold - at the end of the window, in its
    # middle, at its start; and the same one short of the threshold
    long_stats = {"cases": 0, "triggered": 0}
    lsyms = make_symbols(ALL_TYPES, impl)
    by_type = {}
    for sy in lsyms:
        by_type.setdefault(sy[0], []).append(sy)
    filler = by_type["BlockIP"] + by_type["QuitGame"][:1]
    for tw in (range(6, 31) if thorough else (6, 8, 9, 10, 11, 12, 14, 17, 20)):
        for t in list(consec) + list(repeat):
            k = consec.get(t, repeat.get(t))
            for run in (k, k - 1):
                for pos in ("end", "middle", "start"):
                    if run < 1:
                        continue
                    body = [by_type[t][0]] * run if t in repeat else [by_type[t][i % 2] for i in range(run)]
                    pad = [filler[i % len(filler)] for i in range(tw - run)]
                    if pos == "end":
                        ep = pad + body
                    elif pos == "middle":
                        ep = pad[:len(pad) // 2] + body[:-1] + pad[len(pad) // 2:] + body[-1:] if t in repeat else pad[:len(pad) // 2] + body + pad[len(pad) // 2:]
                        if t in consec:
                            ep = ep[:-1] + [by_type[t][0]] if ep[-1][0] != t else ep     # the evaluated action is of type t
                    else:
                        ep = body + pad
                        ep = ep + [by_type[t][0]] if t in repeat else ep[:-1] + [by_type[t][0]]
                    hist_syms, a_sym = ep[:-1], ep[-1]
                    if a_sym[0] != t:
                        continue
                    cur["roll"] = 0.0
                    try:
                        got = defender.stochastic_with_threshold(a_sym[2], [x[3] for x in hist_syms], tw_size=tw)
                    except Exception as e:
                        got = f"exception {type(e).__name__}"
                    exp = spec_detect(tables, tw, hist_syms, a_sym, 0.0)
                    long_stats["cases"] += 1
                    long_stats["triggered"] += 1 if exp else 0
                    if got is not exp:
                        ctx.violations.append({
                            "key": f"defender {t} tw={tw} (long window)",
                            "what": f"window of {tw}, {t} run/repeat of {run} at the {pos} of the window (share {sum(1 for x in ep[-tw:] if x[0] == t)}/{tw}): stochastic_with_threshold returned {got} with the draw 0, the property demands {exp}",
                            "replay": {"kind": "defender_case", "history": [[x[0], x[1]] for x in hist_syms], "action": [a_sym[0], a_sym[1]], "tw": tw, "roll": 0.0, "expected": exp}})
    ctx.coverage["long_window_cases"] = long_stats
    casedir = CK.fresh_casedir(ctx)
    paths = []
    meta = []
    evaluations = 0
    nontrivial = 0
    raised = 0
    detected = 0
    samples = []
    for bi, (types, lmin, lmax, tws, all_rolls) in enumerate(blocks):
        syms = make_symbols(types, impl)
        rolls = {t: (rolls_for(t, probs) if all_rolls else [0.0]) for t in types}
        codes = []
        cases = 0
        for n in range(lmin, lmax + 1):
            for h in itertools.product(range(len(syms)), repeat=n):
                hist_dicts = [syms[i][3] for i in h]
                hist_syms = [syms[i] for i in h]
                for ai, s in enumerate(syms):
                    for tw in tws:
                        for r in rolls[s[0]]:
                            cur["roll"] = r
                            try:
                                got = defender.stochastic_with_threshold(s[2], hist_dicts, tw_size=tw)
                                c = 1 if got is True else (0 if got is False else 2)
                            except Exception:
                                c = 2
                                raised += 1
                            codes.append(c)
                            cases += 1
                            exp = spec_detect(tables, tw, hist_syms, s, r)
                            if n + 1 >= tw and (s[0] in consec or s[0] in repeat):
                                nontrivial += 1
                            if c == 1:
                                detected += 1
                            if c != (1 if exp else 0):
                                ctx.violations.append({
                                    "key": f"defender {s[0]} tw={tw}",
                                    "what": f"stochastic_with_threshold returned {got if c != 2 else 'an exception'} but the property demands {exp}",
                                    "replay": {"kind": "defender_case", "history": [[syms[i][0], syms[i][1]] for i in h],
                                               "action": [s[0], s[1]], "tw": tw, "roll": r, "expected": exp}})
                            if len(samples) < 3 and c == 1:
                                samples.append({"history": [f"{syms[i][0]}#{syms[i][1]}" for i in h], "action": f"{s[0]}#{s[1]}",
                                                "tw": tw, "roll": r, "detected": True})
        evaluations += cases
        # canary: flip the last digit; must be reported by Coq as a disagreement in the last word
        canary_word = (len(codes) - 1) // 30
        flipped = list(codes)
        flipped[-1] = (flipped[-1] + 1) % 3
        words = []
        for i in range(0, len(flipped), 30):
            w = 0
            for d in reversed(flipped[i:i + 30]):
                w = w * 4 + d
            words.append(w)
        tlist = sorted({s[0] for s in syms}, key=ALL_TYPES.index)
        rolls_def = "fun t => match t with " + " ".join(
            f"| {t} => [{'; '.join(rat(r) for r in rolls[t])}]" for t in tlist) + (" | _ => []" if len(tlist) < 9 else "") + " end"
        L = ["From NSG Require Import Base.Prelude Model.Defender Model.DefenderEnum Gen.DefenderTables.",
             f"Definition syms : list act := [{'; '.join(f'({s[0]}, {i}%N)' for i, s in enumerate(syms))}].",
             f"Definition rolls : atype -> list rat := {rolls_def}.",
             f"Definition tws : list nat := [{'; '.join(str(t) for t in tws)}]%nat.",
             "Definition expected : list N := [" + "; ".join(str(w) for w in words) + "]%N.",
             f"Definition got := packed (block gen_tables syms {lmin} {lmax} tws rolls).",
             "Eval vm_compute in (diff_from 0%N got expected).", ""]
        p = os.path.join(casedir, f"c17_block{bi}.v")
        with open(p, "w") as f:
            f.write("\n".join(L))
        paths.append(p)
        meta.append((p, codes, canary_word, syms, lmin, lmax, tws, rolls))
    res = CK.run_case_files(ctx, paths)
    disagreements = 0
    import re
    for p, codes, canary_word, syms, lmin, lmax, tws, rolls in meta:
        ok, out = res[p]
        if not ok:
            ctx.stage_errors.append((f"coqc {os.path.basename(p)}", out[-800:]))
            continue
        pairs = re.findall(r"\((\d+)%?N?,\s*(\d+)%?N?\)", out.replace("\n", " "))
        diffs = {int(i): int(g) for i, g in pairs}
        if canary_word not in diffs:
            ctx.stage_errors.append((f"canary {os.path.basename(p)}", "the deliberately wrong expected value was not reported; comparison is not live"))
            continue
        # decode the model's word at the canary position: all digits but the last must agree
        def digits(w, n):
            out = []
            for _ in range(n):
                out.append(w % 4)
                w //= 4
            return out
        for wi, gw in diffs.items():
            lo = wi * 30
            exp_d = codes[lo:lo + 30]
            got_d = digits(gw, len(exp_d))
            for k, (e, g) in enumerate(zip(exp_d, got_d)):
                if e != g:
                    disagreements += 1
                    ctx.broken.append(f"correspondence Model/Defender.v vs global_defender.py: block {os.path.basename(p)} case {lo + k}: implementation {e}, model {g}")
    ctx.coverage = {k: v for k, v in ctx.coverage.items() if k in ('coqchk',)}
    ctx.coverage['coordinator_sessions'] = sess_cov
    ctx.coverage.update({
        "evaluations": evaluations,
        "distinct_nontrivial": nontrivial,
        "rule": "exhaustive enumeration: every history up to the block's length bound over 2 parameter variants of each action type x every action x every window size x draws {0, p-ulp, p, p+ulp, 0.999}; all cases are distinct by construction; non-trivial = episode at least one window long and action type monitored",
        "exhaustive": True,
        "blocks": [{"types": len(b[0]), "hist_len": [b[1], b[2]], "tw": b[3], "all_draws": b[4]} for b in blocks],
        "detected_cases": detected, "implementation_exceptions": raised,
        "disagreements_checked": evaluations, "model_impl_disagreements": disagreements,
        "samples": samples,
        "long_window_cases": long_stats,
    })
    ctx.assumptions += [
        "draws are scripted by replacing the module-level name `random` of global_defender.py",
        "probabilities are the binary64 values the code compares the draw with; Obl/C17_tables.v shows each is within 2^-56 of the decimal written in the source",
        "C17_float covers window sizes up to 512; the coordinator uses the default window size 5",
        "integration clause (detected -> status Fail, end, fail reward) is decided by the coordinator model, see C04/C05",
    ]


def replay(ctx, payload):
    if payload.get("kind") in ("coordinator_session", "coordinator_session_reuse_twin"):
        from props import coordcommon as CC
        return CC.replay_session(ctx, "C17", payload)
    impl = _impl()
    gd = impl[0]
    r = payload
    types = ALL_TYPES
    syms = {(s[0], s[1]): s for s in make_symbols(types, impl)}
    d = gd.GlobalDefender()
    gd.random = lambda: r["roll"]
    hist = [syms[tuple(x)][3] for x in r["history"]]
    got = d.stochastic_with_threshold(syms[tuple(r["action"])][2], hist, tw_size=r["tw"])
    print(f"implementation returned {got}; the property demands {r['expected']}")
    if bool(got) != bool(r["expected"]):
        print(f"VIOLATION property=C17 replay=(this file)")
        return 1
    return 0
