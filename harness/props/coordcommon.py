"""Shared machinery of the coordinator-level properties C01, C04-C07, C09, C10, C16, C18:
random sessions on the real coordinator, the trace-following correspondence with Model/Coord.v,
and direct monitors of the property statements on the implementation's behaviour."""
import copy
import json
import os
import random
import re
import sys

import check as CK


def _imports():
    sys.path[:0] = [CK.HARNESS]
    import coordgen
    import coordrun
    import nsgenv
    return coordgen, coordrun, nsgenv


def decode(raw):
    return json.loads(raw[:-3].decode())


class Monitor:
    """Direct checks of the property statements on one session of the implementation."""

    def __init__(self, S, cfg, CR):
        self.S, self.cfg, self.CR = S, cfg, CR
        self.hits = []                 # (property, key, what)
        self.required = int(cfg["env"].get("required_players", 1))
        self.rew = cfg["env"].get("rewards", {})
        self.goals = None
        self.prev = None               # snapshot before the current segment
        self.sent = {}                 # addr -> list of message descs sent (read or not)
        self.log = {}                  # addr -> per-episode list of (action as_dict, reward, state dict) from OK responses
        self.init_view = {}            # addr -> first view of the episode (from CREATED / RESET_DONE)
        self.seen_out = {}             # addr -> number of chunks already examined
        self.final = {}                # addr -> (reward, view) of the final observation of the episode
        self.write_faults = set()      # connections on which the harness made a write fail
        self.won = set()               # attackers (addresses) whose final observation of the running episode reported Success
        self.role = {}
        self.stats = {}

    def count(self, k):
        self.stats[k] = self.stats.get(k, 0) + 1

    def hit(self, prop, key, what):
        for p in ([prop] if isinstance(prop, str) else prop):
            self.hits.append((p, key, what))

    # ---- per task step -----------------------------------------------------------------------------
    def snapshot(self):
        g = self.S.g
        return {
            "agents": {a: (g._agent_steps.get(a), self.S.view_id(g._agent_states[a]) if a in g._agent_states else None,
                           g._episode_ends.get(a), g._reset_requests.get(a), g._agent_rewards.get(a), a in g._agents_rewarded,
                           g._agent_status[a].value if a in g._agent_status else None)
                       for a in g.agents},
            "served": self.S.d.server_cb.current_connections,
            "live": sum(1 for c in self.S.d.conns.values() if not c.task.done() and self.S.conn_state(c) in (1, 2)),
        }

    def on_step(self, label):
        g = self.S.g
        now = self.snapshot()
        prev = self.prev or now
        # C18: the counter never exceeds the limit and equals the number of served connections
        if now["served"] > self.required:
            self.hit("C18", "over limit", f"{now['served']} connections served with a limit of {self.required}")
        if now["served"] != now["live"]:
            self.hit("C18", "counter drift", f"connection counter {now['served']} but {now['live']} connections are being served")
        if label == "LRun TRewards":
            changed = [a for a in now["agents"] if a in prev["agents"] and (now["agents"][a][4] != prev["agents"][a][4] or now["agents"][a][5] != prev["agents"][a][5])]
            if changed and not all(v[2] for v in prev["agents"].values()):
                self.hit("C06", "rewards before all ended", "the reward task assigned final rewards while an agent in the game had not finished")
            for a in changed:
                if prev["agents"][a][5]:
                    self.hit("C05", "bonus twice", "an agent that was already rewarded in this episode had its reward changed again by the reward task")
        elif label == "LRun TReset":
            reset = [a for a in now["agents"] if a in prev["agents"] and prev["agents"][a][0] and now["agents"][a][0] == 0]
            if reset and not all(v[3] for v in prev["agents"].values()):
                self.hit("C07", "reset without consensus", "the game was reset although an agent in the game had not asked for it")
            # C08 at the coordinator level: when the reset task resets the game (consensus reached, requests withdrawn), the world
            # is exactly the pristine world again, whoever acted or left before
            if prev["agents"] and all(v[3] for v in prev["agents"].values()) and now["agents"] and not any(v[3] for v in now["agents"].values()):
                w = self.world_snapshot()           # under dynamic addresses: read back through the published address map
                # the fresh views are views of THIS world: the hosts an agent controls after the reset exist in it
                addrs = {str(k) for k in g._ip_to_hostname}
                for a in g.agents:
                    stv = g._agent_states.get(a)
                    if stv is not None:
                        gone = sorted(str(h) for h in stv.controlled_hosts if str(h) not in addrs)
                        if gone:
                            self.hit(["C07", "C13"], "fresh view names hosts that do not exist", f"after the collective reset an agent's initial view controls {gone}, addresses that do not exist in the (re-labelled) network")
                if w is not None and self.world0 is not None and w != self.world0:
                    diff = [k for k in w if w[k] != self.world0[k]]
                    self.hit(["C08", "C07"], "world not restored by the reset task", f"after the collective reset the world tables {diff} differ from their initial condition")
                self.count("resets_world_checked")
                self.won.clear()
        else:
            # C05: once rewarded, the reward does not change until the reset
            for a, v in now["agents"].items():
                if a in prev["agents"] and prev["agents"][a][5] and v[5] and v[4] != prev["agents"][a][4]:
                    self.hit("C05", "reward changed after bonus", f"the reward of a rewarded agent changed outside the reward/reset tasks ({label})")
        # C07/C12-style: nobody's counters change in a segment that is not its own handler / reset / rewards
        m = re.match(r"LRun \(THandler (\d+)\)", label)
        if m or label == "LRun TDispatch" or label.startswith("LRun (TConn"):
            owner = None
            if m:
                t = self.S.handler_tasks[int(m.group(1))]
                owner = getattr(t, "_verif_addr", None) or self.S._task_addr(t)
            for a, v in now["agents"].items():
                if a != owner and a in prev["agents"] and (v[0], v[1], v[2]) != prev["agents"][a][:3]:
                    self.hit("C10" if (owner is not None and owner not in now["agents"]) else "C07", "foreign change",
                             f"steps/view/end flag of an agent changed in a segment of another agent ({label})")
        self.prev = now

    def world_snapshot(self):
        g = self.S.g
        try:
            # current address -> the scenario's address (identity with static addresses)
            back = {str(cur): str(orig) for orig, cur in getattr(g, "_ip_mapping", {}).items()}
            tr = lambda x: back.get(str(x), str(x))
            return {"data": {str(k): sorted(repr(d) for d in v) for k, v in g._data.items()},
                    "firewall": {tr(k): sorted(tr(x) for x in v) for k, v in g._firewall.items()},
                    "blocks": {tr(k): sorted(tr(x) for x in v) for k, v in g._fw_blocks.items() if v}}
        except Exception:
            return None

    # ---- outputs ---------------------------------------------------------------------------------------
    def scan_outputs(self):
        g = self.S.g
        for addr, c in self.S.d.conns.items():
            n0 = self.seen_out.get(addr, 0)
            for raw in c.writer.chunks[n0:]:
                self.check_response(addr, raw)
            self.seen_out[addr] = len(c.writer.chunks)

    def check_response(self, addr, raw):
        g = self.S.g
        if not raw.endswith(b"EOF"):
            self.hit("C15", "framing", "response without end-of-message marker")
            return
        try:
            doc = decode(raw)
            if not isinstance(doc, dict):
                raise ValueError("not a JSON object")
        except Exception as e:
            self.hit(["C15", "C01", "C09"], "response not JSON", f"a response is not one JSON document followed by the end-of-message marker: {raw[:120]!r} ({e})")
            return
        st = doc.get("status", "").replace("GameStatus.", "")
        self.count(f"resp:{st}")
        reqs = [d for d in self.sent.get(addr, [])]
        nresp = self.seen_out.get(addr, 0) + 1
        obs = doc.get("observation")
        # C09: the request this response answers (responses come in the order of the requests of a connection)
        if nresp - 1 < len(reqs):
            rq = reqs[nresp - 1]
            k = rq.get("kind")
            bad_request = (k in ("garbage", "undecodable") or (k == "game" and not rq.get("valid", True)) or
                           (k == "join" and (not rq.get("info", True) or not isinstance(rq.get("role"), str) or rq.get("role") not in ("Attacker", "Defender", "Benign"))))
            if bad_request and st in ("OK", "CREATED", "RESET_DONE"):
                self.hit("C09", "bad request accepted", f"a request that is not well formed ({k}: {str(rq.get('_text') or '')[:160]}) was answered with {st} instead of an error status")
        if st in ("CREATED", "RESET_DONE", "OK", "FORBIDDEN") and g._agent_states.get(addr) is not None:
            import worldlib as _WL
            shape = _WL.shape_errors(g._agent_states[addr])
            if shape:
                self.hit(["C15", "C11"], "held view is not made of sets",
                         f"the view the coordinator holds when it answers {st} is not well-formed ({'; '.join(shape[:3])}): it is not equal to what the response decodes to")
        if st in ("CREATED", "RESET_DONE"):
            held = g._agent_states.get(addr)
            if held is not None and self.S.view_id(held) != self.S.view_id(obs["state"]):
                self.hit("C15", "view differs", f"the view in the {st} response is not the view the coordinator holds for this agent")
        if st == "CREATED":
            if self.world0 is None and not any(self.log.values()):
                self.world0 = self.world_snapshot()          # nobody has acted yet: the pristine world
            self.init_view[addr] = obs["state"]
            self.log[addr] = []
            self.final.pop(addr, None)
            if len(g.agents) < self.required and not g._episode_start_event.is_set():
                pass
            if obs["reward"] != 0 or obs["end"]:
                self.hit("C04", "created observation", "the join confirmation does not carry reward 0 and end False")
        elif st == "OK":
            desc = self.last_game.get(addr)
            self.log.setdefault(addr, []).append((desc["as_dict"] if desc else None, obs["reward"], obs["state"]))
            role = g.agents.get(addr, (None, None))[1]
            step_r = self.rew.get("step", 0)
            if not obs["end"]:
                if obs["reward"] != step_r:
                    self.hit("C05", "step reward", f"a non-final observation carries reward {obs['reward']} instead of the step reward {step_r}")
                if "end_reason" in obs["info"]:
                    self.hit("C04", "reason before end", "a non-final observation reports an end reason")
            else:
                reason = obs["info"].get("end_reason", "").replace("AgentStatus.", "")
                bonus = {"Attacker": self.rew.get("success", 0) if reason == "Success" else self.rew.get("fail", 0),
                         "Defender": self.rew.get("success", 0) if reason == "Success" else self.rew.get("fail", 0)}.get(role, 0)
                if obs["reward"] != step_r + bonus:
                    self.hit("C05", "final reward", f"final observation of a {role} with reason {reason} carries reward {obs['reward']}, expected {step_r + bonus}")
                if role == "Attacker":
                    goal_ok = self.CR.ref_goal(self.goals["Attacker"], self.S.view_back(obs["state"]))
                    if (reason == "Success") != goal_ok:
                        self.hit("C04", "success reason", f"attacker's end reason is {reason} but the goal is {'reached' if goal_ok else 'not reached'} in the final view")
                    ms = self.cfg["coordinator"]["agents"]["Attacker"].get("max_steps")
                    nsteps = len(self.log[addr])
                    if reason == "TimeoutReached" and (not ms or nsteps != int(ms)):
                        self.hit("C04", "timeout reason", f"TimeoutReached after {nsteps} actions with max_steps={ms}")
                    if reason not in ("Success", "Fail", "TimeoutReached"):
                        self.hit("C04", "end without reason", f"an attacker's episode ended with reason '{reason}'")
                    if reason == "Fail" and not self.cfg["env"].get("use_global_defender"):
                        self.hit("C04", "fail without defender", "an attacker failed although the global defender is off")
                if role == "Attacker" and reason == "Success":
                    self.won.add(addr)
                if role == "Defender":
                    # an attacker in the game succeeded in this episode: by the coordinator's tables, or by what that attacker was TOLD
                    # (its final observation said Success; nothing but the next episode takes that back)
                    att_success = any(g._agent_status[a].value == "Success" for a, (_, r) in g.agents.items() if r == "Attacker") or \
                        any(a in g.agents and g.agents[a][1] == "Attacker" for a in self.won)
                    if (reason == "Success") == att_success:
                        self.hit(["C04", "C05", "C06"], "defender reason", f"defender's reason is {reason} while an attacker {'succeeded' if att_success else 'did not succeed'}")
                self.final[addr] = (obs["reward"], obs["state"])
            held = g._agent_states.get(addr)
            if held is not None and self.S.view_id(held) != self.S.view_id(obs["state"]):
                self.hit("C15", "view differs", "the view in the response is not the view the coordinator holds")
            wr = self.world_result.pop(addr, None)
            if wr is not None and self.S.view_id(wr) != self.S.view_id(obs["state"]):
                self.hit(["C16", "C15"], "response is not the world's result", "the OK response does not carry the view the world returned for this action")
        elif st == "FORBIDDEN":
            if addr in self.final:
                fr, fv = self.final[addr]
                if obs["reward"] != fr:
                    self.hit("C05", "forbidden reward", f"a refused action reports reward {obs['reward']}, the final observation had {fr}")
                if self.S.view_id(obs["state"]) != self.S.view_id(fv):
                    self.hit("C04", "forbidden view", "a refused action reports a different view than the final observation")
            if not obs["end"]:
                self.hit("C04", "forbidden end", "a refused action reports end False")
        elif st == "RESET_DONE":
            if obs["reward"] != 0 or obs["end"]:
                self.hit("C07", "reset observation", "RESET_DONE does not carry reward 0 and end False")
            lt = doc["message"].get("last_trajectory")
            want = self.last_reset.get(addr)
            if want and lt is None:
                self.hit("C16", "trajectory missing", "RESET_DONE lacks the requested trajectory")
            if not want and lt is not None:
                self.hit("C16", "trajectory unrequested", "RESET_DONE carries a trajectory that was not requested")
            if lt is not None and addr in self.init_view:
                tr = lt["trajectory"]
                exp_states = [self.init_view[addr]] + [x[2] for x in self.log.get(addr, [])]
                exp_actions = [x[0] for x in self.log.get(addr, [])]
                exp_rewards = [x[1] for x in self.log.get(addr, [])]
                if ([self.S.view_id(s) for s in tr["states"]] != [self.S.view_id(s) for s in exp_states] or
                        tr["actions"] != exp_actions or tr["rewards"] != exp_rewards):
                    self.hit("C16", "trajectory differs", "the trajectory handed out differs from the actions, rewards and views of the OK responses of that episode")
                if not (len(tr["states"]) == len(tr["actions"]) + 1 == len(tr["rewards"]) + 1):
                    self.hit("C16", "trajectory shape", "trajectory does not have one more state than actions and as many rewards as actions")
            self.init_view[addr] = obs["state"]
            self.log[addr] = []
            self.final.pop(addr, None)
        elif st == "BAD_REQUEST":
            pass

    # ---- the glue between coordinator, world and global defender ---------------------------------------
    def on_world_step(self, agent_id, agent_state, action):
        """The world must be stepped with the agent's stored view and the action the agent sent."""
        g = self.S.g
        held = g._agent_states.get(agent_id)
        if held is not None and agent_state is not held and self.S.view_id(held) != self.S.view_id(agent_state):
            self.hit(["C16", "C04"], "world stepped with another view", "the world was stepped with a view that is not the agent's current view")
        sent = self.last_game.get(agent_id)
        try:
            same = sent is None or sent.get("as_dict") is None or json.dumps(action.as_dict, sort_keys=True, default=str) == json.dumps(sent["as_dict"], sort_keys=True, default=str)
        except Exception:
            same = True
        if not same:
            self.hit(["C16", "C14"], "world stepped with another action", "the world was stepped with another action than the one the agent sent")

    def on_defender_call(self, agent, action, episode_actions):
        """C17: the defender decides on the episode's history (the actions answered OK in this episode) and nothing else."""
        exp = [x[0] for x in self.log.get(agent, [])]
        try:
            got = json.loads(json.dumps(list(episode_actions), default=str))
            same = json.dumps(got, sort_keys=True) == json.dumps(json.loads(json.dumps(exp, default=str)), sort_keys=True)
        except Exception:
            same = True
        if not same:
            self.hit(["C17", "C16"], "defender history", f"the global defender was given a history of {len(list(episode_actions))} actions, this episode has {len(exp)} answered actions")
        self.count("defender_calls")

    # ---- at quiescence ------------------------------------------------------------------------------
    def at_quiescence(self):
        """C01: every request is answered unless one of the three barriers holds it back."""
        g = self.S.g
        self.scan_outputs()
        extra = self.S.d.extra_timers()
        if extra > 0 and not getattr(self, "_timers_reported", False):
            self._timers_reported = True
            # the coordinator armed a timer beyond its idle heart-beats: what it does next depends on wall-clock time.  Let the
            # time pass (virtual clock) and look at what the agents get.
            self.hit(["C01", "C06", "C07", "C15"], "timer armed",
                     f"at quiescence the coordinator has {extra} timer(s) armed beyond its idle heart-beats: an answer now depends on how long a barrier takes (the protocol and the model know no time-outs)")
            before = {a: len(c.writer.chunks) for a, c in self.S.d.conns.items()}
            self.S.d.advance_time(86400)
            self.scan_outputs()
            for a, c in self.S.d.conns.items():
                new = c.writer.chunks[before.get(a, 0):]
                if new:
                    self.hit(["C01", "C15"], "answer produced by the passing of time",
                             f"after time passed the coordinator sent {[decode(r).get('status') if r.endswith(b'EOF') else r[:40] for r in new][:3]} to an agent whose request is held at a barrier: that request will later be answered a second time, and every later answer is paired with the wrong request")
        for addr, c in self.S.d.conns.items():
            nreq = self.consumed.get(addr, 0)
            nresp = len(c.writer.chunks)
            closed = c.task.done()
            if nresp > nreq:
                self.hit("C01", "unsolicited response", f"{nresp} responses for {nreq} requests")
            if closed:
                if nreq - nresp > 1:
                    self.hit("C01", "unanswered at close", f"connection closed with {nreq - nresp} unanswered requests")
                elif (nreq - nresp == 1 and self.last_kind.get(addr) in ("join", "game", "reset", "garbage") and not c.reader._eof
                      and c.reader._exception is None and addr not in self.write_faults):
                    # the peer did nothing to end the connection (no EOF, no reset, no failing write) and did not ask to quit: the
                    # server ended it instead of answering
                    self.hit("C01", "closed instead of answered", f"the server closed a connection instead of answering its last request (a {self.last_kind.get(addr)} request); the peer had neither left nor asked to quit")
                continue
            if nreq - nresp > 1:
                self.hit("C01", "two outstanding", "more than one request outstanding on a connection")
            if nreq - nresp == 1:
                kind = self.last_kind.get(addr)
                ok = False
                if kind == "join":
                    ok = addr in g.agents and not g._episode_start_event.is_set() and len(g.agents) < self.required
                elif kind == "game":
                    ok = addr in g.agents and g._episode_ends.get(addr) and not all(g._episode_ends.values())
                elif kind == "reset":
                    ok = addr in g.agents and ((not all(g._reset_requests.values())) or
                                               (not g._episode_start_event.is_set() and len(g.agents) < self.required))
                if not ok:
                    self.hit("C01", f"unanswered {kind}", f"a {kind} request is unanswered at quiescence although no barrier holds it back")
                    if c.reader._eof or c.reader._exception is not None:
                        self.hit(["C18", "C10"], "slot of an ended connection not given back",
                                 f"the peer of a connection has gone (EOF / reset) but at quiescence the connection is still being served - its {kind} request was never answered, so the handler never reads again and the slot stays taken")
                self.count(f"parked:{kind}")

    world_result = None
    world0 = None
    consumed = None
    last_kind = None
    last_game = None
    last_reset = None


def instrument(S, cfg, CR, goals):
    """Attach a monitor to a session (wraps the session's event methods)."""
    M = Monitor(S, cfg, CR)
    M.goals = goals
    M.consumed, M.last_kind, M.last_game, M.last_reset = {}, {}, {}, {}
    M.world_result = {}
    g = S.g
    orig_step = g.step

    async def step(agent_id=None, agent_state=None, action=None):
        M.on_world_step(agent_id, agent_state, action)
        res = await orig_step(agent_id=agent_id, agent_state=agent_state, action=action)
        M.world_result[agent_id] = res
        return res
    g.step = step
    if getattr(g, "_global_defender", None) is not None:
        orig_detected = g.is_detected
        gd = g._global_defender
        orig_swt = gd.stochastic_with_threshold
        cur = {}

        def is_detected(agent):
            cur["agent"] = agent
            try:
                return orig_detected(agent)
            finally:
                cur.pop("agent", None)

        def swt(action, episode_actions, *a, **k):
            if "agent" in cur:
                M.on_defender_call(cur["agent"], action, episode_actions)
            return orig_swt(action, episode_actions, *a, **k)
        g.is_detected = is_detected
        gd.stochastic_with_threshold = swt
    orig_seg = S._segment

    def seg(lab, task):
        n = len(S.trace)
        orig_seg(lab, task)
        if len(S.trace) > n:
            label = S.trace[-1][0]
            # responses written in this step answer requests consumed earlier
            M.scan_outputs()
            # count requests when the connection handler reads them
            if label.startswith("LRun (TConn"):
                for addr, c in S.d.conns.items():
                    pend = M.pending.get(addr)
                    if pend and len(c.reader._buffer) == 0:
                        for d in pend:
                            if d["kind"] != "undecodable":
                                M.consumed[addr] = M.consumed.get(addr, 0) + 1
                                M.last_kind[addr] = d["kind"]
                                if d["kind"] == "game":
                                    M.last_game[addr] = d
                                if d["kind"] == "reset":
                                    M.last_reset[addr] = bool(d.get("traj"))
                        M.pending[addr] = []
            M.on_step(label)
            M.scan_outputs()
    S.d.on_segment = seg
    M.pending = {}
    orig_send = S.send

    def send(addr, text, desc):
        if orig_send(addr, text, desc) is False:
            return False                      # not sendable (connection ended / previous message unread): no event
        M.pending.setdefault(addr, []).append(desc)
        M.sent.setdefault(addr, []).append(dict(desc, _text=(text if isinstance(text, str) else repr(text))[:200]))
        return True
    S.send = send
    orig_wf = S.write_fail

    def write_fail(addr):
        M.write_faults.add(addr)
        return orig_wf(addr)
    S.write_fail = write_fail
    orig_settle = S.settle

    def settle():
        orig_settle()
        M.at_quiescence()
    S.settle = settle
    return M


def run_sessions(ctx, prop, n_sessions, gen_opts, cfg_opts=None, extra_monitor=None, n_directed=48, rename=False, scale=False):
    """Generate sessions, follow them with the model, collect this property's monitor hits."""
    CG, CR, nsgenv = _imports()
    rng0 = random.Random(ctx.seed * 104729 + int(prop[1:]))
    casedir = CK.fresh_casedir(ctx)
    paths, metas = [], []
    stats = {}
    labels = 0
    twin = {"sessions": 0, "connections_from_a_departed_agents_address": 0, "differences": 0}
    rtwin = {"sessions": 0, "connections": 0, "differences": 0}
    stwin = {"sessions": 0, "connections": 0, "differences": 0}
    for i in range(n_sessions):
        rng = random.Random(rng0.randrange(1 << 40))
        if i < n_directed and i % 24 == 21 and prop not in ("C16", "C17") and ctx.tier != "thorough":
            continue        # the 100-action episode (17 s inside Coq): every run of C16 and C17, thorough runs of the others
        if i < n_directed:
            # directed scenarios first: the monitor is attached by wrapping Session creation
            holder = {}
            orig_init = CR.Session.__init__

            def init(self, cfg_, *a, **k):
                orig_init(self, cfg_, *a, **k)
                holder["M"] = instrument(self, cfg_, CR, CG.goals_of(cfg_))
            CR.Session.__init__ = init
            try:
                S, cfg, draw = CG.directed(rng, i)
            except Exception as e:
                import traceback
                ctx.stage_errors.append((f"directed session {i}", f"{type(e).__name__}: {e}\n{traceback.format_exc()[-600:]}"))
                continue
            finally:
                CR.Session.__init__ = orig_init

            class _G:
                pass
            G = _G()
            G.S = S
            G.run = lambda S=S: S
            M = holder["M"]
        else:
            cfg, draw = CG.gen_config(rng, **(cfg_opts(rng) if cfg_opts else {}))
            opts = gen_opts(rng) if callable(gen_opts) else dict(gen_opts)
            G = CG.Gen(rng, cfg, draw, **opts)
            M = instrument(G.S, cfg, CR, CG.goals_of(cfg))
        try:
            try:
                S = G.run()
            except Exception as e:
                import traceback
                ctx.stage_errors.append((f"session {i}", f"{type(e).__name__}: {e}\n{traceback.format_exc()[-600:]}"))
                continue
            M.at_quiescence()
            if extra_monitor:
                extra_monitor(M, S, cfg)
            for e in S.d.task_errors:
                for p in ("C01", "C09"):
                    M.hit(p, "task died", f"a coordinator task died with an exception: {e}")
            txt = CR.session_to_coq(S, CG.goals_of(cfg), cfg["env"]["use_global_defender"])
            events = list(S.events)
            ntrace = len(S.trace)
            labels += ntrace
            ref_out = norm_outputs(S)
            ref_errs = len(S.d.task_errors)
        finally:
            G.S.close()
        # address reuse twin: only where a later connection has a departed agent's address to come from
        dead_before_connect = False
        seen_end = False
        for e in events:
            if e[0] in ("eof", "readerr", "writefail") or (e[0] == "send" and e[3].get("kind") in ("quit", "undecodable")):
                seen_end = True
            elif e[0] == "connect" and seen_end:
                dead_before_connect = True
        if dead_before_connect:
            try:
                reused, out2, errs2 = reuse_twin(CR, cfg, draw, events)
                twin["sessions"] += 1
                twin["connections_from_a_departed_agents_address"] += reused
                if reused and (out2 != ref_out or len(errs2) != ref_errs):
                    diff = [k for k in ref_out if out2.get(k) != ref_out[k]]
                    twin["differences"] += 1
                    ctx.violations.append({"key": "a departed agent's address is remembered",
                                           "what": f"the same session answers differently when a new connection comes from the address of an agent that has left ({len(diff)} connection(s) differ, task errors {errs2[:1]}): the coordinator has not forgotten the departed agent completely, although the model (fresh addresses) and the property say it must",
                                           "replay": {"kind": "coordinator_session_reuse_twin", "config": cfg, "draw": draw, "events": events}})
            except Exception as e:
                import traceback
                ctx.stage_errors.append((f"reuse twin of session {i}", f"{type(e).__name__}: {e}\n{traceback.format_exc()[-600:]}"))
        if scale:
            try:
                out4, errs4 = scale_twin(CR, cfg, draw, events)
                stwin["sessions"] += 1
                stwin["connections"] += len(out4)
                if out4 != scale_outputs(ref_out) or len(errs4) != ref_errs:
                    diff = [k for k in ref_out if out4.get(k) != scale_outputs(ref_out)[k]]
                    stwin["differences"] += 1
                    ctx.violations.append({"key": "rewards are not the configured numbers and their sums",
                                           "what": f"the same session with the three configured rewards divided by 16 does not answer with every reward divided by 16 and everything else unchanged ({len(diff)} connection(s) differ, task errors {errs4[:1]}); the model does (C05_rewards_scale)",
                                           "replay": {"kind": "coordinator_session_scale_twin", "config": cfg, "draw": draw, "events": events}})
            except Exception as e:
                import traceback
                ctx.stage_errors.append((f"scale twin of session {i}", f"{type(e).__name__}: {e}\n{traceback.format_exc()[-600:]}"))
        if rename:
            try:
                out3, errs3 = rename_twin(CR, cfg, draw, events)
                rtwin["sessions"] += 1
                rtwin["connections"] += len(out3)
                if out3 != ref_out or len(errs3) != ref_errs:
                    diff = [k for k in ref_out if out3.get(k) != ref_out[k]]
                    rtwin["differences"] += 1
                    ctx.violations.append({"key": "the game depends on the peer addresses",
                                           "what": f"the same configuration, seed and messages give other responses when the connections come from other peer addresses (a one-to-one renaming that reverses their order): {len(diff)} connection(s) differ, task errors {errs3[:1]}; the model answers identically (C20_peer_addresses)",
                                           "replay": {"kind": "coordinator_session_rename_twin", "config": cfg, "draw": draw, "events": events}})
            except Exception as e:
                import traceback
                ctx.stage_errors.append((f"rename twin of session {i}", f"{type(e).__name__}: {e}\n{traceback.format_exc()[-600:]}"))
        p = os.path.join(casedir, f"sess_{i}.v")
        with open(p, "w") as f:
            f.write(txt)
        paths.append(p)
        metas.append((p, ntrace, events, cfg, draw, M))
        for k, n in M.stats.items():
            stats[k] = stats.get(k, 0) + n
    res = CK.run_case_files(ctx, paths)
    disagreements = 0
    distinct = set()
    for p, ntrace, events, cfg, draw, M in metas:
        ok, out = res[p]
        m = re.search(r"=\s*\((\d+),\s*(\d+)%Z,\s*\[(.*?)\],\s*(true|false)\)", out.replace("\n", " ")) if ok else None
        if not m:
            ctx.stage_errors.append((f"coqc {os.path.basename(p)}", out[-600:]))
            continue
        idx, code, q = int(m.group(1)), int(m.group(2)), m.group(4)
        if code != 0 or q != "true":
            disagreements += 1
            what = {1: "label not enabled in the model", 2: "state differs after the label", 0: "model not quiescent at the end"}[code]
            ctx.broken.append(f"trace-following correspondence Model/Coord.v vs coordinator.py: session {os.path.basename(p)} label {idx}/{ntrace}: {what}")
            ctx.mismatch_sessions = getattr(ctx, "mismatch_sessions", []) + [{"events": events, "config": cfg, "draw": draw, "label_index": idx}]
        for (hp, key, what) in M.hits:
            if hp == prop:
                ctx.violations.append({"key": key, "what": what,
                                       "replay": {"kind": "coordinator_session", "config": cfg, "draw": draw, "events": events}})
        distinct.add(json.dumps([e[0] if e[0] != "send" else [e[0], e[3].get("kind")] for e in events]))
    ctx.coverage.update({
        "evaluations": labels,
        "distinct_nontrivial": len(distinct),
        "rule": "random multi-agent sessions on the real coordinator (random required players 1-3, step limits, rewards, defender on/off with scripted draw, goals reachable in 1-4 actions; valid, malformed and out-of-order messages; departures by EOF, read error, write error, undecodable bytes, QuitGame; settled and burst arrival); every atomic task step is one label, the model must enable it and agree on the whole observable state after it; distinct = distinct event-kind sequences; non-trivial = every session (each contains joins, actions and at least one barrier or fault)",
        "sessions": len(metas), "labels_followed": labels,
        "traces_validated_against_impl": len(metas) - disagreements,
        "response_and_barrier_statistics": stats,
        "address_reuse_twins": twin,
        **({"address_renaming_twins": rtwin} if rename else {}),
        **({"reward_scaling_twins": stwin} if scale else {}),
        "disagreements_checked": labels, "model_impl_disagreements": disagreements,
        "samples": [[(e[0] if e[0] != "send" else f"send:{e[3].get('kind')}") for e in metas[0][2][:25]]] if metas else [],
    })
    ctx.assumptions += [
        "one label = one step of an asyncio task (CPython 3.12 pure-Python Task, stepped by the harness); the model allows any enabled task to run, the implementation's schedules are particular ones",
        "connection addresses are fresh in the model (reuse of a departed agent's address is decided by the address-reuse twin: the same session with later connections coming from departed agents' peer addresses must answer identically); at most one unread chunk per connection (a second message before the first was read would be coalesced by StreamReader.read and is a malformed message)",
        "the world is an oracle in this instance (views are interned identifiers, results of the real world calls in call order); the world model is tied separately (C02/C03)",
        "the goal check is the harness' reference subset check; detection is Model/Defender.v on the generated tables with the session's scripted draw",
        "a peer that disappears while its request is parked is observed only at the next read/write (TCP/asyncio behaviour, outside the model)",
    ]
    return metas


def apply_event(S, e, peer=None):
    """Apply one recorded session event to a Session."""
    k = e[0]
    a = tuple(e[1]) if len(e) > 1 and isinstance(e[1], list) else None
    if k == "connect":
        S.connect(a, peer)
    elif k == "send":
        text = e[2]
        desc = e[3]
        if desc.get("kind") == "undecodable":
            text = bytes.fromhex(text)
        S.send(a, text, desc)
    elif k == "eof":
        S.eof(a)
    elif k == "readerr":
        S.read_error(a)
    elif k == "writefail":
        S.write_fail(a)
    elif k == "settle":
        S.settle()
    elif k == "run":
        S.run_iters(e[1])


def norm_outputs(S):
    """Per connection key: the responses written, decoded, without the address they are addressed to."""
    out = {}
    for key, c in S.d.conns.items():
        rs = []
        for raw in c.writer.chunks:
            try:
                doc = json.loads(raw[:-3].decode())
                if isinstance(doc, dict):
                    doc.pop("to_agent", None)
                rs.append([raw[-3:].decode("latin1"), doc])
            except Exception:
                rs.append(["raw", raw.hex()])
        out[key] = (rs, c.task.done())
    return out


def reuse_twin(CR, cfg, draw, events):
    """The same session once more on the real coordinator, except that a connection arriving at a quiescent moment comes from the
    peer address of an earlier connection that has ended and left the game (port reuse).  The coordinator identifies agents by
    peer address; it must have forgotten the departed agent completely (C10), so the twin must answer exactly like the original,
    which the model followed with fresh addresses."""
    S2 = CR.Session(cfg, draw=draw)
    S2.d.on_segment = None
    reused = 0
    try:
        for e in events:
            peer = None
            if e[0] == "connect" and S2.d.quiescent():
                g, srv = S2.g, S2.d.server_cb
                live = {c.peer for c in S2.d.conns.values() if not c.task.done()}
                for c in S2.d.conns.values():
                    if c.task.done() and c.peer not in live and c.peer not in g.agents and c.peer not in srv.answers_queues:
                        peer = c.peer
                        break
                if peer is not None:
                    reused += 1
            apply_event(S2, e, peer)
        S2.settle()
        return reused, norm_outputs(S2), [repr(x) for x in S2.d.task_errors]
    finally:
        S2.close()


def renamed_peer(a):
    """A one-to-one renaming of the peer addresses that REVERSES their order (as tuples and as numbers)."""
    if len(a) != 2 or ":" in str(a[0]):
        return (str(a[0]) + "9", 65535 - int(a[1])) + tuple(a[2:])          # an IPv6 peer (4-tuple)
    ip, port = a
    return (".".join(str(255 - int(o)) for o in ip.split(".")), 65535 - int(port))


def rename_twin(CR, cfg, draw, events):
    """The same session once more on the real coordinator with every connection coming from another peer address (a one-to-one,
    order-reversing renaming): Props/C20_coord.v C20_peer_addresses says the model answers every connection exactly as before."""
    S2 = CR.Session(cfg, draw=draw)
    S2.d.on_segment = None
    try:
        for e in events:
            peer = renamed_peer(tuple(e[1])) if e[0] == "connect" else None
            apply_event(S2, e, peer)
        S2.settle()
        return norm_outputs(S2), [repr(x) for x in S2.d.task_errors]
    finally:
        S2.close()


SCALE_K = 0.0625        # 1/16: exact in binary floating point, and it turns whole rewards into fractions finer than two decimals


def scale_config(cfg, k=SCALE_K):
    c2 = copy.deepcopy(cfg)
    rew = (c2.get("env") or {}).get("rewards")
    if isinstance(rew, dict):
        for name in list(rew):
            if isinstance(rew[name], (int, float)) and not isinstance(rew[name], bool):
                rew[name] = rew[name] * k
    return c2


def scale_outputs(out, k=SCALE_K):
    """What Props/C05_scale.v C05_rewards_scale says the scaled configuration answers: every reward k times, nothing else changed."""
    out = copy.deepcopy(out)
    for key, (rs, done) in out.items():
        for r in rs:
            doc = r[1]
            if not isinstance(doc, dict):
                continue
            obs = doc.get("observation")
            if isinstance(obs, dict) and isinstance(obs.get("reward"), (int, float)):
                obs["reward"] = obs["reward"] * k
            lt = (doc.get("message") or {}).get("last_trajectory") if isinstance(doc.get("message"), dict) else None
            if isinstance(lt, dict) and isinstance(lt.get("trajectory"), dict):
                lt["trajectory"]["rewards"] = [x * k for x in lt["trajectory"].get("rewards", [])]
    return out


def scale_twin(CR, cfg, draw, events):
    """The same session on the real coordinator with the three configured rewards multiplied by 1/16."""
    S2 = CR.Session(scale_config(cfg), draw=draw)
    S2.d.on_segment = None
    try:
        for e in events:
            apply_event(S2, e)
        S2.settle()
        return norm_outputs(S2), [repr(x) for x in S2.d.task_errors]
    finally:
        S2.close()


def replay_session(ctx, prop, payload):
    """Re-run a recorded session on the real coordinator and re-apply this property's monitor."""
    CG, CR, nsgenv = _imports()
    if payload.get("kind") == "coordinator_session_reuse_twin":
        cfg, draw, events = payload["config"], payload.get("draw"), payload["events"]
        S = CR.Session(cfg, draw=draw)
        S.d.on_segment = None
        try:
            for e in events:
                apply_event(S, e)
            S.settle()
            ref = norm_outputs(S)
        finally:
            S.close()
        reused, out, errs = reuse_twin(CR, cfg, draw, events)
        bad = 0
        for key in ref:
            print(key, "fresh addresses:", [(r[1].get("status"), (r[1].get("observation") or {}).get("reward")) if isinstance(r[1], dict) else r for r in ref[key][0]])
            if out.get(key) != ref[key]:
                bad += 1
                print(key, "reused address :", [(r[1].get("status"), (r[1].get("observation") or {}).get("reward")) if isinstance(r[1], dict) else r for r in out.get(key, ([], None))[0]], " <-- differs")
        print(f"{reused} connection(s) came from the address of a departed agent; {bad} connection(s) answered differently; task errors: {errs}")
        if bad or errs:
            print(f"VIOLATION property={prop} replay=(this file)")
            return 1
        return 0
    if payload.get("kind") == "coordinator_session_scale_twin":
        cfg, draw, events = payload["config"], payload.get("draw"), payload["events"]
        S = CR.Session(cfg, draw=draw)
        S.d.on_segment = None
        try:
            for e in events:
                apply_event(S, e)
            S.settle()
            ref = scale_outputs(norm_outputs(S))
        finally:
            S.close()
        out, errs = scale_twin(CR, cfg, draw, events)
        bad = 0
        brief = lambda rs_: [(r[1].get("status"), (r[1].get("observation") or {}).get("reward")) if isinstance(r[1], dict) else r for r in rs_]
        for key in ref:
            print(key, "expected (original rewards / 16):", brief(ref[key][0]))
            if out.get(key) != ref[key]:
                bad += 1
                print(key, "configured rewards / 16        :", brief(out.get(key, ([], None))[0]), " <-- differs")
        print(f"{bad} connection(s) differ from the scaled original; task errors: {errs}")
        if bad:
            print(f"VIOLATION property={prop} replay=(this file)")
            return 1
        return 0
    if payload.get("kind") == "coordinator_session_rename_twin":
        cfg, draw, events = payload["config"], payload.get("draw"), payload["events"]
        S = CR.Session(cfg, draw=draw)
        S.d.on_segment = None
        try:
            for e in events:
                apply_event(S, e)
            S.settle()
            ref = norm_outputs(S)
        finally:
            S.close()
        out, errs = rename_twin(CR, cfg, draw, events)
        bad = 0
        brief = lambda rs_: [(r[1].get("status"), sorted(h["ip"] for h in ((r[1].get("observation") or {}).get("state") or {}).get("controlled_hosts", []))) if isinstance(r[1], dict) else r for r in rs_]
        for key in ref:
            print(key, "original addresses:", brief(ref[key][0]))
            if out.get(key) != ref[key]:
                bad += 1
                print(key, "renamed", renamed_peer(key), ":", brief(out.get(key, ([], None))[0]), " <-- differs")
        print(f"{bad} connection(s) answered differently under the renaming; task errors: {errs}")
        if bad:
            print(f"VIOLATION property={prop} replay=(this file)")
            return 1
        return 0
    if payload.get("kind") != "coordinator_session":
        print(json.dumps(payload, indent=1)[:4000])
        return 0
    cfg, draw, events = payload["config"], payload.get("draw"), payload["events"]
    S = CR.Session(cfg, draw=draw)
    M = instrument(S, cfg, CR, CG.goals_of(cfg))
    try:
        for e in events:
            apply_event(S, e)
        S.settle()
        M.at_quiescence()
        for (hp, key, what) in M.hits:
            print(f"{hp}: {key}: {what}")
        bad = [h for h in M.hits if h[0] == prop]
        for c in S.d.conns.values():
            print(c.addr, [decode(r).get("status") for r in c.writer.chunks])
        if bad:
            print(f"VIOLATION property={prop} replay=(this file)")
            return 1
        return 0
    finally:
        S.close()
