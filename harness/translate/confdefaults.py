"""utils.ConfigParser scalar getters -> coq/Gen/ConfigDefaults.v (fail closed).

For each getter: the key path it reads in self.config, the value it falls back to, and the
exceptions that trigger the fallback."""
import ast
from common import parse, write_if_changed, TranslationError, find_class, find_func

GETTERS = ["get_max_steps", "get_rewards", "get_use_dynamic_addresses", "get_store_trajectories",
           "get_use_firewall", "get_use_global_defender", "get_required_num_players"]


def coq_str(s):
    return '"' + s.replace('"', '""') + '"'


def keypath(node):
    """self.config['a']['b'][name] -> ['a','b','<name>'] (also through int(...) / bool(...))"""
    while isinstance(node, ast.Call) and isinstance(node.func, ast.Name) and node.func.id in ("int", "bool") and len(node.args) == 1:
        node = node.args[0]
    path = []
    while isinstance(node, ast.Subscript):
        sl = node.slice
        if isinstance(sl, ast.Constant):
            path.append(str(sl.value))
        elif isinstance(sl, ast.Name):
            path.append(f"<{sl.id}>")
        else:
            raise TranslationError("unexpected subscript in a config getter")
        node = node.value
    if ast.unparse(node) != "self.config":
        raise TranslationError(f"config getter reads {ast.unparse(node)} instead of self.config")
    return list(reversed(path))


def read():
    src, tree = parse("AIDojoCoordinator/utils/utils.py")
    cp = find_class(tree, "ConfigParser")
    out = []
    for g in GETTERS:
        fn = find_func(cp, g)
        tries = [n for n in ast.walk(fn) if isinstance(n, ast.Try)]
        if len(tries) != 1:
            raise TranslationError(f"{g}: expected exactly one try statement")
        t = tries[0]
        assigns = [s for s in t.body if isinstance(s, ast.Assign)]
        if len(assigns) != 1:
            raise TranslationError(f"{g}: the try block is not a single assignment")
        path = keypath(assigns[0].value)
        conv = assigns[0].value.func.id if isinstance(assigns[0].value, ast.Call) else ""
        target = ast.unparse(assigns[0].targets[0])
        excs, defaults = [], set()
        for h in t.handlers:
            excs.append(ast.unparse(h.type) if h.type is not None else "*")
            d = [s for s in h.body if isinstance(s, ast.Assign) and ast.unparse(s.targets[0]) == target]
            if len(d) != 1:
                raise TranslationError(f"{g}: handler does not assign the fallback value")
            defaults.add(ast.unparse(d[0].value))
        if len(defaults) != 1:
            raise TranslationError(f"{g}: handlers fall back to different values")
        default = defaults.pop()
        if g == "get_rewards":
            # the fallback is the parameter default_value
            dv = [a for a, dflt in zip(fn.args.args[-len(fn.args.defaults):], fn.args.defaults) if a.arg == default]
            if not dv:
                raise TranslationError("get_rewards: fallback is not the parameter default")
            default = ast.unparse([dflt for a, dflt in zip(fn.args.args[-len(fn.args.defaults):], fn.args.defaults) if a.arg == default][0])
        ret = [s for s in ast.walk(fn) if isinstance(s, ast.Return)]
        rexp = ast.unparse(ret[-1].value) if ret else ""
        # the returned expression with the local variable's name abstracted away: "x" or "bool(x)" (anything else is kept verbatim)
        base = target.split("[")[0]
        if rexp in (target, base):
            rexp = "x"
        elif rexp in (f"bool({target})", f"bool({base})"):
            rexp = "bool(x)"
        out.append((g, path, conv, default, sorted(excs), rexp))
    # start-up glue: which settings start_tasks reads, and into what
    csrc, ctree = parse("AIDojoCoordinator/coordinator.py")
    gc = find_class(ctree, "GameCoordinator")
    st = find_func(gc, "start_tasks")
    # which settings the start-up code reads (names of the getters called on self.task_config in start_tasks and in the
    # per-role step-limit helper it uses); how the values are stored is decided by the correspondence, not here
    import re
    glue = set()
    for fn_name in ("start_tasks", "_get_max_steps_per_role"):
        for n in ast.walk(find_func(gc, fn_name)):
            if isinstance(n, ast.Call) and isinstance(n.func, ast.Attribute) and ast.unparse(n.func.value) == "self.task_config" and n.func.attr in GETTERS:
                glue.add((fn_name, n.func.attr))
    return out, sorted(glue)


def emit(both):
    items, glue = both
    L = ["(* GENERATED from AIDojoCoordinator/utils/utils.py by harness/translate/confdefaults.py; do not edit *)",
         "From Coq Require Import String List.", "Import ListNotations.", "Open Scope string_scope.", ""]
    L.append("Definition gen_config_getters : list (string * list string * string * string * list string * string) := [")
    L.append(";\n".join("  (%s, [%s], %s, %s, [%s], %s)" % (coq_str(g), "; ".join(coq_str(p) for p in path), coq_str(conv), coq_str(d),
                                                          "; ".join(coq_str(e) for e in excs), coq_str(ret))
                        for g, path, conv, d, excs, ret in items))
    L.append("].")
    L.append("Definition gen_startup_glue : list (string * string) := [")
    L.append(";\n".join("  (%s, %s)" % (coq_str(a), coq_str(b)) for a, b in glue))
    L.append("].")
    L.append("")
    return "\n".join(L)


def main():
    items = read()
    write_if_changed("ConfigDefaults.v", emit(items))
    return items


if __name__ == "__main__":
    import pprint
    pprint.pprint(main())
