(* M5: reading a scalar setting of the task configuration (utils.ConfigParser getters).  A getter is described by
   the descriptor that harness/translate/confdefaults.py regenerates from utils.py on every run (Gen/ConfigDefaults.v):
   (name, key path, conversion, fallback literal, exceptions that trigger the fallback, returned expression).
   `read` is what such a getter returns on a parsed configuration (a JSON-like tree: yaml.safe_load).  No proofs. *)
From Coq Require Import String ZArith List Bool.
From NSG Require Import Model.Json.
Import ListNotations.
Open Scope string_scope.

Definition descriptor := (string * list string * string * string * list string * string)%type.
Definition d_name (d : descriptor) : string := fst (fst (fst (fst (fst d)))).
Definition d_path (d : descriptor) : list string := snd (fst (fst (fst (fst d)))).
Definition d_conv (d : descriptor) : string := snd (fst (fst (fst d))).
Definition d_default (d : descriptor) : string := snd (fst (fst d)).
Definition d_excs (d : descriptor) : list string := snd (fst d).
Definition d_ret (d : descriptor) : string := snd d.

(* value[k] for a string key k, as Python evaluates it *)
Definition subscript1 (v : json) (k : string) : json + string :=
  match v with
  | JObj o => match jget k o with Some v' => inl v' | None => inr "KeyError" end
  | _ => inr "TypeError"          (* None, numbers and booleans are not subscriptable; lists and strings need integer indices *)
  end.
Fixpoint subscript (v : json) (path : list string) : json + string :=
  match path with
  | [] => inl v
  | k :: tl => match subscript1 v k with inl v' => subscript v' tl | inr e => inr e end
  end.

(* int(v): the configurations considered contain no numeric strings and no floats *)
Definition py_int (v : json) : json + string :=
  match v with
  | JNum z => inl (JNum z)
  | JBool b => inl (JNum (if b then 1 else 0))
  | JStr _ => inr "ValueError"
  | _ => inr "TypeError"
  end.
Definition py_bool (v : json) : json :=
  JBool (match v with
         | JNull => false | JBool b => b | JNum z => negb (Z.eqb z 0)
         | JStr s => negb (String.eqb s "") | JArr l => match l with [] => false | _ => true end
         | JObj o => match o with [] => false | _ => true end
         end).
Definition convert (conv : string) (v : json) : json + string :=
  if String.eqb conv "int" then py_int v else if String.eqb conv "bool" then inl (py_bool v) else inl v.
(* the returned expression: `bool(x)` or the value itself *)
Definition post (ret : string) (v : json) : json := if String.prefix "bool(" ret then py_bool v else v.

(* the fallback literal *)
Definition literal (s : string) : json :=
  if String.eqb s "None" then JNull else if String.eqb s "False" then JBool false else if String.eqb s "True" then JBool true
  else if String.eqb s "0" then JNum 0 else if String.eqb s "1" then JNum 1 else JStr s.

(* <role> / <name> in a key path stand for the getter's argument *)
Definition subst (arg k : string) : string := if String.prefix "<" k then arg else k.

Inductive outcome := OVal (v : json) | ODefault (v : json) | ORaise (e : string).

Definition read (d : descriptor) (arg : string) (cfg : json) : outcome :=
  let handle e := if str_in e (d_excs d) then ODefault (post (d_ret d) (literal (d_default d))) else ORaise e in
  match subscript cfg (map (subst arg) (d_path d)) with
  | inr e => handle e
  | inl v => match convert (d_conv d) v with
             | inr e => handle e
             | inl v' => OVal (post (d_ret d) v')
             end
  end.

(* what the caller observes *)
Definition observe (o : outcome) : json + string :=
  match o with OVal v => inl v | ODefault v => inl v | ORaise e => inr e end.

Fixpoint find_getter (name : string) (l : list descriptor) : option descriptor :=
  match l with
  | [] => None
  | d :: tl => if String.eqb (d_name d) name then Some d else find_getter name tl
  end.

(* for the correspondence: the model's observation equals the implementation's *)
Fixpoint json_eqb (a b : json) {struct a} : bool :=
  match a, b with
  | JNull, JNull => true
  | JBool x, JBool y => Bool.eqb x y
  | JNum x, JNum y => Z.eqb x y
  | JStr x, JStr y => String.eqb x y
  | JArr x, JArr y => (fix go (l1 l2 : list json) : bool :=
                         match l1, l2 with
                         | [], [] => true
                         | u :: t1, w :: t2 => json_eqb u w && go t1 t2
                         | _, _ => false
                         end) x y
  | JObj x, JObj y => (fix go (l1 l2 : list (string * json)) : bool :=
                         match l1, l2 with
                         | [], [] => true
                         | (k1, u) :: t1, (k2, w) :: t2 => String.eqb k1 k2 && json_eqb u w && go t1 t2
                         | _, _ => false
                         end) x y
  | _, _ => false
  end.
Definition obs_eqb (a b : json + string) : bool :=
  match a, b with
  | inl x, inl y => json_eqb x y
  | inr x, inr y => String.eqb x y
  | _, _ => false
  end.
Definition check_read (getters : list descriptor) (name arg : string) (cfg : json) (expected : json + string) : bool :=
  match find_getter name getters with
  | Some d => obs_eqb (observe (read d arg cfg)) expected
  | None => false
  end.
