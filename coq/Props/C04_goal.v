(* C04, the goal check: "the episode ends with Success exactly when the view satisfies the configured goal".
   Model/Goal.v is GameCoordinator.goal_check on the views of the world model (tied by the goal-check correspondence);
   here: what the check says, that a reached goal stays reached, and the check inside the whole game (coordinator model
   running on the world model, Model/Game.v).  Proofs in Proofs/GoalFacts.v, Proofs/CoordDetect.v, Proofs/CoordViewStep.v. *)
From stdpp Require Import gmap.
From Coq Require Import ZArith NArith.
From NSG Require Import Model.Coord Proofs.CoordBase Proofs.CoordInv2 Proofs.CoordAgentStep Proofs.CoordViewStep Proofs.CoordDetect
  Model.World Model.Load Model.Game Model.Goal Proofs.WorldStep Proofs.WorldInv Proofs.GoalFacts Model.WorldCases Model.GoalCases.

(* the check holds exactly when everything the goal lists is in the view: networks, known hosts, controlled hosts, and
   for every host the goal names under services / data / blocks the view has an entry for that host containing the
   listed items *)
Theorem C04_goal_spec : forall g v,
  goal_ok g v = true <->
  g_nets g ⊆ v_nets v /\ g_hosts g ⊆ v_hosts v /\ g_ctrl g ⊆ v_ctrl v /\
  (forall h S, g_svcs g !! h = Some S -> exists S', v_svcs v !! h = Some S' /\ S ⊆ S') /\
  (forall h S, g_data g !! h = Some S -> exists S', v_data v !! h = Some S' /\ S ⊆ S') /\
  (forall h S, g_blocks g !! h = Some S -> exists S', v_blocks v !! h = Some S' /\ S ⊆ S').
Proof. exact goal_ok_spec. Qed.

(* a role configured without any goal item has reached its goal in every view *)
Theorem C04_goal_empty : forall v, goal_ok empty_goal v = true.
Proof. exact goal_ok_empty. Qed.

(* knowing more never un-reaches a goal *)
Theorem C04_goal_mono : forall g v v', view_incl v v' -> goal_ok g v = true -> goal_ok g v' = true.
Proof. exact goal_ok_mono. Qed.

(* every action but FindServices only adds to every part of the view; FindServices replaces what is known about the
   services of its target and touches nothing else *)
Theorem C04_step_incl : forall w v a, (forall src tgt, a <> AFindServices src tgt) -> view_incl v (snd (step w v a)).
Proof. exact step_incl. Qed.

(* hence a goal that lists no services, once reached, stays reached whatever the agent plays next *)
Theorem C04_goal_stable_step : forall g w v a,
  g_svcs g = ∅ -> goal_ok g v = true -> goal_ok g (snd (step w v a)) = true.
Proof. exact goal_stable_step. Qed.

Section Game.
  Variable sp : role -> start_pos.
  Variable G : role -> goal.                    (* the configured win condition per role *)
  Variable detect : list gaction -> gaction -> bool.
  Variable cfg : config.
  Definition game_goal (r : role) (v : view) : bool := goal_ok (G r) v.
  Notation gstate := (@state view gworld gaction).
  Notation gexecs := (@execs view gworld gaction g_wstep g_wreset (g_winit sp) game_goal detect cfg).
  Notation gexec := (@exec view gworld gaction g_wstep g_wreset (g_winit sp) game_goal detect cfg).

  (* the whole game, any number of agents, any interleaving: whenever one label advances an agent's step counter, the goal
     check on the new view decides first - reached: status Success and the episode is ended in that very step; not reached:
     the status is Success only if it was before *)
  Theorem C04_game_success : forall W0 ls0 (s s' : gstate) l c a a',
    gexecs (init_state W0) ls0 = Some s -> gexec s l = Some s' ->
    alookup c (agents s) = Some a -> alookup c (agents s') = Some a' ->
    l <> LRun TReset -> a_steps a' = S (a_steps a) ->
    (goal_ok (G (a_role a)) (a_view a') = true -> a_status a' = SSuccess /\ a_ended a' = true) /\
    (goal_ok (G (a_role a)) (a_view a') = false -> a_status a' = SSuccess -> a_status a = SSuccess).
  Proof.
    intros W0 ls0 s s' l c a a' H0 He Ha Ha' Hl Hs.
    destruct (step_status_reachable g_wstep g_wreset (g_winit sp) game_goal detect cfg W0 ls0 s s' l c a a' H0 He Ha Ha' Hl Hs)
      as (act & Hst & Hterm & _).
    unfold Coord.next_status, game_goal in Hst. cbn [a_role bump a_traj a_status] in Hst.
    split.
    - intros Hg. rewrite Hg in Hst. split; [exact Hst | apply Hterm; rewrite Hst; reflexivity].
    - intros Hg. rewrite Hg in Hst. intros E. rewrite E in Hst.
      destruct (detect (t_actions (a_traj a)) act); [discriminate|].
      destruct (is_timeout cfg (bump a)); [discriminate | congruence].
  Qed.

  (* ... and for a goal without services the check stays true for the rest of the episode, whatever anybody plays *)
  Theorem C04_game_goal_stable : forall (g : goal) W0 ls0 ls (s s' : gstate) c a,
    g_svcs g = ∅ ->
    gexecs (init_state W0) ls0 = Some s -> gexecs s ls = Some s' -> no_reset ls -> alookup c (agents s) = Some a ->
    (exists a', alookup c (agents s') = Some a' /\ (goal_ok g (a_view a) = true -> goal_ok g (a_view a') = true)) \/
    gone_along g_wstep g_wreset (g_winit sp) game_goal detect cfg s ls c.
  Proof.
    intros g W0 ls0 ls s s' c a Hsv H0 He Hok Ha.
    apply (views_grow_along g_wstep g_wreset (g_winit sp) game_goal detect cfg
             (fun v v' => goal_ok g v = true -> goal_ok g v' = true)) with (a := a); try assumption.
    - intros v Hv. exact Hv.
    - intros x y z Hxy Hyz Hx. apply Hyz, Hxy, Hx.
    - intros [w o] v act Hv. unfold g_wstep. cbn [fst snd]. apply goal_stable_step; assumption.
    - eapply inv2_reachable; eauto.
  Qed.
End Game.

(* non-vacuity: a goal with two data on one host and a service; a view that knows more than the goal lists reaches it, a
   view lacking one datum does not, a view with the host's entry missing does not; the empty goal is reached *)
Example C04_goal_nonvacuous :
  let g := mk_goal [(3232235776, 24)]%N [3232235778]%N [] [(3232235778%N, [(1, 2, 3, false)]%N)]
                   [(3578009539%N, [(1%N, 2%N, 0%Z, 0%N); (4%N, 5%N, 0%Z, 0%N)])] [] in
  let v1 := mk_view [3578009539]%N [3232235778; 3578009539]%N [(3232235778%N, [(1, 2, 3, false); (7, 7, 7, true)]%N)]
                    [(3578009539%N, [(1%N, 2%N, 0%Z, 0%N); (4%N, 5%N, 0%Z, 0%N); (9%N, 9%N, 0%Z, 0%N)])] [(3232235776, 24); (3232236032, 24)]%N [] in
  let v2 := mk_view [3578009539]%N [3232235778; 3578009539]%N [(3232235778%N, [(1, 2, 3, false)]%N)]
                    [(3578009539%N, [(4%N, 5%N, 0%Z, 0%N)])] [(3232235776, 24)]%N [] in
  let v3 := mk_view [3578009539]%N [3232235778; 3578009539]%N [(3232235778%N, [(1, 2, 3, false)]%N)] [] [(3232235776, 24)]%N [] in
  goal_ok g v1 = true /\ goal_ok g v2 = false /\ goal_ok g v3 = false /\ goal_ok empty_goal v3 = true /\ bool_decide (g_svcs g = ∅) = false.
Proof. vm_compute. repeat split; reflexivity. Qed.

Print Assumptions C04_goal_spec.
Print Assumptions C04_goal_empty.
Print Assumptions C04_goal_mono.
Print Assumptions C04_step_incl.
Print Assumptions C04_goal_stable_step.
Print Assumptions C04_game_success.
Print Assumptions C04_game_goal_stable.
