(* Facts about the initial view built from a start position (M2, Model/Load.v: init_view). *)
From stdpp Require Import gmap.
From Coq Require Import ZArith NArith.
From NSG Require Import Model.World Model.Load Proofs.WorldStep Proofs.WorldInv.

Lemma elem_of_union_list_map {A B} `{Countable B} (f : A -> gset B) (l : list A) x :
  x ∈ ⋃ (map f l) <-> exists a, a ∈ l /\ x ∈ f a.
Proof.
  rewrite elem_of_union_list. split.
  - intros (X & HX & Hx). apply elem_of_list_In, in_map_iff in HX as (a & <- & Ha). exists a. split; [apply elem_of_list_In, Ha | exact Hx].
  - intros (a & Ha & Hx). exists (f a). split; [apply elem_of_list_In, in_map, elem_of_list_In, Ha | exact Hx].
Qed.

(* 'all_local' = exactly the addresses of the private networks *)
Theorem all_local_spec w i :
  i ∈ all_local w <-> exists n ips, w_nets w !! n = Some ips /\ net_private n = true /\ i ∈ ips.
Proof.
  unfold all_local. split.
  - intros Hi. apply elem_of_union_list in Hi as (X & HX & Hx).
    apply elem_of_list_fmap in HX as ([n ips] & -> & Hin).
    apply elem_of_list_filter in Hin as [Hp Hin]. apply elem_of_map_to_list in Hin.
    exists n, ips. split; [exact Hin|]. split; [|exact Hx]. cbn in Hp. destruct (net_private n); [reflexivity | contradiction].
  - intros (n & ips & Hl & Hp & Hi). apply elem_of_union_list. exists ips. split; [|exact Hi].
    apply elem_of_list_fmap. exists (n, ips). split; [reflexivity|].
    apply elem_of_list_filter. split; [cbn; rewrite Hp; exact I | apply elem_of_map_to_list, Hl].
Qed.

(* how the controlled hosts of the start position are resolved: listed addresses as they are,
   'random' by the corresponding pick, 'all_local' by all addresses of private networks *)
Theorem resolve_ctrl_spec w l oracle i :
  i ∈ resolve_ctrl w l oracle ->
  In (SHost i) l \/ In i oracle \/ (In SAllLocal l /\ i ∈ all_local w).
Proof.
  revert oracle. induction l as [|h tl IH]; intros oracle; simpl; [set_solver|].
  destruct h as [j| |].
  - intros Hi. apply elem_of_union in Hi as [Hi|Hi]; [apply elem_of_singleton in Hi; subst; auto|].
    destruct (IH oracle Hi) as [H|[H|[H1 H2]]]; auto.
  - destruct oracle as [|o os]; intros Hi.
    + destruct (IH [] Hi) as [H|[H|[H1 H2]]]; auto.
    + apply elem_of_union in Hi as [Hi|Hi]; [apply elem_of_singleton in Hi; subst; right; left; left; reflexivity|].
      destruct (IH os Hi) as [H|[H|[H1 H2]]]; auto. right; left; right; exact H.
  - intros Hi. apply elem_of_union in Hi as [Hi|Hi]; [right; right; auto|].
    destruct (IH oracle Hi) as [H|[H|[H1 H2]]]; auto.
Qed.

Theorem resolve_ctrl_hosts w l oracle i : In (SHost i) l -> i ∈ resolve_ctrl w l oracle.
Proof.
  revert oracle. induction l as [|h tl IH]; intros oracle; simpl; [tauto|].
  intros [->|Hin]; [set_solver|]. destruct h as [j| |]; [set_solver | destruct oracle; [auto | set_solver] | set_solver].
Qed.

Theorem resolve_ctrl_all_local w l oracle i : In SAllLocal l -> i ∈ all_local w -> i ∈ resolve_ctrl w l oracle.
Proof.
  revert oracle. induction l as [|h tl IH]; intros oracle; simpl; [tauto|].
  intros [->|Hin] Hi; [set_solver|]. destruct h as [j| |]; [set_solver | destruct oracle; [auto | set_solver] | set_solver].
Qed.

(* every item listed in the start position is in the initial view; controlled hosts are known *)
Theorem init_view_contains w sp oracle :
  let v := init_view w sp oracle in
  (forall n, In n (sp_nets sp) -> n ∈ v_nets v) /\
  (forall h, In h (sp_hosts sp) -> h ∈ v_hosts v) /\
  (forall h, In (SHost h) (sp_ctrl sp) -> h ∈ v_ctrl v /\ h ∈ v_hosts v) /\
  v_ctrl v ⊆ v_hosts v /\
  v_blocks v = ∅.
Proof.
  cbv zeta. unfold init_view. simpl. repeat split.
  - intros n Hn. apply elem_of_union. left. apply elem_of_list_to_set, elem_of_list_In, Hn.
  - intros h Hh. apply elem_of_union. left. apply elem_of_list_to_set, elem_of_list_In, Hh.
  - apply resolve_ctrl_hosts, H.
  - apply elem_of_union. right. apply resolve_ctrl_hosts, H.
  - set_solver.
Qed.

(* the networks of a controlled host that are private are known from the start *)
Theorem init_view_own_nets w sp oracle h n :
  h ∈ v_ctrl (init_view w sp oracle) -> n ∈ nets_of w h -> net_private n = true -> n ∈ v_nets (init_view w sp oracle).
Proof.
  unfold init_view. cbn [v_ctrl v_nets]. intros Hh Hn Hp. apply elem_of_union. right.
  apply elem_of_union_list. eexists. split.
  - apply elem_of_list_fmap. exists h. split; [reflexivity | apply elem_of_elements, Hh].
  - apply elem_of_union_list. eexists. split.
    + apply elem_of_list_fmap. exists n. split; [reflexivity | apply elem_of_elements, Hn].
    + unfold neighbours. rewrite Hp. apply elem_of_union. left. apply elem_of_union. left. apply elem_of_singleton. reflexivity.
Qed.
