(* Generic facts about re-keyed tables (Proofs/RemapFacts.v: rekey) under a key map that is one-to-one on a
   finite universe D containing the keys. *)
From stdpp Require Import gmap.
From Coq Require Import ZArith NArith.
From NSG Require Import Model.World Model.Load Model.Remap Proofs.RemapFacts.

Section RekeyD.
  Context {K A B : Type} `{Countable K}.
  Variables (fk : K -> K) (fv : A -> B) (D : gset K).
  Hypothesis Hinj : forall x y, x ∈ D -> y ∈ D -> fk x = fk y -> x = y.

  Lemma rekey_lookup_D (t : gmap K A) k : dom t ⊆ D -> k ∈ D -> rekey fk fv t !! fk k = fv <$> t !! k.
  Proof.
    intros Hd Hk. destruct (t !! k) as [a|] eqn:E; simpl.
    - apply rekey_lookup; [|exact E]. intros x y Hx Hy. apply Hinj; apply Hd; assumption.
    - destruct (rekey fk fv t !! fk k) as [b|] eqn:E2; [|reflexivity]. exfalso.
      apply rekey_lookup_inv in E2 as (k0 & a0 & H0 & Hf & _).
      assert (k = k0) by (apply Hinj; [exact Hk | apply Hd, elem_of_dom; eauto | exact Hf]). subst. congruence.
  Qed.

  Lemma rekey_lookup_out (t : gmap K A) k' : (forall k, k ∈ dom t -> k' <> fk k) -> rekey fk fv t !! k' = None.
  Proof.
    intros Hn. destruct (rekey fk fv t !! k') as [b|] eqn:E; [|reflexivity]. exfalso.
    apply rekey_lookup_inv in E as (k0 & a0 & H0 & Hf & _). apply (Hn k0); [apply elem_of_dom; eauto | exact Hf].
  Qed.

  Lemma dom_rekey (t : gmap K A) : dom t ⊆ D -> dom (rekey fk fv t) = set_map fk (dom t).
  Proof.
    intros Hd. apply set_eq. intros k'. rewrite elem_of_dom, elem_of_map. split.
    - intros [b Hb]. apply rekey_lookup_inv in Hb as (k & a & Hk & -> & _). exists k. split; [reflexivity | apply elem_of_dom; eauto].
    - intros (k & -> & Hk). apply elem_of_dom in Hk as [a Ha]. rewrite rekey_lookup_D; [rewrite Ha; eauto | exact Hd | apply Hd, elem_of_dom; eauto].
  Qed.

  Lemma rekey_insert (t : gmap K A) k x : dom t ⊆ D -> k ∈ D -> rekey fk fv (<[k := x]> t) = <[fk k := fv x]> (rekey fk fv t).
  Proof.
    intros Hd Hk. apply map_eq. intros k'.
    assert (Hd' : dom (<[k := x]> t) ⊆ D) by (rewrite dom_insert; set_solver).
    destruct (decide (k' = fk k)) as [->|Hne].
    - rewrite lookup_insert, rekey_lookup_D by assumption. rewrite lookup_insert. reflexivity.
    - rewrite lookup_insert_ne by congruence.
      destruct (rekey fk fv t !! k') as [b|] eqn:E.
      + apply rekey_lookup_inv in E as (k0 & a0 & H0 & -> & ->).
        assert (Hk0 : k0 ∈ D) by (apply Hd, elem_of_dom; eauto).
        rewrite rekey_lookup_D by assumption. rewrite lookup_insert_ne by congruence. rewrite H0. reflexivity.
      + apply rekey_lookup_out. intros k0 Hk0 ->. rewrite dom_insert in Hk0. apply elem_of_union in Hk0 as [Hk0|Hk0].
        * apply elem_of_singleton in Hk0. congruence.
        * apply elem_of_dom in Hk0 as [a0 H0]. rewrite rekey_lookup_D in E; [rewrite H0 in E; discriminate | exact Hd | apply Hd, elem_of_dom; eauto].
  Qed.
End RekeyD.

(* sets read through a map that is one-to-one on D *)
Section SetMapD.
  Context {K : Type} `{Countable K}.
  Variables (f : K -> K) (D : gset K).
  Hypothesis Hinj : forall x y, x ∈ D -> y ∈ D -> f x = f y -> x = y.

  Lemma elem_of_map_D (S : gset K) j : S ⊆ D -> j ∈ D -> (f j ∈ (set_map f S : gset K) <-> j ∈ S).
  Proof.
    intros HS Hj. rewrite elem_of_map. split.
    - intros (k & Hk & Hin). assert (j = k) by (apply Hinj; [exact Hj | apply HS, Hin | exact Hk]). subst. exact Hin.
    - intros Hin. exists j. auto.
  Qed.

  Lemma decide_map_D (S : gset K) j : S ⊆ D -> j ∈ D -> bool_decide (f j ∈ (set_map f S : gset K)) = bool_decide (j ∈ S).
  Proof. intros HS Hj. apply bool_decide_ext, elem_of_map_D; assumption. Qed.

  Lemma set_map_empty_iff (S : gset K) : (set_map f S : gset K) = ∅ <-> S = ∅.
  Proof.
    split; [|intros ->; apply set_map_empty].
    intros He. apply set_eq. intros x. split; [|set_solver]. intros Hx.
    assert (f x ∈ (set_map f S : gset K)) by (apply elem_of_map; eauto). rewrite He in *. assumption.
  Qed.

  Lemma set_map_diff_singleton (S : gset K) b : S ⊆ D -> b ∈ D -> (set_map f (S ∖ {[b]}) : gset K) = set_map f S ∖ {[f b]}.
  Proof.
    intros HS Hb. apply set_eq. intros y. rewrite elem_of_difference, !elem_of_map, elem_of_singleton. split.
    - intros (x & -> & Hx). apply elem_of_difference in Hx as [Hx Hnb]. split; [eauto|].
      intros Hf. apply Hnb, elem_of_singleton. apply Hinj; [apply HS, Hx | exact Hb | exact Hf].
    - intros [(x & -> & Hx) Hne]. exists x. split; [reflexivity|]. apply elem_of_difference. split; [exact Hx|].
      intros Hs. apply elem_of_singleton in Hs. subst. congruence.
  Qed.
End SetMapD.
