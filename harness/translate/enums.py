"""game_components.py enumerations and protocol constants -> coq/Gen/Enums.v (fail closed)."""
import ast
from common import parse, write_if_changed, TranslationError, find_class, ATYPES


def enum_members(cls):
    out = []
    for st in cls.body:
        if isinstance(st, ast.Assign) and len(st.targets) == 1 and isinstance(st.targets[0], ast.Name):
            if not isinstance(st.value, ast.Constant):
                raise TranslationError(f"enum member {st.targets[0].id} is not a literal")
            out.append((st.targets[0].id, st.value.value))
    return out


def read():
    src, tree = parse("AIDojoCoordinator/game_components.py")
    at = enum_members(find_class(tree, "ActionType"))
    for name, val in at:
        if name != val:
            raise TranslationError(f"ActionType.{name} has value {val!r} (name and value must coincide)")
    gs = enum_members(find_class(tree, "GameStatus"))
    ast_ = enum_members(find_class(tree, "AgentStatus"))
    pc = dict(enum_members(find_class(tree, "ProtocolConfig")))
    return {"action_types": [n for n, _ in at], "game_status": gs, "agent_status": [n for n, _ in ast_],
            "eom": pc.get("END_OF_MESSAGE"), "buffer": pc.get("BUFFER_SIZE")}


def emit(e):
    L = ["(* GENERATED from AIDojoCoordinator/game_components.py by harness/translate/enums.py; do not edit *)",
         "From NSG Require Import Base.Prelude.", "From Coq Require Import String.", "Open Scope string_scope.", ""]
    L.append("Definition gen_action_type_names : list string := [" + "; ".join(f'"{n}"' for n in e["action_types"]) + "].")
    L.append("Definition gen_game_status : list (string * Z) := [" + "; ".join(f'("{n}", {v}%Z)' for n, v in e["game_status"]) + "].")
    L.append("Definition gen_agent_status_names : list string := [" + "; ".join(f'"{n}"' for n in e["agent_status"]) + "].")
    eom = e["eom"]
    if not isinstance(eom, bytes):
        raise TranslationError("END_OF_MESSAGE is not a bytes literal")
    L.append(f'Definition gen_end_of_message : string := "{eom.decode()}".')
    L.append(f"Definition gen_buffer_size : Z := {int(e['buffer'])}%Z.")
    L.append("")
    return "\n".join(L)


def main():
    e = read()
    write_if_changed("Enums.v", emit(e))
    return e


if __name__ == "__main__":
    print(main())
