(* Per-run obligations on the dispatcher and the connection handler of coordinator.py (regenerated
   into Gen/Dispatch.v on every run): every action type is routed to the handler that the model
   runs for it, the default arm and the parse-failure arm reply BAD_REQUEST and the dispatcher
   continues, abnormal ends of a connection forward QuitGame, the cleanup releases the slot. *)
From Coq Require Import String List.
From NSG Require Import Base.Prelude Gen.Dispatch.
Import ListNotations.
Open Scope string_scope.

(* the handler Model/Coord.v runs for each message type (h_start) *)
Definition model_handler (t : atype) : string * bool * bool :=
  match t with
  | JoinGame => ("self._process_join_game_action", true, true)
  | QuitGame => ("self._process_quit_game_action", true, false)
  | ResetGame => ("self._process_reset_game_action", true, true)
  | _ => ("self._process_game_action", true, true)
  end.

Definition arm_ok (x : atype * string * bool * bool) : bool :=
  let '(t, h, a, b) := x in
  let '(h', a', b') := model_handler t in
  String.eqb h h' && Bool.eqb a a' && Bool.eqb b b'.

(* every action type has exactly one arm, and it is the model's *)
Theorem C01_dispatch_total :
  forallb arm_ok gen_dispatch_arms = true /\
  forallb (fun t => Nat.eqb (length (filter (fun x => atype_eqb t (fst (fst (fst x)))) gen_dispatch_arms)) 1) all_atypes = true.
Proof. vm_compute. split; reflexivity. Qed.

Theorem C09_default_replies : gen_default = "reply_bad_request".
Proof. reflexivity. Qed.
Theorem C09_parse_failure_replies : gen_parse_failure = "reply_bad_request_and_continue".
Proof. reflexivity. Qed.
Theorem C10_conn_failure_forwards_quit : gen_conn_failure = "forward_quit".
Proof. reflexivity. Qed.
Theorem C18_cleanup : gen_conn_cleanup = "decrement_pop_queue_close".
Proof. reflexivity. Qed.
Theorem C18_admission : gen_admission = "reject_at_limit".
Proof. reflexivity. Qed.
Theorem C18_limit : gen_limit = "required_players".
Proof. reflexivity. Qed.

(* ---- the validation of game actions (_validate_game_action, _process_game_action) ---- *)
(* the parameters each game action needs and their types, as the properties state them (C02: source host; target network
   for ScanNetwork, target host otherwise; the service / the data / the blocked host) *)
Definition documented_params (t : atype) : option (list (string * string)) :=
  match t with
  | ScanNetwork => Some [("source_host", "IP"); ("target_network", "Network")]
  | FindServices => Some [("source_host", "IP"); ("target_host", "IP")]
  | FindData => Some [("source_host", "IP"); ("target_host", "IP")]
  | ExploitService => Some [("source_host", "IP"); ("target_host", "IP"); ("target_service", "Service")]
  | ExfiltrateData => Some [("source_host", "IP"); ("target_host", "IP"); ("data", "Data")]
  | BlockIP => Some [("source_host", "IP"); ("target_host", "IP"); ("blocked_host", "IP")]
  | _ => None
  end.
Definition pair_eqb (a b : string * string) : bool := String.eqb (fst a) (fst b) && String.eqb (snd a) (snd b).
Fixpoint plist_eqb (a b : list (string * string)) : bool :=
  match a, b with
  | [], [] => true
  | x :: ta, y :: tb => pair_eqb x y && plist_eqb ta tb
  | _, _ => false
  end.
Definition required_of (t : atype) : option (list (string * string)) :=
  match filter (fun x => atype_eqb t (fst x)) gen_required_params with
  | [x] => Some (snd x)
  | _ => None
  end.
(* every action type has exactly the documented required parameters (game actions) or no entry (join, quit, reset) *)
Theorem C09_required_params :
  forallb (fun t => match documented_params t, required_of t with
                    | Some d, Some r => plist_eqb d r
                    | None, None => true
                    | _, _ => false
                    end) all_atypes = true.
Proof. vm_compute. reflexivity. Qed.
(* each required parameter must be present, of its type and hashable; the reason is a text (never None) when one is not *)
Theorem C09_validation_shape : gen_validation_shape = "isinstance_of_get_hashable_returns_reason_none_when_valid".
Proof. reflexivity. Qed.
(* the game handler refuses an agent that has not joined, then an invalid action, and only then counts / plays *)
Theorem C09_validation_order : gen_validation_order = "member_validate_refuse_then_effects".
Proof. reflexivity. Qed.
(* nothing that can raise stands between the guarded parse of the message and the dispatch *)
Theorem C09_parse_then_dispatch : gen_after_parse = "match_follows_try".
Proof. reflexivity. Qed.

(* the protocol knows no time-outs: the only time-dependent calls of coordinator.py are the one-second sleeps of its two idle
   heart-beat loops (the model has no clock; the harness' timer monitor covers the same statement at run time) *)
Theorem C01_no_timeouts : gen_time_dependence = "two_heartbeat_sleeps".
Proof. reflexivity. Qed.
