"""C19, model part 2: the section readers of utils.ConfigParser (known_networks / known_hosts / controlled_hosts /
known_services / known_data / known_blocks) and the assembly of a role's start position and win condition,
against Model/ConfigParts.v.

Generated configuration trees - documented shapes with every key independently present, absent, None or empty, valid
and invalid addresses, the documented wildcards, and a malformed stream (sections missing or of the wrong type, a datum
after "random", an unsupported block value) - go through the real ConfigParser.get_player_start_position /
get_player_win_conditions and through `start_position` / `win_conditions` inside Coq; the parsed parts (as sets /
dictionaries) or the exception that escapes must agree.  Shapes the model declares unsupported are counted, not compared."""
import os
import random

import check as CK
from props.c19_model import jterm, coq_str

IPS = ["192.168.1.2", "192.168.1.3", "192.168.2.2", "10.0.0.1", "213.47.23.195", "1.1.1.1", "0.0.0.0", "255.255.255.255"]
BAD_IPS = ["abc", "999.1.1.1", "1.2.3", "", "1.2.3.4.5", "192.168.1.02", "random ", "ALL_LOCAL", "Random"]
ROLES = ["Attacker", "Defender"]


def gen_hosts(rng):
    c = rng.random()
    if c < 0.1:
        return None
    if c < 0.2:
        return []
    out = []
    for _ in range(rng.randrange(1, 5)):
        r = rng.random()
        out.append(rng.choice(IPS) if r < 0.6 else "random" if r < 0.72 else "all_local" if r < 0.82 else rng.choice(BAD_IPS))
    return out


def gen_nets(rng):
    c = rng.random()
    if c < 0.1:
        return None
    if c < 0.2:
        return []
    out = []
    for _ in range(rng.randrange(1, 4)):
        r = rng.random()
        if r < 0.6:
            out.append(f"{rng.choice(IPS)}/{rng.choice([0, 8, 16, 24, 26, 32])}")
        elif r < 0.7:
            out.append(rng.choice(IPS))                                  # no '/': silently skipped
        elif r < 0.8:
            out.append(f"{rng.choice(IPS)}/{rng.choice(['33', 'x', '', '99'])}")
        elif r < 0.9:
            out.append(f"{rng.choice(BAD_IPS[:5])}/24")
        else:
            out.append(f"{rng.choice(IPS)}/24/1")
    return out


def gen_data(rng):
    c = rng.random()
    if c < 0.1:
        return None
    if c < 0.2:
        return {}
    out = {}
    for _ in range(rng.randrange(1, 4)):
        ip = rng.choice(IPS) if rng.random() < 0.88 else rng.choice(BAD_IPS[:5])
        r = rng.random()
        if r < 0.65:
            out[ip] = [[rng.choice(["User1", "admin", ""]), rng.choice(["DataFromServer1", "x", "Data 2"])] for _ in range(rng.randrange(0, 4))]
        elif r < 0.8:
            out[ip] = [rng.choice(["random", "Random", "RANDOM"])]
        elif r < 0.9:
            out[ip] = [["User1", "a"], "random"]                         # the entry becomes the text "random"
        else:
            out[ip] = ["random", ["User1", "a"]]                         # .add on a text: AttributeError escapes
    return out


def gen_services(rng):
    c = rng.random()
    if c < 0.1:
        return None
    if c < 0.2:
        return {}
    out = {}

    def one():
        return [rng.choice(["ssh", "http", "microsoft-ds"]), rng.choice(["passive", "active"]), rng.choice(["8.1", "1.0", ""]), rng.random() < 0.5]
    for _ in range(rng.randrange(1, 4)):
        ip = rng.choice(IPS) if rng.random() < 0.88 else rng.choice(BAD_IPS[:5])
        r = rng.random()
        if r < 0.35:
            out[ip] = one()
        elif r < 0.75:
            out[ip] = [one() for _ in range(rng.randrange(1, 4))]
        else:
            out[ip] = rng.choice(["random", "Random"])
    return out


def gen_blocks(rng):
    c = rng.random()
    if c < 0.15:
        return None
    if c < 0.3:
        return {}
    out = {}
    for _ in range(rng.randrange(1, 3)):
        h = rng.choice(IPS)
        r = rng.random()
        if r < 0.6:
            out[h] = [rng.choice(IPS) for _ in range(rng.randrange(0, 4))]
        elif r < 0.85:
            out[h] = "all_attackers"
        else:
            out[h] = "everybody"                                          # unsupported value: ValueError escapes
    return out


def gen_part(rng, goal):
    p = {}
    gens = {"known_networks": gen_nets, "known_hosts": gen_hosts, "controlled_hosts": gen_hosts,
            "known_services": gen_services, "known_data": gen_data}
    if goal:
        gens["known_blocks"] = gen_blocks
    for k, g in gens.items():
        if rng.random() < 0.85:
            p[k] = g(rng)
    if goal and rng.random() < 0.5:
        p["description"] = "goal"
    return p


def gen_tree(rng):
    agents = {}
    for role in ROLES:
        r = rng.random()
        if r < 0.06:
            continue                                                      # role missing: KeyError
        if r < 0.1:
            agents[role] = rng.choice([None, [], "x", 3])
            continue
        sec = {}
        for name, goal in (("start_position", False), ("goal", True)):
            q = rng.random()
            if q < 0.05:
                continue                                                  # part missing: KeyError
            if q < 0.09:
                sec[name] = rng.choice([None, [], "x"])                   # not a dictionary: AttributeError / TypeError
                continue
            sec[name] = gen_part(rng, goal)
        agents[role] = sec
    return {"coordinator": {"agents": agents}, "env": {"scenario": "scenario1_small"}}


# ---- the implementation's result as a Coq term ---------------------------------------------------------------------
def host_term(x):
    if isinstance(x, str):
        return {"random": "HRandom", "all_local": "HAllLocal"}.get(x)
    return "(HAddr %s)" % coq_str(str(x))


def part_term(p, with_blocks):
    from AIDojoCoordinator.game_components import IP
    nets = "; ".join("(%s, (%d)%%Z)" % (coq_str(str(n.ip)), n.mask) for n in p["known_networks"])
    hosts = [host_term(h) for h in p["known_hosts"]]
    ctrl = [host_term(h) for h in p["controlled_hosts"]]
    if any(h is None for h in hosts + ctrl):
        return None
    svcs = []
    for ip, v in p["known_services"].items():
        if isinstance(v, str):
            if v != "random":
                return None
            svcs.append("(%s, SRandom)" % coq_str(str(ip)))
        else:
            svcs.append("(%s, SItems [%s])" % (coq_str(str(ip)), "; ".join(
                "(%s, %s, %s, %s)" % (coq_str(s.name), coq_str(s.type), coq_str(s.version), "true" if s.is_local else "false") for s in v)))
    data = []
    for ip, v in p["known_data"].items():
        if isinstance(v, str):
            if v != "random":
                return None
            data.append("(%s, DRandom)" % coq_str(str(ip)))
        else:
            if any(d.size != 0 or d.type != "" for d in v):
                return None
            data.append("(%s, DItems [%s])" % (coq_str(str(ip)), "; ".join("(%s, %s)" % (coq_str(d.owner), coq_str(d.id)) for d in v)))
    blocks = []
    if with_blocks:
        for h, v in p["known_blocks"].items():
            if not isinstance(h, IP):
                return None
            if isinstance(v, str):
                if v != "all_attackers":
                    return None
                blocks.append("(%s, BAllAttackers)" % coq_str(str(h)))
            else:
                blocks.append("(%s, BItems [%s])" % (coq_str(str(h)), "; ".join(coq_str(str(x)) for x in v)))
    return ("{| p_nets := [%s]; p_hosts := [%s]; p_ctrl := [%s]; p_svcs := [%s]; p_data := [%s]; p_blocks := [%s] |}" %
            (nets, "; ".join(hosts), "; ".join(ctrl), "; ".join(svcs), "; ".join(data), "; ".join(blocks)))


def run(ctx, n):
    import logging
    from AIDojoCoordinator.utils.utils import ConfigParser
    rng = random.Random(ctx.seed * 7919 + 191)
    cases, trees = [], []
    stats = {"trees": 0, "parts_compared": 0, "raises": 0, "result_not_representable": 0, "by_exception": {}}
    logging.disable(logging.CRITICAL)
    try:
        for _ in range(n):
            tree = gen_tree(rng)
            t = jterm(tree)
            if t is None:
                continue
            cp = ConfigParser(config_dict=tree)
            k = len(trees)
            trees.append((t, tree))
            stats["trees"] += 1
            for role in ROLES:
                for fn_name, model_fn, with_blocks in (("get_player_start_position", "start_position", False),
                                                       ("get_player_win_conditions", "win_conditions", True)):
                    try:
                        res = getattr(cp, fn_name)(role)
                        term = part_term(res, with_blocks)
                        if term is None:
                            stats["result_not_representable"] += 1
                            continue
                        exp = "(Ok %s)" % term
                    except (KeyError, TypeError, ValueError, AttributeError, IndexError) as e:
                        exp = "(Raises %s)" % coq_str(type(e).__name__)
                        stats["raises"] += 1
                        stats["by_exception"][type(e).__name__] = stats["by_exception"].get(type(e).__name__, 0) + 1
                    stats["parts_compared"] += 1
                    cases.append((k, role, model_fn, exp))
    finally:
        logging.disable(logging.NOTSET)
    return cases, trees, stats


def write_cases(casedir, cases, trees, shard=60):
    """Each file: the trees it uses, the list of comparisons (with a deliberately false one at the end), and the number of
    cases on which the model applies (not Unsupported)."""
    files = []
    by_tree = {}
    for c in cases:
        by_tree.setdefault(c[0], []).append(c)
    cur, cur_trees = [], []
    for k in sorted(by_tree):
        cur_trees.append(k)
        cur.extend(by_tree[k])
        if len(cur) >= shard:
            files.append((cur_trees, cur))
            cur, cur_trees = [], []
    if cur:
        files.append((cur_trees, cur))
    out = []
    for i, (ts, cs) in enumerate(files):
        body = ["From Coq Require Import String ZArith List Bool.",
                "From NSG Require Import Model.Json Model.Config Model.ConfigParts Model.WorldCases.",
                "Import ListNotations.", "Open Scope string_scope."]
        body += [f"Definition cfg{k} : json := {trees[k][0]}." for k in ts]
        body += ["Definition cases : list bool := [",
                 ";\n".join(f"check_part ({fn} cfg{k} {coq_str(role)}) {exp}" for k, role, fn, exp in cs) + ";", "false].",
                 "Definition applies : list bool := [",
                 ";\n".join(f"supported ({fn} cfg{k} {coq_str(role)})" for k, role, fn, exp in cs) + "].",
                 "Eval vm_compute in (false_indices 0 cases).",
                 "Eval vm_compute in (length (filter (fun b => b) applies)).", ""]
        p = os.path.join(casedir, f"c19p_{i}.v")
        with open(p, "w") as f:
            f.write("\n".join(body))
        out.append((p, cs))
    return out
