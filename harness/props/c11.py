"""C11: views are well-formed, only grow, contain only what exists, and are never modified after
they were returned (the last clause is decided by the harness' deep snapshots: partial)."""
import check as CK
from props import worldcommon as WC
from props.c02 import ASSUME, replay

TRANSLATORS = []
COQ_FILES = ["Props/C11.v"]


def dynamic_anchor_probe(ctx):
    """Dynamic addresses: every view an agent receives - on joining, after every action, after every reset - is well formed and
    anchored in the CURRENT (re-labelled) world: controlled hosts are known, every host exists, services are services of that
    node, data sits on controlled hosts and exists there (or was exfiltrated).  An Attacker with a random start host and a
    Defender with 'all_local' play three episodes."""
    nsgenv, WL, WR = WC._imports()
    from AIDojoCoordinator.game_components import Action, ActionType, IP
    th = ctx.tier == "thorough"
    stats = {"views_checked": 0, "worlds": 0}
    for scenario in (["scenario1_small", "three_nets", "scenario1"] if th else ["scenario1_small", "three_nets"]):
        for seed in ([42, 7] if th else [42]):
            cfg = nsgenv.base_config(scenario, use_dynamic_addresses=True)
            try:
                drv = WR.start_world(cfg, seed=seed)
            except Exception as e:
                ctx.stage_errors.append((f"dynamic anchor probe {scenario}", f"{type(e).__name__}: {e}"))
                continue
            stats["worlds"] += 1
            g = drv.g
            replay = {"kind": "dynamic_anchor_probe", "scenario": scenario, "seed": seed}
            empty = {"known_networks": set(), "known_hosts": set(), "known_data": {}, "known_services": {}}
            roles = {("10.1.11.1", 1): ("Attacker", dict(empty, controlled_hosts=["random"])),
                     ("10.1.11.2", 2): ("Defender", dict(empty, controlled_hosts=["all_local"]))}
            exfiltrated = set()
            # a third role whose (well-formed, anchored) start position also names services and data: a host that runs services and
            # holds data is controlled and known from the start, with some of its services and data - all in the scenario's addresses
            rich = [h for h, node in sorted(g._ip_to_hostname.items(), key=lambda x: str(x[0])) if g._services.get(node) and g._data.get(node)]
            if rich:
                h0 = rich[0]
                node = g._ip_to_hostname[h0]
                roles[("10.1.11.3", 3)] = ("Attacker", {"known_networks": set(), "known_hosts": {h0}, "controlled_hosts": [h0, "random"],
                                                        "known_services": {h0: set(sorted(g._services[node], key=lambda x: x.name)[:2])},
                                                        "known_data": {h0: set(sorted(g._data[node], key=lambda x: x.id)[:1])}})
                stats["start_positions_with_services_and_data"] = stats.get("start_positions_with_services_and_data", 0) + 1

            def anchored(gs, who, when):
                stats["views_checked"] += 1
                world_hosts = set(g._ip_to_hostname)
                bad = []
                if not set(gs.controlled_hosts) <= set(gs.known_hosts):
                    bad.append("controlled hosts that are not known hosts")
                ghost = sorted(str(h) for h in set(gs.known_hosts) | set(gs.controlled_hosts) if h not in world_hosts)
                if ghost:
                    bad.append(f"hosts that do not exist in the (re-labelled) network: {ghost[:4]}")
                for h, ss in gs.known_services.items():
                    if h not in gs.known_hosts:
                        bad.append(f"services for the unknown host {h}")
                    elif h in world_hosts and not set(ss) <= set(g._services.get(g._ip_to_hostname[h], [])):
                        bad.append(f"services the node {h} does not run")
                for h, ds in gs.known_data.items():
                    if h not in gs.controlled_hosts:
                        bad.append(f"data on the uncontrolled host {h}")
                    elif h in world_hosts and not set(ds) <= set(g._data.get(g._ip_to_hostname[h], set())):
                        bad.append(f"data that is not on {h}")
                for b in bad:
                    ctx.violations.append({"key": f"view not anchored under dynamic addresses ({b.split(':')[0][:50]})",
                                           "what": f"{scenario}, {who}, {when}: the view has {b}", "replay": replay})
                return not bad
            try:
                views = {}
                for addr, (role, sp) in roles.items():
                    views[addr] = WL.run_coro(g.register_agent(addr, role, sp))
                    anchored(views[addr], role, "join")
                for episode in range(3):
                    for addr, (role, sp) in roles.items():
                        gs = views[addr]
                        src = sorted(gs.controlled_hosts, key=str)[0]
                        acts = [Action(ActionType.ScanNetwork, {"source_host": src, "target_network": n}) for n in sorted(gs.known_networks, key=str)[:3]]
                        acts += [Action(ActionType.FindServices, {"source_host": src, "target_host": h}) for h in sorted(gs.known_hosts, key=str)[:3]]
                        acts += [Action(ActionType.FindData, {"source_host": src, "target_host": src})]
                        for act in acts:
                            gs = WL.run_coro(g.step(addr, gs, act))
                            anchored(gs, role, f"episode {episode + 1}, {act.type.name}")
                        views[addr] = gs
                    WL.run_coro(g.reset())
                    for addr, (role, sp) in roles.items():
                        views[addr] = WL.run_coro(g.reset_agent(addr, role, sp))
                        anchored(views[addr], role, f"reset after episode {episode + 1}")
            except Exception as e:
                import traceback
                ctx.stage_errors.append((f"dynamic anchor probe {scenario}", f"{type(e).__name__}: {e}\n{traceback.format_exc()[-500:]}"))
            finally:
                drv.close()
    ctx.coverage["dynamic_anchor_probe"] = stats


def correspondence(ctx):
    th = ctx.tier == "thorough"
    WC.world_suite(ctx, "C11", tags={"pre", "nopre", "init", "reset"}, walks_per_spec=4 if th else 1, n_generated=24 if th else 6,
                   n_steps=200 if th else 80, perturb=0.0, resets=40, n_agents=(1, 3), shared_every=3)
    dynamic_anchor_probe(ctx)
    ctx.assumptions += ASSUME + ["'a returned view is never modified later' is a heap-aliasing statement outside the value-semantic model: decided by deep snapshots of every GameState returned by register/step/reset (partial)"]
