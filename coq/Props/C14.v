(* C14 - Actions survive the wire unchanged and compare/hash consistently.
   Statements only; proofs are in Proofs/CodecFacts.v. *)
From Coq Require Import String ZArith List Bool Permutation.
From NSG Require Import Base.Prelude Model.Json Model.Ipv4Text Model.Codec Proofs.CodecFacts Proofs.TypeNames.
Import ListNotations.
Open Scope string_scope.

(* every action an agent can build from the supported parameters (any type, any subset of the
   parameter keys in any order, any field values, valid IPv4 texts) decodes to itself *)
Theorem C14_roundtrip : forall a, valid_action a = true -> dec_action (enc_action a) = Some a.
Proof. exact dec_enc_action. Qed.

(* ... also through the text level, for any json library whose loads inverts its dumps *)
Theorem C14_roundtrip_text : forall (text : Type) (dumps : json -> text) (loads : text -> option json),
  (forall j, loads (dumps j) = Some j) ->
  forall a, valid_action a = true -> from_json text loads (to_json text dumps a) = Some a.
Proof. exact from_json_to_json. Qed.

(* equality is: same type and the same value (or absence) under every key *)
Theorem C14_eq : forall a b,
  action_eqb a b = true <-> fst a = fst b /\ forall k, plookup k (snd a) = plookup k (snd b).
Proof. exact action_eqb_spec. Qed.

(* independent of the order in which the parameters were inserted *)
Theorem C14_order : forall t p q, Permutation p q -> nodup_keys p = true -> action_eqb (t, p) (t, q) = true.
Proof. exact action_eqb_perm. Qed.

(* equal actions have equal hashes, whatever the hash of values and tuples is *)
Theorem C14_hash : forall (H : Type) (hv : pval -> H) (htop : atype -> list (pkey * H) -> H) a b,
  action_eqb a b = true -> action_hash H hv htop a = action_hash H hv htop b.
Proof. exact action_hash_eq. Qed.

(* actions that differ in type or in any parameter value are unequal *)
Theorem C14_distinct_type : forall a b, fst a <> fst b -> action_eqb a b = false.
Proof. exact action_neq_type. Qed.
Theorem C14_distinct_param : forall a b k, plookup k (snd a) <> plookup k (snd b) -> action_eqb a b = false.
Proof. exact action_neq_param. Qed.

(* the decoder accepts exactly the documents that describe a supported action, and whatever
   it produces is a supported action (every value has the type of its key, addresses are valid) *)
Theorem C14_refuse : forall j, (exists a, dec_action j = Some a) <-> describes j.
Proof. exact dec_action_iff. Qed.
Theorem C14_decoded_typed : forall j a, dec_action j = Some a ->
  forallb (fun kv => well_typed (fst kv) (snd kv)) (snd a) = true.
Proof. exact dec_action_typed. Qed.
Theorem C14_refuse_unknown_type : forall o ts, jget "action_type" o = Some (JStr ts) -> atype_of_string ts = None ->
  dec_action (JObj o) = None.
Proof. exact refuse_unknown_type. Qed.
(* a type text is accepted only if it is the name of a supported type, bare or behind ONE leading "ActionType." (nothing before, between or after) *)
Theorem C14_type_names_exact : forall s t, atype_of_string s = Some t -> s = atype_name t \/ s = ("ActionType." ++ atype_name t)%string.
Proof. exact atype_of_string_inv. Qed.
Theorem C14_refuse_unknown_key : forall ps k v rest, pkey_of_name k = None -> mapM dec_param (ps ++ (k, v) :: rest) = None.
Proof. exact refuse_bad_param. Qed.
Theorem C14_refuse_bad_ip : forall s, ipv4_ok s = false -> dec_ip (enc_ip s) = None.
Proof. exact refuse_bad_ip. Qed.

(* non-vacuity: a concrete action with all eight parameters satisfies the hypotheses *)
Example C14_nonvacuous :
  let a := (ExfiltrateData,
            [(K_target_host, PIp "10.0.0.2"); (K_source_host, PIp "192.168.1.255"); (K_data, PData ("User,1", "d/""x", 7%Z, "txt"));
             (K_target_network, PNet ("10.0.0.0", 24%Z)); (K_target_service, PSvc ("ssh", "", "v 1", false));
             (K_agent_info, PAgent ("n", "Attacker")); (K_request_trajectory, PBool true); (K_blocked_host, PIp "1.1.1.1")]) in
  valid_action a = true /\ dec_action (enc_action a) = Some a /\
  action_eqb a (fst a, rev (snd a)) = true /\ ipv4_ok "256.1.1.1" = false /\ ipv4_ok "01.1.1.1" = false.
Proof. vm_compute. repeat split; reflexivity. Qed.

Print Assumptions C14_roundtrip.
Print Assumptions C14_roundtrip_text.
Print Assumptions C14_eq.
Print Assumptions C14_order.
Print Assumptions C14_hash.
Print Assumptions C14_distinct_type.
Print Assumptions C14_distinct_param.
Print Assumptions C14_refuse.
Print Assumptions C14_decoded_typed.
Print Assumptions C14_refuse_unknown_type.
Print Assumptions C14_type_names_exact.
Print Assumptions C14_refuse_unknown_key.
Print Assumptions C14_refuse_bad_ip.
