(* The decoder accepts exactly two spellings of an action type: its name, and its name behind ONE leading "ActionType." *)
From Coq Require Import String ZArith List Bool Arith Lia.
From NSG Require Import Base.Prelude Model.Json Model.Ipv4Text Model.Codec.
Import ListNotations.
Open Scope string_scope.

Lemma prefix_split (p s : string) :
  String.prefix p s = true -> s = p ++ String.substring (String.length p) (String.length s - String.length p) s.
Proof.
  revert s. induction p as [|c p IH]; intros s H.
  - simpl. rewrite Nat.sub_0_r.
    clear H. induction s as [|d s IHs]; [reflexivity|]. simpl. f_equal. exact IHs.
  - destruct s as [|d s]; [discriminate|]. simpl in H.
    destruct (Ascii.ascii_dec c d) as [->|]; [|discriminate].
    simpl. f_equal. apply IH, H.
Qed.

Theorem atype_of_string_inv s t :
  atype_of_string s = Some t -> s = atype_name t \/ s = "ActionType." ++ atype_name t.
Proof.
  unfold atype_of_string, strip_prefix. intros H. apply find_some in H. destruct H as [_ H].
  apply String.eqb_eq in H.
  destruct (String.prefix "ActionType." s) eqn:E.
  - right. rewrite (prefix_split _ _ E) at 1. rewrite H. reflexivity.
  - left. exact H.
Qed.

(* a second occurrence of the prefix, or anything after a supported name, is refused *)
Corollary atype_of_string_no_second_prefix s t :
  atype_of_string ("ActionType." ++ "ActionType." ++ s) = Some t -> False.
Proof.
  intros H. apply atype_of_string_inv in H. destruct H as [H|H]; destruct t; simpl in H; try discriminate.
  all: injection H as H'; try discriminate.
Qed.

Example refused_texts :
  atype_of_string "ActionType.QuitGameActionType." = None /\ atype_of_string "ScanActionType.Network" = None /\
  atype_of_string "ActionType.ActionType.QuitGame" = None /\ atype_of_string "ActionType.QuitGame" = Some QuitGame /\
  atype_of_string "QuitGame" = Some QuitGame.
Proof. vm_compute. repeat split; reflexivity. Qed.
