(* Per-run obligations of C19: the scalar settings are read from the documented keys and fall back to
   the documented defaults (no step limit, zero rewards, one player, all switches off); the start-up
   code reads each of them.  Local variable names are abstracted away by the translator ("x").  The right-hand sides are the documented behaviour; the left-hand sides
   are regenerated from utils.py / coordinator.py on every run. *)
From Coq Require Import String List.
From NSG Require Import Gen.ConfigDefaults.
Import ListNotations.
Open Scope string_scope.

Theorem C19_defaults : gen_config_getters = [
  ("get_max_steps", ["coordinator"; "agents"; "<role>"; "max_steps"], "int", "None", ["KeyError"; "TypeError"], "x");
  ("get_rewards", ["env"; "rewards"; "<name>"], "", "0", ["KeyError"], "x");
  ("get_use_dynamic_addresses", ["env"; "use_dynamic_addresses"], "", "False", ["KeyError"], "bool(x)");
  ("get_store_trajectories", ["env"; "save_trajectories"], "", "False", ["KeyError"], "x");
  ("get_use_firewall", ["env"; "use_firewall"], "", "False", ["KeyError"], "x");
  ("get_use_global_defender", ["env"; "use_global_defender"], "", "False", ["KeyError"], "x");
  ("get_required_num_players", ["env"; "required_players"], "int", "1", ["KeyError"; "ValueError"], "x")
].
Proof. reflexivity. Qed.

(* the start-up code reads these settings through their getters *)
Theorem C19_startup_reads_settings : gen_startup_glue = [
  ("_get_max_steps_per_role", "get_max_steps");
  ("start_tasks", "get_required_num_players");
  ("start_tasks", "get_rewards");
  ("start_tasks", "get_use_dynamic_addresses");
  ("start_tasks", "get_use_global_defender")
].
Proof. reflexivity. Qed.

(* spelled out: the documented defaults *)
Definition default_of (getter : string) : option string :=
  match find (fun x => String.eqb (fst (fst (fst (fst (fst x))))) getter) gen_config_getters with
  | Some x => Some (snd (fst (fst x)))
  | None => None
  end.
Theorem C19_documented_defaults :
  default_of "get_max_steps" = Some "None" /\ default_of "get_rewards" = Some "0" /\
  default_of "get_required_num_players" = Some "1" /\ default_of "get_use_firewall" = Some "False" /\
  default_of "get_use_dynamic_addresses" = Some "False" /\ default_of "get_use_global_defender" = Some "False" /\
  default_of "get_store_trajectories" = Some "False".
Proof. vm_compute. repeat split; reflexivity. Qed.
