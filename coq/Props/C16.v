(* C16 - The recorded trajectory is exactly what the agent experienced
   Statements only (printed by Coq from the proof files); proofs are in coq/Proofs/Coord*.v.

*)
From Coq Require Import ZArith NArith List Bool Arith.
From NSG Require Import Base.Prelude Model.Defender Model.Coord Proofs.CoordBase Proofs.CoordInv Proofs.CoordInvConn Proofs.CoordInvDispatch Proofs.CoordInvHandler Proofs.CoordProps Proofs.CoordDirect Proofs.CoordInv2 Proofs.CoordAgentStep Proofs.CoordBarrier Proofs.CoordMeasure Proofs.CoordIsolation Proofs.CoordLimit Proofs.CoordKinds Proofs.CoordFiles.
Import ListNotations.

(* the triple appended to the trajectory (action, reward, resulting view) is produced in the same step as the OK response, with the same reward *)
Theorem C16_step :
  forall (V W G : Type) (s : @state V W G) (id : nat) (c : addr) (act : G) (v' : V) (a : @agent V G),
       @alookup (@agent V G) c (@agents V W G s) = @Some (@agent V G) a ->
       @game_finish V W G s id c act v' =
       @respond V W G
         (@remove_handler V W G
            (@set_agents V W G s
               (@aupdate (@agent V G) c
                  (fun _ : @agent V G =>
                   @a_set_obs V G
                     (@a_set_traj V G a (@traj_add V G (@a_traj V G a) act (@a_reward V G a) v'))
                     (@a_view V G a, @a_reward V G a, @a_ended V G a)) (@agents V W G s))) id) c
         (@ROk V G (@a_view V G a) (@a_reward V G a) (@a_ended V G a)
            (if terminal (@a_status V G a) then @Some status (@a_status V G a) else @None status)).
Proof. exact (@game_finish_eq). Qed.

(* refused actions are not recorded *)
Theorem C16_refused :
  forall (V W G : Type) (wstep : W -> V -> G -> W * V) (winit : W -> role -> W * V)
         (goal : role -> V -> bool) (detect : list G -> G -> bool) (cfg : config) 
         (s : @state V W G) (id : nat) (c : addr) (act : G) (a : @agent V G),
       @alookup (@agent V G) c (@agents V W G s) = @Some (@agent V G) a ->
       @a_ended V G a = true ->
       @h_start V W G wstep winit goal detect cfg s id c (@MGame G act true) =
       @respond V W G (@remove_handler V W G s id) c
         (@RForbidden V G (@fst V Z (@fst (V * Z) bool (@a_obs V G a))) (@a_reward V G a) (@a_status V G a)).
Proof. exact (@forbidden_after_end). Qed.

(* (nor do BAD_REQUEST replies touch any trajectory) *)
Theorem C16_frame :
  forall (V W G : Type) (s : @state V W G) (id : nat) (c : addr) (r : @resp V G),
       @game_part V W G (@respond V W G (@remove_handler V W G s id) c r) = @game_part V W G s /\
       @aq V W G (@respond V W G (@remove_handler V W G s id) c r) = @aq V W G s /\
       (forall k : addr,
        k <> c ->
        @alookup (@conn V G) k (@conns V W G (@respond V W G (@remove_handler V W G s id) c r)) =
        @alookup (@conn V G) k (@conns V W G s)) /\
       (forall h : @handler V G,
        @In (@handler V G) h (@handlers V W G (@respond V W G (@remove_handler V W G s id) c r)) <->
        @In (@handler V G) h (@handlers V W G s) /\ @h_id V G h <> id).
Proof. exact (@respond_frame). Qed.

(* RESET_DONE hands the trajectory out iff requested and restarts it from the new initial view *)
Theorem C16_handout :
  forall (V W G : Type) (s : @state V W G) (id : nat) (c : addr) (want : bool) (a : @agent V G),
       @alookup (@agent V G) c (@agents V W G s) = @Some (@agent V G) a ->
       @reset_finish V W G s id c want =
       @respond V W G
         (@remove_handler V W G
            (@set_agents V W G s
               (@aupdate (@agent V G) c
                  (fun _ : @agent V G => @a_set_traj V G a (@traj_start V G (@a_view V G a)))
                  (@agents V W G s))) id) c
         (@RResetDone V G (@a_obs V G a)
            (if want then @Some (@traj V G) (@a_traj V G a) else @None (@traj V G))).
Proof. exact (@reset_done_content). Qed.

(* with save_trajectories every reset appends exactly one record (name, role, trajectory) per agent in the game *)
Theorem C16_files :
  forall (V W G : Type) (winit : W -> role -> W * V) (cfg : config) (w : W)
         (done : list (addr * @agent V G)) (fl : list (N * role * @traj V G)) (x : addr * @agent V G),
       exists (w' : W) (v : V),
         winit w (@a_role V G (@snd addr (@agent V G) x)) = (w', v) /\
         @reset_one V W G winit cfg (w, done, fl) x =
         (w',
          done ++
          [(@fst addr (@agent V G) x,
            {|
              a_name := @a_name V G (@snd addr (@agent V G) x);
              a_role := @a_role V G (@snd addr (@agent V G) x);
              a_steps := 0;
              a_req := false;
              a_status := init_status (@a_role V G (@snd addr (@agent V G) x));
              a_ended := false;
              a_view := v;
              a_reward := 0;
              a_rewarded := false;
              a_obs := (v, 0%Z, false);
              a_traj := @a_traj V G (@snd addr (@agent V G) x)
            |})],
          if save_traj cfg
          then
           fl ++
           [(@a_name V G (@snd addr (@agent V G) x), @a_role V G (@snd addr (@agent V G) x),
             @a_traj V G (@snd addr (@agent V G) x))]
          else fl).
Proof. exact (@reset_one_effect). Qed.

(* when the reset task resets the game, the trajectory files grow by exactly one record (name, role, trajectory) per agent in the game, in the order of the agent table - or by nothing when save_trajectories is off *)
Theorem C16_files_exact :
  forall (V W G : Type) (wreset : W -> W) (winit : W -> role -> W * V) (cfg : config)
         (s s' : @state V W G),
       @reset_run V W G wreset winit cfg s = @Some (@state V W G) s' ->
       match @agents V W G s with
       | [] => false
       | _ :: _ => true
       end && @all_req V G (@agents V W G s) = true ->
       @files V W G s' =
       (if save_traj cfg
        then
         @files V W G s ++ @map (addr * @agent V G) (N * role * @traj V G) (@record_of V G) (@agents V W G s)
        else @files V W G s).
Proof. exact (@reset_files_exact). Qed.

(* and no other label ever writes a record *)
Theorem C16_files_frame :
  forall (V W G : Type) (wstep : W -> V -> G -> W * V) (wreset : W -> W) (winit : W -> role -> W * V)
         (goal : role -> V -> bool) (detect : list G -> G -> bool) (cfg : config) 
         (s s' : @state V W G) (l : @label G),
       @exec V W G wstep wreset winit goal detect cfg s l = @Some (@state V W G) s' ->
       l <> @LRun G TReset -> @files V W G s' = @files V W G s.
Proof. exact (@files_frame). Qed.

(* in every reachable state every agent's trajectory has exactly one more state than actions and as many rewards as actions *)
Theorem C16_wf :
  forall (V W G : Type) (wstep : W -> V -> G -> W * V) (wreset : W -> W) (winit : W -> role -> W * V)
         (goal : role -> V -> bool) (detect : list G -> G -> bool) (cfg : config) 
         (w : W) (ls : list (@label G)) (s : @state V W G) (c : addr) (a : @agent V G),
       @execs V W G wstep wreset winit goal detect cfg (@init_state V W G w) ls = @Some (@state V W G) s ->
       @alookup (@agent V G) c (@agents V W G s) = @Some (@agent V G) a -> @traj_wf V G (@a_traj V G a).
Proof. exact (@traj_wf_reachable). Qed.

(* ACROSS LABELS: from every reachable state one label leaves an agent's trajectory alone, appends exactly one (action, reward, view) triple whose reward and view are the stored ones, or restarts it from the stored view (after RESET_DONE) *)
Theorem C16_one_label :
  forall (V W G : Type) (wstep : W -> V -> G -> W * V) (wreset : W -> W) (winit : W -> role -> W * V)
         (goal : role -> V -> bool) (detect : list G -> G -> bool) (cfg : config) 
         (w : W) (ls0 : list (@label G)) (s s' : @state V W G) (l : @label G) (c : addr) 
         (a : @agent V G),
       @execs V W G wstep wreset winit goal detect cfg (@init_state V W G w) ls0 = @Some (@state V W G) s ->
       @exec V W G wstep wreset winit goal detect cfg s l = @Some (@state V W G) s' ->
       @alookup (@agent V G) c (@agents V W G s) = @Some (@agent V G) a ->
       @alookup (@agent V G) c (@agents V W G s') = @None (@agent V G) \/
       (exists a' : @agent V G,
          @alookup (@agent V G) c (@agents V W G s') = @Some (@agent V G) a' /\
          (@a_traj V G a' = @a_traj V G a \/
           (exists (act : G) (r : Z) (v : V),
              @a_traj V G a' = @traj_add V G (@a_traj V G a) act r v /\
              @a_view V G a' = v /\ @a_reward V G a' = r) \/ @a_traj V G a' = @traj_start V G (@a_view V G a))).
Proof. exact (@traj_step_reachable). Qed.


(* non-vacuity: a concrete run of the executable instance reaches a state in which a request is
   held back at a barrier (two required players, one has joined) and the model is quiescent *)
From NSG Require Import Model.CoordExec.
Example C16_nonvacuous :
  let cfg := {| required := 2; max_steps := fun _ => Some 3; r_step := (-1)%Z; r_succ := 100%Z; r_fail := (-10)%Z;
                allowed := fun _ => true; save_traj := false |} in
  let run := execs x_wstep x_wreset x_winit (x_goal []) (x_detect None (0%Z, 1%positive)) cfg (init_state [5%N; 6%N])
               [LConnect 1%N; LArrive 1%N (CMsg (MJoin (Some (7%N, Some RAttacker)))); LRun (TConn 1%N); LRun TDispatch; LRun (THandler 0)] in
  match run with
  | Some s => quiescent x_wstep x_winit (x_goal []) (x_detect None (0%Z, 1%positive)) cfg s = true /\
              length (handlers s) = 1 /\ length (agents s) = 1 /\ served s = 1
  | None => False
  end.
Proof. vm_compute. repeat split; reflexivity. Qed.

Print Assumptions C16_step.
Print Assumptions C16_refused.
Print Assumptions C16_frame.
Print Assumptions C16_handout.
Print Assumptions C16_files.
Print Assumptions C16_files_exact.
Print Assumptions C16_files_frame.
Print Assumptions C16_wf.
Print Assumptions C16_one_label.
