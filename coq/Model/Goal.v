(* The goal check of the coordinator (GameCoordinator.goal_check) on the views of the world model: every part of
   the goal is contained in the corresponding part of the view; for the three dictionary parts (services, data,
   blocks): every host of the goal is a key of the view's dictionary and its items are among the view's items for
   that host.  No proofs in this file. *)
From stdpp Require Import gmap.
From Coq Require Import ZArith NArith.
From NSG Require Import Model.World.

Record goal := {
  g_nets : gset net; g_hosts : gset ip; g_ctrl : gset ip;
  g_svcs : gmap ip (gset svc); g_data : gmap ip (gset data); g_blocks : gmap ip (gset ip);
}.

(* goal_dict[host] <= known_dict[host], with the key present *)
Definition entry_ok {A} `{Countable A} (known : gmap ip (gset A)) (h : ip) (S : gset A) : Prop :=
  match known !! h with Some S' => S ⊆ S' | None => False end.
Global Instance entry_ok_dec {A} `{Countable A} (known : gmap ip (gset A)) h S : Decision (entry_ok known h S).
Proof. unfold entry_ok. destruct (known !! h); apply _. Defined.

(* goal_dict_satistfied *)
Definition dict_ok {A} `{Countable A} (g known : gmap ip (gset A)) : bool := bool_decide (map_Forall (entry_ok known) g).

Definition goal_ok (g : goal) (v : view) : bool :=
  bool_decide (g_nets g ⊆ v_nets v) && bool_decide (g_hosts g ⊆ v_hosts v) && bool_decide (g_ctrl g ⊆ v_ctrl v) &&
  dict_ok (g_svcs g) (v_svcs v) && dict_ok (g_data g) (v_data v) && dict_ok (g_blocks g) (v_blocks v).

Definition empty_goal : goal := {| g_nets := ∅; g_hosts := ∅; g_ctrl := ∅; g_svcs := ∅; g_data := ∅; g_blocks := ∅ |}.
