"""C19: the task configuration is honoured, with documented defaults.

Generated configurations (all subsets of optional keys; lists/dictionaries of valid values for both
roles; role section present / empty / absent) go through the real ConfigParser, start_tasks and a
join.  Checked: the scalar settings against the documented defaults, the parsed start position and
win condition against the listed items, the join reply, and the initial view against
Model/Load.v init_view (inside Coq) and against the property statement (monitor)."""
import copy
import json
import re
import os
import random
import sys

import yaml

import check as CK

TRANSLATORS = ["confdefaults"]
COQ_FILES = ["Props/C19.v", "Props/C19_config.v", "Obl/C19_defaults.v", "Obl/C19_model.v"]

SCEN_IPS = ["192.168.1.2", "192.168.1.3", "192.168.1.4", "192.168.2.2", "192.168.2.3", "213.47.23.195", "192.168.1.1", "192.168.2.1"]
SCEN_NETS = ["192.168.1.0/24", "192.168.2.0/24", "213.47.23.192/26"]
OTHER_NETS = ["192.168.3.0/24", "10.10.0.0/16"]
SVC_POOL = [["ssh", "passive", "8.1", False], ["Local system", "lanman server", "10.0.19041", False], ["bash", "passive", "5.0", True]]
DATA_POOL = [["User1", "DataFromServer1"], ["User2", "Data2FromServer1"], ["x", "y"]]


def _imports():
    sys.path[:0] = [CK.HARNESS]
    import nsgenv
    import worldlib
    import worldrun
    import coordrun
    return nsgenv, worldlib, worldrun, coordrun


def gen_part(rng, start, allow_wild=True):
    """One goal / start_position section with a random subset of its documented keys."""
    p = {}
    if rng.random() < 0.8:
        p["known_networks"] = rng.sample(SCEN_NETS + (OTHER_NETS if not start else []), rng.randrange(0, 3))
    if rng.random() < 0.8:
        p["known_hosts"] = rng.sample(SCEN_IPS, rng.randrange(0, 3))
    if rng.random() < 0.9 or start:
        ctrl = rng.sample(SCEN_IPS, rng.randrange(0 if not start else 1, 3))
        if start and allow_wild:
            c = rng.random()
            if c < 0.25:
                ctrl.append("random")
            elif c < 0.45:
                ctrl.append("all_local")
                if rng.random() < 0.6 and "213.47.23.195" not in ctrl:
                    ctrl.append("213.47.23.195")            # a listed host that the wildcard does not cover
        p["controlled_hosts"] = ctrl
    if rng.random() < 0.7:
        svcs = {}
        for h in rng.sample(SCEN_IPS, rng.randrange(0, 3)):
            svcs[h] = rng.choice(SVC_POOL) if rng.random() < 0.6 else rng.sample(SVC_POOL, 2)
        p["known_services"] = svcs
    if rng.random() < 0.7:
        p["known_data"] = {h: rng.sample(DATA_POOL, rng.randrange(1, 3)) for h in rng.sample(SCEN_IPS, rng.randrange(0, 3))}
    if rng.random() < 0.7:
        bl = {}
        for h in rng.sample(SCEN_IPS, rng.randrange(0, 2)):
            others = [x for x in SCEN_IPS if x != h]
            bl[h] = rng.sample(others, rng.randrange(1, 3)) if rng.random() < 0.6 else {rng.choice(others): None}   # list, or the YAML {ip} flow form
        p["known_blocks"] = bl
    return p


def gen_config(rng):
    cfg = {"coordinator": {"agents": {}}, "env": {"scenario": "scenario1_small", "random_seed": 42}}
    env = cfg["env"]
    exp = {"required": 1, "rewards": {"step": 0, "success": 0, "fail": 0}, "firewall": False, "dynamic": False, "defender": False, "save": False}
    if rng.random() < 0.6:
        env["required_players"] = rng.choice([1, 2, 3])
        exp["required"] = env["required_players"]
    if rng.random() < 0.7:
        r = {}
        for k in ("step", "success", "fail"):
            if rng.random() < 0.7:
                r[k] = rng.choice([-1, 0, 5, 100, -10])
                exp["rewards"][k] = r[k]
        env["rewards"] = r
    for key, ek in (("use_firewall", "firewall"), ("use_global_defender", "defender"), ("save_trajectories", "save")):
        if rng.random() < 0.6:
            env[key] = rng.random() < 0.5
            exp[ek] = env[key]
    if rng.random() < 0.3:
        env["use_dynamic_addresses"] = False
    exp["max_steps"] = {}
    exp["configured"] = {}
    for role in ("Attacker", "Defender"):
        c = rng.random()
        if role == "Defender" and c < 0.15:
            exp["configured"][role] = False           # absent
            exp["max_steps"][role] = None
            continue
        if role == "Defender" and c < 0.3:
            cfg["coordinator"]["agents"][role] = None   # empty section (README: "leave the section empty")
            exp["configured"][role] = False
            exp["max_steps"][role] = None
            continue
        sec = {"goal": gen_part(rng, False), "start_position": gen_part(rng, True)}
        if rng.random() < 0.6:
            sec["goal"]["description"] = rng.choice(["Exfiltrate data to '213.47.23.195'", "Block 192.168.1.2 now", ""])
        if rng.random() < 0.7:
            sec["max_steps"] = rng.choice([5, 25, 100, None])
        exp["max_steps"][role] = sec.get("max_steps")
        exp["configured"][role] = True
        cfg["coordinator"]["agents"][role] = sec
    return cfg, exp


def listed(part, key, default):
    v = part.get(key)
    return default if v is None else v


def correspondence(ctx):
    nsgenv, WL, WR, CR = _imports()
    from AIDojoCoordinator.game_components import IP, Network, Service, Data
    rng = random.Random(ctx.seed * 31 + 19)
    n = 600 if ctx.tier == "thorough" else 120
    casedir = CK.fresh_casedir(ctx)
    case_lines = []
    samples = []
    stats = {"joins": 0, "configs": 0, "unconfigured_role_refused": 0, "wildcard_random": 0, "wildcard_all_local": 0}
    I = WL.Interner()
    world0 = None
    for ci in range(n):
        cfg, exp = gen_config(rng)
        stats["configs"] += 1
        try:
            S = CR.Session(cfg)
        except Exception as e:
            ctx.violations.append({"key": "coordinator does not start", "what": f"the coordinator does not start with a configuration built from documented keys: {type(e).__name__}: {e}",
                                   "replay": {"kind": "config", "config": cfg}})
            continue
        try:
            g = S.g
            if S.d.task_errors:
                ctx.violations.append({"key": "coordinator does not start", "what": f"start-up failed: {S.d.task_errors[:1]}", "replay": {"kind": "config", "config": cfg}})
                continue
            # ---- scalar settings
            got = {"required": g._min_required_players, "rewards": dict(g._rewards), "firewall": bool(g.task_config.get_use_firewall()),
                   "dynamic": bool(g._use_dynamic_ips), "defender": g._global_defender is not None, "save": bool(g.task_config.get_store_trajectories())}
            for k in got:
                if got[k] != exp[k]:
                    ctx.violations.append({"key": f"setting {k}", "what": f"setting '{k}' is {got[k]!r}, the configuration (with documented defaults) says {exp[k]!r}",
                                           "replay": {"kind": "config", "config": cfg}})
            for role in ("Attacker", "Defender"):
                if g._steps_limit_per_role.get(role) != exp["max_steps"][role]:
                    ctx.violations.append({"key": "setting max_steps", "what": f"max_steps of {role} is {g._steps_limit_per_role.get(role)!r}, configured {exp['max_steps'][role]!r}",
                                           "replay": {"kind": "config", "config": cfg}})
            # ---- sections: parsed start position / win condition contain exactly the listed items
            for role in ("Attacker", "Defender"):
                if not exp["configured"][role]:
                    continue
                sec = cfg["coordinator"]["agents"][role]
                for part_name, parsed in (("start_position", g._starting_positions_per_role[role]), ("goal", g._win_conditions_per_role[role])):
                    part = sec[part_name]
                    want_nets = {Network(x.split("/")[0], int(x.split("/")[1])) for x in listed(part, "known_networks", [])}
                    want_hosts = {IP(x) for x in listed(part, "known_hosts", [])}
                    want_ctrl = {IP(x) if x not in ("random", "all_local") else x for x in listed(part, "controlled_hosts", [])}
                    want_svcs = {IP(h): {Service(*s) for s in (v if isinstance(v[0], list) else [v])} for h, v in listed(part, "known_services", {}).items()}
                    want_data = {IP(h): {Data(o, i) for o, i in v} for h, v in listed(part, "known_data", {}).items()}
                    checks = [("known_networks", set(parsed.get("known_networks", set())), want_nets),
                              ("known_hosts", set(parsed.get("known_hosts", set())), want_hosts),
                              ("controlled_hosts", set(parsed.get("controlled_hosts", set())), want_ctrl),
                              ("known_services", parsed.get("known_services"), want_svcs),
                              ("known_data", parsed.get("known_data"), want_data)]
                    if part_name == "goal":
                        want_blocks = {IP(h): {IP(x) for x in v} for h, v in listed(part, "known_blocks", {}).items()}
                        checks.append(("known_blocks", parsed.get("known_blocks"), want_blocks))
                    for key, have, want in checks:
                        if have != want:
                            ctx.violations.append({"key": f"section {part_name}.{key}",
                                                   "what": f"{role} {part_name}.{key}: parsed {have!r}, listed {want!r}",
                                                   "replay": {"kind": "config", "config": cfg}})
            # ---- join with each role: reply and initial view
            if world0 is None:
                world0 = WL.impl_tables(g) if g._networks else None
            req = exp["required"]
            picks_by = {}
            for k, role in enumerate(["Attacker", "Defender", "Benign"][:max(1, min(req, 3))] if req > 1 else [rng.choice(["Attacker", "Defender"])]):
                a = ("10.3.0.%d" % (k + 1), 500 + k)
                S.connect(a)
                S.settle()
                with WR.Recorder() as rec:
                    S.send(a, nsgenv.join("n%d" % k, role), {"kind": "join", "name": "n%d" % k, "role": role if exp["configured"].get(role, True) else "unconfigured"})
                    S.settle()
                picks = [WL.ip2n(p) for p in rec.picks]
                picks_by[a] = picks
                stats["joins"] += 1
                outs = [json.loads(c[:-3].decode()) for c in S.d.new_output(a)]
                sec = cfg["coordinator"]["agents"].get(role) if role != "Benign" else None
                if role != "Benign" and not exp["configured"][role]:
                    stats["unconfigured_role_refused"] += 1
                    if len(outs) != 1 or "BAD_REQUEST" not in outs[0]["status"]:
                        ctx.violations.append({"key": "unconfigured role", "what": f"joining with the unconfigured role {role} was not refused with BAD_REQUEST: {outs}",
                                               "replay": {"kind": "config", "config": cfg, "role": role}})
                    continue
                if len(g.agents) < req and not outs:
                    continue          # waiting for the other players; checked when they have joined
                if S.d.task_errors:
                    ctx.violations.append({"key": "join raises", "what": f"joining as {role} made a coordinator task raise: {S.d.task_errors[:1]}",
                                           "replay": {"kind": "config", "config": cfg, "role": role}})
                    break
            # every joined agent must have its reply once enough players are in
            for a, c in S.d.conns.items():
                if a not in g.agents:
                    continue
                outs = [json.loads(x[:-3].decode()) for x in c.writer.chunks]
                role = g.agents[a][1]
                if len(g.agents) >= req and (not outs or "CREATED" not in outs[0]["status"]):
                    ctx.violations.append({"key": "join unanswered", "what": f"join of a {role} not confirmed although {len(g.agents)} of {req} players are in: {outs}",
                                           "replay": {"kind": "config", "config": cfg, "role": role}})
                    continue
                if not outs:
                    continue
                msg = outs[0]["message"]
                if role != "Benign":
                    sec = cfg["coordinator"]["agents"][role]
                    if msg["max_steps"] != exp["max_steps"][role]:
                        ctx.violations.append({"key": "reply max_steps", "what": f"join reply announces max_steps {msg['max_steps']!r}, configured {exp['max_steps'][role]!r}",
                                               "replay": {"kind": "config", "config": cfg, "role": role}})
                    if msg["goal_description"] != sec["goal"].get("description", ""):
                        ctx.violations.append({"key": "reply goal description", "what": "join reply carries another goal description than the configured one",
                                               "replay": {"kind": "config", "config": cfg, "role": role}})
                    # monitor: every listed start item is in the initial view; wildcards resolve to valid hosts
                    view = outs[0]["observation"]["state"]
                    part = sec["start_position"]
                    hosts = {h["ip"] for h in view["known_hosts"]}
                    ctrl = {h["ip"] for h in view["controlled_hosts"]}
                    nets = {f"{x['ip']}/{x['mask']}" for x in view["known_networks"]}
                    T = WL.impl_tables(g)
                    local = {WL.n2ip(i) for nt, ips in T["nets"].items() if WL.is_private_value(nt[0]) for i in ips}
                    start_hosts = {WL.n2ip(i) for i in T["start"]}
                    lc = listed(part, "controlled_hosts", [])
                    problems = []
                    for x in lc:
                        if x == "all_local":
                            stats["wildcard_all_local"] += 1
                            if not local <= ctrl:
                                problems.append("'all_local' did not yield all addresses of the private networks")
                        elif x == "random":
                            stats["wildcard_random"] += 1
                        elif x not in ctrl:
                            problems.append(f"listed controlled host {x} is not controlled")
                    extra = ctrl - {x for x in lc if x not in ("random", "all_local")} - (local if "all_local" in lc else set())
                    if len(extra) > lc.count("random") or not extra <= start_hosts:
                        problems.append(f"controlled hosts {sorted(extra)} are neither listed nor valid random start hosts")
                    if not ctrl <= hosts:
                        problems.append("a controlled host is not a known host")
                    if not set(listed(part, "known_hosts", [])) <= hosts:
                        problems.append("a listed known host is missing from the initial view")
                    if not set(listed(part, "known_networks", [])) <= nets:
                        problems.append("a listed known network is missing from the initial view")
                    for h, v in listed(part, "known_data", {}).items():
                        have = {(d["owner"], d["id"]) for d in view["known_data"].get(h, [])}
                        if not {tuple(x) for x in v} <= have:
                            problems.append(f"listed start data on {h} is missing from the initial view")
                    for h, v in listed(part, "known_services", {}).items():
                        have = {(s["name"], s["type"], s["version"], s["is_local"]) for s in view["known_services"].get(h, [])}
                        want = {tuple(s) for s in (v if isinstance(v[0], list) else [v])}
                        if not want <= have:
                            problems.append(f"listed start services on {h} are missing from the initial view")
                    for pr in problems:
                        ctx.violations.append({"key": "initial view", "what": pr, "replay": {"kind": "config", "config": cfg, "role": role}})
                    # model: Load.init_view on the implementation's tables (inside Coq)
                    sp = {"nets": [WL.key_net(x) for x in listed(part, "known_networks", [])],
                          "hosts": [WL.ip2n(x) for x in listed(part, "known_hosts", [])],
                          "ctrl": [x if x in ("random", "all_local") else WL.ip2n(x) for x in lc],
                          "svcs": {WL.ip2n(h): {tuple(s) for s in (v if isinstance(v[0], list) else [v])} for h, v in listed(part, "known_services", {}).items()},
                          "data": {WL.ip2n(h): {(o, i, 0, "") for o, i in v} for h, v in listed(part, "known_data", {}).items()}}
                    vimpl = WL.impl_view(g._agent_states[a]) if len(g._agent_trajectories[a]["trajectory"]["actions"]) == 0 else None
                    if vimpl is not None:
                        case_lines.append((f"(run {WL.world_term(T, I)} [] [OInit 0 {WR.start_pos_term(sp, I)} [{'; '.join(f'{p}%N' for p in self_picks(S, a, picks_by))}] {WL.view_term(vimpl, I)}])",
                                           json.dumps({"role": role, "start_position": part})))
                        if len(samples) < 2:
                            samples.append({"role": role, "start_position": part, "initial_view_controlled": sorted(ctrl)})
        finally:
            S.close()
    # ---- the shipped configuration: the documented 'all_attackers' wildcard in the Defender's goal
    probe_shipped(ctx, nsgenv, CR)
    probe_role_limits(ctx, nsgenv)
    probe_switches(ctx, nsgenv, CR)
    probe_goal(ctx, nsgenv, CR)
    probe_required_players(ctx, nsgenv)
    probe_wildcard_orders(ctx, nsgenv)
    # ---- dynamic addresses: the configured start position is what the game uses for agents joining after re-labellings
    from props import dynprobe
    dynprobe.run(ctx, "C19")
    # ---- the scalar getters against Model/Config.v (descriptors regenerated from utils.py): generated configuration trees,
    #      well-formed and malformed, through the real getters and through `check_read` inside Coq
    from props import c19_model
    m_lines, m_metas, m_stats = c19_model.run(ctx, 400 if ctx.tier == "thorough" else 120)
    m_files = c19_model.write_cases(casedir, m_lines, m_metas)
    m_res = CK.run_case_files(ctx, [p for p, _ in m_files])
    m_disagree = 0
    for p, cs in m_files:
        ok, out = m_res[p]
        idx = CK.coq_eval_list(out) if ok else None
        if idx is None:
            ctx.stage_errors.append((f"coqc {os.path.basename(p)}", out[-600:]))
            continue
        idx = [int(x.replace("%nat", "")) for x in idx]
        if len(cs) not in idx:
            ctx.stage_errors.append((f"canary {os.path.basename(p)}", "deliberately false case not reported"))
        for i in idx:
            if i < len(cs):
                m_disagree += 1
                tree = m_metas[cs[i][1]][1]
                ctx.broken.append(f"correspondence Model/Config.v read vs utils.ConfigParser getter: {cs[i][0].split(' cfg')[0][len('check_read gen_config_getters '):]} on {json.dumps(tree)[:300]}")
    m_stats["model_impl_disagreements"] = m_disagree
    # ---- the section readers and the assembly of start position / win condition against Model/ConfigParts.v
    from props import c19_parts
    p_cases, p_trees, p_stats = c19_parts.run(ctx, 500 if ctx.tier == "thorough" else 150)
    p_files = c19_parts.write_cases(casedir, p_cases, p_trees)
    p_res = CK.run_case_files(ctx, [p for p, _ in p_files])
    p_disagree, p_applies = 0, 0
    for p, cs in p_files:
        ok, out = p_res[p]
        idx = CK.coq_eval_list(out) if ok else None
        m_app = re.search(r"=\s*(\d+)\s*:\s*nat", out) if ok else None
        if idx is None or m_app is None:
            ctx.stage_errors.append((f"coqc {os.path.basename(p)}", out[-600:]))
            continue
        p_applies += int(m_app.group(1))
        idx = [int(x.replace("%nat", "")) for x in idx]
        if len(cs) not in idx:
            ctx.stage_errors.append((f"canary {os.path.basename(p)}", "deliberately false case not reported"))
        for i in idx:
            if i < len(cs):
                p_disagree += 1
                k, role, fn, exp = cs[i]
                ctx.broken.append(f"correspondence Model/ConfigParts.v {fn} vs utils.ConfigParser ({role}): implementation gave {exp[:200]} on {json.dumps(p_trees[k][1]['coordinator']['agents'].get(role))[:300]}")
    p_stats["model_applies"] = p_applies
    p_stats["model_impl_disagreements"] = p_disagree
    if p_stats["parts_compared"] and p_applies < 0.6 * p_stats["parts_compared"]:
        ctx.stage_errors.append(("section reader correspondence", f"the model applies to only {p_applies} of {p_stats['parts_compared']} generated parts"))
    ctx.coverage["section_reader_model"] = p_stats
    # ---- run the model
    shard = 20
    paths, shards = [], []
    for si in range(0, len(case_lines), shard):
        chunk = case_lines[si:si + shard]
        body = ["From stdpp Require Import gmap.", "From Coq Require Import ZArith NArith.",
                "From NSG Require Import Model.World Model.Load Model.WorldCases.",
                "Definition cases : list bool := concat [", ";\n".join(c[0] for c in chunk) + ";", "[false]].",
                "Eval vm_compute in (false_indices 0 cases)."]
        p = os.path.join(casedir, f"c19_{si // shard}.v")
        with open(p, "w") as f:
            f.write("\n".join(body))
        paths.append(p)
        shards.append((p, chunk))
    res = CK.run_case_files(ctx, paths)
    disagreements = 0
    for p, chunk in shards:
        ok, out = res[p]
        idx = CK.coq_eval_list(out) if ok else None
        if idx is None:
            ctx.stage_errors.append((f"coqc {os.path.basename(p)}", out[-600:]))
            continue
        idx = [int(x.replace("%nat", "")) for x in idx]
        if len(chunk) not in idx:
            ctx.stage_errors.append((f"canary {os.path.basename(p)}", "deliberately false case not reported"))
        for i in idx:
            if i < len(chunk):
                disagreements += 1
                ctx.broken.append(f"correspondence Model/Load.v init_view vs _create_state_from_view: {chunk[i][1][:300]}")
    ctx.coverage["config_getter_model"] = m_stats
    ctx.coverage.update({
        "evaluations": stats["configs"] + stats["joins"],
        "distinct_nontrivial": len({c[1] for c in case_lines}) + stats["configs"],
        "rule": "random task configurations over the documented keys: every optional key independently present or absent (env switches, rewards individually, required_players, max_steps, description, every goal/start part), lists and dictionaries of valid scenario values for Attacker and Defender, both documented block formats, Defender section present / empty / absent; each goes through the real ConfigParser, start_tasks and joins; distinct = distinct configurations and initial-view cases",
        "statistics": stats, "initial_view_cases_in_coq": len(case_lines),
        "disagreements_checked": len(case_lines), "model_impl_disagreements": disagreements,
        "samples": samples,
    })
    ctx.assumptions += [
        "'documented keys' = the keys of the shipped netsecenv_conf.yaml plus required_players and description; defaults as the property states them (no step limit, zero rewards, one player, switches off)",
        "yaml.safe_load is library code; the section readers of utils.ConfigParser are checked against the listed items directly (reference monitor), the initial view against Model/Load.v",
        "random.choice picks are recorded and given to the model as its oracle",
    ]


def self_picks(S, a, picks_by):
    """The random.choice picks recorded while THIS agent's join was processed."""
    return picks_by.get(a, [])


def probe_role_limits(ctx, nsgenv):
    """max_steps takes the configured value for EVERY role: a Defender with its own limit, playing while an attacker is active."""
    from nsgenv import msg, ip
    for dlim, alim in ((2, 6), (3, 5)):
        cfg = nsgenv.base_config("scenario1_small", required_players=2)
        cfg["coordinator"]["agents"]["Attacker"]["max_steps"] = alim
        cfg["coordinator"]["agents"]["Attacker"]["goal"]["known_data"] = {}
        cfg["coordinator"]["agents"]["Attacker"]["goal"]["known_hosts"] = ["1.1.1.1"]
        cfg["coordinator"]["agents"]["Defender"]["max_steps"] = dlim
        cfg["coordinator"]["agents"]["Defender"]["goal"]["known_data"] = {"1.1.1.1": [["x", "y"]]}
        replay = {"kind": "role_limits", "defender_max_steps": dlim, "attacker_max_steps": alim}
        d = nsgenv.start(cfg)
        try:
            g = d.g
            a, b = ("10.3.8.1", 801), ("10.3.8.2", 802)
            d.connect(a); d.connect(b); d.settle()
            d.send(a, nsgenv.join("att", "Attacker")); d.settle()
            d.send(b, nsgenv.join("def", "Defender")); d.settle()
            d.new_output(a); d.new_output(b)
            d.send(a, msg("FindData", source_host=ip("192.168.2.2"), target_host=ip("192.168.2.2"))); d.settle()     # the attacker is active
            for k in range(dlim):
                if g._episode_ends.get(b):
                    ctx.violations.append({"key": "defender step limit", "what": f"the Defender's episode ended after {k} steps, max_steps={dlim} is configured", "replay": replay})
                    break
                ctrl = sorted(str(h) for h in g._agent_states[b].controlled_hosts)
                d.send(b, msg("FindData", source_host=ip(ctrl[0]), target_host=ip(ctrl[0]))); d.settle()
            if not g._episode_ends.get(b) or g._agent_steps.get(b) != dlim:
                ctx.violations.append({"key": "defender step limit", "what": f"max_steps={dlim} is configured for the Defender, but after {g._agent_steps.get(b)} steps its episode has {'ended' if g._episode_ends.get(b) else 'not ended'} (no step limit applied to this role)", "replay": replay})
            if d.task_errors:
                ctx.violations.append({"key": "task died in the role-limit probe", "what": str(d.task_errors[:1]), "replay": replay})
        finally:
            d.close()


def probe_switches(ctx, nsgenv, CR):
    """The global-defender, trajectory and firewall switches each take the configured value (absent = off), in EVERY combination
    with the other two: behaviour-level effect of each switch on the real coordinator.

    * global defender: with the detection draw scripted to 0.0 an attacker repeating one scan is detected (its episode ends with
      reason Fail) as soon as the thresholds are passed iff the switch is on; off/absent: the scan can be repeated 8 times;
    * trajectories: after the collective reset a record of the finished episode is in the trajectories folder iff the switch is on;
      the trajectory handed out with the reset (request_trajectory) has the actions played, whatever the switch says;
    * firewall: off/absent: a scan of 192.168.1.0/24 from 192.168.2.2 finds every host of that network; on: the scenario's rules
      hide some of them."""
    import itertools
    import ipaddress
    from nsgenv import msg, ip
    values = (True, False, None)
    stats = {"combinations": 0}
    for gd, save, fw in itertools.product(values, values, values):
        cfg = nsgenv.base_config("scenario1_small", required_players=1)
        for key, v in (("use_global_defender", gd), ("save_trajectories", save), ("use_firewall", fw)):
            if v is None:
                cfg["env"].pop(key, None)
            else:
                cfg["env"][key] = v
        A = cfg["coordinator"]["agents"]["Attacker"]
        A.pop("max_steps", None)
        A["goal"]["known_data"] = {}
        A["goal"]["known_hosts"] = ["1.1.1.1"]
        replay = {"kind": "switches", "use_global_defender": gd, "save_trajectories": save, "use_firewall": fw}
        try:
            S = CR.Session(cfg, draw=0.0)
        except Exception as e:
            ctx.violations.append({"key": "coordinator does not start (switches)", "what": f"{replay}: {type(e).__name__}: {e}", "replay": replay})
            continue
        stats["combinations"] += 1
        try:
            S.d.on_segment = None
            d, g = S.d, S.g
            a = ("10.3.7.1", 701)
            d.connect(a); d.settle()
            d.send(a, nsgenv.join("att", "Attacker")); d.settle()
            d.new_output(a)
            scan = msg("ScanNetwork", source_host=ip("192.168.2.2"), target_network={"ip": "192.168.1.0", "mask": 24})
            docs = []
            for k in range(8):
                d.send(a, scan); d.settle()
                o = [json.loads(r[:-3].decode()) for r in d.new_output(a)]
                if len(o) != 1:
                    ctx.violations.append({"key": "switch probe: action not answered", "what": f"{replay}: scan {k + 1} got {len(o)} answers; {d.task_errors[:1]}", "replay": replay})
                    break
                docs.append(o[0])
                if o[0]["observation"]["end"]:
                    break
            else:
                k = 8
            if not docs:
                continue
            last = docs[-1]["observation"]
            detected = bool(last["end"]) and "Fail" in str(last["info"].get("end_reason"))
            if bool(gd) != detected:
                ctx.violations.append({"key": f"use_global_defender={gd} not honoured (save_trajectories={save})",
                                       "what": f"{replay}: with the detection draw scripted to 0.0, one scan repeated {len(docs)} times ended with end={last['end']} reason={last['info'].get('end_reason')}; the switch being {'on' if gd else 'off/absent'} the attacker must {'be detected' if gd else 'never be detected'}",
                                       "replay": replay})
            seen = {h["ip"] for h in docs[0]["observation"]["state"]["known_hosts"]}
            net = ipaddress.ip_network("192.168.1.0/24")
            all_hosts = {str(h) for h in g._ip_to_hostname if ipaddress.ip_address(str(h)) in net}
            in_net = {h for h in seen if ipaddress.ip_address(h) in net}
            if (not fw and in_net != all_hosts) or (fw and not (in_net < all_hosts)):
                ctx.violations.append({"key": f"use_firewall={fw} not honoured",
                                       "what": f"{replay}: the scan of 192.168.1.0/24 from 192.168.2.2 found {sorted(in_net)} of {sorted(all_hosts)}; with the firewall {'on the scenario rules hide some hosts' if fw else 'off/absent every host answers'}",
                                       "replay": replay})
            # a block placed now must be gone after the reset whatever the firewall switch says (second episode below)
            d.send(a, msg("BlockIP", source_host=ip("192.168.2.2"), target_host=ip("192.168.2.2"), blocked_host=ip("192.168.1.3"))); d.settle()
            blk = [json.loads(r[:-3].decode()) for r in d.new_output(a)]
            if not detected and blk and blk[0].get("status") == "GameStatus.OK" and not blk[0]["observation"]["end"]:
                docs.append(blk[0])
            d.send(a, msg("ResetGame", request_trajectory="True")); d.settle()
            o = [json.loads(r[:-3].decode()) for r in d.new_output(a)]
            if len(o) != 1 or "RESET_DONE" not in o[0].get("status", ""):
                ctx.violations.append({"key": "switch probe: reset not confirmed", "what": f"{replay}: {[x.get('status') for x in o]} {d.task_errors[:1]}", "replay": replay})
                continue
            lt = o[0]["message"].get("last_trajectory") or {}
            n_act = len((lt.get("trajectory") or {}).get("actions", []))
            if n_act != len(docs):
                ctx.violations.append({"key": f"trajectory handed out with the reset (save_trajectories={save})",
                                       "what": f"{replay}: {len(docs)} actions were answered in the episode, the trajectory attached to RESET_DONE has {n_act}", "replay": replay})
            tdir = os.path.join(S.workdir, "trajectories")
            recs = []
            if os.path.isdir(tdir):
                for fn in os.listdir(tdir):
                    recs += [json.loads(l) for l in open(os.path.join(tdir, fn)) if l.strip()]
            if bool(save) != bool(recs) or (recs and len(recs[0]["trajectory"]["actions"]) != len(docs)):
                ctx.violations.append({"key": f"save_trajectories={save} not honoured (use_global_defender={gd})",
                                       "what": f"{replay}: after the reset the trajectories folder holds {len(recs)} record(s) ({[len(r['trajectory']['actions']) for r in recs]} actions) for an episode of {len(docs)} actions; the switch is {'on' if save else 'off/absent'}",
                                       "replay": replay})
            # second episode: the switch still has its configured effect (nothing of the first episode interferes)
            d.send(a, scan); d.settle()
            o2 = [json.loads(r[:-3].decode()) for r in d.new_output(a)]
            if len(o2) == 1 and "observation" in o2[0]:
                seen2 = {h["ip"] for h in o2[0]["observation"]["state"]["known_hosts"]}
                in2 = {h for h in seen2 if ipaddress.ip_address(h) in net}
                if in2 != in_net:
                    ctx.violations.append({"key": f"use_firewall={fw}: the second episode sees a different network",
                                           "what": f"{replay}: the same scan found {sorted(in_net)} in the first episode and {sorted(in2)} after the reset (a BlockIP of the first episode must be lifted; with the firewall {'on the scenario rules apply again' if fw else 'off/absent every host answers'})",
                                           "replay": replay})
            else:
                ctx.violations.append({"key": "switch probe: second episode not answered", "what": f"{replay}: {len(o2)} answers {d.task_errors[:1]}", "replay": replay})
            # third and fourth episode: a block placed in a LATER episode is lifted just the same - every episode starts with the
            # configured firewall, however many episodes and blocks came before
            for ep in (3, 4):
                d.send(a, msg("BlockIP", source_host=ip("192.168.2.2"), target_host=ip("192.168.2.2"), blocked_host=ip("192.168.1.%d" % (ep - 1)))); d.settle()
                d.new_output(a)
                d.send(a, msg("ResetGame")); d.settle()
                d.new_output(a)
                d.send(a, scan); d.settle()
                o3 = [json.loads(r[:-3].decode()) for r in d.new_output(a)]
                if len(o3) == 1 and "observation" in o3[0]:
                    in3 = {h["ip"] for h in o3[0]["observation"]["state"]["known_hosts"] if ipaddress.ip_address(h["ip"]) in net}
                    if in3 != in_net:
                        ctx.violations.append({"key": f"use_firewall={fw}: episode {ep} does not start with the configured firewall",
                                               "what": f"{replay}: the same scan found {sorted(in_net)} in the first episode and {sorted(in3)} at the start of episode {ep} (a BlockIP of episode {ep - 1} must be lifted by the reset; with the firewall {'on the scenario rules apply again' if fw else 'off/absent every host answers'})",
                                               "replay": replay})
                        break
                else:
                    ctx.violations.append({"key": "switch probe: later episode not answered", "what": f"{replay}: episode {ep}: {len(o3)} answers {d.task_errors[:1]}", "replay": replay})
                    break
            if d.task_errors:
                ctx.violations.append({"key": "task died in the switch probe", "what": f"{replay}: {d.task_errors[:1]}", "replay": replay})
        except Exception as e:
            import traceback
            ctx.stage_errors.append((f"switch probe {replay}", f"{type(e).__name__}: {e}\n{traceback.format_exc()[-600:]}"))
        finally:
            S.close()
    ctx.coverage["switch_probe"] = stats


def probe_goal(ctx, nsgenv, CR):
    """The win condition the GAME uses is the configured one: an attacker plays the same exfiltration script under different
    goals; after every answer the end flag must equal 'every item the configuration lists for the goal is in the returned view'
    (reference subset check, independent of coordinator.goal_check) - goals listing two data for one host (delivered in both
    orders), a goal listing less than the agent will know about that host, goals over services and hosts."""
    from nsgenv import msg, ip
    goals = [
        ("two data, one host", {"known_data": {"213.47.23.195": [["User1", "DataFromServer1"], ["User2", "Data2FromServer1"]]}}),
        ("one datum, more delivered first", {"known_data": {"213.47.23.195": [["User1", "DataFromServer1"]]}}),
        ("one datum on a host where more is known", {"known_data": {"192.168.1.2": [["User1", "DataFromServer1"]]}}),
        ("a service of a host where more are known", {"known_services": {"192.168.1.2": [["microsoft-ds", "passive", "10.0.19041", False]]}}),
        ("two hosts and a network", {"known_hosts": ["192.168.1.2", "192.168.1.3"], "known_networks": ["192.168.1.0/24"]}),
    ]
    stats = {"goals": 0, "answers_checked": 0, "episodes_won": 0}
    for name, goal in goals:
        for order in (0, 1):
            cfg = nsgenv.base_config("scenario1_small", required_players=1)
            A = cfg["coordinator"]["agents"]["Attacker"]
            A["max_steps"] = 40
            g0 = copy.deepcopy(nsgenv.EMPTY_PART)
            g0.update(copy.deepcopy(goal))
            A["goal"] = dict(g0, description="goal", is_any_part_of_goal_random=False)
            replay = {"kind": "goal_probe", "goal": goal, "order": order}
            try:
                S = CR.Session(cfg)
            except Exception as e:
                ctx.violations.append({"key": f"coordinator does not start (goal: {name})", "what": f"{type(e).__name__}: {e}", "replay": replay})
                continue
            stats["goals"] += 1
            try:
                S.d.on_segment = None
                d, g = S.d, S.g
                a = ("10.3.6.1", 601)
                d.connect(a); d.settle()
                d.send(a, nsgenv.join("att", "Attacker")); d.settle()
                d.new_output(a)
                ended = [False]

                def play(text, what):
                    if ended[0]:
                        return
                    d.send(a, text); d.settle()
                    o = [json.loads(r[:-3].decode()) for r in d.new_output(a)]
                    if len(o) != 1 or "observation" not in o[0]:
                        ctx.violations.append({"key": f"goal probe: action not answered ({name})", "what": f"{what}: {len(o)} answers {d.task_errors[:1]}", "replay": replay})
                        ended[0] = True
                        return
                    obs = o[0]["observation"]
                    stats["answers_checked"] += 1
                    want = CR.ref_goal(A["goal"], obs["state"])
                    if bool(obs["end"]) != want:
                        ctx.violations.append({"key": f"win condition is not the configured one ({name})",
                                               "what": f"goal {goal}: after {what} the configured goal is {'reached' if want else 'NOT reached'} in the returned view, but the game says end={obs['end']} {obs['info']}",
                                               "replay": replay})
                    if obs["end"]:
                        ended[0] = True
                        if "Success" in str(obs["info"].get("end_reason")):
                            stats["episodes_won"] += 1
                play(msg("ScanNetwork", source_host=ip("192.168.2.2"), target_network={"ip": "192.168.1.0", "mask": 24}), "ScanNetwork")
                play(msg("FindServices", source_host=ip("192.168.2.2"), target_host=ip("192.168.1.2")), "FindServices")
                st = g._agent_states.get(a)
                from AIDojoCoordinator.game_components import IP
                svcs = sorted(st.known_services.get(IP("192.168.1.2"), []), key=lambda x: x.name) if st else []
                for sv in svcs:
                    if IP("192.168.1.2") in g._agent_states[a].controlled_hosts:
                        break
                    play(msg("ExploitService", source_host=ip("192.168.2.2"), target_host=ip("192.168.1.2"),
                             target_service={"name": sv.name, "type": sv.type, "version": sv.version, "is_local": sv.is_local}), f"ExploitService {sv.name}")
                play(msg("FindData", source_host=ip("192.168.1.2"), target_host=ip("192.168.1.2")), "FindData")
                items = [("User1", "Data3FromServer1"), ("User2", "Data2FromServer1"), ("User1", "DataFromServer1")]
                for owner, did in (items if order == 0 else items[::-1]):
                    play(msg("ExfiltrateData", source_host=ip("192.168.1.2"), target_host=ip("213.47.23.195"),
                             data={"owner": owner, "id": did, "size": 0, "type": ""}), f"ExfiltrateData {did}")
                if d.task_errors:
                    ctx.violations.append({"key": f"task died in the goal probe ({name})", "what": str(d.task_errors[:1]), "replay": replay})
            except Exception as e:
                import traceback
                ctx.stage_errors.append((f"goal probe {name}", f"{type(e).__name__}: {e}\n{traceback.format_exc()[-500:]}"))
            finally:
                S.close()
    if stats["episodes_won"] < 4:
        ctx.stage_errors.append(("goal probe", f"only {stats['episodes_won']} of the probe episodes reached their goal: the probe script no longer exercises the win condition"))
    ctx.coverage["goal_probe"] = stats


def probe_required_players(ctx, nsgenv):
    """required_players takes the configured value for EVERY episode: with N required, N agents join (nobody is confirmed before
    the N-th), one leaves, a remaining agent asks for a reset - the new episode must not start (no RESET_DONE) before a
    replacement has joined; with the key absent one player is enough."""
    from nsgenv import msg
    stats = {"configurations": 0}
    for required in (None, 1, 2, 3):
        cfg = nsgenv.base_config("scenario1_small")
        if required is None:
            cfg["env"].pop("required_players", None)
        else:
            cfg["env"]["required_players"] = required
        n = required or 1
        A = cfg["coordinator"]["agents"]["Attacker"]
        A["max_steps"] = 2
        A["goal"]["known_data"] = {}
        A["goal"]["known_hosts"] = ["1.1.1.1"]
        replay = {"kind": "required_players", "required_players": required}
        try:
            d = nsgenv.start(cfg)
        except Exception as e:
            ctx.violations.append({"key": "coordinator does not start (required_players)", "what": f"{replay}: {type(e).__name__}: {e}", "replay": replay})
            continue
        stats["configurations"] += 1
        try:
            g = d.g
            status = lambda a: [json.loads(r[:-3].decode()).get("status", "") for r in d.new_output(a)]
            agents = [("10.3.5.%d" % (i + 1), 500 + i) for i in range(n)]
            for i, a in enumerate(agents):
                d.connect(a); d.settle()
                d.send(a, nsgenv.join("p%d" % i, "Attacker")); d.settle()
                got = {x: status(x) for x in agents[:i + 1]}
                confirmed = [x for x, s_ in got.items() if any("CREATED" in t for t in s_)]
                if i + 1 < n and confirmed:
                    ctx.violations.append({"key": f"game starts with fewer than required_players={required}", "what": f"{replay}: {len(confirmed)} agent(s) were confirmed when only {i + 1} of {n} had joined", "replay": replay})
                if i + 1 == n and len(confirmed) != (n if n == 1 else len([x for x in agents])) and n == 1:
                    ctx.violations.append({"key": "single required player not confirmed", "what": f"{replay}: the only required player was not confirmed: {got}", "replay": replay})
            if n >= 2:
                gone = agents[-1]
                d.eof(gone); d.settle()
                stay = agents[0]
                d.send(stay, msg("ResetGame")); d.settle()
                for x in agents[1:-1]:
                    d.send(x, msg("ResetGame")); d.settle()
                early = [x for x in agents[:-1] if any("RESET_DONE" in t for t in status(x))]
                if early:
                    ctx.violations.append({"key": f"a new episode starts with fewer than required_players={required}",
                                           "what": f"{replay}: one of {n} players left; the remaining {n - 1} asked for a reset and {len(early)} got RESET_DONE while only {len(g.agents)} player(s) were in the game - the configured number of required players is not honoured for later episodes",
                                           "replay": replay})
                newcomer = ("10.3.5.99", 599)
                d.connect(newcomer); d.settle()
                d.send(newcomer, nsgenv.join("late", "Attacker")); d.settle()
                done = [x for x in agents[:-1] if any("RESET_DONE" in t for t in status(x))]
                if not early and len(done) != n - 1:
                    ctx.violations.append({"key": "reset not confirmed once the required players are back", "what": f"{replay}: after the replacement joined {len(done)} of {n - 1} waiting agents got RESET_DONE; {d.task_errors[:1]}", "replay": replay})
            if d.task_errors:
                ctx.violations.append({"key": "task died in the required-players probe", "what": f"{replay}: {d.task_errors[:1]}", "replay": replay})
        except Exception as e:
            import traceback
            ctx.stage_errors.append((f"required players probe {replay}", f"{type(e).__name__}: {e}\n{traceback.format_exc()[-500:]}"))
        finally:
            d.close()
    ctx.coverage["required_players_probe"] = stats


def probe_wildcard_orders(ctx, nsgenv):
    """The wildcards of controlled_hosts add to what is listed, whatever the order in which the items are resolved (the reader keeps
    them in a set, so the order is Python's): every permutation of {all_local, the outside host, random, a local host} handed to the
    world's view builder must give all local addresses plus every listed address (plus at most one valid start host per 'random')."""
    import itertools
    from AIDojoCoordinator.game_components import IP
    import worldlib as WL
    stats = {"orders": 0}
    cfg = nsgenv.base_config("scenario1_small")
    try:
        d = nsgenv.start(cfg)
    except Exception as e:
        ctx.stage_errors.append(("wildcard order probe", f"{type(e).__name__}: {e}"))
        return
    try:
        g = d.g
        d.settle()
        if not hasattr(g, "_data_original"):
            g._initialize()
        T = WL.impl_tables(g)
        local = {WL.n2ip(i) for nt, ips in T["nets"].items() if WL.is_private_value(nt[0]) for i in ips}
        start_hosts = {WL.n2ip(i) for i in T["start"]}
        pools = [["all_local", IP("213.47.23.195")], ["all_local", IP("213.47.23.195"), "random"], ["all_local", "random"],
                 ["random", IP("213.47.23.195"), IP("192.168.1.2")], ["all_local", IP("192.168.1.2"), IP("213.47.23.195")]]
        for items in pools:
            for order in itertools.permutations(items):
                stats["orders"] += 1
                view = {"known_networks": set(), "known_hosts": set(), "controlled_hosts": list(order), "known_services": {}, "known_data": {}, "known_blocks": {}}
                replay = {"kind": "wildcard_orders", "order": [str(x) for x in order]}
                try:
                    gs = g._create_state_from_view(view)
                except Exception as e:
                    ctx.violations.append({"key": "view builder raises on a documented start position", "what": f"controlled_hosts resolved in the order {replay['order']}: {type(e).__name__}: {e}", "replay": replay})
                    continue
                ctrl = {str(x) for x in gs.controlled_hosts}
                want = {str(x) for x in order if isinstance(x, IP)} | (local if "all_local" in order else set())
                extra = ctrl - want
                problems = []
                if not want <= ctrl:
                    problems.append(f"listed/all_local hosts missing from the initial view: {sorted(want - ctrl)}")
                if len(extra) > list(order).count("random") or not extra <= start_hosts:
                    problems.append(f"controlled hosts {sorted(extra)} are neither listed nor valid random start hosts")
                if "random" in order and "all_local" not in order and not (ctrl & start_hosts):
                    problems.append("'random' did not yield a start host")
                if not ctrl <= {str(x) for x in gs.known_hosts}:
                    problems.append("a controlled host is not a known host")
                for pr in problems:
                    ctx.violations.append({"key": "start position wildcards: " + pr.split(":")[0], "what": f"controlled_hosts resolved in the order {replay['order']}: {pr}", "replay": replay})
    finally:
        d.close()
    ctx.coverage["wildcard_order_probe"] = stats


def probe_shipped(ctx, nsgenv, CR):
    """The shipped configuration: Defender goal known_blocks {213.47.23.195: 'all_attackers'}."""
    path = os.path.join(CK.REPO, "AIDojoCoordinator", "netsecenv_conf.yaml")
    cfg = yaml.safe_load(open(path))
    cfg["env"]["scenario"] = "scenario1_small"
    cfg["env"]["random_seed"] = 42
    cfg["env"]["required_players"] = 1
    try:
        S = CR.Session(cfg)
    except Exception as e:
        ctx.violations.append({"key": "shipped configuration", "what": f"the shipped configuration is not accepted: {type(e).__name__}: {e}", "replay": {"kind": "shipped"}})
        return
    try:
        a = ("10.3.9.1", 900)
        S.connect(a)
        S.settle()
        S.send(a, nsgenv.join("d", "Defender"), {"kind": "join", "name": "d", "role": "Defender"})
        S.settle()
        outs = S.d.new_output(a)
        if not outs or b"CREATED" not in outs[0]:
            ctx.violations.append({"key": "shipped configuration join", "what": "a Defender cannot join with the shipped configuration", "replay": {"kind": "shipped"}})
            return
        st = S.g._agent_states[a]
        ctrl = sorted(str(h) for h in st.controlled_hosts)
        m = nsgenv.msg("BlockIP", source_host=nsgenv.ip(ctrl[0]), target_host=nsgenv.ip(ctrl[0]), blocked_host=nsgenv.ip("213.47.23.195"))
        S.send(a, m, {"kind": "game", "atype": "BlockIP", "as_dict": json.loads(m), "valid": True})
        S.settle()
        outs = S.d.new_output(a)
        if not outs or S.d.task_errors:
            ctx.violations.append({"key": "all_attackers wildcard in the goal check",
                                   "what": f"with the shipped Defender goal known_blocks {{213.47.23.195: 'all_attackers'}} a BlockIP that records a block for 213.47.23.195 makes the goal check raise; the action is never answered ({S.d.task_errors[:1]})",
                                   "replay": {"kind": "shipped", "action": json.loads(m)}})
    finally:
        S.close()


def replay(ctx, payload):
    if payload.get("kind") == "role_limits":
        nsgenv, WL, WR, CR = _imports()
        c2 = CK.Ctx("C19", "quick", 1)
        probe_role_limits(c2, nsgenv)
        for v in c2.violations:
            print(v["what"])
        if c2.violations:
            print("VIOLATION property=C19 replay=(this file)")
        return 1 if c2.violations else 0
    if payload.get("kind") == "wildcard_orders":
        nsgenv, WL, WR, CR = _imports()
        c2 = CK.Ctx("C19", "quick", 1)
        probe_wildcard_orders(c2, nsgenv)
        for v in c2.violations:
            print(v["what"])
        if c2.violations:
            print("VIOLATION property=C19 replay=(this file)")
        return 1 if c2.violations else 0
    if payload.get("kind") == "required_players":
        nsgenv, WL, WR, CR = _imports()
        c2 = CK.Ctx("C19", "quick", 1)
        probe_required_players(c2, nsgenv)
        for v in c2.violations:
            print(v["what"])
        if c2.violations:
            print("VIOLATION property=C19 replay=(this file)")
        return 1 if c2.violations else 0
    if payload.get("kind") == "goal_probe":
        nsgenv, WL, WR, CR = _imports()
        c2 = CK.Ctx("C19", "quick", 1)
        probe_goal(c2, nsgenv, CR)
        for v in c2.violations:
            print(v["what"])
        if c2.violations:
            print("VIOLATION property=C19 replay=(this file)")
        return 1 if c2.violations else 0
    if payload.get("kind") == "switches":
        nsgenv, WL, WR, CR = _imports()
        c2 = CK.Ctx("C19", "quick", 1)
        probe_switches(c2, nsgenv, CR)
        for v in c2.violations:
            print(v["what"])
        if c2.violations:
            print("VIOLATION property=C19 replay=(this file)")
        return 1 if c2.violations else 0
    if payload.get("kind") == "dynamic_join_probe":
        from props import dynprobe
        c2 = CK.Ctx("C19", "quick", 1)
        dynprobe.run(c2, "C19")
        for v in c2.violations:
            print(v["what"])
        if c2.violations:
            print("VIOLATION property=C19 replay=(this file)")
        return 1 if c2.violations else 0
    nsgenv, WL, WR, CR = _imports()
    if payload.get("kind") == "shipped":
        c2 = CK.Ctx("C19", "quick", 1)
        probe_shipped(c2, nsgenv, CR)
        for v in c2.violations:
            print(v["what"])
        return 1 if c2.violations else 0
    print(json.dumps(payload, indent=1)[:5000])
    return 0
