(* GENERATED from AIDojoCoordinator/utils/utils.py by harness/translate/confdefaults.py; do not edit *)
From Coq Require Import String List.
Import ListNotations.
Open Scope string_scope.

Definition gen_config_getters : list (string * list string * string * string * list string * string) := [
  ("get_max_steps", ["coordinator"; "agents"; "<role>"; "max_steps"], "int", "None", ["KeyError"; "TypeError"], "max_steps");
  ("get_rewards", ["env"; "rewards"; "<name>"], "", "0", ["KeyError"], "rewards");
  ("get_use_dynamic_addresses", ["env"; "use_dynamic_addresses"], "", "False", ["KeyError"], "bool(use_dynamic_addresses)");
  ("get_store_trajectories", ["env"; "save_trajectories"], "", "False", ["KeyError"], "store_rb");
  ("get_use_firewall", ["env"; "use_firewall"], "", "False", ["KeyError"], "use_firewall");
  ("get_use_global_defender", ["env"; "use_global_defender"], "", "False", ["KeyError"], "use_global_defender");
  ("get_required_num_players", ["env"; "required_players"], "int", "1", ["KeyError"; "ValueError"], "required_players")
].
Definition gen_startup_glue : list (string * string) := [
  ("_get_max_steps_per_role", "max_steps = {role: self.task_config.get_max_steps(role) for role in self.ALLOWED_ROLES}");
  ("if", "self.task_config.get_use_global_defender()");
  ("self._min_required_players", "self.task_config.get_required_num_players()");
  ("self._rewards", "self.task_config.get_rewards(['step', 'success', 'fail'])");
  ("self._use_dynamic_ips", "self.task_config.get_use_dynamic_addresses()")
].
