"""C09: bad messages are rejected without effect (coordinator model Model/Coord.v, trace-following correspondence, direct monitor)."""
import json
import check as CK
from props import coordcommon as CC

TRANSLATORS = ["enums", "defender", "dispatch"]
COQ_FILES = ["Props/C09.v", "Obl/DispatchOk.v", "Obl/EnumsOk.v"]


def correspondence(ctx):
    n = 400 if ctx.tier == "thorough" else 52
    CC.run_sessions(ctx, "C09", n, lambda rng: dict(n_events=rng.choice([20,40]), burst=0.3, fault=0.05, bad=0.45), lambda rng: {})


def replay(ctx, payload):
    return CC.replay_session(ctx, "C09", payload)
