(* The observation the coordinator stores for an agent (what FORBIDDEN and RESET_DONE replies are built from) is in
   step with the record - view, reward and end flag - in every reachable state, except while the agent's final reply
   is still parked at the end-of-episode barrier.  With the one-request-per-connection invariant this gives the
   coordinator clause of C15/C05: EVERY response that carries a view carries the view, reward and end flag the
   coordinator holds for that agent at that moment. *)
From Coq Require Import ZArith NArith List Bool Arith Lia.
From NSG Require Import Model.Coord Proofs.CoordBase Proofs.CoordInv Proofs.CoordInvConn Proofs.CoordInvDispatch
  Proofs.CoordInvHandler Proofs.CoordProps Proofs.CoordDirect Proofs.CoordInv2 Proofs.CoordIsolation Proofs.CoordKinds.
Import ListNotations.

Section Obs.
  Context {V W G : Type}.
  Variable wstep : W -> V -> G -> W * V.
  Variable wreset : W -> W.
  Variable winit : W -> role -> W * V.
  Variable goal : role -> V -> bool.
  Variable detect : list G -> G -> bool.
  Variable cfg : config.

  Notation state := (@state V W G).
  Notation handler := (@handler V G).
  Notation agent := (@agent V G).
  Notation msg := (@msg G).
  Notation hpc := (@hpc V G).
  Notation Inv := (@Inv V W G).
  Notation Inv2 := (@Inv2 V W G).
  Notation J := (@J V G).
  Notation exec := (@exec V W G wstep wreset winit goal detect cfg).
  Notation execs := (@execs V W G wstep wreset winit goal detect cfg).
  Notation h_start := (@h_start V W G wstep winit goal detect cfg).
  Notation h_wake := (@h_wake V W G wstep winit goal detect cfg).

  Definition in_sync (a : agent) : Prop := a_obs a = (a_view a, a_reward a, a_ended a).

  (* handlers parked at the end-of-episode barrier, by address and release flag *)
  Definition rwh (hs : list handler) (c : addr) (r : bool) : Prop :=
    exists h act v, In h hs /\ h_addr h = c /\ h_pc h = PRewards r act v.
  Definition is_rw (pc : hpc) : bool := match pc with PRewards _ _ _ => true | _ => false end.

  Record O (ags : list (addr * agent)) (P : addr -> bool -> Prop) : Prop := {
    O_sync : forall c a, alookup c ags = Some a -> in_sync a \/ exists r, P c r;
    O_due : forall c a, alookup c ags = Some a -> a_ended a = true -> a_rewarded a = false -> a_role a <> RBenign -> exists r, P c r;
    O_released : forall c a, alookup c ags = Some a -> P c true -> a_rewarded a = true \/ a_role a = RBenign;
  }.
  Definition Ost (s : state) : Prop := O (agents s) (rwh (handlers s)).

  Lemma O_init w : Ost (init_state w).
  Proof. constructor; simpl; intros; discriminate. Qed.

  Lemma O_ext ags (P P' : addr -> bool -> Prop) : (forall c r, P' c r <-> P c r) -> O ags P -> O ags P'.
  Proof.
    intros E [O1 O2 O3]. constructor.
    - intros c a Ha. destruct (O1 c a Ha) as [H|[r H]]; [left; exact H | right; exists r; apply E, H].
    - intros c a Ha He Hr Hb. destruct (O2 c a Ha He Hr Hb) as [r H]. exists r. apply E, H.
    - intros c a Ha Hp. apply (O3 c a Ha). apply E, Hp.
  Qed.

  (* ---- handler lists ---- *)
  Lemma rwh_remove hs h c r :
    NoDup (map h_id hs) -> In h hs -> is_rw (h_pc h) = false ->
    (rwh (filter (fun x : handler => negb (Nat.eqb (h_id x) (h_id h))) hs) c r <-> rwh hs c r).
  Proof.
    intros Hnd Hin Hn. split.
    - intros (x & act & v & Hx & Ha & Hp). apply filter_In in Hx as [Hx _]. exists x, act, v. auto.
    - intros (x & act & v & Hx & Ha & Hp). exists x, act, v. split; [|auto]. apply filter_In. split; [exact Hx|].
      apply negb_true_iff, Nat.eqb_neq. intros E. assert (x = h) by (eapply handler_unique; eauto). subst x.
      rewrite Hp in Hn. discriminate.
  Qed.

  Lemma rwh_remove_sub hs id c r : rwh (filter (fun x : handler => negb (Nat.eqb (h_id x) id)) hs) c r -> rwh hs c r.
  Proof. intros (x & act & v & Hx & Ha & Hp). apply filter_In in Hx as [Hx _]. exists x, act, v. auto. Qed.

  Lemma rwh_remove_other hs h c r :
    NoDup (map h_id hs) -> In h hs -> c <> h_addr h -> rwh hs c r ->
    rwh (filter (fun x : handler => negb (Nat.eqb (h_id x) (h_id h))) hs) c r.
  Proof.
    intros Hnd Hin Hne (x & act & v & Hx & Ha & Hp). exists x, act, v. split; [|auto]. apply filter_In. split; [exact Hx|].
    apply negb_true_iff, Nat.eqb_neq. intros E. assert (x = h) by (eapply handler_unique; eauto). subst x. congruence.
  Qed.

  Lemma rwh_repl hs h pc c r :
    NoDup (map h_id hs) -> In h hs -> is_rw (h_pc h) = false ->
    (rwh (map (repl (h_id h) pc) hs) c r <-> rwh hs c r \/ (c = h_addr h /\ exists act v, pc = PRewards r act v)).
  Proof.
    intros Hnd Hin Hn. split.
    - intros (x' & act & v & Hx & Ha & Hp). apply in_map_iff in Hx as (x & <- & Hx). unfold repl in *.
      destruct (Nat.eqb (h_id x) (h_id h)) eqn:E.
      + apply Nat.eqb_eq in E. assert (x = h) by (eapply handler_unique; eauto). subst x. simpl in *. right. split; [auto|]. eauto.
      + left. exists x, act, v. auto.
    - intros [(x & act & v & Hx & Ha & Hp)|(-> & act & v & ->)].
      + exists (repl (h_id h) pc x), act, v. split; [apply in_map, Hx|]. unfold repl.
        destruct (Nat.eqb (h_id x) (h_id h)) eqn:E; [|auto].
        apply Nat.eqb_eq in E. assert (x = h) by (eapply handler_unique; eauto). subst x. rewrite Hp in Hn. discriminate.
      + exists (repl (h_id h) (PRewards r act v) h), act, v. split; [apply in_map, Hin|]. unfold repl. rewrite Nat.eqb_refl. auto.
  Qed.

  Lemma rwh_app_spawned hs (h : handler) m c r : h_pc h = PSpawned m -> (rwh (hs ++ [h]) c r <-> rwh hs c r).
  Proof.
    intros Hp. split.
    - intros (x & act & v & Hx & Ha & Hpx). apply in_app_or in Hx as [Hx|[<-|[]]]; [exists x, act, v; auto | congruence].
    - intros (x & act & v & Hx & Ha & Hpx). exists x, act, v. split; [apply in_or_app; left; exact Hx | auto].
  Qed.

  Lemma rwh_map (f : handler -> handler) hs c r :
    (forall h, h_addr (f h) = h_addr h) ->
    (forall h r act v, h_pc (f h) = PRewards r act v <-> h_pc h = PRewards r act v) ->
    (rwh (map f hs) c r <-> rwh hs c r).
  Proof.
    intros Hfa Hfp. split.
    - intros (x' & act & v & Hx & Ha & Hp). apply in_map_iff in Hx as (x & <- & Hx). exists x, act, v.
      rewrite Hfa in Ha. apply (proj1 (Hfp x r act v)) in Hp. repeat split; assumption.
    - intros (x & act & v & Hx & Ha & Hp). exists (f x), act, v. split; [apply in_map, Hx|]. rewrite Hfa. split; [exact Ha | apply (proj2 (Hfp x r act v)), Hp].
  Qed.

  Lemma rwh_release_start hs c r : rwh (map release_start hs) c r <-> rwh hs c r.
  Proof.
    apply rwh_map.
    - intros [i a pc]; destruct pc; reflexivity.
    - intros [i a pc] r0 act v; destruct pc; simpl; split; congruence.
  Qed.
  Lemma rwh_release_reset hs c r : rwh (map release_reset hs) c r <-> rwh hs c r.
  Proof.
    apply rwh_map.
    - intros [i a pc]; destruct pc; reflexivity.
    - intros [i a pc] r0 act v; destruct pc; simpl; split; congruence.
  Qed.
  Lemma rwh_release_rewards hs c r : rwh (map release_rewards hs) c r <-> (r = true /\ exists r0, rwh hs c r0).
  Proof.
    split.
    - intros (x' & act & v & Hx & Ha & Hp). apply in_map_iff in Hx as (x & <- & Hx).
      destruct x as [i a pc]; destruct pc as [m|rel v0|rel act0 v0|rel t|rel t]; simpl in *; try discriminate.
      injection Hp as <- <- <-. split; [reflexivity|]. exists rel, {| h_id := i; h_addr := a; h_pc := PRewards rel act0 v0 |}, act0, v0. auto.
    - intros (-> & r0 & x & act & v & Hx & Ha & Hp). exists (release_rewards x), act, v. split; [apply in_map, Hx|].
      destruct x as [i a pc]; simpl in *; subst pc; simpl. auto.
  Qed.

  (* ---- agent tables ---- *)
  (* one record replaced *)
  Lemma O_upd ags (P P' : addr -> bool -> Prop) c (f : agent -> agent) a :
    O ags P -> alookup c ags = Some a ->
    (forall k r, k <> c -> (P' k r <-> P k r)) ->
    (in_sync (f a) \/ exists r, P' c r) ->
    (a_ended (f a) = true -> a_rewarded (f a) = false -> a_role (f a) <> RBenign -> exists r, P' c r) ->
    (P' c true -> a_rewarded (f a) = true \/ a_role (f a) = RBenign) ->
    O (aupdate c f ags) P'.
  Proof.
    intros [O1 O2 O3] Ha E H1 H2 H3. constructor.
    - intros k a' Hk. destruct (N.eq_dec c k) as [<-|Hne].
      + rewrite alookup_aupdate_eq, Ha in Hk. injection Hk as <-. exact H1.
      + rewrite alookup_aupdate_ne in Hk by exact Hne. destruct (O1 k a' Hk) as [H|[r H]]; [left; exact H|].
        right. exists r. apply E; [congruence | exact H].
    - intros k a' Hk He Hr Hb. destruct (N.eq_dec c k) as [<-|Hne].
      + rewrite alookup_aupdate_eq, Ha in Hk. injection Hk as <-. auto.
      + rewrite alookup_aupdate_ne in Hk by exact Hne. destruct (O2 k a' Hk He Hr Hb) as [r H]. exists r. apply E; [congruence | exact H].
    - intros k a' Hk Hp. destruct (N.eq_dec c k) as [<-|Hne].
      + rewrite alookup_aupdate_eq, Ha in Hk. injection Hk as <-. auto.
      + rewrite alookup_aupdate_ne in Hk by exact Hne. apply (O3 k a' Hk). apply E; [congruence | exact Hp].
  Qed.

  Lemma O_upd_none ags (P : addr -> bool -> Prop) c (f : agent -> agent) : O ags P -> alookup c ags = None -> O (aupdate c f ags) P.
  Proof.
    intros [O1 O2 O3] Hn.
    assert (E : forall k, alookup k (aupdate c f ags) = alookup k ags).
    { intros k. destruct (N.eq_dec c k) as [<-|Hne]; [rewrite alookup_aupdate_eq, Hn; reflexivity | apply alookup_aupdate_ne, Hne]. }
    constructor; intros k a' Hk; rewrite E in Hk; eauto.
  Qed.

  Lemma O_join ags (P : addr -> bool -> Prop) c name r v :
    O ags P -> alookup c ags = None -> ~ P c true -> O (ags ++ [(c, @new_agent V G name r v)]) P.
  Proof.
    intros [O1 O2 O3] Hn Hp.
    assert (Hl : forall k a, alookup k (ags ++ [(c, new_agent name r v)]) = Some a ->
                 alookup k ags = Some a \/ (k = c /\ a = new_agent name r v)).
    { intros k a. rewrite alookup_app. destruct (alookup k ags) eqn:E; [intros [= <-]; auto|].
      simpl. destruct (N.eqb k c) eqn:Ek; [|discriminate]. apply N.eqb_eq in Ek. intros [= <-]. auto. }
    constructor.
    - intros k a Ha. destruct (Hl k a Ha) as [H|(-> & ->)]; [eauto | left; reflexivity].
    - intros k a Ha He. destruct (Hl k a Ha) as [H|(-> & ->)]; [eauto | discriminate].
    - intros k a Ha Hpk. destruct (Hl k a Ha) as [H|(-> & ->)]; [eauto | contradiction].
  Qed.

  Lemma O_leave ags (P : addr -> bool -> Prop) c : O ags P -> NoDup (map fst ags) -> O (aremove c ags) P.
  Proof.
    intros [O1 O2 O3] Hnd.
    assert (Hl : forall k a, alookup k (aremove c ags) = Some a -> alookup k ags = Some a).
    { intros k a Ha. destruct (N.eq_dec c k) as [<-|Hne]; [rewrite alookup_aremove_eq in Ha by exact Hnd; discriminate|].
      rewrite alookup_aremove_ne in Ha by exact Hne. exact Ha. }
    constructor; intros k a Ha; apply Hl in Ha; eauto.
  Qed.

  Lemma reward_agent_same successful (a : agent) :
    (a_ended a = true -> a_rewarded a = false -> a_role a = RBenign) -> reward_agent cfg successful a = a.
  Proof.
    intros H. unfold reward_agent. destruct (a_rewarded a) eqn:Er; [reflexivity|]. destruct (a_ended a) eqn:Ee; [|reflexivity].
    simpl. rewrite (H eq_refl eq_refl). reflexivity.
  Qed.

  Lemma reward_agent_fields successful (a : agent) :
    let a' := reward_agent cfg successful a in
    a_ended a' = a_ended a /\ a_role a' = a_role a /\
    (a_ended a = true -> a_rewarded a' = true \/ a_role a = RBenign) /\
    (a_rewarded a = true -> a_rewarded a' = true).
  Proof.
    unfold reward_agent. destruct (a_rewarded a) eqn:Er; simpl.
    - rewrite Er. repeat split; auto.
    - destruct (a_ended a) eqn:Ee; simpl.
      + destruct (a_role a) eqn:Erole; simpl; repeat split; auto; discriminate.
      + rewrite Ee, Er. repeat split; auto; discriminate.
  Qed.

  Lemma O_rewards ags (P : addr -> bool -> Prop) successful :
    O ags P -> (forall c r, P c r -> exists a, alookup c ags = Some a /\ a_ended a = true) ->
    O (map (fun x => (fst x, reward_agent cfg successful (snd x))) ags) (fun c r => r = true /\ exists r0, P c r0).
  Proof.
    intros [O1 O2 O3] HP. constructor.
    - intros c a' Ha. rewrite alookup_map_snd in Ha. destruct (alookup c ags) as [a|] eqn:E; [|discriminate]. injection Ha as <-.
      destruct (O1 c a E) as [Hs|[r Hr]]; [|right; exists true; split; [reflexivity | eauto]].
      destruct (a_ended a) eqn:Ee; [|left; rewrite reward_agent_same by (intros; congruence); exact Hs].
      destruct (a_rewarded a) eqn:Er; [left; rewrite reward_agent_same by (intros; congruence); exact Hs|].
      destruct (a_role a) eqn:Erole.
      + right. exists true. split; [reflexivity|]. apply (O2 c a E Ee Er). congruence.
      + right. exists true. split; [reflexivity|]. apply (O2 c a E Ee Er). congruence.
      + left. rewrite reward_agent_same by (intros; exact Erole). exact Hs.
    - intros c a' Ha He Hr Hb. rewrite alookup_map_snd in Ha. destruct (alookup c ags) as [a|] eqn:E; [|discriminate]. injection Ha as <-.
      destruct (reward_agent_fields successful a) as (H1 & H2 & H3 & _). rewrite H1 in He. rewrite H2 in Hb.
      destruct (H3 He) as [H|H]; [congruence | contradiction].
    - intros c a' Ha [_ [r0 Hp]]. rewrite alookup_map_snd in Ha. destruct (alookup c ags) as [a|] eqn:E; [|discriminate]. injection Ha as <-.
      destruct (HP c r0 Hp) as (a0 & Ha0 & He0). rewrite E in Ha0. injection Ha0 as <-.
      destruct (reward_agent_fields successful a) as (_ & H2 & H3 & _). rewrite H2. apply H3, He0.
  Qed.

  (* ---- facts from the other invariants ---- *)
  Lemma rwh_agent (s : state) c r : J (agents s) (handlers s) -> rwh (handlers s) c r ->
    exists a, alookup c (agents s) = Some a /\ a_ended a = true /\ a_req a = false.
  Proof.
    intros Hj (h & act & v & Hin & Ha & Hp). destruct (J_parked _ _ Hj h r act v Hin Hp) as (a & Hl & He & _ & Hq).
    exists a. rewrite <- Ha. auto.
  Qed.

  Lemma no_rwh_for (s : state) h : Inv s -> In h (handlers s) -> is_rw (h_pc h) = false -> forall r, ~ rwh (handlers s) (h_addr h) r.
  Proof.
    intros Hi Hin Hn r (h' & act & v & Hin' & Ha & Hp).
    apply (no_rewards_handler_for s h Hi Hin) with (h' := h') (rel := r) (act := act) (v := v); auto.
    intros rel act0 v0 E. rewrite E in Hn. discriminate.
  Qed.

  Lemma game_finish_parts (s2 : state) id c act v' a :
    alookup c (agents s2) = Some a ->
    agents (@game_finish V W G s2 id c act v') =
      aupdate c (fun _ => a_set_obs (a_set_traj a (traj_add (a_traj a) act (a_reward a) v')) (a_view a, a_reward a, a_ended a)) (agents s2) /\
    handlers (@game_finish V W G s2 id c act v') = filter (fun x : handler => negb (Nat.eqb (h_id x) id)) (handlers s2).
  Proof. intros Ha. unfold game_finish. rewrite Ha. split; reflexivity. Qed.

  Lemma reset_finish_parts (s2 : state) id c want a :
    alookup c (agents s2) = Some a ->
    agents (@reset_finish V W G s2 id c want) = aupdate c (fun _ => a_set_traj a (traj_start (a_view a))) (agents s2) /\
    handlers (@reset_finish V W G s2 id c want) = filter (fun x : handler => negb (Nat.eqb (h_id x) id)) (handlers s2).
  Proof. intros Ha. unfold reset_finish. rewrite Ha. split; reflexivity. Qed.

  (* ---- a handler step ---- *)
  Lemma O_finish (s : state) h (item : @qitem V G) :
    Inv s -> Ost s -> In h (handlers s) -> is_rw (h_pc h) = false ->
    Ost (put (remove_handler s (h_id h)) (h_addr h) item).
  Proof.
    intros Hi Ho Hin Hn. unfold Ost. simpl. eapply O_ext; [|exact Ho].
    intros c r. apply rwh_remove; [apply (I_ids s Hi) | exact Hin | exact Hn].
  Qed.

  Theorem O_h_start (s : state) h m :
    Inv s -> J (agents s) (handlers s) -> Ost s -> In h (handlers s) -> h_pc h = PSpawned m ->
    Ost (h_start s (h_id h) (h_addr h) m).
  Proof.
    intros Hi Hj Ho Hin Hpc.
    assert (Hn : is_rw (h_pc h) = false) by (rewrite Hpc; reflexivity).
    destruct (I_ids s Hi) as [Hnd _].
    pose proof (no_rwh_for s h Hi Hin Hn) as Hno.
    unfold Coord.h_start. destruct m as [|info| |want|act valid].
    - unfold Ost. simpl. eapply O_ext; [|exact Ho]. intros c r. apply rwh_remove; assumption.
    - (* join *)
      destruct (alookup (h_addr h) (agents s)) as [a0|] eqn:Ha; [apply O_finish; assumption|].
      destruct info as [[name [r|]]|]; try (apply O_finish; assumption).
      destruct (negb (allowed cfg r)); [apply O_finish; assumption|].
      destruct (winit (world s) r) as [w' v] eqn:Ew.
      set (ags1 := agents s ++ [(h_addr h, new_agent name r v)]).
      assert (Ho1 : O ags1 (rwh (handlers s))) by (apply O_join; [exact Ho | exact Ha | apply Hno]).
      destruct (Nat.eqb (length (agents (set_agents (set_world s w') ags1))) (required cfg)).
      + unfold Ost. simpl. eapply O_ext; [|exact Ho1]. intros c r0.
        assert (Hin2 : In h (map release_start (handlers s))).
        { replace h with (release_start h) by (destruct h as [i a pc]; simpl in *; subst pc; reflexivity). apply in_map, Hin. }
        assert (Hnd2 : NoDup (map h_id (map release_start (handlers s)))).
        { rewrite map_map. erewrite map_ext; [exact Hnd|]. intros x. destruct x as [i a pc]; destruct pc; reflexivity. }
        rewrite (rwh_remove (map release_start (handlers s)) h c r0 Hnd2 Hin2 Hn). apply rwh_release_start.
      + destruct (ev_start (set_agents (set_world s w') ags1)) eqn:Ev.
        * unfold Ost. simpl. eapply O_ext; [|exact Ho1]. intros c r0. apply rwh_remove; assumption.
        * unfold Ost. simpl. eapply O_ext; [|exact Ho1]. intros c r0.
          rewrite (rwh_repl (handlers s) h (PJoinStart false v) c r0 Hnd Hin Hn). split; [intros [H|(_ & act & v0 & E)]; [exact H | discriminate] | auto].
    - (* quit *)
      assert (Hh1 : handlers (remove_agent s (h_addr h)) = handlers s).
      { unfold remove_agent. destruct (alookup _ _); [|reflexivity]. destruct (_ && _); destruct (all_ended _); reflexivity. }
      assert (Ho1 : O (agents (remove_agent s (h_addr h))) (rwh (handlers s))).
      { unfold remove_agent. destruct (alookup (h_addr h) (agents s)) eqn:Ha; [|exact Ho].
        assert (Hl : O (aremove (h_addr h) (agents s)) (rwh (handlers s))) by (apply O_leave; [exact Ho | apply (I_agents s Hi)]).
        destruct (_ && _); destruct (all_ended _); exact Hl. }
      unfold Ost. simpl. rewrite Hh1. eapply O_ext; [|exact Ho1]. intros c r. apply rwh_remove; assumption.
    - (* reset *)
      destruct (alookup (h_addr h) (agents s)) as [a0|] eqn:Ha; [|apply O_finish; assumption].
      set (ags := aupdate (h_addr h) (fun a => a_set_req a true) (agents s)).
      assert (Ho2 : O ags (rwh (map (repl (h_id h) (PResetDone false want)) (handlers s)))).
      { apply (O_upd (agents s) (rwh (handlers s)) _ (h_addr h) (fun a => a_set_req a true) a0 Ho Ha).
        - intros k r Hk. rewrite (rwh_repl (handlers s) h _ k r Hnd Hin Hn). split; [intros [H|(_ & act & v0 & E)]; [exact H | discriminate] | auto].
        - destruct (O_sync _ _ Ho _ _ Ha) as [Hs|[r Hr]]; [left; exact Hs | exfalso; eapply Hno; eauto].
        - simpl. intros He Hr Hb. destruct (O_due _ _ Ho _ _ Ha He Hr Hb) as [r Hx]. exfalso; eapply Hno; eauto.
        - intros Hp. apply (rwh_repl (handlers s) h _ _ _ Hnd Hin Hn) in Hp. destruct Hp as [Hp|(_ & act & v0 & E)]; [|discriminate].
          exfalso; eapply Hno; eauto. }
      unfold Ost. destruct (all_req ags); exact Ho2.
    - (* a game action *)
      destruct (alookup (h_addr h) (agents s)) as [a|] eqn:Ha; [|apply O_finish; assumption].
      destruct (negb valid); [apply O_finish; assumption|].
      destruct (a_ended a) eqn:He; [apply O_finish; assumption|].
      destruct (wstep (world s) (a_view a) act) as [w' v'] eqn:Ew.
      match goal with |- context [aupdate (h_addr h) (fun _ => ?A2) (agents s)] => set (a2 := A2) end.
      set (ags := aupdate (h_addr h) (fun _ => a2) (agents s)).
      assert (Hl2 : alookup (h_addr h) ags = Some a2) by (unfold ags; rewrite alookup_aupdate_eq, Ha; reflexivity).
      assert (Hfin : forall s2 : state, agents s2 = ags -> handlers s2 = handlers s ->
                       Ost (if a_ended a2 then park s2 (h_id h) (PRewards false act v') else game_finish s2 (h_id h) (h_addr h) act v')).
      { intros s2 Hag Hhs. destruct (a_ended a2) eqn:He2.
        - unfold Ost. simpl. rewrite Hag, Hhs.
          apply (O_upd (agents s) (rwh (handlers s)) (rwh (map (repl (h_id h) (PRewards false act v')) (handlers s))) (h_addr h) (fun _ => a2) a Ho Ha).
          + intros k r Hk. rewrite (rwh_repl (handlers s) h _ k r Hnd Hin Hn). split; [intros [H|(E & _)]; [exact H | contradiction] | auto].
          + right. exists false. apply (rwh_repl (handlers s) h _ _ _ Hnd Hin Hn). right. split; [reflexivity | eauto].
          + intros _ _ _. exists false. apply (rwh_repl (handlers s) h _ _ _ Hnd Hin Hn). right. split; [reflexivity | eauto].
          + intros Hp. apply (rwh_repl (handlers s) h _ _ _ Hnd Hin Hn) in Hp. destruct Hp as [Hp|(_ & act0 & v0 & E)]; [|discriminate].
            exfalso; eapply Hno; eauto.
        - assert (Hl3 : alookup (h_addr h) (agents s2) = Some a2) by (rewrite Hag; exact Hl2).
          destruct (game_finish_parts s2 (h_id h) (h_addr h) act v' a2 Hl3) as [E1 E2].
          unfold Ost. rewrite E1, E2, Hag, Hhs. unfold ags. rewrite aupdate_aupdate.
          apply (O_upd (agents s) (rwh (handlers s)) (rwh (filter (fun x : handler => negb (Nat.eqb (h_id x) (h_id h))) (handlers s))) (h_addr h) _ a Ho Ha).
          + intros k r Hk. apply rwh_remove; assumption.
          + left. reflexivity.
          + cbv beta. cbn [a_ended a_set_obs a_set_traj]. rewrite He2. discriminate.
          + intros Hp. apply rwh_remove in Hp; try assumption. exfalso; eapply Hno; eauto. }
      change (terminal (next_status goal detect cfg _ v' act) || _) with (a_ended a2).
      destruct (all_ended ags); apply Hfin; reflexivity.
  Qed.

  Theorem O_h_wake (s s' : state) h :
    Inv s -> J (agents s) (handlers s) -> Ost s -> In h (handlers s) -> h_wake s h = Some s' -> Ost s'.
  Proof.
    intros Hi Hj Ho Hin. destruct (I_ids s Hi) as [Hnd _]. unfold Coord.h_wake.
    destruct (h_pc h) as [m|rel v|rel act v'|rel want|rel want] eqn:Hpc.
    - intros [= <-]. apply O_h_start; assumption.
    - destruct rel; [|discriminate]. intros [= <-]. apply O_finish; try assumption. rewrite Hpc. reflexivity.
    - destruct rel; [|discriminate]. intros [= <-].
      destruct (J_parked _ _ Hj h true act v' Hin Hpc) as (a & Ha & He & Hv & Hq).
      destruct (game_finish_parts s (h_id h) (h_addr h) act v' a Ha) as [E1 E2].
      unfold Ost. rewrite E1, E2.
      apply (O_upd (agents s) (rwh (handlers s)) (rwh (filter (fun x : handler => negb (Nat.eqb (h_id x) (h_id h))) (handlers s))) (h_addr h) _ a Ho Ha).
      + intros k r Hk. split; [apply rwh_remove_sub | apply rwh_remove_other; auto].
      + left. reflexivity.
      + cbv beta. cbn [a_ended a_rewarded a_role a_set_obs a_set_traj]. intros _ Hr Hb.
        destruct (O_released _ _ Ho (h_addr h) a Ha) as [H|H]; [exists h, act, v'; auto | congruence | contradiction].
      + cbv beta. cbn [a_rewarded a_role a_set_obs a_set_traj]. intros Hp. apply rwh_remove_sub in Hp. apply (O_released _ _ Ho (h_addr h) a Ha Hp).
    - destruct rel; [|discriminate].
      assert (Hn : is_rw (h_pc h) = false) by (rewrite Hpc; reflexivity).
      pose proof (no_rwh_for s h Hi Hin Hn) as Hno.
      assert (Hfin : Ost (reset_finish s (h_id h) (h_addr h) want)).
      { destruct (alookup (h_addr h) (agents s)) as [a|] eqn:Ha.
        - destruct (reset_finish_parts s (h_id h) (h_addr h) want a Ha) as [E1 E2]. unfold Ost. rewrite E1, E2.
          apply (O_upd (agents s) (rwh (handlers s)) (rwh (filter (fun x : handler => negb (Nat.eqb (h_id x) (h_id h))) (handlers s))) (h_addr h) _ a Ho Ha).
          + intros k r Hk. apply rwh_remove; assumption.
          + destruct (O_sync _ _ Ho _ _ Ha) as [Hs|[r Hr]]; [left; exact Hs | exfalso; eapply Hno; eauto].
          + cbv beta. cbn [a_ended a_rewarded a_role a_set_traj]. intros He Hr Hb. destruct (O_due _ _ Ho _ _ Ha He Hr Hb) as [r Hx]. exfalso; eapply Hno; eauto.
          + intros Hp. apply rwh_remove_sub in Hp. exfalso; eapply Hno; eauto.
        - unfold reset_finish. rewrite Ha. unfold Ost. simpl. eapply O_ext; [|exact Ho]. intros c r. apply rwh_remove; assumption. }
      destruct (ev_start s); intros [= <-]; [exact Hfin|].
      unfold Ost. simpl. eapply O_ext; [|exact Ho]. intros c r.
      rewrite (rwh_repl (handlers s) h (PResetStart false want) c r Hnd Hin Hn). split; [intros [H|(_ & act & v0 & E)]; [exact H | discriminate] | auto].
    - destruct rel; [|discriminate]. intros [= <-].
      assert (Hn : is_rw (h_pc h) = false) by (rewrite Hpc; reflexivity).
      pose proof (no_rwh_for s h Hi Hin Hn) as Hno.
      destruct (alookup (h_addr h) (agents s)) as [a|] eqn:Ha.
      + destruct (reset_finish_parts s (h_id h) (h_addr h) want a Ha) as [E1 E2]. unfold Ost. rewrite E1, E2.
        apply (O_upd (agents s) (rwh (handlers s)) (rwh (filter (fun x : handler => negb (Nat.eqb (h_id x) (h_id h))) (handlers s))) (h_addr h) _ a Ho Ha).
        * intros k r Hk. apply rwh_remove; assumption.
        * destruct (O_sync _ _ Ho _ _ Ha) as [Hs|[r Hr]]; [left; exact Hs | exfalso; eapply Hno; eauto].
        * cbv beta. cbn [a_ended a_rewarded a_role a_set_traj]. intros He Hr Hb. destruct (O_due _ _ Ho _ _ Ha He Hr Hb) as [r Hx]. exfalso; eapply Hno; eauto.
        * intros Hp. apply rwh_remove_sub in Hp. exfalso; eapply Hno; eauto.
      + unfold reset_finish. rewrite Ha. unfold Ost. simpl. eapply O_ext; [|exact Ho]. intros c r. apply rwh_remove; assumption.
  Qed.

  (* the reset task: every record is fresh *)
  Lemma reset_fold_sync (l : list (addr * agent)) w done fl c a' :
    alookup c (snd (fst (fold_left (@reset_one V W G winit cfg) l (w, done, fl)))) = Some a' ->
    alookup c done = Some a' \/ (in_sync a' /\ a_ended a' = false).
  Proof.
    revert w done fl. induction l as [|x tl IH]; intros w done fl; cbn [fold_left]; [auto|].
    destruct (reset_one_effect winit cfg w done fl x) as (w1 & v & _ & ->).
    intros H. destruct (IH _ _ _ H) as [Hd|Hs]; [|right; exact Hs].
    rewrite alookup_app in Hd. destruct (alookup c done) eqn:E; [left; exact Hd|].
    simpl in Hd. destruct (N.eqb c (fst x)) eqn:Ec; [|discriminate]. injection Hd as <-. right. split; reflexivity.
  Qed.

  Theorem O_exec (s s' : state) l : Inv s -> J (agents s) (handlers s) -> Ost s -> exec s l = Some s' -> Ost s'.
  Proof.
    intros Hi Hj Ho. destruct l as [c|c k|c|c|c|t]; cbn [Coord.exec].
    - destruct (alookup c (conns s)); [discriminate|]. intros [= <-]. exact Ho.
    - destruct (alookup c (conns s)) as [cn|]; [|discriminate]. destruct (c_inbox cn); [discriminate|].
      destruct (c_state cn); try discriminate; (destruct (c_eof cn); [discriminate|]; intros [= <-]; exact Ho).
    - destruct (alookup c (conns s)); [|discriminate]. intros [= <-]. exact Ho.
    - destruct (alookup c (conns s)); [|discriminate]. intros [= <-]. exact Ho.
    - destruct (alookup c (conns s)); [|discriminate]. intros [= <-]. exact Ho.
    - destruct t as [c| |id| |].
      + assert (Hcr : forall (t : state) cn, agents (conn_read t c cn) = agents t /\ handlers (conn_read t c cn) = handlers t).
        { intros t cn. unfold conn_read, leave, cleanup. destruct (c_rerr cn); [split; reflexivity|].
          destruct (c_inbox cn) as [[m|]|]; try (split; reflexivity). destruct (c_eof cn); split; reflexivity. }
        unfold conn_run. destruct (alookup c (conns s)) as [cn|]; [|discriminate].
        destruct (negb (conn_runnable cn)); [discriminate|].
        destruct (c_state cn).
        * destruct (Nat.leb (required cfg) (served s)); intros [= <-]; [exact Ho|].
          unfold Ost. match goal with |- O (agents (conn_read ?T c ?C)) _ => destruct (Hcr T C) as [-> ->] end. exact Ho.
        * intros [= <-]. unfold Ost. destruct (Hcr s cn) as [-> ->]. exact Ho.
        * destruct (c_queue cn) as [|[r|] q']; [discriminate| |].
          -- destruct (c_wfail cn); intros [= <-]; [exact Ho|].
             unfold Ost. match goal with |- O (agents (conn_read ?T c ?C)) _ => destruct (Hcr T C) as [-> ->] end. exact Ho.
          -- intros [= <-]. exact Ho.
        * discriminate.
      + unfold dispatch_run. destruct (aq s) as [|x q]; [discriminate|]. intros [= <-].
        change (Ost (fold_left dispatch1 (x :: q) (set_aq s []))).
        assert (Hd : forall l (t : state), Ost t -> Ost (fold_left dispatch1 l t)).
        { induction l as [|[c m] tl IH]; intros t Ht; [exact Ht|]. cbn [fold_left]. apply IH.
          destruct m; try (unfold Ost; simpl; eapply O_ext; [|exact Ht]; intros c0 r0; eapply rwh_app_spawned; reflexivity). exact Ht. }
        apply Hd. exact Ho.
      + unfold handler_run. destruct (find (fun h => Nat.eqb (h_id h) id) (handlers s)) as [h|] eqn:Hf; [|discriminate].
        apply find_some in Hf as [Hin _]. apply O_h_wake; assumption.
      + unfold rewards_run. destruct (negb (ev_end s)); [discriminate|].
        destruct (negb (all_ended (agents s))); intros [= <-]; [exact Ho|]. unfold Ost. simpl.
        eapply O_ext; [intros c r; apply rwh_release_rewards|]. apply O_rewards; [exact Ho|].
        intros c r Hp. destruct (rwh_agent s c r Hj Hp) as (a & Ha & He & _). eauto.
      + unfold reset_run. destruct (negb (ev_reset s)); [discriminate|].
        destruct ((match agents s with [] => false | _ => true end) && all_req (agents s)) eqn:Hall; simpl; [|intros [= <-]; exact Ho].
        apply andb_true_iff in Hall as [_ Hall].
        destruct (fold_left _ (agents s) (wreset (world s), [], files s)) as [[w' ags] fl] eqn:Ef.
        intros [= <-]. unfold Ost. simpl.
        assert (Hno : forall c r, ~ rwh (map release_reset (handlers s)) c r).
        { intros c r Hp. apply (proj1 (rwh_release_reset (handlers s) c r)) in Hp. destruct (rwh_agent s c r Hj Hp) as (a & Ha & _ & Hq).
          unfold all_req in Hall. rewrite forallb_forall in Hall. specialize (Hall (c, a) (alookup_in _ _ _ Ha)). simpl in Hall. congruence. }
        assert (Hlk : forall c a', alookup c ags = Some a' -> in_sync a' /\ a_ended a' = false).
        { intros c a' Ha'. pose proof (reset_fold_sync (agents s) (wreset (world s)) [] (files s) c a') as H.
          rewrite Ef in H. destruct (H Ha') as [Hd|Hs]; [discriminate | exact Hs]. }
        constructor.
        * intros c a' Ha'. left. apply (Hlk c a' Ha').
        * intros c a' Ha' He. destruct (Hlk c a' Ha') as [_ H]. congruence.
        * intros c a' Ha' Hp. exfalso. eapply Hno; eauto.
  Qed.

  Theorem O_reachable w ls (s : state) : execs (init_state w) ls = Some s -> Ost s.
  Proof.
    assert (H : forall ls0 (s0 s1 : state), Inv2 s0 -> Ost s0 -> execs s0 ls0 = Some s1 -> Ost s1).
    { induction ls0 as [|l tl IH]; intros s0 s1 Hi Ho; simpl; [intros [= <-]; exact Ho|].
      destruct (exec s0 l) as [s2|] eqn:E; [|discriminate]. intros He.
      apply (IH s2 s1); [eapply inv2_exec; eauto | destruct Hi as [Hi Hj]; eapply O_exec; eauto | exact He]. }
    intros He. eapply H; [apply inv2_init | apply O_init | exact He].
  Qed.
End Obs.

(* ---- the view announced by a parked join handler is the view held for that agent ---- *)
Section JoinView.
  Context {V W G : Type}.
  Variable wstep : W -> V -> G -> W * V.
  Variable wreset : W -> W.
  Variable winit : W -> role -> W * V.
  Variable goal : role -> V -> bool.
  Variable detect : list G -> G -> bool.
  Variable cfg : config.

  Notation state := (@state V W G).
  Notation handler := (@handler V G).
  Notation agent := (@agent V G).
  Notation Inv := (@Inv V W G).
  Notation Inv2 := (@Inv2 V W G).
  Notation J := (@J V G).
  Notation exec := (@exec V W G wstep wreset winit goal detect cfg).
  Notation execs := (@execs V W G wstep wreset winit goal detect cfg).
  Notation h_start := (@h_start V W G wstep winit goal detect cfg).
  Notation h_wake := (@h_wake V W G wstep winit goal detect cfg).

  Definition JV (s : state) : Prop :=
    forall h rel v a, In h (handlers s) -> h_pc h = PJoinStart rel v -> alookup (h_addr h) (agents s) = Some a -> a_view a = v.

  Lemma in_remove (hs : list handler) id x : In x (filter (fun y : handler => negb (Nat.eqb (h_id y) id)) hs) -> In x hs /\ h_id x <> id.
  Proof. intros H. apply filter_In in H as [H1 H2]. split; [exact H1|]. apply negb_true_iff, Nat.eqb_neq in H2. exact H2. Qed.

  Lemma in_repl (hs : list handler) id pc x : In x (map (repl id pc) hs) ->
    (In x hs /\ h_id x <> id) \/ (exists x0, In x0 hs /\ h_id x0 = id /\ h_id x = id /\ h_addr x = h_addr x0 /\ h_pc x = pc).
  Proof.
    intros H. apply in_map_iff in H as (x0 & <- & H0). unfold repl. destruct (Nat.eqb (h_id x0) id) eqn:E.
    - apply Nat.eqb_eq in E. right. exists x0. simpl. auto.
    - apply Nat.eqb_neq in E. left. auto.
  Qed.

  Lemma release_start_js (x0 : handler) rel v : h_pc (release_start x0) = PJoinStart rel v -> exists rel0, h_pc x0 = PJoinStart rel0 v.
  Proof. destruct x0 as [i a pc]; destruct pc; simpl; intros E; try discriminate; injection E as <- <-; eauto. Qed.
  Lemma release_start_ids (x0 : handler) : h_id (release_start x0) = h_id x0 /\ h_addr (release_start x0) = h_addr x0.
  Proof. destruct x0 as [i a pc]; destruct pc; split; reflexivity. Qed.

  (* where a handler parked at the start barrier after a handler step comes from *)
  Lemma h_start_joinstart (s : state) h m x rel v :
    NoDup (map h_id (handlers s)) ->
    In h (handlers s) -> h_pc h = PSpawned m -> In x (handlers (h_start s (h_id h) (h_addr h) m)) -> h_pc x = PJoinStart rel v ->
    (exists x0 rel0, In x0 (handlers s) /\ h_addr x0 = h_addr x /\ h_pc x0 = PJoinStart rel0 v /\ h_id x0 <> h_id h) \/
    (h_addr x = h_addr h /\ exists name r, alookup (h_addr h) (agents (h_start s (h_id h) (h_addr h) m)) = Some (new_agent name r v)).
  Proof.
    intros Hnd Hin Hpc.
    assert (Hold : forall y, In y (handlers s) -> h_id y <> h_id h -> h_pc y = PJoinStart rel v ->
              exists x0 rel0, In x0 (handlers s) /\ h_addr x0 = h_addr y /\ h_pc x0 = PJoinStart rel0 v /\ h_id x0 <> h_id h) by (intros y H1 H2 H3; exists y, rel; auto).
    assert (Hrm : forall (t : state), handlers t = filter (fun y : handler => negb (Nat.eqb (h_id y) (h_id h))) (handlers s) ->
              In x (handlers t) -> h_pc x = PJoinStart rel v ->
              exists x0 rel0, In x0 (handlers s) /\ h_addr x0 = h_addr x /\ h_pc x0 = PJoinStart rel0 v /\ h_id x0 <> h_id h).
    { intros t Et Hx Hp. rewrite Et in Hx. apply in_remove in Hx as [H1 H2]. apply Hold; assumption. }
    assert (Hpk : forall (t : state) pc, (forall rel0 v0, pc <> PJoinStart rel0 v0) -> handlers t = map (repl (h_id h) pc) (handlers s) ->
              In x (handlers t) -> h_pc x = PJoinStart rel v ->
              exists x0 rel0, In x0 (handlers s) /\ h_addr x0 = h_addr x /\ h_pc x0 = PJoinStart rel0 v /\ h_id x0 <> h_id h).
    { intros t pc Hne Et Hx Hp. rewrite Et in Hx. apply in_repl in Hx as [[H1 H2]|(x0 & _ & _ & _ & _ & E)]; [apply Hold; assumption|].
      exfalso. rewrite E in Hp. eapply Hne; eauto. }
    unfold Coord.h_start. destruct m as [|info| |want|act valid].
    - intros Hx Hp. left. apply (Hrm (remove_handler s (h_id h))); [reflexivity | exact Hx | exact Hp].
    - destruct (alookup (h_addr h) (agents s)) as [a0|] eqn:Ha; [intros Hx Hp; left; eapply Hrm; [|exact Hx|exact Hp]; reflexivity|].
      destruct info as [[name [r|]]|]; try (intros Hx Hp; left; eapply Hrm; [|exact Hx|exact Hp]; reflexivity).
      destruct (negb (allowed cfg r)); [intros Hx Hp; left; eapply Hrm; [|exact Hx|exact Hp]; reflexivity|].
      destruct (winit (world s) r) as [w' v1] eqn:Ew.
      set (ags1 := agents s ++ [(h_addr h, new_agent name r v1)]).
      destruct (Nat.eqb (length (agents (set_agents (set_world s w') ags1))) (required cfg)).
      + simpl. intros Hx Hp. left. apply in_remove in Hx as [H1 H2]. apply in_map_iff in H1 as (x0 & <- & H0).
        destruct (release_start_ids x0) as [Ei Ea]. rewrite Ei in H2. rewrite Ea.
        destruct (release_start_js x0 rel v Hp) as [rel0 E0]. exists x0, rel0. auto.
      + destruct (ev_start (set_agents (set_world s w') ags1)) eqn:Ev.
        * intros Hx Hp. left. eapply Hrm; [|exact Hx|exact Hp]. reflexivity.
        * simpl. intros Hx Hp. apply in_repl in Hx as [[H1 H2]|(x0 & H0 & Hi0 & _ & Ea & E)]; [left; apply Hold; assumption|].
          right. rewrite E in Hp. injection Hp as _ <-.
          assert (x0 = h) by (eapply handler_unique; eauto). subst x0. split; [exact Ea|]. exists name, r.
          unfold ags1. rewrite alookup_app, Ha. simpl. rewrite N.eqb_refl. reflexivity.
    - assert (Hh1 : handlers (remove_agent s (h_addr h)) = handlers s).
      { unfold remove_agent. destruct (alookup _ _); [|reflexivity]. destruct (_ && _); destruct (all_ended _); reflexivity. }
      intros Hx Hp. left. apply (Hrm (put (remove_handler (remove_agent s (h_addr h)) (h_id h)) (h_addr h) QClose)); [simpl; rewrite Hh1; reflexivity | exact Hx | exact Hp].
    - destruct (alookup (h_addr h) (agents s)) as [a0|] eqn:Ha; [|intros Hx Hp; left; eapply Hrm; [|exact Hx|exact Hp]; reflexivity].
      intros Hx Hp. left. eapply (Hpk _ (PResetDone false want)); [discriminate | | exact Hx | exact Hp].
      destruct (all_req _); reflexivity.
    - destruct (alookup (h_addr h) (agents s)) as [a|] eqn:Ha; [|intros Hx Hp; left; eapply Hrm; [|exact Hx|exact Hp]; reflexivity].
      destruct (negb valid); [intros Hx Hp; left; eapply Hrm; [|exact Hx|exact Hp]; reflexivity|].
      destruct (a_ended a) eqn:He; [intros Hx Hp; left; eapply Hrm; [|exact Hx|exact Hp]; reflexivity|].
      destruct (wstep (world s) (a_view a) act) as [w' v'] eqn:Ew.
      match goal with |- context [aupdate (h_addr h) (fun _ => ?A2) (agents s)] => set (a2 := A2) end.
      set (ags := aupdate (h_addr h) (fun _ => a2) (agents s)).
      change (terminal (next_status goal detect cfg _ v' act) || _) with (a_ended a2).
      intros Hx Hp. left.
      assert (Hl2 : alookup (h_addr h) ags = Some a2) by (unfold ags; rewrite alookup_aupdate_eq, Ha; reflexivity).
      destruct (all_ended ags); destruct (a_ended a2).
      + eapply (Hpk _ (PRewards false act v')); [discriminate | | exact Hx | exact Hp]. reflexivity.
      + eapply Hrm; [|exact Hx|exact Hp]. unfold game_finish. cbn [agents set_agents set_world set_ev_end]. rewrite Hl2. reflexivity.
      + eapply (Hpk _ (PRewards false act v')); [discriminate | | exact Hx | exact Hp]. reflexivity.
      + eapply Hrm; [|exact Hx|exact Hp]. unfold game_finish. cbn [agents set_agents set_world set_ev_end]. rewrite Hl2. reflexivity.
  Qed.

  Lemma h_wake_joinstart (s s' : state) h x rel v :
    NoDup (map h_id (handlers s)) -> In h (handlers s) -> h_wake s h = Some s' -> In x (handlers s') -> h_pc x = PJoinStart rel v ->
    (exists x0 rel0, In x0 (handlers s) /\ h_addr x0 = h_addr x /\ h_pc x0 = PJoinStart rel0 v /\ h_id x0 <> h_id h) \/
    (h_addr x = h_addr h /\ exists name r, alookup (h_addr h) (agents s') = Some (new_agent name r v)).
  Proof.
    intros Hnd Hin.
    assert (Hrm : forall (t : state), handlers t = filter (fun y : handler => negb (Nat.eqb (h_id y) (h_id h))) (handlers s) ->
              In x (handlers t) -> h_pc x = PJoinStart rel v ->
              exists x0 rel0, In x0 (handlers s) /\ h_addr x0 = h_addr x /\ h_pc x0 = PJoinStart rel0 v /\ h_id x0 <> h_id h).
    { intros t Et Hx Hp. rewrite Et in Hx. apply in_remove in Hx as [H1 H2]. exists x, rel. auto. }
    assert (Hrf : forall want, In x (handlers (reset_finish s (h_id h) (h_addr h) want)) -> h_pc x = PJoinStart rel v ->
              exists x0 rel0, In x0 (handlers s) /\ h_addr x0 = h_addr x /\ h_pc x0 = PJoinStart rel0 v /\ h_id x0 <> h_id h).
    { intros want Hx Hp. eapply Hrm; [|exact Hx|exact Hp]. unfold reset_finish. destruct (alookup (h_addr h) (agents s)); reflexivity. }
    unfold Coord.h_wake. destruct (h_pc h) as [m|rel1 v1|rel1 act v'|rel1 want|rel1 want] eqn:Hpc.
    - intros [= <-]. apply h_start_joinstart; assumption.
    - destruct rel1; [|discriminate]. intros [= <-] Hx Hp. left. eapply Hrm; [|exact Hx|exact Hp]. reflexivity.
    - destruct rel1; [|discriminate]. intros [= <-] Hx Hp. left. eapply Hrm; [|exact Hx|exact Hp].
      unfold game_finish. destruct (alookup (h_addr h) (agents s)); reflexivity.
    - destruct rel1; [|discriminate]. destruct (ev_start s); intros [= <-] Hx Hp; left; [apply (Hrf want); assumption|].
      simpl in Hx. apply in_repl in Hx as [[H1 H2]|(x0 & _ & _ & _ & _ & E)]; [exists x, rel; auto | rewrite E in Hp; discriminate].
    - destruct rel1; [|discriminate]. intros [= <-] Hx Hp. left. apply (Hrf want); assumption.
  Qed.

  Lemma JV_init w : JV (init_state w).
  Proof. intros h rel v a []. Qed.

  Lemma dispatch_agents (l : list (addr * @msg G)) (t : state) : agents (fold_left dispatch1 l t) = agents t.
  Proof. revert t. induction l as [|[c m] tl IH]; intros t; [reflexivity|]. cbn [fold_left]. rewrite IH. destruct m; reflexivity. Qed.

  Lemma dispatch_joinstart (l : list (addr * @msg G)) (t : state) x rel v :
    In x (handlers (fold_left dispatch1 l t)) -> h_pc x = PJoinStart rel v -> In x (handlers t).
  Proof.
    revert t. induction l as [|[c m] tl IH]; intros t Hx Hp; [exact Hx|]. cbn [fold_left] in Hx. specialize (IH _ Hx Hp).
    destruct m; simpl in IH; try exact IH; (apply in_app_or in IH as [H|[<-|[]]]; [exact H | simpl in Hp; discriminate]).
  Qed.

  Theorem JV_exec (s s' : state) l : Inv s -> J (agents s) (handlers s) -> JV s -> exec s l = Some s' -> JV s'.
  Proof.
    intros Hi Hj Hv. destruct l as [c|c k|c|c|c|t]; cbn [Coord.exec].
    - destruct (alookup c (conns s)); [discriminate|]. intros [= <-]. exact Hv.
    - destruct (alookup c (conns s)) as [cn|]; [|discriminate]. destruct (c_inbox cn); [discriminate|].
      destruct (c_state cn); try discriminate; (destruct (c_eof cn); [discriminate|]; intros [= <-]; exact Hv).
    - destruct (alookup c (conns s)); [|discriminate]. intros [= <-]. exact Hv.
    - destruct (alookup c (conns s)); [|discriminate]. intros [= <-]. exact Hv.
    - destruct (alookup c (conns s)); [|discriminate]. intros [= <-]. exact Hv.
    - destruct t as [c| |id| |].
      + assert (Hcr : forall (t : state) cn, agents (conn_read t c cn) = agents t /\ handlers (conn_read t c cn) = handlers t).
        { intros t cn. unfold conn_read, leave, cleanup. destruct (c_rerr cn); [split; reflexivity|].
          destruct (c_inbox cn) as [[m|]|]; try (split; reflexivity). destruct (c_eof cn); split; reflexivity. }
        unfold conn_run. destruct (alookup c (conns s)) as [cn|]; [|discriminate].
        destruct (negb (conn_runnable cn)); [discriminate|].
        destruct (c_state cn).
        * destruct (Nat.leb (required cfg) (served s)); intros [= <-]; [exact Hv|].
          unfold JV. match goal with |- context [agents (conn_read ?T c ?C)] => destruct (Hcr T C) as [-> ->] end. exact Hv.
        * intros [= <-]. unfold JV. destruct (Hcr s cn) as [-> ->]. exact Hv.
        * destruct (c_queue cn) as [|[r|] q']; [discriminate| |].
          -- destruct (c_wfail cn); intros [= <-]; [exact Hv|].
             unfold JV. match goal with |- context [agents (conn_read ?T c ?C)] => destruct (Hcr T C) as [-> ->] end. exact Hv.
          -- intros [= <-]. exact Hv.
        * discriminate.
      + unfold dispatch_run. destruct (aq s) as [|x q]; [discriminate|]. intros [= <-].
        change (JV (fold_left dispatch1 (x :: q) (set_aq s []))).
        intros h rel v a Hin Hp Ha. rewrite dispatch_agents in Ha. apply dispatch_joinstart with (rel := rel) (v := v) in Hin; [|exact Hp].
        apply (Hv h rel v a Hin Hp Ha).
      + unfold handler_run. destruct (find (fun h => Nat.eqb (h_id h) id) (handlers s)) as [h|] eqn:Hf; [|discriminate].
        apply find_some in Hf as [Hin _]. intros Hw x rel v a Hx Hp Ha.
        destruct (I_ids s Hi) as [Hnd _].
        destruct (h_wake_joinstart s s' h x rel v Hnd Hin Hw Hx Hp) as [(x0 & rel0 & H0 & Ea & Ep & Hid)|(Ea & name & r & Hn)].
        * destruct (N.eq_dec (h_addr x) (h_addr h)) as [E|Hne].
          -- exfalso. destruct (handlers_of_addr s h x0 Hi Hin H0) as [->|[Hq _]]; [congruence | contradiction |].
             unfold spawned_msg in Hq. rewrite Ep in Hq. discriminate.
          -- rewrite (h_wake_others wstep winit goal detect cfg s s' h (h_addr x) Hne Hw) in Ha. rewrite <- Ea in Ha.
             apply (Hv x0 rel0 v a H0 Ep Ha).
        * rewrite Ea, Hn in Ha. injection Ha as <-. reflexivity.
      + unfold rewards_run. destruct (negb (ev_end s)); [discriminate|].
        destruct (negb (all_ended (agents s))); intros [= <-]; [exact Hv|].
        intros x rel v a' Hx Hp Ha. simpl in Hx, Ha. apply in_map_iff in Hx as (x0 & <- & H0).
        assert (E0 : h_pc x0 = PJoinStart rel v /\ h_addr (release_rewards x0) = h_addr x0).
        { destruct x0 as [i a pc]; destruct pc; simpl in *; try discriminate; auto. }
        destruct E0 as [E0 Ea]. rewrite Ea in Ha. rewrite alookup_map_snd in Ha.
        destruct (alookup (h_addr x0) (agents s)) as [a|] eqn:E; [|discriminate]. injection Ha as <-.
        rewrite <- (Hv x0 rel v a H0 E0 E). unfold reward_agent. destruct (_ || _); [reflexivity|]. destruct (a_role a); reflexivity.
      + unfold reset_run. destruct (negb (ev_reset s)); [discriminate|].
        destruct ((match agents s with [] => false | _ => true end) && all_req (agents s)) eqn:Hall; simpl; [|intros [= <-]; exact Hv].
        apply andb_true_iff in Hall as [_ Hall].
        destruct (fold_left _ (agents s) (wreset (world s), [], files s)) as [[w' ags] fl] eqn:Ef.
        intros [= <-]. intros x rel v a' Hx Hp Ha. simpl in Hx, Ha. exfalso.
        apply in_map_iff in Hx as (x0 & <- & H0).
        assert (E0 : h_pc x0 = PJoinStart rel v /\ h_addr (release_reset x0) = h_addr x0).
        { destruct x0 as [i a pc]; destruct pc; simpl in *; try discriminate; auto. }
        destruct E0 as [E0 Ea]. rewrite Ea in Ha.
        pose proof (reset_fold_lookup winit cfg (agents s) (wreset (world s)) [] (files s) (h_addr x0) a') as H.
        rewrite Ef in H. destruct (H Ha) as [Hd|(a & Hina & _)]; [discriminate|].
        assert (Hl : alookup (h_addr x0) (agents s) = Some a) by (apply in_alookup; [apply (I_agents s Hi) | exact Hina]).
        unfold all_req in Hall. rewrite forallb_forall in Hall. specialize (Hall _ Hina). simpl in Hall.
        destruct (J_req _ _ Hj _ a Hl Hall) as (h0 & Hin0 & Ha0 & [t Ht]).
        destruct (handlers_of_addr s x0 h0 Hi H0 Hin0 Ha0) as [->|[Hq _]]; [congruence|].
        unfold spawned_msg in Hq. rewrite Ht in Hq. discriminate.
  Qed.

  Theorem JV_reachable w ls (s : state) : execs (init_state w) ls = Some s -> JV s.
  Proof.
    assert (H : forall ls0 (s0 s1 : state), Inv2 s0 -> JV s0 -> execs s0 ls0 = Some s1 -> JV s1).
    { induction ls0 as [|l tl IH]; intros s0 s1 Hi Ho; simpl; [intros [= <-]; exact Ho|].
      destruct (exec s0 l) as [s2|] eqn:E; [|discriminate]. intros He.
      apply (IH s2 s1); [eapply inv2_exec; eauto | destruct Hi as [Hi Hj]; eapply JV_exec; eauto | exact He]. }
    intros He. eapply H; [apply inv2_init | apply JV_init | exact He].
  Qed.
End JoinView.

(* ---- every response carries what the coordinator holds for that agent ---- *)
Section Held.
  Context {V W G : Type}.
  Variable wstep : W -> V -> G -> W * V.
  Variable wreset : W -> W.
  Variable winit : W -> role -> W * V.
  Variable goal : role -> V -> bool.
  Variable detect : list G -> G -> bool.
  Variable cfg : config.

  Notation state := (@state V W G).
  Notation handler := (@handler V G).
  Notation agent := (@agent V G).
  Notation Inv := (@Inv V W G).
  Notation J := (@J V G).
  Notation Ost := (@Ost V W G).
  Notation JV := (@JV V W G).
  Notation exec := (@exec V W G wstep wreset winit goal detect cfg).
  Notation execs := (@execs V W G wstep wreset winit goal detect cfg).
  Notation h_start := (@h_start V W G wstep winit goal detect cfg).
  Notation h_wake := (@h_wake V W G wstep winit goal detect cfg).
  Notation conns_put := (@conns_put V W G).

  (* what a queue item says, against the record the coordinator holds for the agent in the state in which it is put *)
  Definition held (s' : state) (c : addr) (q : @qitem V G) : Prop :=
    match q with
    | QClose => True
    | QResp RBad => True
    | QResp (RCreated v) => forall a, alookup c (agents s') = Some a -> a_view a = v
    | QResp (ROk v r e _) => forall a, alookup c (agents s') = Some a -> a_view a = v /\ a_reward a = r /\ a_ended a = e
    | QResp (RForbidden v r st) =>
        forall a, alookup c (agents s') = Some a -> a_view a = v /\ a_reward a = r /\ a_status a = st /\ a_ended a = true
    | QResp (RResetDone obs _) => forall a, alookup c (agents s') = Some a -> obs = (a_view a, a_reward a, a_ended a)
    end.
  Definition held_answer (s s' : state) (c : addr) : Prop :=
    conns s' = conns s \/ exists q, conns s' = conns_put s c q /\ held s' c q.

  Lemma put_conns' (s0 s : state) c q : conns s0 = conns s -> conns (put s0 c q) = conns_put s c q.
  Proof. intros E. unfold put, CoordKinds.conns_put. cbn [conns set_conns]. rewrite E. reflexivity. Qed.

  Lemma game_finish_held (s0 s : state) id c act v' : conns s0 = conns s -> held_answer s (@game_finish V W G s0 id c act v') c.
  Proof.
    intros E. unfold game_finish. destruct (alookup c (agents s0)) as [a|] eqn:Ha; [|left; exact E].
    right. eexists. split; [unfold respond; apply put_conns'; exact E|].
    cbn [held agents put respond set_conns remove_handler set_handlers set_agents]. intros a' Ha'.
    rewrite alookup_aupdate_eq, Ha in Ha'. injection Ha' as <-. repeat split; reflexivity.
  Qed.

  Lemma reset_finish_held (s : state) id c want :
    (forall a, alookup c (agents s) = Some a -> in_sync a) -> held_answer s (@reset_finish V W G s id c want) c.
  Proof.
    intros Hs. unfold reset_finish. destruct (alookup c (agents s)) as [a|] eqn:Ha; [|left; reflexivity].
    right. eexists. split; [unfold respond; apply put_conns'; reflexivity|].
    cbn [held agents put respond set_conns remove_handler set_handlers set_agents]. intros a' Ha'.
    rewrite alookup_aupdate_eq, Ha in Ha'. injection Ha' as <-. apply (Hs a eq_refl).
  Qed.

  Theorem h_start_held (s : state) h m :
    Inv s -> Ost s -> In h (handlers s) -> h_pc h = PSpawned m -> held_answer s (h_start s (h_id h) (h_addr h) m) (h_addr h).
  Proof.
    intros Hi Ho Hin Hpc.
    assert (Hn : is_rw (h_pc h) = false) by (rewrite Hpc; reflexivity).
    pose proof (no_rwh_for s h Hi Hin Hn) as Hno.
    assert (Hsync : forall a, alookup (h_addr h) (agents s) = Some a -> in_sync a).
    { intros a Ha. destruct (O_sync _ _ Ho _ _ Ha) as [Hs|[r Hr]]; [exact Hs | exfalso; eapply Hno; eauto]. }
    assert (Hbad : forall s0 : state, conns s0 = conns s -> held_answer s (respond (remove_handler s0 (h_id h)) (h_addr h) RBad) (h_addr h)).
    { intros s0 E. right. exists (QResp RBad). split; [unfold respond; apply put_conns'; exact E | exact I]. }
    destruct m as [|info| |want|act valid]; unfold Coord.h_start.
    - left. reflexivity.
    - destruct (alookup (h_addr h) (agents s)) eqn:Ha; [apply Hbad; reflexivity|].
      destruct info as [[name [r|]]|]; try (apply Hbad; reflexivity).
      destruct (negb (allowed cfg r)); [apply Hbad; reflexivity|].
      destruct (winit (world s) r) as [w' v]. cbv zeta.
      assert (Hnew : forall a, alookup (h_addr h) (agents s ++ [(h_addr h, new_agent name r v)]) = Some a -> a_view a = v).
      { intros a. rewrite alookup_app, Ha. simpl. rewrite N.eqb_refl. intros [= <-]. reflexivity. }
      destruct (Nat.eqb _ _).
      + cbn [ev_start set_start_event set_handlers set_ev_start]. right. exists (QResp (RCreated v)).
        split; [unfold respond; apply put_conns'; reflexivity | exact Hnew].
      + destruct (ev_start _); [|left; reflexivity].
        right. exists (QResp (RCreated v)). split; [unfold respond; apply put_conns'; reflexivity | exact Hnew].
    - right. exists QClose. split; [|exact I]. apply put_conns'.
      unfold remove_agent. destruct (alookup (h_addr h) (agents s)); [|reflexivity]. destruct (_ && _); destruct (all_ended _); reflexivity.
    - destruct (alookup (h_addr h) (agents s)); [|apply Hbad; reflexivity]. cbv zeta. left. destruct (all_req _); reflexivity.
    - destruct (alookup (h_addr h) (agents s)) as [a|] eqn:Ha; [|apply Hbad; reflexivity].
      destruct (negb valid); [apply Hbad; reflexivity|].
      destruct (a_ended a) eqn:He.
      + right. eexists. split; [unfold respond; apply put_conns'; reflexivity|].
        cbn [held agents put respond set_conns remove_handler set_handlers]. intros a' Ha'. rewrite Ha in Ha'. injection Ha' as <-.
        pose proof (Hsync a eq_refl) as Hs. unfold in_sync in Hs. rewrite Hs. simpl. auto.
      + destruct (wstep (world s) (a_view a) act) as [w' v']. cbv zeta.
        match goal with |- context [all_ended ?AGS] => set (ags := AGS) end.
        assert (Hgoal : forall s2 : state, conns s2 = conns s -> forall b : bool,
                  held_answer s (if b then park s2 (h_id h) (PRewards false act v') else @game_finish V W G s2 (h_id h) (h_addr h) act v') (h_addr h)).
        { intros s2 E b. destruct b; [left; exact E | apply game_finish_held, E]. }
        destruct (all_ended ags); apply Hgoal; reflexivity.
  Qed.

  Theorem h_wake_held (s s' : state) (h : handler) :
    Inv s -> Ost s -> JV s -> In h (handlers s) -> h_wake s h = Some s' -> held_answer s s' (h_addr h).
  Proof.
    intros Hi Ho Hv Hin. unfold Coord.h_wake. destruct (h_pc h) as [m|rel v|rel act v'|rel want|rel want] eqn:Hpc.
    - intros [= <-]. apply h_start_held; assumption.
    - destruct rel; [|discriminate]. intros [= <-]. right. exists (QResp (RCreated v)).
      split; [unfold respond; apply put_conns'; reflexivity|]. cbn [held agents put respond set_conns remove_handler set_handlers].
      intros a Ha. apply (Hv h true v a Hin Hpc Ha).
    - destruct rel; [|discriminate]. intros [= <-]. apply game_finish_held. reflexivity.
    - destruct rel; [|discriminate].
      assert (Hsync : forall a, alookup (h_addr h) (agents s) = Some a -> in_sync a).
      { intros a Ha. destruct (O_sync _ _ Ho _ _ Ha) as [Hs|[r Hr]]; [exact Hs|]. exfalso.
        eapply (no_rwh_for s h Hi Hin); [rewrite Hpc; reflexivity | exact Hr]. }
      destruct (ev_start s); intros [= <-]; [apply reset_finish_held, Hsync | left; reflexivity].
    - destruct rel; [|discriminate]. intros [= <-]. apply reset_finish_held.
      intros a Ha. destruct (O_sync _ _ Ho _ _ Ha) as [Hs|[r Hr]]; [exact Hs|]. exfalso.
      eapply (no_rwh_for s h Hi Hin); [rewrite Hpc; reflexivity | exact Hr].
  Qed.

  (* for every reachable state: whatever a handler step puts on a connection's queue is what the coordinator holds for that
     agent after the step - the view, the reward and the end flag (OK / FORBIDDEN / RESET_DONE), the view (CREATED) *)
  Theorem response_held_reachable w ls (s s' : state) id h :
    execs (init_state w) ls = Some s -> find (fun x : handler => Nat.eqb (h_id x) id) (handlers s) = Some h ->
    exec s (LRun (THandler id)) = Some s' -> held_answer s s' (h_addr h).
  Proof.
    intros H0 Hf He. cbn [Coord.exec] in He. unfold handler_run in He. rewrite Hf in He.
    destruct (inv2_reachable wstep wreset winit goal detect cfg w ls s H0) as [Hi Hj].
    apply find_some in Hf as [Hin _].
    apply h_wake_held; try assumption.
    - eapply O_reachable; eauto.
    - eapply JV_reachable; eauto.
  Qed.
End Held.
