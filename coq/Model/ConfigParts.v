(* M5, second part: the section readers of utils.ConfigParser (read_agents_known_networks / _known_hosts /
   _controlled_hosts / _known_services / _known_data / _known_blocks) and the assembly of a role's start position and
   win condition, as total functions on the parsed configuration tree (yaml.safe_load).  Addresses stay text here
   (validity = Model/Ipv4Text.v); results are lists in the order of the configuration (the code builds sets/dicts).
   Shapes outside the documented ones (numbers where texts are expected, ...) give `Unsupported`: the model says nothing
   about them and the correspondence check does not generate them.  No proofs in this file. *)
From Coq Require Import String Ascii ZArith List Bool.
From NSG Require Import Model.Json Model.Ipv4Text Model.Config.
Import ListNotations.
Open Scope string_scope.

Inductive res (A : Type) := Ok (a : A) | Raises (e : string) | Unsupported.
Arguments Ok {A}. Arguments Raises {A}. Arguments Unsupported {A}.

Definition truthy (v : json) : bool := match py_bool v with JBool b => b | _ => false end.

(* self.config['coordinator']['agents'][role][part].get(key) or <empty> *)
Definition section_value (cfg : json) (role part key : string) : res (option json) :=
  match subscript cfg ["coordinator"; "agents"; role; part] with
  | inr e => Raises e
  | inl (JObj o) => match jget key o with
                    | Some v => if truthy v then Ok (Some v) else Ok None
                    | None => Ok None
                    end
  | inl _ => Raises "AttributeError"
  end.

Fixpoint lower (s : string) : string :=
  match s with
  | EmptyString => EmptyString
  | String c tl => let n := nat_of_ascii c in
                   String (if Nat.leb 65 n && Nat.leb n 90 then ascii_of_nat (n + 32) else c) (lower tl)
  end.

(* address validity, evaluated lazily: Ipv4Text.ipv4_ok computes the decimal value of every dot-separated part in unary,
   which explodes under call-by-value evaluation for long parts; parts longer than three characters are refused first
   (Proofs/ConfigPartsFacts.v: ip_ok s = ipv4_ok s for every text) *)
Definition short_parts (s : string) : bool := forallb (fun p => Nat.leb (String.length p) 3) (split_dots s "").
Definition ip_ok (s : string) : bool := if short_parts s then ipv4_ok s else false.

(* ---- hosts ---- *)
Inductive host_item := HAddr (s : string) | HRandom | HAllLocal.

Definition host_of (j : json) : option (list host_item) :=
  match j with
  | JStr s => Some (if ip_ok s then [HAddr s]
                    else if String.eqb s "random" then [HRandom]
                    else if String.eqb s "all_local" then [HAllLocal] else [])     (* anything else: logged, skipped *)
  | _ => None
  end.
Fixpoint concat_opt {A} (l : list (option (list A))) : option (list A) :=
  match l with
  | [] => Some []
  | None :: _ => None
  | Some x :: tl => match concat_opt tl with Some r => Some (x ++ r)%list | None => None end
  end.
Definition read_hosts (cfg : json) (role part key : string) : res (list host_item) :=
  match section_value cfg role part key with
  | Raises e => Raises e | Unsupported => Unsupported
  | Ok None => Ok []
  | Ok (Some (JArr l)) => match concat_opt (map host_of l) with Some r => Ok r | None => Unsupported end
  | Ok (Some _) => Unsupported
  end.

(* ---- networks: "a.b.c.d/m" ---- *)
Fixpoint split_slash (s : string) (cur : string) : list string :=
  match s with
  | EmptyString => [cur]
  | String c tl => if Ascii.eqb c "/"%char then cur :: split_slash tl "" else split_slash tl (cur ++ String c "")
  end.
Definition mask_ok (s : string) : bool :=
  match s with
  | EmptyString => false
  | _ => if Nat.leb (String.length s) 2 then all_digits s && Nat.leb (dec_value s 0) 32 else false
  end.
Definition net_of (j : json) : option (list (string * Z)) :=
  match j with
  | JStr s => match split_slash s "" with
              | [_] => Some []                                             (* no '/': silently skipped *)
              | [h; m] => Some (if ip_ok h && mask_ok m then [(h, Z.of_nat (dec_value m 0))] else [])
              | _ => Some []                                               (* more than one '/': netaddr refuses it *)
              end
  | _ => None
  end.
Definition read_networks (cfg : json) (role part : string) : res (list (string * Z)) :=
  match section_value cfg role part "known_networks" with
  | Raises e => Raises e | Unsupported => Unsupported
  | Ok None => Ok []
  | Ok (Some (JArr l)) => match concat_opt (map net_of l) with Some r => Ok r | None => Unsupported end
  | Ok (Some _) => Unsupported
  end.

(* ---- data: {ip: [[owner, id], ...]} or {ip: ["random"]} ---- *)
Inductive data_entry := DItems (l : list (string * string)) | DRandom.
Definition datum_of (j : json) : option (option (string * string)) :=        (* Some None = "random" *)
  match j with
  | JStr s => if String.eqb (lower s) "random" then Some None else None
  | JArr (JStr u :: JStr i :: _) => Some (Some (u, i))
  | _ => None
  end.
Fixpoint data_entry_of (l : list json) (acc : data_entry) : res data_entry :=
  match l with
  | [] => Ok acc
  | j :: tl => match datum_of j with
               | None => Unsupported
               | Some None => data_entry_of tl DRandom
               | Some (Some p) => match acc with
                                  | DItems ps => data_entry_of tl (DItems (ps ++ [p])%list)
                                  | DRandom => Raises "AttributeError"          (* .add on the text "random" *)
                                  end
               end
  end.
(* the loop over the dictionary: an invalid address empties everything read so far *)
Fixpoint read_data_loop (items : list (string * json)) (acc : list (string * data_entry)) : res (list (string * data_entry)) :=
  match items with
  | [] => Ok acc
  | (ip, v) :: tl =>
      if negb (ip_ok ip) then read_data_loop tl []
      else match v with
           | JArr l => match data_entry_of l (DItems []) with
                       | Ok e => read_data_loop tl (filter (fun kv => negb (String.eqb (fst kv) ip)) acc ++ [(ip, e)])%list
                       | Raises e => Raises e
                       | Unsupported => Unsupported
                       end
           | _ => Unsupported
           end
  end.
Definition read_data (cfg : json) (role part : string) : res (list (string * data_entry)) :=
  match section_value cfg role part "known_data" with
  | Raises e => Raises e | Unsupported => Unsupported
  | Ok None => Ok []
  | Ok (Some (JObj o)) => read_data_loop o []
  | Ok (Some _) => Unsupported
  end.

(* ---- services: {ip: [name, type, version, is_local]} | {ip: [[...], ...]} | {ip: "random"} ---- *)
Inductive svc_entry := SItems (l : list (string * string * string * bool)) | SRandom.
Definition svc_of (j : json) : option (string * string * string * bool) :=
  match j with
  | JArr (JStr n :: JStr t :: JStr v :: JBool b :: _) => Some (n, t, v, b)
  | _ => None
  end.
Definition svc_entry_of (v : json) : option svc_entry :=
  match v with
  | JStr s => if String.eqb (lower s) "random" then Some SRandom else None
  | JArr (JArr d :: tl) => match mapM svc_of (JArr d :: tl) with Some l => Some (SItems l) | None => None end
  | JArr l => match svc_of (JArr l) with Some d => Some (SItems [d]) | None => None end
  | _ => None
  end.
Fixpoint read_svcs_loop (items : list (string * json)) (acc : list (string * svc_entry)) : res (list (string * svc_entry)) :=
  match items with
  | [] => Ok acc
  | (ip, v) :: tl =>
      if negb (ip_ok ip) then read_svcs_loop tl []
      else match svc_entry_of v with
           | Some e => read_svcs_loop tl (filter (fun kv => negb (String.eqb (fst kv) ip)) acc ++ [(ip, e)])%list
           | None => Unsupported
           end
  end.
Definition read_services (cfg : json) (role part : string) : res (list (string * svc_entry)) :=
  match section_value cfg role part "known_services" with
  | Raises e => Raises e | Unsupported => Unsupported
  | Ok None => Ok []
  | Ok (Some (JObj o)) => read_svcs_loop o []
  | Ok (Some _) => Unsupported
  end.

(* ---- blocks: {host: [ip, ...]} | {host: "all_attackers"} (valid addresses only) ---- *)
Inductive block_entry := BItems (l : list string) | BAllAttackers.
Definition block_ips (l : list json) : option (list string) :=
  mapM (fun j => match j with JStr s => if ip_ok s then Some s else None | _ => None end) l.
Fixpoint read_blocks_loop (items : list (string * json)) (acc : list (string * block_entry)) : res (list (string * block_entry)) :=
  match items with
  | [] => Ok acc
  | (h, v) :: tl =>
      if negb (ip_ok h) then Unsupported
      else match v with
           | JArr l => match block_ips l with
                       | Some ips => read_blocks_loop tl (filter (fun kv => negb (String.eqb (fst kv) h)) acc ++ [(h, BItems ips)])%list
                       | None => Unsupported
                       end
           | JStr s => if String.eqb s "all_attackers"
                       then read_blocks_loop tl (filter (fun kv => negb (String.eqb (fst kv) h)) acc ++ [(h, BAllAttackers)])%list
                       else Raises "ValueError"
           | _ => Unsupported
           end
  end.
Definition read_blocks (cfg : json) (role part : string) : res (list (string * block_entry)) :=
  match section_value cfg role part "known_blocks" with
  | Raises e => Raises e | Unsupported => Unsupported
  | Ok None => Ok []
  | Ok (Some (JObj o)) => read_blocks_loop o []
  | Ok (Some _) => Unsupported
  end.

(* ---- a role's start position / win condition ---- *)
Record part := { p_nets : list (string * Z); p_hosts : list host_item; p_ctrl : list host_item;
                 p_svcs : list (string * svc_entry); p_data : list (string * data_entry);
                 p_blocks : list (string * block_entry) }.

Definition bind {A B} (r : res A) (f : A -> res B) : res B :=
  match r with Ok a => f a | Raises e => Raises e | Unsupported => Unsupported end.

(* get_player_start_position (no blocks part) / get_player_win_conditions, in the order the code reads the parts *)
Definition read_part (cfg : json) (role part_name : string) (with_blocks : bool) : res part :=
  bind (read_networks cfg role part_name) (fun nets =>
  bind (read_hosts cfg role part_name "known_hosts") (fun hosts =>
  bind (read_hosts cfg role part_name "controlled_hosts") (fun ctrl =>
  bind (read_services cfg role part_name) (fun svcs =>
  bind (if with_blocks then read_blocks cfg role part_name else Ok []) (fun blocks =>
  bind (read_data cfg role part_name) (fun data =>
  Ok {| p_nets := nets; p_hosts := hosts; p_ctrl := ctrl; p_svcs := svcs; p_data := data; p_blocks := blocks |})))))).

Definition start_position (cfg : json) (role : string) : res part := read_part cfg role "start_position" false.
Definition win_conditions (cfg : json) (role : string) : res part := read_part cfg role "goal" true.

(* ---- comparison with what the implementation returned (sets and dictionaries: order-free) ---- *)
Definition sub_list {A} (eqb : A -> A -> bool) (l l' : list A) : bool := forallb (fun x => existsb (eqb x) l') l.
Definition same_set {A} (eqb : A -> A -> bool) (l l' : list A) : bool := sub_list eqb l l' && sub_list eqb l' l.

Definition host_eqb (a b : host_item) : bool :=
  match a, b with HAddr x, HAddr y => String.eqb x y | HRandom, HRandom => true | HAllLocal, HAllLocal => true | _, _ => false end.
Definition net_eqb (a b : string * Z) : bool := String.eqb (fst a) (fst b) && Z.eqb (snd a) (snd b).
Definition pair_eqb (a b : string * string) : bool := String.eqb (fst a) (fst b) && String.eqb (snd a) (snd b).
Definition svc_eqb (a b : string * string * string * bool) : bool :=
  let '(n, t, v, l) := a in let '(n', t', v', l') := b in String.eqb n n' && String.eqb t t' && String.eqb v v' && Bool.eqb l l'.
Definition dentry_eqb (a b : data_entry) : bool :=
  match a, b with DItems x, DItems y => same_set pair_eqb x y | DRandom, DRandom => true | _, _ => false end.
Definition sentry_eqb (a b : svc_entry) : bool :=
  match a, b with SItems x, SItems y => same_set svc_eqb x y | SRandom, SRandom => true | _, _ => false end.
Definition bentry_eqb (a b : block_entry) : bool :=
  match a, b with BItems x, BItems y => same_set String.eqb x y | BAllAttackers, BAllAttackers => true | _, _ => false end.
Definition keyed_eqb {E} (eqb : E -> E -> bool) (a b : string * E) : bool := String.eqb (fst a) (fst b) && eqb (snd a) (snd b).

Definition part_eqb (a b : part) : bool :=
  same_set net_eqb (p_nets a) (p_nets b) && same_set host_eqb (p_hosts a) (p_hosts b) && same_set host_eqb (p_ctrl a) (p_ctrl b) &&
  same_set (keyed_eqb sentry_eqb) (p_svcs a) (p_svcs b) && same_set (keyed_eqb dentry_eqb) (p_data a) (p_data b) &&
  same_set (keyed_eqb bentry_eqb) (p_blocks a) (p_blocks b).

(* expected: what the real ConfigParser returned (Ok p), the exception it raised, or nothing when the model does not apply *)
Definition check_part (r : res part) (expected : res part) : bool :=
  match r, expected with
  | Ok a, Ok b => part_eqb a b
  | Raises e, Raises e' => String.eqb e e'
  | Unsupported, _ => true
  | _, _ => false
  end.
Definition supported {A} (r : res A) : bool := match r with Unsupported => false | _ => true end.
