(* M4: the game coordinator (AIDojoCoordinator/coordinator.py) as a labelled transition system.
   One internal label = one task step of the implementation (an atomic run of a task from where it
   is suspended to its next suspension); the scheduler is unconstrained.  Parametric in the world.
   No proofs in this file. *)
From Coq Require Import ZArith NArith List Bool Arith.
Import ListNotations.

Definition addr := N.

Inductive role := RAttacker | RDefender | RBenign.
Inductive status := SPlaying | SPlayingTO | STimeout | SSuccess | SFail.

Definition role_eqb (a b : role) : bool :=
  match a, b with RAttacker, RAttacker | RDefender, RDefender | RBenign, RBenign => true | _, _ => false end.
Definition status_eqb (a b : status) : bool :=
  match a, b with
  | SPlaying, SPlaying | SPlayingTO, SPlayingTO | STimeout, STimeout | SSuccess, SSuccess | SFail, SFail => true
  | _, _ => false
  end.
Definition init_status (r : role) : status := match r with RAttacker => SPlayingTO | _ => SPlaying end.
Definition terminal (s : status) : bool := match s with STimeout | SSuccess | SFail => true | _ => false end.

Section Coord.
  Context {V W G : Type}.            (* views, world states, game actions *)

  (* the world interface (NSGCoordinator.step / reset / register_agent = reset_agent) *)
  Variable wstep : W -> V -> G -> W * V.
  Variable wreset : W -> W.
  Variable winit : W -> role -> W * V.
  (* goal_check on the agent's new view; is_detected on (trajectory actions, last action) *)
  Variable goal : role -> V -> bool.
  Variable detect : list G -> G -> bool.

  Record config := {
    required : nat;                        (* required_players = connection limit *)
    max_steps : role -> option nat;        (* None or Some 0: no step limit *)
    r_step : Z; r_succ : Z; r_fail : Z;
    allowed : role -> bool;                (* ALLOWED_ROLES *)
    save_traj : bool;
  }.
  Variable cfg : config.

  Record traj := { t_states : list V; t_actions : list G; t_rewards : list Z }.
  Definition traj_start (v : V) : traj := {| t_states := [v]; t_actions := []; t_rewards := [] |}.
  Definition traj_add (t : traj) (a : G) (r : Z) (v : V) : traj :=
    {| t_states := t_states t ++ [v]; t_actions := t_actions t ++ [a]; t_rewards := t_rewards t ++ [r] |}.

  Record agent := {
    a_name : N; a_role : role;
    a_steps : nat; a_req : bool; a_status : status; a_ended : bool;
    a_view : V; a_reward : Z; a_rewarded : bool;
    a_obs : V * Z * bool;                  (* _agent_observations: last observation (state, reward, end) *)
    a_traj : traj;
  }.

  (* what a message is, as far as the coordinator can tell *)
  Inductive msg :=
  | MGarbage                                         (* Action.from_json raises *)
  | MJoin (info : option (N * option role))          (* agent_info present?  (name, allowed role?) *)
  | MQuit
  | MReset (want_traj : bool)
  | MGame (a : G) (valid : bool).                    (* valid = passes _validate_game_action *)

  Inductive chunk := CMsg (m : msg) | CUndecodable.

  Inductive resp :=
  | RBad
  | RCreated (v : V)
  | ROk (v : V) (r : Z) (e : bool) (st : option status)
  | RForbidden (v : V) (r : Z) (st : status)
  | RResetDone (obs : V * Z * bool) (t : option traj).
  Inductive qitem := QResp (r : resp) | QClose.

  Inductive cstate := CNew | CReading | CAwaiting | CClosed.
  Record conn := {
    c_state : cstate;
    c_inbox : option chunk;     (* bytes fed and not yet read *)
    c_eof : bool; c_rerr : bool; c_wfail : bool;     (* pending peer events *)
    c_queue : list qitem;       (* the response queue (exists while the connection is served) *)
    c_reqs : nat;               (* history: messages read from this connection *)
    c_outs : list resp;         (* history: responses written to this connection *)
  }.

  (* where a handler task is suspended *)
  Inductive hpc :=
  | PSpawned (m : msg)
  | PJoinStart (rel : bool) (v : V)                 (* await _episode_start_event.wait() in the join handler *)
  | PRewards (rel : bool) (a : G) (v : V)           (* await _episode_rewards_condition.wait() *)
  | PResetDone (rel : bool) (want_traj : bool)      (* await _reset_done_condition.wait() *)
  | PResetStart (rel : bool) (want_traj : bool).    (* await _episode_start_event.wait() in the reset handler *)
  Record handler := { h_id : nat; h_addr : addr; h_pc : hpc }.

  Record state := {
    conns : list (addr * conn);
    served : nat;                        (* AgentServer.current_connections *)
    aq : list (addr * msg);              (* _agent_action_queue *)
    agents : list (addr * agent);        (* all per-agent tables, in insertion order of self.agents *)
    handlers : list handler;
    next_hid : nat;
    ev_start : bool; ev_end : bool; ev_reset : bool;
    world : W;
    files : list (N * role * traj);      (* records appended to trajectory files *)
  }.

  (* ---- small helpers ------------------------------------------------------------------------ *)
  Fixpoint alookup {A} (k : addr) (l : list (addr * A)) : option A :=
    match l with
    | [] => None
    | (k', v) :: tl => if N.eqb k k' then Some v else alookup k tl
    end.
  Fixpoint aupdate {A} (k : addr) (f : A -> A) (l : list (addr * A)) : list (addr * A) :=
    match l with
    | [] => []
    | (k', v) :: tl => if N.eqb k k' then (k', f v) :: tl else (k', v) :: aupdate k f tl
    end.
  Fixpoint aremove {A} (k : addr) (l : list (addr * A)) : list (addr * A) :=
    match l with
    | [] => []
    | (k', v) :: tl => if N.eqb k k' then tl else (k', v) :: aremove k tl
    end.

  Definition set_conns s x := {| conns := x; served := served s; aq := aq s; agents := agents s; handlers := handlers s; next_hid := next_hid s; ev_start := ev_start s; ev_end := ev_end s; ev_reset := ev_reset s; world := world s; files := files s |}.
  Definition set_served s x := {| conns := conns s; served := x; aq := aq s; agents := agents s; handlers := handlers s; next_hid := next_hid s; ev_start := ev_start s; ev_end := ev_end s; ev_reset := ev_reset s; world := world s; files := files s |}.
  Definition set_aq s x := {| conns := conns s; served := served s; aq := x; agents := agents s; handlers := handlers s; next_hid := next_hid s; ev_start := ev_start s; ev_end := ev_end s; ev_reset := ev_reset s; world := world s; files := files s |}.
  Definition set_agents s x := {| conns := conns s; served := served s; aq := aq s; agents := x; handlers := handlers s; next_hid := next_hid s; ev_start := ev_start s; ev_end := ev_end s; ev_reset := ev_reset s; world := world s; files := files s |}.
  Definition set_handlers s x := {| conns := conns s; served := served s; aq := aq s; agents := agents s; handlers := x; next_hid := next_hid s; ev_start := ev_start s; ev_end := ev_end s; ev_reset := ev_reset s; world := world s; files := files s |}.
  Definition set_next_hid s x := {| conns := conns s; served := served s; aq := aq s; agents := agents s; handlers := handlers s; next_hid := x; ev_start := ev_start s; ev_end := ev_end s; ev_reset := ev_reset s; world := world s; files := files s |}.
  Definition set_ev_start s x := {| conns := conns s; served := served s; aq := aq s; agents := agents s; handlers := handlers s; next_hid := next_hid s; ev_start := x; ev_end := ev_end s; ev_reset := ev_reset s; world := world s; files := files s |}.
  Definition set_ev_end s x := {| conns := conns s; served := served s; aq := aq s; agents := agents s; handlers := handlers s; next_hid := next_hid s; ev_start := ev_start s; ev_end := x; ev_reset := ev_reset s; world := world s; files := files s |}.
  Definition set_ev_reset s x := {| conns := conns s; served := served s; aq := aq s; agents := agents s; handlers := handlers s; next_hid := next_hid s; ev_start := ev_start s; ev_end := ev_end s; ev_reset := x; world := world s; files := files s |}.
  Definition set_world s x := {| conns := conns s; served := served s; aq := aq s; agents := agents s; handlers := handlers s; next_hid := next_hid s; ev_start := ev_start s; ev_end := ev_end s; ev_reset := ev_reset s; world := x; files := files s |}.
  Definition set_files s x := {| conns := conns s; served := served s; aq := aq s; agents := agents s; handlers := handlers s; next_hid := next_hid s; ev_start := ev_start s; ev_end := ev_end s; ev_reset := ev_reset s; world := world s; files := x |}.

  Definition c_set_state c x := {| c_state := x; c_inbox := c_inbox c; c_eof := c_eof c; c_rerr := c_rerr c; c_wfail := c_wfail c; c_queue := c_queue c; c_reqs := c_reqs c; c_outs := c_outs c |}.
  Definition c_set_inbox c x := {| c_state := c_state c; c_inbox := x; c_eof := c_eof c; c_rerr := c_rerr c; c_wfail := c_wfail c; c_queue := c_queue c; c_reqs := c_reqs c; c_outs := c_outs c |}.
  Definition c_set_queue c x := {| c_state := c_state c; c_inbox := c_inbox c; c_eof := c_eof c; c_rerr := c_rerr c; c_wfail := c_wfail c; c_queue := x; c_reqs := c_reqs c; c_outs := c_outs c |}.

  Definition a_set_view a x := {| a_name := a_name a; a_role := a_role a; a_steps := a_steps a; a_req := a_req a; a_status := a_status a; a_ended := a_ended a; a_view := x; a_reward := a_reward a; a_rewarded := a_rewarded a; a_obs := a_obs a; a_traj := a_traj a |}.
  Definition a_set_req a x := {| a_name := a_name a; a_role := a_role a; a_steps := a_steps a; a_req := x; a_status := a_status a; a_ended := a_ended a; a_view := a_view a; a_reward := a_reward a; a_rewarded := a_rewarded a; a_obs := a_obs a; a_traj := a_traj a |}.
  Definition a_set_traj a x := {| a_name := a_name a; a_role := a_role a; a_steps := a_steps a; a_req := a_req a; a_status := a_status a; a_ended := a_ended a; a_view := a_view a; a_reward := a_reward a; a_rewarded := a_rewarded a; a_obs := a_obs a; a_traj := x |}.
  Definition a_set_obs a x := {| a_name := a_name a; a_role := a_role a; a_steps := a_steps a; a_req := a_req a; a_status := a_status a; a_ended := a_ended a; a_view := a_view a; a_reward := a_reward a; a_rewarded := a_rewarded a; a_obs := x; a_traj := a_traj a |}.

  (* put a response on the queue of connection c if that queue (still) exists *)
  Definition has_queue (c : conn) : bool := match c_state c with CReading | CAwaiting => true | _ => false end.
  Definition put (s : state) (c : addr) (q : qitem) : state :=
    set_conns s (aupdate c (fun cn => if has_queue cn then c_set_queue cn (c_queue cn ++ [q]) else cn) (conns s)).
  Definition respond (s : state) (c : addr) (r : resp) : state := put s c (QResp r).

  (* Event.set() of the start event resolves the futures of the handlers waiting on it *)
  Definition release_start (h : handler) : handler :=
    match h_pc h with
    | PJoinStart _ v => {| h_id := h_id h; h_addr := h_addr h; h_pc := PJoinStart true v |}
    | PResetStart _ t => {| h_id := h_id h; h_addr := h_addr h; h_pc := PResetStart true t |}
    | _ => h
    end.
  Definition release_rewards (h : handler) : handler :=
    match h_pc h with
    | PRewards _ a v => {| h_id := h_id h; h_addr := h_addr h; h_pc := PRewards true a v |}
    | _ => h
    end.
  Definition release_reset (h : handler) : handler :=
    match h_pc h with
    | PResetDone _ t => {| h_id := h_id h; h_addr := h_addr h; h_pc := PResetDone true t |}
    | _ => h
    end.
  Definition set_start_event (s : state) : state :=
    set_handlers (set_ev_start s true) (map release_start (handlers s)).

  Definition all_ended (l : list (addr * agent)) : bool := forallb (fun x => a_ended (snd x)) l.
  Definition all_req (l : list (addr * agent)) : bool := forallb (fun x => a_req (snd x)) l.

  (* ---- the connection handler (AgentServer.handle_new_agent) ---------------------------------- *)
  Definition quit_msg : msg := MQuit.

  (* finally-block: release the slot, drop the queue, close *)
  Definition cleanup (s : state) (c : addr) : state :=
    set_served (set_conns s (aupdate c (fun cn => c_set_queue (c_set_state cn CClosed) []) (conns s))) (served s - 1).
  (* forward QuitGame on the agent's behalf, then clean up *)
  Definition leave (s : state) (c : addr) : state := cleanup (set_aq s (aq s ++ [(c, quit_msg)])) c.

  (* the read part of the loop: from `await reader.read()` to the next suspension *)
  Definition conn_read (s : state) (c : addr) (cn : conn) : state :=
    if c_rerr cn then leave s c
    else match c_inbox cn with
         | Some CUndecodable => leave (set_conns s (aupdate c (fun x => c_set_inbox x None) (conns s))) c
         | Some (CMsg m) =>
             let cn' := {| c_state := CAwaiting; c_inbox := None; c_eof := c_eof cn; c_rerr := c_rerr cn; c_wfail := c_wfail cn;
                           c_queue := c_queue cn; c_reqs := S (c_reqs cn); c_outs := c_outs cn |} in
             set_aq (set_conns s (aupdate c (fun _ => cn') (conns s))) (aq s ++ [(c, m)])
         | None => if c_eof cn then leave s c
                   else set_conns s (aupdate c (fun x => c_set_state x CReading) (conns s))
         end.

  Definition conn_runnable (cn : conn) : bool :=
    match c_state cn with
    | CNew => true
    | CReading => match c_inbox cn with Some _ => true | None => c_eof cn || c_rerr cn end
    | CAwaiting => match c_queue cn with [] => false | _ => true end
    | CClosed => false
    end.

  Definition conn_run (s : state) (c : addr) : option state :=
    match alookup c (conns s) with
    | None => None
    | Some cn =>
        if negb (conn_runnable cn) then None else
        match c_state cn with
        | CNew =>
            if Nat.leb (required cfg) (served s)
            then Some (set_conns s (aupdate c (fun x => c_set_state x CClosed) (conns s)))   (* rejected: closed at once *)
            else
              let cn' := c_set_state cn CReading in
              let s' := set_served (set_conns s (aupdate c (fun _ => cn') (conns s))) (S (served s)) in
              Some (conn_read s' c cn')
        | CReading => Some (conn_read s c cn)
        | CAwaiting =>
            match c_queue cn with
            | [] => None
            | QClose :: q' => Some (cleanup (set_conns s (aupdate c (fun x => c_set_queue x q') (conns s))) c)
            | QResp r :: q' =>
                if c_wfail cn then Some (leave (set_conns s (aupdate c (fun x => c_set_queue x q') (conns s))) c)
                else
                  let cn' := {| c_state := CReading; c_inbox := c_inbox cn; c_eof := c_eof cn; c_rerr := c_rerr cn; c_wfail := false;
                                c_queue := q'; c_reqs := c_reqs cn; c_outs := c_outs cn ++ [r] |} in
                  Some (conn_read (set_conns s (aupdate c (fun _ => cn') (conns s))) c cn')
            end
        | CClosed => None
        end
    end.

  (* ---- the dispatcher (run_game) ---------------------------------------------------------------- *)
  Definition dispatch1 (s : state) (x : addr * msg) : state :=
    match snd x with
    | MGarbage => respond s (fst x) RBad
    | m => set_next_hid (set_handlers s (handlers s ++ [{| h_id := next_hid s; h_addr := fst x; h_pc := PSpawned m |}])) (S (next_hid s))
    end.
  Definition dispatch_run (s : state) : option state :=
    match aq s with
    | [] => None
    | q => Some (fold_left dispatch1 q (set_aq s []))
    end.

  (* ---- handlers ------------------------------------------------------------------------------------ *)
  Definition new_agent (name : N) (r : role) (v : V) : agent :=
    {| a_name := name; a_role := r; a_steps := 0; a_req := false; a_status := init_status r; a_ended := false;
       a_view := v; a_reward := 0%Z; a_rewarded := false; a_obs := (v, 0%Z, false); a_traj := traj_start v |}.

  Definition remove_handler (s : state) (id : nat) : state :=
    set_handlers s (filter (fun h => negb (Nat.eqb (h_id h) id)) (handlers s)).
  Definition park (s : state) (id : nat) (pc : hpc) : state :=
    set_handlers s (map (fun h => if Nat.eqb (h_id h) id then {| h_id := id; h_addr := h_addr h; h_pc := pc |} else h) (handlers s)).

  Definition is_timeout (a : agent) : bool :=
    match max_steps cfg (a_role a) with
    | Some m => Nat.ltb 0 m && Nat.leb m (a_steps a)
    | None => false
    end.

  (* _update_agent_status *)
  Definition next_status (a : agent) (v' : V) (act : G) : status :=
    if goal (a_role a) v' then SSuccess
    else if detect (t_actions (a_traj a)) act then SFail
    else if is_timeout a then STimeout
    else a_status a.

  (* _remove_agent_from_game *)
  Definition remove_agent (s : state) (c : addr) : state :=
    match alookup c (agents s) with
    | None => s
    | Some _ =>
        let others := aremove c (agents s) in
        let s1 := if (match others with [] => false | _ => true end) && all_req others then set_ev_reset s true else s in
        let s2 := if all_ended others then set_ev_end s1 true else s1 in
        set_ev_start (set_agents s2 others) false
    end.

  Definition ok_info (st : status) : option status := if terminal st then Some st else None.

  (* reply of the game handler once the reward is known *)
  Definition game_finish (s : state) (id : nat) (c : addr) (act : G) (v' : V) : state :=
    match alookup c (agents s) with
    | None => remove_handler s id                        (* cannot happen: the handler task would die *)
    | Some a =>
        let a' := a_set_obs (a_set_traj a (traj_add (a_traj a) act (a_reward a) v')) (a_view a, a_reward a, a_ended a) in
        respond (remove_handler (set_agents s (aupdate c (fun _ => a') (agents s))) id) c
                (ROk (a_view a) (a_reward a) (a_ended a) (ok_info (a_status a)))
    end.

  Definition reset_finish (s : state) (id : nat) (c : addr) (want : bool) : state :=
    match alookup c (agents s) with
    | None => remove_handler s id
    | Some a =>
        let a' := a_set_traj a (traj_start (a_view a)) in
        respond (remove_handler (set_agents s (aupdate c (fun _ => a') (agents s))) id) c
                (RResetDone (a_obs a) (if want then Some (a_traj a) else None))
    end.

  (* first step of a handler task *)
  Definition h_start (s : state) (id : nat) (c : addr) (m : msg) : state :=
    match m with
    | MGarbage => remove_handler s id
    | MJoin info =>
        match alookup c (agents s) with
        | Some _ => respond (remove_handler s id) c RBad                          (* agent already exists *)
        | None =>
            match info with
            | None => respond (remove_handler s id) c RBad                        (* no agent_info *)
            | Some (_, None) => respond (remove_handler s id) c RBad              (* role not allowed *)
            | Some (name, Some r) =>
                if negb (allowed cfg r) then respond (remove_handler s id) c RBad else
                let '(w', v) := winit (world s) r in
                let s1 := set_agents (set_world s w') (agents s ++ [(c, new_agent name r v)]) in
                let s2 := if Nat.eqb (length (agents s1)) (required cfg) then set_start_event s1 else s1 in
                if ev_start s2 then respond (remove_handler s2 id) c (RCreated v)
                else park s2 id (PJoinStart false v)
            end
        end
    | MQuit =>
        let s1 := remove_agent s c in
        put (remove_handler s1 id) c QClose
    | MReset want =>
        match alookup c (agents s) with
        | None => respond (remove_handler s id) c RBad
        | Some _ =>
            let ags := aupdate c (fun a => a_set_req a true) (agents s) in
            let s1 := set_agents s ags in
            let s2 := if all_req ags then set_ev_reset s1 true else s1 in
            park s2 id (PResetDone false want)
        end
    | MGame act valid =>
        match alookup c (agents s) with
        | None => respond (remove_handler s id) c RBad
        | Some a =>
            if negb valid then respond (remove_handler s id) c RBad
            else if a_ended a then
              respond (remove_handler s id) c (RForbidden (fst (fst (a_obs a))) (a_reward a) (a_status a))
            else
              let a1 := {| a_name := a_name a; a_role := a_role a; a_steps := S (a_steps a); a_req := a_req a; a_status := a_status a;
                           a_ended := a_ended a; a_view := a_view a; a_reward := a_reward a; a_rewarded := a_rewarded a;
                           a_obs := a_obs a; a_traj := a_traj a |} in
              let '(w', v') := wstep (world s) (a_view a) act in
              let st := next_status a1 v' act in
              let others_playing := existsb (fun x => negb (N.eqb (fst x) c) && status_eqb (a_status (snd x)) SPlayingTO) (agents s) in
              let ended := terminal st || negb (status_eqb st SPlayingTO || others_playing) in
              let a2 := {| a_name := a_name a; a_role := a_role a; a_steps := S (a_steps a); a_req := a_req a; a_status := st;
                           a_ended := ended; a_view := v'; a_reward := r_step cfg; a_rewarded := a_rewarded a;
                           a_obs := a_obs a; a_traj := a_traj a |} in
              let ags := aupdate c (fun _ => a2) (agents s) in
              let s1 := set_agents (set_world s w') ags in
              let s2 := if all_ended ags then set_ev_end s1 true else s1 in
              if ended then park s2 id (PRewards false act v')
              else game_finish s2 id c act v'
        end
    end.

  (* continuation of a handler whose wait was released *)
  Definition h_wake (s : state) (h : handler) : option state :=
    match h_pc h with
    | PSpawned m => Some (h_start s (h_id h) (h_addr h) m)
    | PJoinStart true v => Some (respond (remove_handler s (h_id h)) (h_addr h) (RCreated v))
    | PRewards true act v' => Some (game_finish s (h_id h) (h_addr h) act v')
    | PResetDone true want =>
        if ev_start s then Some (reset_finish s (h_id h) (h_addr h) want)
        else Some (park s (h_id h) (PResetStart false want))
    | PResetStart true want => Some (reset_finish s (h_id h) (h_addr h) want)
    | _ => None
    end.

  Definition handler_run (s : state) (id : nat) : option state :=
    match find (fun h => Nat.eqb (h_id h) id) (handlers s) with
    | None => None
    | Some h => h_wake s h
    end.

  (* ---- the two background tasks ------------------------------------------------------------------ *)
  (* _assign_rewards_episode_end *)
  Definition reward_agent (successful : bool) (a : agent) : agent :=
    if a_rewarded a || negb (a_ended a) then a else
    match a_role a with
    | RAttacker =>
        {| a_name := a_name a; a_role := a_role a; a_steps := a_steps a; a_req := a_req a; a_status := a_status a; a_ended := a_ended a;
           a_view := a_view a; a_reward := (a_reward a + (if status_eqb (a_status a) SSuccess then r_succ cfg else r_fail cfg))%Z;
           a_rewarded := true; a_obs := a_obs a; a_traj := a_traj a |}
    | RDefender =>
        {| a_name := a_name a; a_role := a_role a; a_steps := a_steps a; a_req := a_req a;
           a_status := if successful then SFail else SSuccess; a_ended := a_ended a;
           a_view := a_view a; a_reward := (a_reward a + (if successful then r_fail cfg else r_succ cfg))%Z;
           a_rewarded := true; a_obs := a_obs a; a_traj := a_traj a |}
    | RBenign => a
    end.

  Definition rewards_run (s : state) : option state :=
    if negb (ev_end s) then None
    else if negb (all_ended (agents s)) then Some (set_ev_end s false)
    else
      let successful := existsb (fun x => role_eqb (a_role (snd x)) RAttacker && status_eqb (a_status (snd x)) SSuccess) (agents s) in
      let ags := map (fun x => (fst x, reward_agent successful (snd x))) (agents s) in
      Some (set_handlers (set_ev_end (set_agents s ags) false) (map release_rewards (handlers s))).

  (* _reset_game *)
  Definition reset_one (acc : W * list (addr * agent) * list (N * role * traj)) (x : addr * agent)
    : W * list (addr * agent) * list (N * role * traj) :=
    let '(w, done, fl) := acc in
    let a := snd x in
    let fl' := if save_traj cfg then fl ++ [(a_name a, a_role a, a_traj a)] else fl in
    let '(w', v) := winit w (a_role a) in
    let a' := {| a_name := a_name a; a_role := a_role a; a_steps := 0; a_req := false; a_status := init_status (a_role a);
                 a_ended := false; a_view := v; a_reward := 0%Z; a_rewarded := false; a_obs := (v, 0%Z, false); a_traj := a_traj a |} in
    (w', done ++ [(fst x, a')], fl').

  Definition reset_run (s : state) : option state :=
    if negb (ev_reset s) then None
    else if negb ((match agents s with [] => false | _ => true end) && all_req (agents s)) then Some (set_ev_reset s false)
    else
      let '(w', ags, fl) := fold_left reset_one (agents s) (wreset (world s), [], files s) in
      Some (set_handlers (set_ev_reset (set_files (set_agents (set_world s w') ags) fl) false) (map release_reset (handlers s))).

  (* ---- labels ---------------------------------------------------------------------------------------- *)
  Inductive task := TConn (c : addr) | TDispatch | THandler (id : nat) | TRewards | TReset.
  Inductive label :=
  | LConnect (c : addr)                  (* a new connection: its handler task is created *)
  | LArrive (c : addr) (k : chunk)       (* bytes arrive (at most one unread chunk per connection) *)
  | LEof (c : addr)
  | LReadErr (c : addr)
  | LWriteFail (c : addr)                (* the next write to this connection fails *)
  | LRun (t : task).

  Definition new_conn : conn :=
    {| c_state := CNew; c_inbox := None; c_eof := false; c_rerr := false; c_wfail := false; c_queue := []; c_reqs := 0; c_outs := [] |}.

  Definition exec (s : state) (l : label) : option state :=
    match l with
    | LConnect c =>
        match alookup c (conns s) with
        | Some _ => None                                   (* addresses are fresh *)
        | None => Some (set_conns s (conns s ++ [(c, new_conn)]))
        end
    | LArrive c k =>
        match alookup c (conns s) with
        | Some cn => match c_inbox cn, c_state cn with
                     | None, (CNew | CReading | CAwaiting) =>
                         if c_eof cn then None else Some (set_conns s (aupdate c (fun x => c_set_inbox x (Some k)) (conns s)))
                     | _, _ => None
                     end
        | None => None
        end
    | LEof c =>
        match alookup c (conns s) with
        | Some cn => Some (set_conns s (aupdate c (fun x => {| c_state := c_state x; c_inbox := c_inbox x; c_eof := true; c_rerr := c_rerr x; c_wfail := c_wfail x; c_queue := c_queue x; c_reqs := c_reqs x; c_outs := c_outs x |}) (conns s)))
        | None => None
        end
    | LReadErr c =>
        match alookup c (conns s) with
        | Some cn => Some (set_conns s (aupdate c (fun x => {| c_state := c_state x; c_inbox := c_inbox x; c_eof := c_eof x; c_rerr := true; c_wfail := c_wfail x; c_queue := c_queue x; c_reqs := c_reqs x; c_outs := c_outs x |}) (conns s)))
        | None => None
        end
    | LWriteFail c =>
        match alookup c (conns s) with
        | Some cn => Some (set_conns s (aupdate c (fun x => {| c_state := c_state x; c_inbox := c_inbox x; c_eof := c_eof x; c_rerr := c_rerr x; c_wfail := true; c_queue := c_queue x; c_reqs := c_reqs x; c_outs := c_outs x |}) (conns s)))
        | None => None
        end
    | LRun (TConn c) => conn_run s c
    | LRun TDispatch => dispatch_run s
    | LRun (THandler id) => handler_run s id
    | LRun TRewards => rewards_run s
    | LRun TReset => reset_run s
    end.

  Definition init_state (w : W) : state :=
    {| conns := []; served := 0; aq := []; agents := []; handlers := []; next_hid := 0;
       ev_start := false; ev_end := false; ev_reset := false; world := w; files := [] |}.

  (* run a label sequence; None if some label is not enabled *)
  Fixpoint execs (s : state) (ls : list label) : option state :=
    match ls with
    | [] => Some s
    | l :: tl => match exec s l with Some s' => execs s' tl | None => None end
    end.

  (* no internal label is enabled *)
  Definition quiescent (s : state) : bool :=
    forallb (fun x => negb (conn_runnable (snd x))) (conns s) &&
    (match aq s with [] => true | _ => false end) &&
    forallb (fun h => match h_wake s h with None => true | Some _ => false end) (handlers s) &&
    negb (ev_end s) && negb (ev_reset s).
End Coord.
