"""C19, model part: the scalar getters of utils.ConfigParser against Model/Config.v.

The getter descriptors are regenerated from utils.py on every run (Gen/ConfigDefaults.v); the model `read`
interprets them on a configuration tree.  Here generated configuration trees - well-formed ones and a
malformed stream (sections missing, empty, of the wrong type; values of the wrong type) - go through the real
getters and through `check_read` inside Coq; the observations (value, fallback or the exception that escapes)
must agree."""
import json
import os
import random

import check as CK

ROLES = ["Attacker", "Defender", "Benign"]
REWARD_NAMES = ["step", "success", "fail", "other"]
SWITCHES = {"get_use_dynamic_addresses": "use_dynamic_addresses", "get_store_trajectories": "save_trajectories",
            "get_use_firewall": "use_firewall", "get_use_global_defender": "use_global_defender"}


def coq_str(s):
    assert all(32 <= ord(c) < 127 for c in s), s
    return '"' + s.replace('"', '""') + '"'


def jterm(v):
    """A parsed configuration value (yaml.safe_load / a dict) as a Coq `json` term; None if not representable."""
    if v is None:
        return "JNull"
    if isinstance(v, bool):
        return "(JBool %s)" % ("true" if v else "false")
    if isinstance(v, int):
        return "(JNum (%d)%%Z)" % v
    if isinstance(v, str):
        return "(JStr %s)" % coq_str(v)
    if isinstance(v, list):
        items = [jterm(x) for x in v]
        return None if any(i is None for i in items) else "(JArr [%s])" % "; ".join(items)
    if isinstance(v, dict):
        items = []
        for k, x in v.items():
            t = jterm(x)
            if t is None or not isinstance(k, str):
                return None
            items.append("(%s, %s)" % (coq_str(k), t))
        return "(JObj [%s])" % "; ".join(items)
    return None


def weird(rng):
    return rng.choice([None, True, False, 0, 1, 7, -3, "abc", "", [], [1], {}, {"x": 1}])


def gen_tree(rng):
    """A configuration tree: mostly well-formed, every part independently absent / malformed with some probability."""
    cfg = {}
    c = rng.random()
    if c < 0.75:
        env = {"scenario": "scenario1_small", "random_seed": 42}
        for key in SWITCHES.values():
            r = rng.random()
            if r < 0.45:
                env[key] = rng.random() < 0.5
            elif r < 0.6:
                env[key] = weird(rng)
        r = rng.random()
        if r < 0.5:
            env["required_players"] = rng.choice([1, 2, 3, 5])
        elif r < 0.7:
            env["required_players"] = weird(rng)
        r = rng.random()
        if r < 0.55:
            env["rewards"] = {k: rng.choice([-1, 0, 5, 100, -10]) for k in ("step", "success", "fail") if rng.random() < 0.7}
        elif r < 0.75:
            env["rewards"] = weird(rng)
        cfg["env"] = env
    elif c < 0.9:
        cfg["env"] = weird(rng)
    c = rng.random()
    if c < 0.8:
        agents = {}
        for role in ROLES[:2]:
            r = rng.random()
            if r < 0.7:
                sec = {"goal": {}, "start_position": {}}
                q = rng.random()
                if q < 0.5:
                    sec["max_steps"] = rng.choice([0, 1, 25, 100])
                elif q < 0.75:
                    sec["max_steps"] = weird(rng)
                agents[role] = sec
            elif r < 0.85:
                agents[role] = weird(rng)
        cfg["coordinator"] = {"agents": agents} if rng.random() < 0.9 else {"agents": weird(rng)}
    elif c < 0.9:
        cfg["coordinator"] = weird(rng)
    return cfg


def observe_impl(fn):
    try:
        v = fn()
    except (KeyError, TypeError, ValueError) as e:
        return "inr " + coq_str(type(e).__name__)
    t = jterm(v)
    return None if t is None else "inl " + t


def run(ctx, n):
    from AIDojoCoordinator.utils.utils import ConfigParser
    rng = random.Random(ctx.seed * 977 + 19)
    casedir = os.path.join(CK.BUILD, "cases", "C19m") if hasattr(CK, "BUILD") else None
    lines, metas = [], []
    stats = {"trees": 0, "reads": 0, "raises": 0, "skipped_unrepresentable": 0}
    for _ in range(n):
        tree = gen_tree(rng)
        if not tree:
            continue
        t = jterm(tree)
        if t is None:
            stats["skipped_unrepresentable"] += 1
            continue
        cp = ConfigParser(config_dict=tree)
        stats["trees"] += 1
        reads = [("get_max_steps", role, (lambda role=role: cp.get_max_steps(role))) for role in ROLES]
        reads += [("get_rewards", name, (lambda name=name: cp.get_rewards([name])[name])) for name in REWARD_NAMES]
        reads += [(g, "", getattr(cp, g)) for g in SWITCHES]
        reads += [("get_required_num_players", "", cp.get_required_num_players)]
        for g, arg, fn in reads:
            obs = observe_impl(fn)
            if obs is None:
                stats["skipped_unrepresentable"] += 1
                continue
            stats["reads"] += 1
            if obs.startswith("inr"):
                stats["raises"] += 1
            lines.append(f"check_read gen_config_getters {coq_str(g)} {coq_str(arg)} cfg{len(metas)} ({obs})")
        metas.append((t, tree))
    return lines, metas, stats


def write_cases(casedir, lines, metas, shard=400):
    """One file per shard of reads; the trees are shared definitions."""
    paths = []
    # group reads by tree index so that each file only defines the trees it uses
    by_tree = {}
    for ln in lines:
        i = int(ln.split(" cfg")[1].split(" ")[0])
        by_tree.setdefault(i, []).append(ln)
    cur, cur_defs, count = [], [], 0
    files = []
    for i in sorted(by_tree):
        cur_defs.append(f"Definition cfg{i} : json := {metas[i][0]}.")
        cur.extend((ln, i) for ln in by_tree[i])
        if len(cur) >= shard:
            files.append((cur_defs, cur))
            cur, cur_defs = [], []
    if cur:
        files.append((cur_defs, cur))
    out = []
    for k, (defs, cs) in enumerate(files):
        body = ["From Coq Require Import String ZArith List.", "From NSG Require Import Model.Json Model.Config Gen.ConfigDefaults Model.WorldCases.",
                "Import ListNotations.", "Open Scope string_scope."] + defs + \
               ["Definition cases : list bool := [", ";\n".join(c[0] for c in cs) + ";", "false].",
                "Eval vm_compute in (false_indices 0 cases)."]
        p = os.path.join(casedir, f"c19m_{k}.v")
        with open(p, "w") as f:
            f.write("\n".join(body))
        out.append((p, cs))
    return out
