(* The whole game: the coordinator model (Model/Coord.v) instantiated with the world model (Model/World.v,
   Model/Load.v).  The world component carries the stream of random.choice results used by the initial views.
   No proofs in this file. *)
From stdpp Require Import gmap.
From Coq Require Import ZArith NArith.
From NSG Require Import Model.Coord Model.World Model.Load.

Definition gworld := (world * list (list ip))%type.

Section Game.
  Variable sp : role -> start_pos.       (* the configured start position per role *)

  Definition g_wstep (W : gworld) (v : view) (a : gaction) : gworld * view :=
    ((fst (step (fst W) v a), snd W), snd (step (fst W) v a)).
  Definition g_wreset (W : gworld) : gworld := (reset (fst W), snd W).
  Definition g_winit (W : gworld) (r : role) : gworld * view :=
    ((fst W, tl (snd W)), init_view (fst W) (sp r) (hd [] (snd W))).
End Game.
