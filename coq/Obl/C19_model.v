(* Per-run obligations of C19 on the getter descriptors regenerated from utils.py (Gen/ConfigDefaults.v), read through
   the model of Model/Config.v: every getter falls back on a missing key, and what it falls back to is the documented
   default - for EVERY configuration tree in which the key (or a section on the way to it) is missing. *)
From Coq Require Import String ZArith List Bool.
From NSG Require Import Model.Json Model.Config Proofs.ConfigFacts Gen.ConfigDefaults.
Import ListNotations.
Open Scope string_scope.

Theorem C19_all_catch_KeyError : forallb (fun d : descriptor => str_in "KeyError" (d_excs d)) gen_config_getters = true.
Proof. reflexivity. Qed.

(* the documented defaults, as values *)
Definition documented_default (getter : string) : json :=
  if String.eqb getter "get_max_steps" then JNull                      (* no step limit *)
  else if String.eqb getter "get_rewards" then JNum 0
  else if String.eqb getter "get_required_num_players" then JNum 1
  else JBool false.                                                    (* every switch off *)

Theorem C19_fallbacks_are_documented :
  forallb (fun d : descriptor => json_eqb (Config.post (d_ret d) (literal (d_default d))) (documented_default (d_name d)))
          gen_config_getters = true.
Proof. reflexivity. Qed.

(* for every getter of the source, every argument and EVERY configuration: if a key of its path is missing from the
   section it belongs to, the getter returns the documented default *)
Theorem C19_absent_gives_documented_default :
  forall d, In d gen_config_getters -> forall arg cfg pre k post o,
    map (subst arg) (d_path d) = (pre ++ k :: post)%list -> subscript cfg pre = inl (JObj o) -> jget k o = None ->
    exists v, read d arg cfg = ODefault v /\ json_eqb v (documented_default (d_name d)) = true.
Proof.
  intros d Hin arg cfg pre k post o Hpath Hp Hk.
  pose proof C19_all_catch_KeyError as Hc. rewrite forallb_forall in Hc.
  pose proof C19_fallbacks_are_documented as Hd. rewrite forallb_forall in Hd.
  eexists. split; [eapply read_absent_default; eauto|]. apply Hd, Hin.
Qed.

(* and a configured value is what the game uses: integers for the `int` getters, the value itself for the others
   (the three switches through bool()) *)
Theorem C19_configured_int :
  forall d, In d gen_config_getters -> d_conv d = "int" -> forall arg cfg z,
    subscript cfg (map (subst arg) (d_path d)) = inl (JNum z) -> read d arg cfg = OVal (JNum z).
Proof.
  intros d Hin Hc arg cfg z Hs. apply read_configured_int; [exact Hc| |exact Hs].
  revert Hc. simpl in Hin. repeat (destruct Hin as [<-|Hin]; [intros Hc; try discriminate Hc; reflexivity|]). destruct Hin.
Qed.
