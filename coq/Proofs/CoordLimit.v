(* C04: the step limit.  In every reachable state an agent whose role has a step limit m > 0 has taken at most m
   steps, and fewer than m while its episode is running: the episode ends, at the latest, with the m-th action.
   Also: where the agents of a state come from (backward form of agent_step). *)
From Coq Require Import ZArith NArith List Bool Arith Lia.
From NSG Require Import Model.Coord Proofs.CoordBase Proofs.CoordInv Proofs.CoordInvConn Proofs.CoordInvDispatch
  Proofs.CoordInvHandler Proofs.CoordDirect Proofs.CoordInv2 Proofs.CoordIsolation.
From NSG Require Import Proofs.CoordAgentStep.
Import ListNotations.

Section Limit.
  Context {V W G : Type}.
  Variable wstep : W -> V -> G -> W * V.
  Variable wreset : W -> W.
  Variable winit : W -> role -> W * V.
  Variable goal : role -> V -> bool.
  Variable detect : list G -> G -> bool.
  Variable cfg : config.

  Notation state := (@state V W G).
  Notation handler := (@handler V G).
  Notation agent := (@agent V G).
  Notation label := (@label G).
  Notation Inv2 := (@Inv2 V W G).
  Notation exec := (@exec V W G wstep wreset winit goal detect cfg).
  Notation execs := (@execs V W G wstep wreset winit goal detect cfg).
  Notation h_start := (@h_start V W G wstep winit goal detect cfg).
  Notation h_wake := (@h_wake V W G wstep winit goal detect cfg).
  Notation achange := (@achange V G goal detect cfg).

  (* an address without an agent gets one only by a successful join: a fresh record *)
  Lemma h_start_new (s : state) id c0 m a' :
    alookup c0 (agents s) = None -> alookup c0 (agents (h_start s id c0 m)) = Some a' ->
    exists name r v, a' = new_agent name r v.
  Proof.
    intros Hn. destruct m as [|info| |want|act valid]; unfold Coord.h_start.
    - simpl. congruence.
    - rewrite Hn. destruct info as [[name [r|]]|]; try (simpl; congruence).
      destruct (negb (allowed cfg r)); [simpl; congruence|].
      destruct (winit (world s) r) as [w' v]. cbv zeta.
      assert (Hl : alookup c0 (agents s ++ [(c0, new_agent name r v)]) = Some (new_agent name r v)).
      { rewrite alookup_app, Hn. simpl. rewrite N.eqb_refl. reflexivity. }
      assert (Hgoal : forall s' : state, agents s' = agents s ++ [(c0, new_agent name r v)] -> alookup c0 (agents s') = Some a' ->
                exists name r v, a' = new_agent name r v).
      { intros s' E H. rewrite E, Hl in H. injection H as <-. eauto. }
      destruct (Nat.eqb _ _); [apply Hgoal; reflexivity|]. destruct (ev_start _); apply Hgoal; reflexivity.
    - simpl. unfold remove_agent. rewrite Hn. simpl. congruence.
    - rewrite Hn. simpl. congruence.
    - rewrite Hn. simpl. congruence.
  Qed.

  Lemma game_finish_none (s : state) id c0 act v' c : alookup c (agents s) = None ->
    alookup c (agents (@game_finish V W G s id c0 act v')) = None.
  Proof.
    intros Hn. unfold game_finish. destruct (alookup c0 (agents s)) eqn:E; [|exact Hn]. simpl.
    destruct (N.eq_dec c0 c) as [->|Hne]; [congruence|]. rewrite alookup_aupdate_ne by exact Hne. exact Hn.
  Qed.
  Lemma reset_finish_none (s : state) id c0 want c : alookup c (agents s) = None ->
    alookup c (agents (@reset_finish V W G s id c0 want)) = None.
  Proof.
    intros Hn. unfold reset_finish. destruct (alookup c0 (agents s)) eqn:E; [|exact Hn]. simpl.
    destruct (N.eq_dec c0 c) as [->|Hne]; [congruence|]. rewrite alookup_aupdate_ne by exact Hne. exact Hn.
  Qed.

  Theorem agent_new (s s' : state) l c a' :
    Inv2 s -> exec s l = Some s' -> alookup c (agents s) = None -> alookup c (agents s') = Some a' ->
    exists name r v, a' = new_agent name r v.
  Proof.
    intros [Hi Hj] He Hn Ha'.
    assert (Hsame : forall s1 : state, agents s1 = agents s -> alookup c (agents s1) = Some a' -> exists name r v, a' = new_agent name r v).
    { intros s1 E H. rewrite E, Hn in H. discriminate. }
    destruct l as [k|k ch|k|k|k|t]; cbn [Coord.exec] in He.
    - destruct (alookup k (conns s)); [discriminate|]. injection He as <-. eapply Hsame; eauto.
    - destruct (alookup k (conns s)) as [cn|]; [|discriminate]. destruct (c_inbox cn); [discriminate|].
      destruct (c_state cn); try discriminate; (destruct (c_eof cn); [discriminate|]; injection He as <-; eapply Hsame; eauto).
    - destruct (alookup k (conns s)); [|discriminate]. injection He as <-. eapply Hsame; eauto.
    - destruct (alookup k (conns s)); [|discriminate]. injection He as <-. eapply Hsame; eauto.
    - destruct (alookup k (conns s)); [|discriminate]. injection He as <-. eapply Hsame; eauto.
    - destruct t as [k| |id| |].
      + assert (Hcr : forall (t : state) cn, agents (conn_read t k cn) = agents t).
        { intros t cn. unfold conn_read, leave, cleanup. destruct (c_rerr cn); [reflexivity|].
          destruct (c_inbox cn) as [[m|]|]; try reflexivity. destruct (c_eof cn); reflexivity. }
        unfold conn_run in He. destruct (alookup k (conns s)) as [cn|]; [|discriminate].
        destruct (negb (conn_runnable cn)); [discriminate|].
        destruct (c_state cn).
        * destruct (Nat.leb (required cfg) (served s)); injection He as <-; (eapply Hsame; [|exact Ha']); [reflexivity | rewrite Hcr; reflexivity].
        * injection He as <-. eapply Hsame; [|exact Ha']. rewrite Hcr. reflexivity.
        * destruct (c_queue cn) as [|[r|] q']; [discriminate| |].
          -- destruct (c_wfail cn); injection He as <-; (eapply Hsame; [|exact Ha']); [reflexivity | rewrite Hcr; reflexivity].
          -- injection He as <-. eapply Hsame; [|exact Ha']. reflexivity.
        * discriminate.
      + unfold dispatch_run in He. destruct (aq s) as [|x q]; [discriminate|]. injection He as <-.
        assert (Hd : forall q (t : state), agents (fold_left dispatch1 q t) = agents t).
        { induction q0 as [|[k m] tl IH]; intros t; [reflexivity|]. cbn [fold_left]. rewrite IH. destruct m; reflexivity. }
        eapply Hsame; [|exact Ha']. change (agents (fold_left dispatch1 (x :: q) (set_aq s [])) = agents s). rewrite Hd. reflexivity.
      + unfold handler_run in He. destruct (find (fun h => Nat.eqb (h_id h) id) (handlers s)) as [h|] eqn:Hf; [|discriminate].
        destruct (N.eq_dec c (h_addr h)) as [->|Hne2];
          [|rewrite (h_wake_others wstep winit goal detect cfg s s' h c Hne2 He), Hn in Ha'; discriminate].
        unfold Coord.h_wake in He. destruct (h_pc h) as [m|rel v|rel act v'|rel want|rel want].
        * injection He as <-. eapply h_start_new; eauto.
        * destruct rel; [|discriminate]. injection He as <-. eapply Hsame; [|exact Ha']. reflexivity.
        * destruct rel; [|discriminate]. injection He as <-. rewrite game_finish_none in Ha' by exact Hn. discriminate.
        * destruct rel; [|discriminate]. destruct (ev_start s); injection He as <-;
            [rewrite reset_finish_none in Ha' by exact Hn; discriminate | eapply Hsame; [|exact Ha']; reflexivity].
        * destruct rel; [|discriminate]. injection He as <-. rewrite reset_finish_none in Ha' by exact Hn. discriminate.
      + unfold rewards_run in He. destruct (negb (ev_end s)); [discriminate|].
        destruct (negb (all_ended (agents s))); injection He as <-; [eapply Hsame; [|exact Ha']; reflexivity|].
        simpl in Ha'. rewrite alookup_map_snd, Hn in Ha'. discriminate.
      + unfold reset_run in He. destruct (negb (ev_reset s)); [discriminate|].
        destruct (negb _); [injection He as <-; eapply Hsame; [|exact Ha']; reflexivity|].
        pose proof (reset_fold_keys winit cfg (agents s) (wreset (world s)) [] (files s)) as Hk.
        destruct (fold_left _ (agents s) (wreset (world s), [], files s)) as [[w' ags] fl]. injection He as <-. simpl in Ha', Hk.
        exfalso. assert (Hin : alookup c ags <> None) by congruence. apply alookup_some_iff_in in Hin. rewrite Hk in Hin.
        apply alookup_some_iff_in in Hin. congruence.
  Qed.

  (* where the agents of the next state come from *)
  Theorem agent_origin (s s' : state) l c a' :
    Inv2 s -> exec s l = Some s' -> alookup c (agents s') = Some a' ->
    (exists a, alookup c (agents s) = Some a /\ achange a l a') \/
    (alookup c (agents s) = None /\ exists name r v, a' = new_agent name r v).
  Proof.
    intros Hi He Ha'. destruct (alookup c (agents s)) as [a|] eqn:Ha.
    - left. exists a. split; [reflexivity|].
      destruct (agent_step wstep wreset winit goal detect cfg s s' l c a Hi He Ha) as [Hn|(a1 & H1 & Hc)]; [congruence|].
      rewrite H1 in Ha'. injection Ha' as <-. exact Hc.
    - right. split; [reflexivity|]. eapply agent_new; eauto.
  Qed.

  (* ---- the step limit ---- *)
  Definition within_limit (a : agent) : Prop :=
    forall m, max_steps cfg (a_role a) = Some m -> 0 < m -> a_steps a <= m /\ (a_ended a = false -> a_steps a < m).
  Definition Lim (s : state) : Prop := forall c a, alookup c (agents s) = Some a -> within_limit a.

  Lemma not_terminal_not_timeout (a : agent) v' act :
    terminal (next_status goal detect cfg a v' act) = false -> is_timeout cfg a = false.
  Proof.
    unfold next_status. destruct (goal (a_role a) v'); [discriminate|]. destruct (detect _ act); [discriminate|].
    destruct (is_timeout cfg a); [discriminate | reflexivity].
  Qed.

  Lemma achange_limit (a a' : agent) l : achange a l a' -> within_limit a -> within_limit a'.
  Proof.
    intros Hc Hw. destruct Hc; try exact Hw.
    - (* final step *) intros m Hm Hpos. cbn [a_role a_steps a_ended step_rec] in *. destruct (Hw m Hm Hpos) as [_ Hlt].
      specialize (Hlt H). split; [lia | discriminate].
    - (* non-final step: the status rule did not time out *)
      intros m Hm Hpos. cbn [a_role a_steps a_ended step_rec finish_rec a_set_obs a_set_traj] in *.
      destruct (Hw m Hm Hpos) as [_ Hlt]. specialize (Hlt H).
      subst st. apply not_terminal_not_timeout in H3. unfold is_timeout in H3. cbn [bump a_role a_steps] in H3. rewrite Hm in H3.
      apply andb_false_iff in H3 as [H3|H3]; [apply Nat.ltb_ge in H3; lia|]. apply Nat.leb_gt in H3. split; [lia | intros _; lia].
    - (* reward task: role, counter and end flag unchanged *)
      intros m Hm Hpos. unfold reward_agent in *. destruct (a_rewarded a || negb (a_ended a)); [exact (Hw m Hm Hpos)|].
      destruct (a_role a) eqn:Er; cbn [a_role a_steps a_ended] in *; try (rewrite Er in Hm); exact (Hw m Hm Hpos) || (apply (Hw m); [rewrite Er; exact Hm | exact Hpos]).
    - (* reset *) intros m Hm Hpos. cbn [a_role a_steps a_ended fresh_rec] in *. split; [lia | intros _; exact Hpos].
  Qed.

  Theorem Lim_exec (s s' : state) l : Inv2 s -> Lim s -> exec s l = Some s' -> Lim s'.
  Proof.
    intros Hi Hl He c a' Ha'. destruct (agent_origin s s' l c a' Hi He Ha') as [(a & Ha & Hc)|(_ & name & r & v & ->)].
    - eapply achange_limit; eauto.
    - intros m Hm Hpos. simpl. split; [lia | intros _; exact Hpos].
  Qed.

  Theorem Lim_reachable w ls (s : state) : execs (init_state w) ls = Some s -> Lim s.
  Proof.
    assert (H0 : Inv2 (@init_state V W G w) /\ Lim (init_state w)) by (split; [apply inv2_init | intros c a H; discriminate]).
    revert H0. generalize (@init_state V W G w). induction ls as [|l tl IH]; intros s0 [Hi Hl]; simpl; [intros [= <-]; exact Hl|].
    destruct (exec s0 l) as [s1|] eqn:E; [|discriminate]. apply IH. split; [eapply inv2_exec; eauto | eapply Lim_exec; eauto].
  Qed.

  (* the statement of the property: with a step limit m > 0 no agent ever has more than m steps in an episode, and an
     agent that has used up its m steps has ended *)
  Theorem step_limit_reachable w ls (s : state) c a m :
    execs (init_state w) ls = Some s -> alookup c (agents s) = Some a -> max_steps cfg (a_role a) = Some m -> 0 < m ->
    a_steps a <= m /\ (a_steps a = m -> a_ended a = true).
  Proof.
    intros He Ha Hm Hpos. destruct (Lim_reachable w ls s He c a Ha m Hm Hpos) as [H1 H2]. split; [exact H1|].
    intros E. destruct (a_ended a); [reflexivity|]. specialize (H2 eq_refl). lia.
  Qed.
End Limit.
