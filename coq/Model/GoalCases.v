(* Support for the goal-check correspondence: goals and views written by the harness as association lists. *)
From stdpp Require Import gmap.
From Coq Require Import ZArith NArith.
From NSG Require Import Model.World Model.Load Model.Remap Model.WorldCases Model.Goal.

Definition mk_goal (nets : list net) (hosts ctrl : list ip) (svcs : list (ip * list svc)) (dt : list (ip * list data))
           (blocks : list (ip * list ip)) : goal :=
  {| g_nets := list_to_set nets; g_hosts := list_to_set hosts; g_ctrl := list_to_set ctrl;
     g_svcs := mk_map svcs; g_data := mk_map dt; g_blocks := mk_map blocks |}.

Definition check_goal (g : goal) (v : view) (expected : bool) : bool := Bool.eqb (goal_ok g v) expected.
