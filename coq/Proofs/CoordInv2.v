(* The episode-level invariant of the coordinator model, on top of the structural one:
   a rewarded agent has finished; a handler waiting at the rewards barrier belongs to a finished agent
   whose stored view is the view the handler will report and who has no pending reset request; a pending
   reset request always has its handler; trajectories have one more state than actions. *)
From Coq Require Import ZArith NArith List Bool Arith Lia.
From NSG Require Import Model.Coord Proofs.CoordBase Proofs.CoordInv Proofs.CoordInvConn Proofs.CoordInvDispatch Proofs.CoordInvHandler Proofs.CoordDirect.
Import ListNotations.

Section Inv2.
  Context {V W G : Type}.
  Variable wstep : W -> V -> G -> W * V.
  Variable wreset : W -> W.
  Variable winit : W -> role -> W * V.
  Variable goal : role -> V -> bool.
  Variable detect : list G -> G -> bool.
  Variable cfg : config.

  Notation state := (@state V W G).
  Notation handler := (@handler V G).
  Notation agent := (@agent V G).
  Notation msg := (@msg G).
  Notation Inv := (@Inv V W G).
  Notation exec := (@exec V W G wstep wreset winit goal detect cfg).
  Notation execs := (@execs V W G wstep wreset winit goal detect cfg).
  Notation h_start := (@h_start V W G wstep winit goal detect cfg).
  Notation h_wake := (@h_wake V W G wstep winit goal detect cfg).

  Definition traj_wf (t : @traj V G) : Prop :=
    length (t_states t) = S (length (t_actions t)) /\ length (t_rewards t) = length (t_actions t).

  Definition waiting_reset (h : handler) : Prop := exists t, h_pc h = PResetDone false t.

  Record J (ags : list (addr * agent)) (hs : list handler) : Prop := {
    J_rewarded : forall c a, alookup c ags = Some a -> a_rewarded a = true -> a_ended a = true;
    J_parked : forall h rel act v', In h hs -> h_pc h = PRewards rel act v' ->
               exists a, alookup (h_addr h) ags = Some a /\ a_ended a = true /\ a_view a = v' /\ a_req a = false;
    J_req : forall c a, alookup c ags = Some a -> a_req a = true -> exists h, In h hs /\ h_addr h = c /\ waiting_reset h;
    J_traj : forall c a, alookup c ags = Some a -> traj_wf (a_traj a);
  }.

  Definition Inv2 (s : state) : Prop := Inv s /\ J (agents s) (handlers s).

  Lemma inv2_init w : Inv2 (init_state w).
  Proof.
    split; [apply inv_init|]. constructor; simpl; intros; try discriminate; contradiction.
  Qed.

  (* ---- closure lemmas on the handler list ---- *)

  (* handlers are only added (fresh, not yet started) *)
  Lemma J_add_spawned ags hs (h : handler) m : J ags hs -> h_pc h = PSpawned m -> J ags (hs ++ [h]).
  Proof.
    intros [J1 J2 J3 J4] Hp. constructor; try assumption.
    - intros h0 rel act v' Hin Hpc. apply in_app_or in Hin as [Hin|[<-|[]]]; [eapply J2; eauto | congruence].
    - intros c a Ha Hr. destruct (J3 c a Ha Hr) as (h0 & Hin & Hc & Hw). exists h0. split; [apply in_or_app; left; exact Hin | auto].
  Qed.

  (* a handler that is not waiting for the reset is removed *)
  Lemma J_remove ags hs id :
    J ags hs -> (forall h, In h hs -> h_id h = id -> ~ waiting_reset h) ->
    J ags (filter (fun h => negb (Nat.eqb (h_id h) id)) hs).
  Proof.
    intros [J1 J2 J3 J4] Hn. constructor; try assumption.
    - intros h rel act v' Hin Hpc. apply in_remove_handler in Hin as [Hin _]. eapply J2; eauto.
    - intros c a Ha Hr. destruct (J3 c a Ha Hr) as (h0 & Hin & Hc & Hw). exists h0. split; [|auto].
      apply in_remove_handler. split; [exact Hin|]. intros Hid. apply (Hn h0 Hin Hid Hw).
  Qed.

  (* the wait state of handlers changes only in the `released` flag of waits other than the reset wait *)
  Definition same_wait (h h' : handler) : Prop :=
    h_id h' = h_id h /\ h_addr h' = h_addr h /\
    (forall rel act v, h_pc h' = PRewards rel act v -> exists rel0, h_pc h = PRewards rel0 act v) /\
    (waiting_reset h -> waiting_reset h').

  Lemma J_map ags hs (f : handler -> handler) : J ags hs -> (forall h, same_wait h (f h)) -> J ags (map f hs).
  Proof.
    intros [J1 J2 J3 J4] Hf. constructor; try assumption.
    - intros h' rel act v' Hin Hpc. apply in_map_iff in Hin as (h & <- & Hin).
      destruct (Hf h) as (_ & Ha & Hr & _). destruct (Hr rel act v' Hpc) as (rel0 & Hpc0).
      rewrite Ha. eapply J2; eauto.
    - intros c a Ha Hr. destruct (J3 c a Ha Hr) as (h0 & Hin & Hc & Hw). exists (f h0).
      destruct (Hf h0) as (_ & Hadr & _ & Hwr). split; [apply in_map, Hin|]. split; [congruence | apply Hwr, Hw].
  Qed.

  Lemma same_wait_release_start h : same_wait h (release_start h).
  Proof.
    destruct h as [i a pc]. unfold release_start, same_wait, waiting_reset. simpl.
    destruct pc; simpl; repeat split; try (intros; discriminate); eauto.
    all: try (intros rel0 act0 v0 [= <- <- <-]; eauto).
    all: try (intros [t [= ]]); eauto.
  Qed.
  Lemma same_wait_release_rewards h : same_wait h (release_rewards h).
  Proof.
    destruct h as [i a pc]. unfold release_rewards, same_wait, waiting_reset. simpl.
    destruct pc; simpl; repeat split; try (intros; discriminate); eauto.
    all: try (intros rel0 act0 v0 [= <- <- <-]; eauto).
    all: try (intros [t [= ]]); eauto.
  Qed.

  (* ---- closure lemmas on the agent table ---- *)
  Definition agent_ok_update (a a' : agent) : Prop :=
    a_rewarded a' = a_rewarded a /\ a_ended a' = a_ended a /\ a_view a' = a_view a /\ a_req a' = a_req a /\ traj_wf (a_traj a').

  Lemma J_update_agent ags hs c (f : agent -> agent) :
    J ags hs -> (forall a, alookup c ags = Some a -> agent_ok_update a (f a)) -> J (aupdate c f ags) hs.
  Proof.
    intros [J1 J2 J3 J4] Hf. constructor.
    - intros c' a' Ha Hr. destruct (N.eq_dec c c') as [<-|Hne].
      + rewrite alookup_aupdate_eq in Ha. destruct (alookup c ags) as [a|] eqn:E; [|discriminate]. injection Ha as <-.
        destruct (Hf a eq_refl) as (H1 & H2 & _). rewrite H2. apply (J1 c a E). congruence.
      + rewrite alookup_aupdate_ne in Ha by exact Hne. eapply J1; eauto.
    - intros h rel act v' Hin Hpc. destruct (J2 h rel act v' Hin Hpc) as (a & Ha & He & Hv & Hq).
      destruct (N.eq_dec c (h_addr h)) as [E|Hne].
      + rewrite <- E in *. exists (f a). rewrite alookup_aupdate_eq, Ha. destruct (Hf a Ha) as (H1 & H2 & H3 & H4 & _). repeat split; congruence.
      + exists a. rewrite alookup_aupdate_ne by exact Hne. auto.
    - intros c' a' Ha Hr. destruct (N.eq_dec c c') as [<-|Hne].
      + rewrite alookup_aupdate_eq in Ha. destruct (alookup c ags) as [a|] eqn:E; [|discriminate]. injection Ha as <-.
        destruct (Hf a eq_refl) as (_ & _ & _ & H4 & _). apply (J3 c a E). congruence.
      + rewrite alookup_aupdate_ne in Ha by exact Hne. eapply J3; eauto.
    - intros c' a' Ha. destruct (N.eq_dec c c') as [<-|Hne].
      + rewrite alookup_aupdate_eq in Ha. destruct (alookup c ags) as [a|] eqn:E; [|discriminate]. injection Ha as <-.
        apply (Hf a eq_refl).
      + rewrite alookup_aupdate_ne in Ha by exact Hne. eapply J4; eauto.
  Qed.

  Lemma traj_wf_start v : traj_wf (@traj_start V G v).
  Proof. split; reflexivity. Qed.
  Lemma traj_wf_add (t : @traj V G) a r v : traj_wf t -> traj_wf (traj_add t a r v).
  Proof. intros [H1 H2]. unfold traj_wf, traj_add. simpl. rewrite !app_length. simpl. lia. Qed.

  (* all handlers of one address: the handler itself, or QuitGame handlers of a closed connection *)
  Lemma handlers_of_addr (s : state) h h' :
    Inv s -> In h (handlers s) -> In h' (handlers s) -> h_addr h' = h_addr h ->
    h' = h \/ (spawned_msg h' = Some MQuit /\ spawned_msg h = Some MQuit).
  Proof.
    intros Hi Hin Hin' Ha. destruct (handler_conn s h Hi Hin) as (cn & Hl & [(Hst & _ & Hone & _)|(Hst & Hsp)]).
    - left. eapply nh1_unique; eauto.
    - right. split; [|exact Hsp]. pose proof (I_tok s Hi _ cn Hl) as Ht. rewrite Hst in Ht. destruct Ht as (_ & _ & Hh).
      apply Hh; assumption.
  Qed.

  Lemma not_waiting_spawned (h : handler) m : h_pc h = PSpawned m -> ~ waiting_reset h.
  Proof. intros Hp [t Ht]. congruence. Qed.

  (* replacing the wait state of one handler *)
  Definition repl (id : nat) (pc : @hpc V G) (x : handler) : handler :=
    if Nat.eqb (h_id x) id then {| h_id := id; h_addr := h_addr x; h_pc := pc |} else x.

  Lemma J_park ags hs h pc :
    J ags hs -> NoDup (map h_id hs) -> In h hs -> ~ waiting_reset h ->
    (forall rel act v, pc = PRewards rel act v ->
       exists a, alookup (h_addr h) ags = Some a /\ a_ended a = true /\ a_view a = v /\ a_req a = false) ->
    J ags (map (repl (h_id h) pc) hs).
  Proof.
    intros [J1 J2 J3 J4] Hnd Hin Hnw Hpc. constructor; try assumption.
    - intros h' rel act v' Hin' Hp'. apply in_map_iff in Hin' as (x & <- & Hx). unfold repl in *.
      destruct (Nat.eqb (h_id x) (h_id h)) eqn:E.
      + apply Nat.eqb_eq in E. assert (x = h) by (eapply handler_unique; eauto). subst x. simpl in *. eapply Hpc; eauto.
      + eapply J2; eauto.
    - intros c a Ha Hr. destruct (J3 c a Ha Hr) as (h0 & Hin0 & Hc & Hw). exists h0. split; [|auto].
      apply in_map_iff. exists h0. split; [|exact Hin0]. unfold repl.
      destruct (Nat.eqb (h_id h0) (h_id h)) eqn:E; [|reflexivity].
      apply Nat.eqb_eq in E. assert (h0 = h) by (eapply handler_unique; eauto). subst h0. contradiction.
  Qed.

  Lemma park_eq (s : state) id pc : handlers (park s id pc) = map (repl id pc) (handlers s) /\ agents (park s id pc) = agents s.
  Proof. split; reflexivity. Qed.

  (* a new agent joins *)
  Lemma J_join ags hs c name r v :
    J ags hs -> alookup c ags = None -> J (ags ++ [(c, @new_agent V G name r v)]) hs.
  Proof.
    intros [J1 J2 J3 J4] Hn.
    assert (Hl : forall k a, alookup k (ags ++ [(c, new_agent name r v)]) = Some a ->
                 alookup k ags = Some a \/ (alookup k ags = None /\ k = c /\ a = new_agent name r v)).
    { intros k a. rewrite alookup_app. destruct (alookup k ags) eqn:E; [intros [= <-]; auto|].
      simpl. destruct (N.eqb k c) eqn:Ek; [|discriminate]. apply N.eqb_eq in Ek. intros [= <-]. auto. }
    constructor.
    - intros k a Ha Hr. destruct (Hl k a Ha) as [H|(_ & _ & ->)]; [eapply J1; eauto | discriminate].
    - intros h rel act v' Hin Hp. destruct (J2 h rel act v' Hin Hp) as (a & Ha & Hrest). exists a.
      rewrite alookup_app, Ha. auto.
    - intros k a Ha Hr. destruct (Hl k a Ha) as [H|(_ & _ & ->)]; [eapply J3; eauto | discriminate].
    - intros k a Ha. destruct (Hl k a Ha) as [H|(_ & _ & ->)]; [eapply J4; eauto | apply traj_wf_start].
  Qed.

  (* an agent is removed: none of its handlers waits *)
  Lemma J_leave ags hs c :
    J ags hs -> NoDup (map fst ags) ->
    (forall h, In h hs -> h_addr h = c -> exists m, h_pc h = PSpawned m) -> J (aremove c ags) hs.
  Proof.
    intros [J1 J2 J3 J4] Hnd Hsp.
    assert (Hl : forall k a, alookup k (aremove c ags) = Some a -> k <> c /\ alookup k ags = Some a).
    { intros k a Ha. destruct (N.eq_dec c k) as [<-|Hne]; [rewrite alookup_aremove_eq in Ha by exact Hnd; discriminate|].
      rewrite alookup_aremove_ne in Ha by exact Hne. split; [congruence | exact Ha]. }
    constructor.
    - intros k a Ha Hr. destruct (Hl k a Ha) as [_ H]. eapply J1; eauto.
    - intros h rel act v' Hin Hp. destruct (J2 h rel act v' Hin Hp) as (a & Ha & Hrest). exists a. split; [|exact Hrest].
      rewrite alookup_aremove_ne; [exact Ha|]. intros Hc. destruct (Hsp h Hin (eq_sym Hc)) as [m Hm]. congruence.
    - intros k a Ha Hr. destruct (Hl k a Ha) as [_ H]. eapply J3; eauto.
    - intros k a Ha. destruct (Hl k a Ha) as [_ H]. eapply J4; eauto.
  Qed.

  (* an agent asks for a reset: its handler waits for it *)
  Lemma J_set_req ags hs c :
    J ags hs -> (exists h, In h hs /\ h_addr h = c /\ waiting_reset h) ->
    (forall h rel act v, In h hs -> h_addr h = c -> h_pc h <> PRewards rel act v) ->
    J (aupdate c (fun a => a_set_req a true) ags) hs.
  Proof.
    intros [J1 J2 J3 J4] Hw Hno. constructor.
    - intros k a' Ha Hr. destruct (N.eq_dec c k) as [<-|Hne].
      + rewrite alookup_aupdate_eq in Ha. destruct (alookup c ags) as [a|] eqn:E; [|discriminate]. injection Ha as <-.
        simpl in *. eapply J1; eauto.
      + rewrite alookup_aupdate_ne in Ha by exact Hne. eapply J1; eauto.
    - intros h rel act v' Hin Hp. destruct (J2 h rel act v' Hin Hp) as (a & Ha & Hrest). exists a. split; [|exact Hrest].
      rewrite alookup_aupdate_ne; [exact Ha|]. intros Hc. apply (Hno h rel act v' Hin (eq_sym Hc) Hp).
    - intros k a' Ha Hr. destruct (N.eq_dec c k) as [<-|Hne]; [exact Hw|].
      rewrite alookup_aupdate_ne in Ha by exact Hne. eapply J3; eauto.
    - intros k a' Ha. destruct (N.eq_dec c k) as [<-|Hne].
      + rewrite alookup_aupdate_eq in Ha. destruct (alookup c ags) as [a|] eqn:E; [|discriminate]. injection Ha as <-.
        simpl. eapply J4; eauto.
      + rewrite alookup_aupdate_ne in Ha by exact Hne. eapply J4; eauto.
  Qed.

  (* the record of a playing agent is replaced after its action: no handler of it waits at the rewards barrier *)
  Lemma J_step_agent ags hs c a a2 :
    J ags hs -> alookup c ags = Some a -> a_ended a = false ->
    a_rewarded a2 = a_rewarded a -> a_req a2 = a_req a -> a_traj a2 = a_traj a ->
    (forall h rel act v, In h hs -> h_addr h = c -> h_pc h <> PRewards rel act v) ->
    J (aupdate c (fun _ => a2) ags) hs.
  Proof.
    intros [J1 J2 J3 J4] Ha He Hr Hq Ht Hno.
    assert (Hnr : a_rewarded a = false).
    { destruct (a_rewarded a) eqn:E; [|reflexivity]. rewrite (J1 c a Ha E) in He. discriminate. }
    constructor.
    - intros k a' Hk Hrw. destruct (N.eq_dec c k) as [<-|Hne].
      + rewrite alookup_aupdate_eq, Ha in Hk. injection Hk as <-. congruence.
      + rewrite alookup_aupdate_ne in Hk by exact Hne. eapply J1; eauto.
    - intros h rel act v' Hin Hp. destruct (J2 h rel act v' Hin Hp) as (a0 & Ha0 & Hrest). exists a0. split; [|exact Hrest].
      rewrite alookup_aupdate_ne; [exact Ha0|]. intros Hc. apply (Hno h rel act v' Hin (eq_sym Hc) Hp).
    - intros k a' Hk Hrq. destruct (N.eq_dec c k) as [<-|Hne].
      + rewrite alookup_aupdate_eq, Ha in Hk. injection Hk as <-. apply (J3 c a Ha). congruence.
      + rewrite alookup_aupdate_ne in Hk by exact Hne. eapply J3; eauto.
    - intros k a' Hk. destruct (N.eq_dec c k) as [<-|Hne].
      + rewrite alookup_aupdate_eq, Ha in Hk. injection Hk as <-. rewrite Ht. eapply J4; eauto.
      + rewrite alookup_aupdate_ne in Hk by exact Hne. eapply J4; eauto.
  Qed.
End Inv2.

Section Inv2Steps.
  Context {V W G : Type}.
  Variable wstep : W -> V -> G -> W * V.
  Variable wreset : W -> W.
  Variable winit : W -> role -> W * V.
  Variable goal : role -> V -> bool.
  Variable detect : list G -> G -> bool.
  Variable cfg : config.

  Notation state := (@state V W G).
  Notation handler := (@handler V G).
  Notation agent := (@agent V G).
  Notation msg := (@msg G).
  Notation Inv := (@Inv V W G).
  Notation Inv2 := (@Inv2 V W G).
  Notation J := (@J V G).
  Notation exec := (@exec V W G wstep wreset winit goal detect cfg).
  Notation execs := (@execs V W G wstep wreset winit goal detect cfg).
  Notation h_start := (@h_start V W G wstep winit goal detect cfg).
  Notation h_wake := (@h_wake V W G wstep winit goal detect cfg).

  (* J only looks at agents and handlers *)
  Lemma J_ext (s s' : state) : agents s' = agents s -> handlers s' = handlers s -> J (agents s) (handlers s) -> J (agents s') (handlers s').
  Proof. intros -> ->. auto. Qed.

  (* finishing a handler that does not wait for the reset *)
  Lemma J_finish (s : state) h (item : @qitem V G) :
    Inv s -> J (agents s) (handlers s) -> In h (handlers s) -> ~ waiting_reset h ->
    J (agents (put (remove_handler s (h_id h)) (h_addr h) item)) (handlers (put (remove_handler s (h_id h)) (h_addr h) item)).
  Proof.
    intros Hi Hj Hin Hnw. simpl. apply J_remove; [exact Hj|].
    intros h' Hin' Hid. assert (h' = h) by (eapply handler_unique; eauto; apply (I_ids s Hi)). subst. exact Hnw.
  Qed.

  Lemma no_rewards_handler_for (s : state) h : Inv s -> In h (handlers s) -> (forall rel act v, h_pc h <> PRewards rel act v) ->
    forall h' rel act v, In h' (handlers s) -> h_addr h' = h_addr h -> h_pc h' <> PRewards rel act v.
  Proof.
    intros Hi Hin Hno h' rel act v Hin' Ha. destruct (handlers_of_addr s h h' Hi Hin Hin' Ha) as [->|[Hq _]]; [apply Hno|].
    unfold spawned_msg in Hq. destruct (h_pc h'); congruence.
  Qed.

  Lemma no_waiting_other (s : state) h : Inv s -> In h (handlers s) -> ~ waiting_reset h ->
    forall h', In h' (handlers s) -> h_addr h' = h_addr h -> ~ waiting_reset h'.
  Proof.
    intros Hi Hin Hnw h' Hin' Ha. destruct (handlers_of_addr s h h' Hi Hin Hin' Ha) as [->|[Hq _]]; [exact Hnw|].
    intros [t Ht]. unfold spawned_msg in Hq. rewrite Ht in Hq. discriminate.
  Qed.

  Theorem J_h_start (s : state) h m :
    Inv s -> J (agents s) (handlers s) -> In h (handlers s) -> h_pc h = PSpawned m ->
    J (agents (h_start s (h_id h) (h_addr h) m)) (handlers (h_start s (h_id h) (h_addr h) m)).
  Proof.
    intros Hi Hj Hin Hpc.
    assert (Hnw : ~ waiting_reset h) by (eapply not_waiting_spawned; eauto).
    assert (Hnr : forall rel act v, h_pc h <> PRewards rel act v) by (intros; congruence).
    destruct (I_ids s Hi) as [Hnd _].
    unfold Coord.h_start. destruct m as [|info| |want|act valid].
    - simpl. apply J_remove; [exact Hj|]. intros h' Hin' Hid. assert (h' = h) by (eapply handler_unique; eauto). subst. exact Hnw.
    - (* join *)
      destruct (alookup (h_addr h) (agents s)) as [a0|] eqn:Ha; [apply J_finish; assumption|].
      destruct info as [[name [r|]]|]; try (apply J_finish; assumption).
      destruct (negb (allowed cfg r)); [apply J_finish; assumption|].
      destruct (winit (world s) r) as [w' v] eqn:Ew.
      set (ags1 := agents s ++ [(h_addr h, new_agent name r v)]).
      assert (Hj1 : J ags1 (handlers s)) by (apply J_join; assumption).
      destruct (Nat.eqb (length (agents (set_agents (set_world s w') ags1))) (required cfg)).
      + (* the start event is set: waiting handlers are released *)
        assert (Hj2 : J ags1 (map release_start (handlers s))) by (apply J_map; [exact Hj1 | apply same_wait_release_start]).
        assert (Hin2 : In (release_start h) (map release_start (handlers s))) by (apply in_map, Hin).
        assert (Hrs : release_start h = h) by (destruct h as [i a pc]; simpl in *; subst pc; reflexivity).
        rewrite Hrs in Hin2.
        assert (Hnd2 : NoDup (map h_id (map release_start (handlers s)))).
        { rewrite map_map. erewrite map_ext; [exact Hnd|]. intros x. destruct x as [i a pc]; destruct pc; reflexivity. }
        simpl. apply J_remove; [exact Hj2|].
        intros h' Hin' Hid. assert (h' = h) by (eapply handler_unique; eauto). subst. exact Hnw.
      + destruct (ev_start (set_agents (set_world s w') ags1)) eqn:Ev.
        * simpl. apply J_remove; [exact Hj1|]. intros h' Hin' Hid. assert (h' = h) by (eapply handler_unique; eauto). subst. exact Hnw.
        * simpl. apply (J_park ags1 (handlers s) h); try assumption. intros rel act0 v0 Hx. discriminate.
    - (* quit *)
      assert (Hj1 : J (agents (remove_agent s (h_addr h))) (handlers s)).
      { unfold remove_agent. destruct (alookup (h_addr h) (agents s)) eqn:Ha; [|exact Hj].
        assert (Hl : J (aremove (h_addr h) (agents s)) (handlers s)).
        { apply J_leave; [exact Hj | apply (I_agents s Hi)|].
          intros h' Hin' Ha'. destruct (handlers_of_addr s h h' Hi Hin Hin' Ha') as [->|[Hq _]]; [eauto|].
          unfold spawned_msg in Hq. destruct (h_pc h'); try discriminate. eauto. }
        destruct (_ && _); destruct (all_ended _); exact Hl. }
      assert (Hh1 : handlers (remove_agent s (h_addr h)) = handlers s).
      { unfold remove_agent. destruct (alookup _ _); [|reflexivity]. destruct (_ && _); destruct (all_ended _); reflexivity. }
      simpl. rewrite Hh1. apply J_remove; [exact Hj1|].
      intros h' Hin' Hid. assert (h' = h) by (eapply handler_unique; eauto). subst. exact Hnw.
    - (* reset *)
      destruct (alookup (h_addr h) (agents s)) as [a0|] eqn:Ha; [|apply J_finish; assumption].
      set (ags := aupdate (h_addr h) (fun a => a_set_req a true) (agents s)).
      assert (Hp : J (agents s) (map (repl (h_id h) (PResetDone false want)) (handlers s))).
      { apply (J_park (agents s) (handlers s) h); try assumption. intros rel act0 v0 Hx. discriminate. }
      assert (Hj2 : J ags (map (repl (h_id h) (PResetDone false want)) (handlers s))).
      { apply J_set_req; [exact Hp| |].
        - exists (repl (h_id h) (PResetDone false want) h). split; [apply in_map, Hin|].
          unfold repl. rewrite Nat.eqb_refl. simpl. split; [reflexivity | exists want; reflexivity].
        - intros h' rel act0 v0 Hin' Ha' Hp'. apply in_map_iff in Hin' as (x & <- & Hx). unfold repl in *.
          destruct (Nat.eqb (h_id x) (h_id h)) eqn:E; simpl in *; [discriminate|].
          apply (no_rewards_handler_for s h Hi Hin Hnr x rel act0 v0 Hx Ha' Hp'). }
      destruct (all_req ags); exact Hj2.
    - (* a game action *)
      destruct (alookup (h_addr h) (agents s)) as [a|] eqn:Ha; [|apply J_finish; assumption].
      destruct (negb valid); [apply J_finish; assumption|].
      destruct (a_ended a) eqn:He; [apply J_finish; assumption|].
      destruct (wstep (world s) (a_view a) act) as [w' v'] eqn:Ew.
      match goal with |- context [aupdate (h_addr h) (fun _ => ?A2) (agents s)] => set (a2 := A2) end.
      set (ags := aupdate (h_addr h) (fun _ => a2) (agents s)).
      assert (Hj1 : J ags (handlers s)).
      { apply (J_step_agent (agents s) (handlers s) (h_addr h) a a2); try assumption; try reflexivity.
        apply (no_rewards_handler_for s h Hi Hin Hnr). }
      assert (Hl2 : alookup (h_addr h) ags = Some a2) by (unfold ags; rewrite alookup_aupdate_eq, Ha; reflexivity).
      assert (Hreq : a_req a = false).
      { destruct (a_req a) eqn:E; [|reflexivity]. exfalso.
        destruct (J_req _ _ Hj (h_addr h) a Ha E) as (h0 & Hin0 & Ha0 & Hw0).
        apply (no_waiting_other s h Hi Hin Hnw h0 Hin0 Ha0 Hw0). }
      assert (Hfin : forall s2 : state, agents s2 = ags -> handlers s2 = handlers s ->
                       J (agents (if a_ended a2 then park s2 (h_id h) (PRewards false act v') else game_finish s2 (h_id h) (h_addr h) act v'))
                         (handlers (if a_ended a2 then park s2 (h_id h) (PRewards false act v') else game_finish s2 (h_id h) (h_addr h) act v'))).
      { intros s2 Hag Hhs. destruct (a_ended a2) eqn:He2.
        - simpl. rewrite Hag, Hhs. apply (J_park ags (handlers s) h); try assumption.
          intros rel act0 v0 [= <- <- <-]. exists a2. repeat split; first [assumption | reflexivity].
        - unfold game_finish. rewrite Hag, Hl2. simpl. rewrite Hhs.
          apply J_remove.
          + apply J_update_agent; [exact Hj1|]. intros a3 Ha3. rewrite Hl2 in Ha3. injection Ha3 as <-.
            split; [reflexivity|]. split; [reflexivity|]. split; [reflexivity|]. split; [reflexivity|].
            cbn [a_traj a_set_obs a_set_traj]. apply traj_wf_add. apply (J_traj _ _ Hj (h_addr h) a Ha).
          + intros h' Hin' Hid. assert (h' = h) by (eapply handler_unique; eauto). subst. exact Hnw. }
      change (terminal (next_status goal detect cfg _ v' act) || _) with (a_ended a2).
      destruct (all_ended ags); apply Hfin; reflexivity.
  Qed.

  Theorem J_h_wake (s s' : state) h :
    Inv s -> J (agents s) (handlers s) -> In h (handlers s) -> h_wake s h = Some s' -> J (agents s') (handlers s').
  Proof.
    intros Hi Hj Hin. destruct (I_ids s Hi) as [Hnd _]. unfold Coord.h_wake.
    destruct (h_pc h) as [m|rel v|rel act v'|rel want|rel want] eqn:Hpc.
    - intros [= <-]. apply J_h_start; assumption.
    - destruct rel; [|discriminate]. intros [= <-]. apply J_finish; try assumption. intros [t Ht]. congruence.
    - destruct rel; [|discriminate]. intros [= <-].
      destruct (J_parked _ _ Hj h true act v' Hin Hpc) as (a & Ha & He & Hv & Hq).
      unfold game_finish. rewrite Ha. simpl. apply J_remove.
      + apply J_update_agent; [exact Hj|]. intros a3 Ha3. rewrite Ha in Ha3. injection Ha3 as <-.
        split; [reflexivity|]. split; [reflexivity|]. split; [reflexivity|]. split; [reflexivity|].
        cbn [a_traj a_set_obs a_set_traj]. apply traj_wf_add. apply (J_traj _ _ Hj (h_addr h) a Ha).
      + intros h' Hin' Hid. assert (h' = h) by (eapply handler_unique; eauto). subst. intros [t Ht]. congruence.
    - destruct rel; [|discriminate].
      assert (Hnw : ~ waiting_reset h) by (intros [t Ht]; congruence).
      assert (Hfin : J (agents (reset_finish s (h_id h) (h_addr h) want)) (handlers (reset_finish s (h_id h) (h_addr h) want))).
      { unfold reset_finish. destruct (alookup (h_addr h) (agents s)) as [a|] eqn:Ha.
        - simpl. apply J_remove.
          + apply J_update_agent; [exact Hj|]. intros a3 Ha3. rewrite Ha in Ha3. injection Ha3 as <-.
            split; [reflexivity|]. split; [reflexivity|]. split; [reflexivity|]. split; [reflexivity|]. apply traj_wf_start.
          + intros h' Hin' Hid. assert (h' = h) by (eapply handler_unique; eauto). subst. exact Hnw.
        - simpl. apply J_remove; [exact Hj|]. intros h' Hin' Hid. assert (h' = h) by (eapply handler_unique; eauto). subst. exact Hnw. }
      destruct (ev_start s); intros [= <-]; [exact Hfin|].
      simpl. apply (J_park (agents s) (handlers s) h); try assumption. intros rel act0 v0 Hx. discriminate.
    - destruct rel; [|discriminate]. intros [= <-].
      assert (Hnw : ~ waiting_reset h) by (intros [t Ht]; congruence).
      unfold reset_finish. destruct (alookup (h_addr h) (agents s)) as [a|] eqn:Ha.
      + simpl. apply J_remove.
        * apply J_update_agent; [exact Hj|]. intros a3 Ha3. rewrite Ha in Ha3. injection Ha3 as <-.
          split; [reflexivity|]. split; [reflexivity|]. split; [reflexivity|]. split; [reflexivity|]. apply traj_wf_start.
        * intros h' Hin' Hid. assert (h' = h) by (eapply handler_unique; eauto). subst. exact Hnw.
      + simpl. apply J_remove; [exact Hj|]. intros h' Hin' Hid. assert (h' = h) by (eapply handler_unique; eauto). subst. exact Hnw.
  Qed.

  (* ---- the reward task ---- *)
  Lemma J_rewards ags hs successful :
    J ags hs -> J (map (fun x => (fst x, reward_agent cfg successful (snd x))) ags) (map release_rewards hs).
  Proof.
    intros Hj. apply J_map; [|apply same_wait_release_rewards].
    destruct Hj as [J1 J2 J3 J4].
    assert (Hf : forall a : agent, let a' := reward_agent cfg successful a in
                  a_ended a' = a_ended a /\ a_view a' = a_view a /\ a_req a' = a_req a /\ a_traj a' = a_traj a /\
                  (a_rewarded a' = true -> a_rewarded a = true \/ a_ended a = true)).
    { intros a. unfold reward_agent. destruct (a_rewarded a) eqn:Er; simpl; [repeat split; auto|].
      destruct (a_ended a) eqn:Ee; simpl; [|repeat split; auto; rewrite Er; discriminate].
      destruct (a_role a); simpl; repeat split; auto. }
    constructor.
    - intros c a' Ha Hr. rewrite alookup_map_snd in Ha. destruct (alookup c ags) as [a|] eqn:E; [|discriminate]. injection Ha as <-.
      destruct (Hf a) as (He & _ & _ & _ & Hrw). rewrite He. destruct (Hrw Hr) as [H|H]; [eapply J1; eauto | exact H].
    - intros h rel act v' Hin Hp. destruct (J2 h rel act v' Hin Hp) as (a & Ha & He & Hv & Hq).
      exists (reward_agent cfg successful a). rewrite alookup_map_snd, Ha. destruct (Hf a) as (H1 & H2 & H3 & _). repeat split; congruence.
    - intros c a' Ha Hr. rewrite alookup_map_snd in Ha. destruct (alookup c ags) as [a|] eqn:E; [|discriminate]. injection Ha as <-.
      destruct (Hf a) as (_ & _ & H3 & _). apply (J3 c a E). congruence.
    - intros c a' Ha. rewrite alookup_map_snd in Ha. destruct (alookup c ags) as [a|] eqn:E; [|discriminate]. injection Ha as <-.
      destruct (Hf a) as (_ & _ & _ & H4 & _). rewrite H4. eapply J4; eauto.
  Qed.

  (* ---- the reset task ---- *)
  Lemma reset_fold_lookup (l : list (addr * agent)) w done fl c a' :
    alookup c (snd (fst (fold_left (@reset_one V W G winit cfg) l (w, done, fl)))) = Some a' ->
    alookup c done = Some a' \/
    (exists a, In (c, a) l /\ a_rewarded a' = false /\ a_ended a' = false /\ a_req a' = false /\ a_traj a' = a_traj a).
  Proof.
    revert w done fl. induction l as [|x tl IH]; intros w done fl; cbn [fold_left]; [auto|].
    destruct (reset_one_effect winit cfg w done fl x) as (w1 & v & _ & ->).
    intros H. destruct (IH _ _ _ H) as [Hd|(a & Hin & Hrest)].
    - rewrite alookup_app in Hd. destruct (alookup c done) eqn:E; [left; exact Hd|].
      simpl in Hd. destruct (N.eqb c (fst x)) eqn:Ec; [|discriminate]. apply N.eqb_eq in Ec. injection Hd as <-.
      right. exists (snd x). split; [left; destruct x; simpl in *; congruence|]. simpl. auto.
    - right. exists a. split; [right; exact Hin | exact Hrest].
  Qed.

  Lemma release_reset_pc (h : handler) rel act v : h_pc (release_reset h) = PRewards rel act v -> h_pc h = PRewards rel act v.
  Proof. destruct h as [i a pc]; destruct pc; simpl; congruence. Qed.

  Theorem J_exec (s s' : state) l :
    Inv s -> J (agents s) (handlers s) -> exec s l = Some s' -> J (agents s') (handlers s').
  Proof.
    intros Hi Hj. destruct l as [c|c k|c|c|c|t]; cbn [Coord.exec].
    - destruct (alookup c (conns s)); [discriminate|]. intros [= <-]. exact Hj.
    - destruct (alookup c (conns s)) as [cn|]; [|discriminate]. destruct (c_inbox cn); [discriminate|].
      destruct (c_state cn); try discriminate; (destruct (c_eof cn); [discriminate|]; intros [= <-]; exact Hj).
    - destruct (alookup c (conns s)); [|discriminate]. intros [= <-]. exact Hj.
    - destruct (alookup c (conns s)); [|discriminate]. intros [= <-]. exact Hj.
    - destruct (alookup c (conns s)); [|discriminate]. intros [= <-]. exact Hj.
    - destruct t as [c| |id| |].
      + (* the connection handler touches neither agents nor handlers *)
        assert (Hcr : forall (t : state) cn, agents (conn_read t c cn) = agents t /\ handlers (conn_read t c cn) = handlers t).
        { intros t cn. unfold conn_read, leave, cleanup. destruct (c_rerr cn); [split; reflexivity|].
          destruct (c_inbox cn) as [[m|]|]; try (split; reflexivity). destruct (c_eof cn); split; reflexivity. }
        unfold conn_run. destruct (alookup c (conns s)) as [cn|]; [|discriminate].
        destruct (negb (conn_runnable cn)); [discriminate|].
        destruct (c_state cn).
        * destruct (Nat.leb (required cfg) (served s)); intros [= <-]; [exact Hj|].
          match goal with |- J (agents (conn_read ?T c ?C)) _ => destruct (Hcr T C) as [-> ->] end. exact Hj.
        * intros [= <-]. destruct (Hcr s cn) as [-> ->]. exact Hj.
        * destruct (c_queue cn) as [|[r|] q']; [discriminate| |].
          -- destruct (c_wfail cn); intros [= <-]; [exact Hj|].
             match goal with |- J (agents (conn_read ?T c ?C)) _ => destruct (Hcr T C) as [-> ->] end. exact Hj.
          -- intros [= <-]. exact Hj.
        * discriminate.
      + unfold dispatch_run. destruct (aq s) as [|x q]; [discriminate|]. intros [= <-].
        change (J (agents (fold_left dispatch1 (x :: q) (set_aq s []))) (handlers (fold_left dispatch1 (x :: q) (set_aq s [])))).
        assert (Hd : forall l (t : state), J (agents t) (handlers t) -> J (agents (fold_left dispatch1 l t)) (handlers (fold_left dispatch1 l t))).
        { induction l as [|[c m] tl IH]; intros t Ht; [exact Ht|]. cbn [fold_left]. apply IH.
          destruct m; try (simpl; eapply J_add_spawned; [exact Ht | reflexivity]). exact Ht. }
        apply Hd. exact Hj.
      + unfold handler_run. destruct (find (fun h => Nat.eqb (h_id h) id) (handlers s)) as [h|] eqn:Hf; [|discriminate].
        apply find_some in Hf as [Hin _]. apply J_h_wake; assumption.
      + unfold rewards_run. destruct (negb (ev_end s)); [discriminate|].
        destruct (negb (all_ended (agents s))); intros [= <-]; [exact Hj|]. simpl. apply J_rewards, Hj.
      + unfold reset_run. destruct (negb (ev_reset s)); [discriminate|].
        destruct ((match agents s with [] => false | _ => true end) && all_req (agents s)) eqn:Hall; simpl; [|intros [= <-]; exact Hj].
        apply andb_true_iff in Hall as [_ Hall].
        destruct (fold_left _ (agents s) (wreset (world s), [], files s)) as [[w' ags] fl] eqn:Ef.
        intros [= <-]. simpl.
        assert (Hlk : forall c a', alookup c ags = Some a' ->
                   exists a, alookup c (agents s) = Some a /\ a_rewarded a' = false /\ a_ended a' = false /\ a_req a' = false /\ a_traj a' = a_traj a).
        { intros c a' Ha'. pose proof (reset_fold_lookup (agents s) (wreset (world s)) [] (files s) c a') as H.
          rewrite Ef in H. destruct (H Ha') as [Hd|(a & Hin & Hrest)]; [discriminate|].
          exists a. split; [apply in_alookup; [apply (I_agents s Hi) | exact Hin] | exact Hrest]. }
        assert (Hno : forall h rel act v, In h (handlers s) -> h_pc h <> PRewards rel act v).
        { intros h rel act v Hin Hp. destruct (J_parked _ _ Hj h rel act v Hin Hp) as (a & Ha & _ & _ & Hq).
          unfold all_req in Hall. rewrite forallb_forall in Hall. specialize (Hall (h_addr h, a) (alookup_in _ _ _ Ha)). simpl in Hall. congruence. }
        constructor.
        * intros c a' Ha' Hr. destruct (Hlk c a' Ha') as (a & _ & H1 & _). congruence.
        * intros h' rel act v Hin' Hp. apply in_map_iff in Hin' as (h & <- & Hin). apply release_reset_pc in Hp. exfalso. eapply Hno; eauto.
        * intros c a' Ha' Hr. destruct (Hlk c a' Ha') as (a & _ & _ & _ & H3 & _). congruence.
        * intros c a' Ha'. destruct (Hlk c a' Ha') as (a & Ha & _ & _ & _ & H4). rewrite H4. apply (J_traj _ _ Hj c a Ha).
  Qed.

  Theorem inv2_exec (s s' : state) l : Inv2 s -> exec s l = Some s' -> Inv2 s'.
  Proof.
    intros [Hi Hj] He. split; [eapply inv_exec; eauto | eapply J_exec; eauto].
  Qed.

  Theorem inv2_reachable w ls s : execs (init_state w) ls = Some s -> Inv2 s.
  Proof.
    assert (H0 : Inv2 (@init_state V W G w)) by apply inv2_init.
    revert H0. generalize (@init_state V W G w). induction ls as [|l tl IH]; intros s0 H0; simpl; [intros [= <-]; exact H0|].
    destruct (exec s0 l) as [s1|] eqn:E; [|discriminate]. apply IH. eapply inv2_exec; eauto.
  Qed.
End Inv2Steps.
