"""C18: connection slots (coordinator model Model/Coord.v, trace-following correspondence, direct monitor)."""
import json
import check as CK
from props import coordcommon as CC

TRANSLATORS = ["enums", "defender", "dispatch"]
COQ_FILES = ["Props/C18.v", "Obl/DispatchOk.v", "Obl/EnumsOk.v"]


def correspondence(ctx):
    n = 400 if ctx.tier == "thorough" else 52
    CC.run_sessions(ctx, "C18", n, lambda rng: dict(n_events=rng.choice([30,60]), burst=0.3, fault=0.35, bad=0.1), lambda rng: dict(required=rng.choice([1,1,2,3])))


def replay(ctx, payload):
    return CC.replay_session(ctx, "C18", payload)
