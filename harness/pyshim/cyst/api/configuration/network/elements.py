from cyst import _stub


def __getattr__(name):
    return _stub.get(name)
