(* C11 - Views are well-formed, only grow, and contain only what exists.
   Statements only; proofs in Proofs/WorldInv.v. *)
From stdpp Require Import gmap.
From Coq Require Import ZArith NArith.
From NSG Require Import Model.World Model.Load Proofs.WorldStep Proofs.WorldInv.

(* one step: the monotone parts of the view never shrink (networks, hosts, controlled hosts,
   data per host, blocks per host) *)
Theorem C11_mono_step : forall w v a, view_le v (snd (step w v a)).
Proof. exact step_mono. Qed.

(* one step keeps the view well-formed: controlled hosts are known, services are known only for
   known hosts, data only on controlled hosts *)
Theorem C11_wf_step : forall w v a, wf_view v -> wf_view (snd (step w v a)).
Proof. exact step_wf. Qed.

(* one step keeps everything in the view anchored in the world: hosts exist, services are
   services of that host's node, data is located on that host's node *)
Theorem C11_exists_step : forall w v a, anchored w v -> anchored (fst (step w v a)) (snd (step w v a)).
Proof. exact step_anchored. Qed.
Theorem C11_exists_others : forall w v u a, anchored w v -> anchored (fst (step w u a)) v.
Proof. exact anchored_world_step. Qed.

(* every reachable state of any number of agents, after any interleaved action sequence *)
Theorem C11_invariant : forall s l, minv s -> minv (mrun s l).
Proof. exact mrun_inv. Qed.
Theorem C11_mono : forall s l ag v, snd s !! ag = Some v ->
  exists v', snd (mrun s l) !! ag = Some v' /\ view_le v v'.
Proof. exact mrun_mono. Qed.

(* non-vacuity: an initial state that satisfies the invariant *)
Example C11_nonvacuous :
  let w := {| w_ip2host := {[1%N := 10%N; 2%N := 20%N]}; w_nets := ∅; w_services := ∅; w_data := ∅;
              w_fw := {[1%N := {[2%N]}]}; w_blocks := ∅; w_data0 := ∅; w_fw0 := ∅ |} in
  let v := {| v_ctrl := {[1%N]}; v_hosts := {[1%N; 2%N]}; v_svcs := ∅; v_data := ∅; v_nets := ∅; v_blocks := ∅ |} in
  minv (w, {[0 := v]}).
Proof.
  intros w v ag u Hu. simpl in Hu. apply lookup_singleton_Some in Hu as [_ <-]. split.
  - repeat split; simpl; set_solver.
  - repeat split; simpl.
    + intros h Hh. assert (h = 1%N \/ h = 2%N) as [->| ->] by set_solver; vm_compute; eauto.
    + intros h K s HK. rewrite lookup_empty in HK. discriminate.
    + intros h K d HK. rewrite lookup_empty in HK. discriminate.
Qed.

Print Assumptions C11_mono_step.
Print Assumptions C11_wf_step.
Print Assumptions C11_exists_step.
Print Assumptions C11_exists_others.
Print Assumptions C11_invariant.
Print Assumptions C11_mono.
