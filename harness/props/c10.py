"""C10: departures (coordinator model Model/Coord.v, trace-following correspondence, direct monitor)."""
import json
import check as CK
from props import coordcommon as CC

TRANSLATORS = ["enums", "defender", "dispatch"]
COQ_FILES = ["Props/C10.v", "Obl/DispatchOk.v", "Obl/EnumsOk.v"]


def correspondence(ctx):
    n = 400 if ctx.tier == "thorough" else 52
    CC.run_sessions(ctx, "C10", n, lambda rng: dict(n_events=rng.choice([30,50]), burst=0.4, fault=0.3, bad=0.05), lambda rng: dict(required=rng.choice([1,2,2,3])))


def replay(ctx, payload):
    return CC.replay_session(ctx, "C10", payload)
