(* C11 for the whole game: in every reachable state of the coordinator running on the world model - any number of
   agents, any interleaving of joins, actions, departures, rewards and resets - the stored view of every agent is
   well formed and anchored in the current world, provided the configured start positions are well formed and
   anchored in the scenario and the random start hosts are hosts of the scenario. *)
From stdpp Require Import gmap.
From Coq Require Import ZArith NArith.
From NSG Require Import Model.Coord Proofs.CoordBase Proofs.CoordDirect Proofs.CoordInv2 Proofs.CoordAgentStep Proofs.CoordViewStep Proofs.CoordViews Model.World Model.Load Model.Game Proofs.WorldStep Proofs.WorldInv Proofs.InitViewFacts
  .

(* what must hold of a start position for the initial view to be well formed and anchored *)
Definition listed_ctrl (sp : start_pos) (h : ip) : Prop := In (SHost h) (sp_ctrl sp).
Record sp_ok (w : world) (sp : start_pos) : Prop := {
  so_hosts : forall h, In h (sp_hosts sp) -> is_Some (w_ip2host w !! h);
  so_ctrl : forall h, listed_ctrl sp h -> is_Some (w_ip2host w !! h);
  so_svc_keys : forall h l, In (h, l) (sp_svcs sp) -> In h (sp_hosts sp) \/ listed_ctrl sp h;
  so_data_keys : forall h l, In (h, l) (sp_data sp) -> listed_ctrl sp h;
  so_svcs : forall h l s, In (h, l) (sp_svcs sp) -> In s l ->
              exists n SS, w_ip2host w !! h = Some n /\ w_services w !! n = Some SS /\ s ∈ SS;
  so_data : forall h l d, In (h, l) (sp_data sp) -> In d l ->
              exists n, w_ip2host w !! h = Some n /\ d ∈ get (w_data0 w) n;
}.

Record world_ok (w : world) : Prop := {
  wo_local : forall i, i ∈ all_local w -> is_Some (w_ip2host w !! i);
  wo_data : forall n, get (w_data0 w) n ⊆ get (w_data w) n;
}.

Definition oracles_ok (w : world) (os : list (list ip)) : Prop :=
  Forall (fun o => forall i, In i o -> is_Some (w_ip2host w !! i)) os.

Lemma list_map_lookup {A} `{Countable A} (l : list (ip * list A)) h K :
  (list_to_map (map (fun kv => (fst kv, list_to_set (snd kv))) l) : gmap ip (gset A)) !! h = Some K ->
  exists x, In (h, x) l /\ K = list_to_set x.
Proof.
  intros Hl. apply elem_of_list_to_map_2 in Hl. apply elem_of_list_fmap in Hl as ([h' x] & [= -> ->] & Hin).
  exists x. split; [apply elem_of_list_In, Hin | reflexivity].
Qed.

Lemma in_of_set {A} `{Countable A} (x : A) l : x ∈ (list_to_set l : gset A) -> In x l.
Proof. intros Hx. apply elem_of_list_In. apply elem_of_list_to_set in Hx. exact Hx. Qed.
Lemma set_of_in {A} `{Countable A} (x : A) l : In x l -> x ∈ (list_to_set l : gset A).
Proof. intros Hx. apply elem_of_list_to_set, elem_of_list_In, Hx. Qed.

Theorem init_view_ok w sp o :
  world_ok w -> sp_ok w sp -> (forall i, In i o -> is_Some (w_ip2host w !! i)) ->
  wf_view (init_view w sp o) /\ anchored w (init_view w sp o).
Proof.
  intros Hw Hs Ho.
  assert (Hctrl : forall i, i ∈ resolve_ctrl w (sp_ctrl sp) o -> is_Some (w_ip2host w !! i)).
  { intros i Hi. destruct (resolve_ctrl_spec w _ _ i Hi) as [H|[H|[_ H]]]; [apply (so_ctrl w sp Hs), H | apply Ho, H | apply (wo_local w Hw), H]. }
  split.
  - unfold wf_view, init_view. cbn [v_ctrl v_hosts v_svcs v_data]. repeat split.
    + set_solver.
    + intros h Hh. apply elem_of_dom in Hh as [K HK]. apply list_map_lookup in HK as (x & Hin & _).
      destruct (so_svc_keys w sp Hs h x Hin) as [H|H].
      * apply elem_of_union_l, set_of_in, H.
      * apply elem_of_union_r, resolve_ctrl_hosts, H.
    + intros h Hh. apply elem_of_dom in Hh as [K HK]. apply list_map_lookup in HK as (x & Hin & _).
      apply resolve_ctrl_hosts. apply (so_data_keys w sp Hs h x Hin).
  - unfold anchored, init_view. cbn [v_ctrl v_hosts v_svcs v_data]. repeat split.
    + intros h Hh. apply elem_of_union in Hh as [Hh|Hh]; [apply elem_of_union in Hh as [Hh|Hh]|]; try (apply Hctrl, Hh).
      apply (so_hosts w sp Hs). apply in_of_set, Hh.
    + intros h K s HK Hs0. apply list_map_lookup in HK as (x & Hin & ->).
      apply (so_svcs w sp Hs h x s Hin). apply in_of_set, Hs0.
    + intros h K d HK Hd. apply list_map_lookup in HK as (x & Hin & ->).
      destruct (so_data w sp Hs h x d Hin) as (n & Hn & Hdn); [apply in_of_set, Hd|].
      exists n. split; [exact Hn | apply (wo_data w Hw), Hdn].
Qed.

(* the conditions only look at the static part of the world and at the pristine data *)
Lemma sp_ok_static w w' sp : same_static w w' -> sp_ok w sp -> sp_ok w' sp.
Proof.
  intros (E1 & E2 & E3 & E4 & E5) [H1 H2 H3 H4 H5 H6]. constructor; try assumption; rewrite ?E1, ?E3, ?E4; assumption.
Qed.
Lemma oracles_ok_static w w' os : same_static w w' -> oracles_ok w os -> oracles_ok w' os.
Proof. intros (E1 & _) H. unfold oracles_ok in *. rewrite E1. exact H. Qed.
Lemma all_local_static w w' : same_static w w' -> all_local w' = all_local w.
Proof. intros (_ & E2 & _). unfold all_local. rewrite E2. reflexivity. Qed.

Lemma reset_same_static w : same_static w (reset w).
Proof. repeat split. Qed.

Section GameViews.
  Variable sp : role -> start_pos.
  Variable goal : role -> view -> bool.
  Variable detect : list gaction -> gaction -> bool.
  Variable cfg : config.

  Definition GQ (W : gworld) : Prop := world_ok (fst W) /\ oracles_ok (fst W) (snd W) /\ forall r, sp_ok (fst W) (sp r).
  Definition GP (W : gworld) (v : view) : Prop := wf_view v /\ anchored (fst W) v.

  Lemma GQ_static (w w' : world) os :
    same_static w w' -> (forall n, get (w_data0 w') n ⊆ get (w_data w') n) -> GQ (w, os) -> GQ (w', os).
  Proof.
    unfold GQ. cbn [fst snd]. intros Hs Hd (Hw & Ho & Hsp). split; [|split].
    - constructor; [|exact Hd]. intros i Hi. rewrite (all_local_static w w' Hs) in Hi. destruct Hs as (E1 & _). rewrite E1.
      apply (wo_local w Hw), Hi.
    - eapply oracles_ok_static; eauto.
    - intros r. eapply sp_ok_static; eauto.
  Qed.

  Theorem game_views_ok W0 ls (s : @state view gworld gaction) :
    GQ W0 ->
    @execs view gworld gaction (g_wstep) g_wreset (g_winit sp) goal detect cfg (init_state W0) ls = Some s ->
    forall c a, alookup c (agents s) = Some a -> wf_view (a_view a) /\ anchored (fst (Coord.world s)) (a_view a).
  Proof.
    intros Hq He.
    assert (Hvi : VI GQ GP s).
    { eapply (VI_reachable g_wstep g_wreset (g_winit sp) goal detect cfg GQ GP); [..|exact Hq|exact He].
      - (* the world conditions survive a step *)
        intros [w os] v a Hq0. unfold g_wstep. cbn [fst snd]. apply (GQ_static w); [apply step_static| |exact Hq0].
        intros n. destruct (step_static w v a) as (_ & _ & _ & E4 & _). rewrite E4.
        etrans; [apply (wo_data w (proj1 Hq0))|]. apply step_data_mono.
      - intros [w os] Hq0. unfold g_wreset. cbn [fst snd]. apply (GQ_static w); [apply reset_same_static| |exact Hq0].
        intros n. reflexivity.
      - intros [w os] r (Hw & Ho & Hsp). unfold g_winit, GQ. cbn [fst snd]. split; [exact Hw|]. split; [|exact Hsp].
        unfold oracles_ok in *. destruct os; [constructor | inversion Ho; assumption].
      - intros [w os] v a Hq0 [Hwf Han]. unfold g_wstep, GP. cbn [fst snd]. split; [apply step_wf, Hwf | apply step_anchored, Han].
      - intros [w os] v u a Hq0 _ [Hwf Han]. unfold g_wstep, GP. cbn [fst snd]. split; [exact Hwf | apply anchored_world_step, Han].
      - intros [w os] r (Hw & Ho & Hsp). unfold g_winit, GP. cbn [fst snd]. apply init_view_ok; [exact Hw | apply Hsp|].
        unfold oracles_ok in Ho. destruct os as [|o os']; [intros i []|]. inversion Ho; assumption.
      - intros [w os] r v Hq0 Hp. exact Hp. }
    destruct Hvi as [_ Hp]. intros c a Ha. apply (Hp c a Ha).
  Qed.
End GameViews.

(* C08 for the whole game: whatever was played - any agents, any interleaving - when the reset task resets the game, the
   world is exactly the pristine scenario world again *)
Section GameReset.
  Variable sp : role -> start_pos.
  Variable goal : role -> view -> bool.
  Variable detect : list gaction -> gaction -> bool.
  Variable cfg : config.

  Notation gstate := (@state view gworld gaction).
  Notation gexecs := (@execs view gworld gaction g_wstep g_wreset (g_winit sp) goal detect cfg).

  Theorem game_world_static w0 os ls (s : gstate) :
    gexecs (init_state (w0, os)) ls = Some s -> same_static w0 (fst (Coord.world s)).
  Proof.
    intros He.
    assert (Hvi : VI (fun W : gworld => same_static w0 (fst W)) (fun _ _ => True) s).
    { eapply (VI_reachable g_wstep g_wreset (g_winit sp) goal detect cfg (fun W : gworld => same_static w0 (fst W)) (fun _ _ => True));
        [..|exact He]; try (intros; exact I).
      - intros [w o] v a (E1 & E2 & E3 & E4 & E5). unfold g_wstep. cbn [fst snd].
        destruct (step_static w v a) as (S1 & S2 & S3 & S4 & S5). unfold same_static. rewrite S1, S2, S3, S4, S5. repeat split; assumption.
      - intros [w o] (E1 & E2 & E3 & E4 & E5). unfold g_wreset. cbn [fst snd]. repeat split; assumption.
      - intros [w o] r H. exact H.
      - repeat split. }
    apply Hvi.
  Qed.

  Lemma reset_fold_world (l : list (addr * @agent view gaction)) (W : gworld) done fl :
    fst (fst (fst (fold_left (@reset_one view gworld gaction (g_winit sp) cfg) l (W, done, fl)))) = fst W.
  Proof.
    revert W done fl. induction l as [|x tl IH]; intros W done fl; [reflexivity|]. cbn [fold_left].
    unfold reset_one at 2. unfold g_winit at 2. cbn [fst snd]. rewrite IH. reflexivity.
  Qed.

  Theorem game_reset_restores w0 os ls (s s' : gstate) :
    pristine w0 -> gexecs (init_state (w0, os)) ls = Some s ->
    @reset_run view gworld gaction g_wreset (g_winit sp) cfg s = Some s' ->
    ((match agents s with [] => false | _ => true end) && all_req (agents s)) = true ->
    fst (Coord.world s') = w0.
  Proof.
    intros Hp He Hr Hall. pose proof (game_world_static w0 os ls s He) as Hs.
    unfold reset_run in Hr. destruct (negb (ev_reset s)); [discriminate|]. rewrite Hall in Hr. simpl in Hr.
    pose proof (reset_fold_world (agents s) (g_wreset (Coord.world s)) [] (files s)) as Hw.
    destruct (fold_left _ (agents s) (g_wreset (Coord.world s), [], files s)) as [[W' ags] fl]. cbn [fst] in Hw.
    injection Hr as <-. cbn [Coord.world set_handlers set_ev_reset set_files set_agents set_world]. rewrite Hw.
    unfold g_wreset. cbn [fst]. rewrite (reset_static w0 _ Hs). apply reset_pristine, Hp.
  Qed.
End GameReset.

(* C02 for the whole game: a game action of a playing agent whose preconditions do not hold leaves the world exactly as
   it is, and the view stored for (and reported to) the agent is the view it had; only the step counter, the status rule
   and the step reward see the action *)
Section GameNoop.
  Variable sp : role -> start_pos.
  Variable goal : role -> view -> bool.
  Variable detect : list gaction -> gaction -> bool.
  Variable cfg : config.

  Notation gstate := (@state view gworld gaction).

  Theorem game_noop (s : gstate) id c act a :
    alookup c (agents s) = Some a -> a_ended a = false -> pre (fst (Coord.world s)) (a_view a) act = false ->
    let s' := @h_start view gworld gaction g_wstep (g_winit sp) goal detect cfg s id c (MGame act true) in
    Coord.world s' = Coord.world s /\
    (forall a', alookup c (agents s') = Some a' -> a_view a' = a_view a) /\
    (forall k, k <> c -> alookup k (agents s') = alookup k (agents s)).
  Proof.
    intros Ha He Hp. cbv zeta.
    assert (Ew : g_wstep (Coord.world s) (a_view a) act = (Coord.world s, a_view a)).
    { unfold g_wstep. rewrite (step_noop _ _ _ Hp). destruct (Coord.world s). reflexivity. }
    rewrite (game_step_eq g_wstep (g_winit sp) goal detect cfg s id c act a (Coord.world s) (a_view a) Ha He Ew). cbv zeta.
    set (a2 := stepped_agent goal detect cfg s c a act (a_view a)).
    assert (Ev : a_view a2 = a_view a) by reflexivity. clearbody a2.
    set (ags := aupdate c (fun _ => a2) (agents s)).
    assert (Hl : alookup c ags = Some a2) by (unfold ags; rewrite alookup_aupdate_eq, Ha; reflexivity).
    assert (Hgoal : forall s2 : gstate, Coord.world s2 = Coord.world s -> agents s2 = ags -> forall b : bool,
              let r := if b then park s2 id (PRewards false act (a_view a)) else @game_finish view gworld gaction s2 id c act (a_view a) in
              Coord.world r = Coord.world s /\ (forall a', alookup c (agents r) = Some a' -> a_view a' = a_view a) /\
              (forall k, k <> c -> alookup k (agents r) = alookup k (agents s))).
    { intros s2 E1 E2 b. cbv zeta. destruct b.
      - split; [exact E1|]. split.
        + intros a' H. simpl in H. rewrite E2, Hl in H. injection H as <-. exact Ev.
        + intros k Hk. simpl. rewrite E2. unfold ags. apply alookup_aupdate_ne. congruence.
      - unfold game_finish. rewrite E2, Hl. simpl. split; [exact E1|]. split.
        + intros a' H. rewrite ?E2 in H. unfold ags in H. rewrite aupdate_aupdate, alookup_aupdate_eq, Ha in H. simpl in H.
          injection H as <-. exact Ev.
        + intros k Hk. rewrite ?E2. unfold ags. rewrite aupdate_aupdate. apply alookup_aupdate_ne. congruence. }
    destruct (all_ended ags); apply Hgoal; reflexivity.
  Qed.
End GameNoop.

(* C11 "only grow" for the whole game: between two points of an episode (no run of the reset task in between) the view stored
   for an agent only grows - networks, hosts, controlled hosts, data and blocks per host - whatever the other agents, the
   reward task, departures and joins do in between *)
Section GameMono.
  Variable sp : role -> start_pos.
  Variable goal : role -> view -> bool.
  Variable detect : list gaction -> gaction -> bool.
  Variable cfg : config.

  Notation gstate := (@state view gworld gaction).
  Notation gexecs := (@execs view gworld gaction g_wstep g_wreset (g_winit sp) goal detect cfg).

  Theorem game_views_grow W0 ls0 ls (s s' : gstate) c a :
    gexecs (init_state W0) ls0 = Some s -> gexecs s ls = Some s' -> no_reset ls -> alookup c (agents s) = Some a ->
    (exists a', alookup c (agents s') = Some a' /\ view_le (a_view a) (a_view a')) \/
    gone_along g_wstep g_wreset (g_winit sp) goal detect cfg s ls c.
  Proof.
    intros H0 He Hok Ha.
    apply (views_grow_along g_wstep g_wreset (g_winit sp) goal detect cfg view_le view_le_refl view_le_trans) with (a := a); try assumption.
    - intros [w o] v act. unfold g_wstep. cbn [fst snd]. apply step_mono.
    - eapply inv2_reachable; eauto.
  Qed.
End GameMono.
