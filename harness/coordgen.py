"""Generation of coordinator sessions: random configurations, adaptive multi-agent scripts with
valid, malformed and out-of-order messages, departures of every kind, settled and burst arrival.

Every random choice derives from the rng passed in; the recorded session (Session.events) replays
exactly."""
import copy
import json
import random

import nsgenv
import coordrun as CR
from nsgenv import msg, ip

SCEN = "scenario1_small"
NETS = [("192.168.1.0", 24), ("192.168.2.0", 24), ("192.168.3.0", 24), ("213.47.23.192", 26)]
ROLES = ["Attacker", "Defender", "Benign"]


def gen_config(rng, required=None, defender=None, save=None, max_steps=None):
    cfg = nsgenv.base_config(SCEN)
    env = cfg["env"]
    env["required_players"] = required if required is not None else rng.choice([1, 1, 2, 2, 3])
    env["rewards"] = {"step": rng.choice([-1, 0, -3]), "success": rng.choice([100, 7, 0]), "fail": rng.choice([-10, -5, 0])}
    if rng.random() < 0.2:
        # fractional rewards (binary fractions down to 1/16, exact in floating point, finer than two decimals): the configuration
        # takes any number, and what is sent, stored and recorded is the exact sum
        env["rewards"] = {"step": rng.choice([-0.5, -1.25, 0.25, -0.125, -0.0625]), "success": rng.choice([10.5, 7, 0.75, 10.0625]),
                          "fail": rng.choice([-2.5, -0.75, -3, -5.0625, -0.375])}
    if rng.random() < 0.35:
        # a partial rewards section (absent names default to 0), or none at all
        for k in ("step", "success", "fail"):
            if rng.random() < 0.45:
                del env["rewards"][k]
        if not env["rewards"] and rng.random() < 0.5:
            del env["rewards"]
    env["use_global_defender"] = bool(rng.random() < 0.3) if defender is None else defender
    env["save_trajectories"] = bool(rng.random() < 0.3) if save is None else save
    env["use_firewall"] = rng.random() < 0.8
    A = cfg["coordinator"]["agents"]["Attacker"]
    D = cfg["coordinator"]["agents"]["Defender"]
    ms = max_steps if max_steps is not None else rng.choice([None, 1, 2, 3, 4, 6, 0])
    if ms is None:
        A.pop("max_steps", None)
    else:
        A["max_steps"] = ms
    if rng.random() < 0.3:
        D["max_steps"] = rng.choice([2, 3, 5])
    # attacker goal: reachable in 1-4 actions, or the shipped exfiltration goal
    g = copy.deepcopy(nsgenv.EMPTY_PART)
    c = rng.random()
    if c < 0.3:
        g["known_hosts"] = [rng.choice(["192.168.1.2", "192.168.1.3", "192.168.1.4"])]
    elif c < 0.5:
        g["known_networks"] = ["192.168.1.0/24"]      # satisfied from the start (neighbouring nets): goal at first action
    elif c < 0.7:
        g["controlled_hosts"] = ["192.168.1.2"]
    elif c < 0.8:
        g["known_services"] = {}
        g["known_hosts"] = ["192.168.1.2", "192.168.1.4"]
    else:
        g["known_data"] = {"213.47.23.195": [["User1", "DataFromServer1"]]}
    A["goal"] = dict(g, description="goal", is_any_part_of_goal_random=False)
    A["start_position"]["controlled_hosts"] = ["213.47.23.195", "192.168.2.2"]
    D["goal"]["known_data"] = {"1.1.1.1": [["x", "y"]]} if rng.random() < 0.8 else {}
    D["start_position"]["controlled_hosts"] = ["192.168.1.2", "192.168.2.2"]
    draw = rng.choice([0.0, 0.03, 0.999]) if env["use_global_defender"] else None
    return cfg, draw


def goals_of(cfg):
    ag = cfg["coordinator"]["agents"]
    return {"Attacker": ag["Attacker"]["goal"], "Defender": ag["Defender"]["goal"],
            "Benign": {"known_data": {"1.1.1.1": [["User1", "DataFromInternet"]]}}}


def game_msg(atype, **params):
    """JSON text and model description of a well-formed game action (all dataclass fields explicit)."""
    d = {"action_type": f"ActionType.{atype}", "parameters": params}
    return json.dumps(d), {"kind": "game", "atype": atype, "as_dict": d, "valid": True}


def svc(s):
    return {"name": s.name, "type": s.type, "version": s.version, "is_local": s.is_local}


def dat(d):
    return {"owner": d.owner, "id": d.id, "size": d.size, "type": d.type}


def gen_game(rng, g, addr):
    """A (mostly sensible) game action for the agent at addr, from its current view."""
    st = g._agent_states.get(addr)
    ctrl = sorted(str(h) for h in st.controlled_hosts) if st else ["192.168.2.2"]
    known = sorted(str(h) for h in st.known_hosts) if st else ctrl
    src = rng.choice(ctrl) if ctrl and rng.random() < 0.9 else "1.2.3.4"
    r = rng.random()
    if rng.random() < 0.06:
        # texts that contain the letters of the end-of-message marker, quotes and non-ASCII characters: legal field values
        if rng.random() < 0.5:
            return game_msg("ExfiltrateData", source_host=ip(src), target_host=ip(rng.choice(ctrl or known)),
                            data={"owner": rng.choice(["GEOFF", "EOF", 'a"b']), "id": rng.choice(["EOFY_report", "xEOF", "notes \u00e9"]), "size": 0, "type": ""})
        return game_msg("ExploitService", source_host=ip(src), target_host=ip(rng.choice(known)),
                        target_service={"name": rng.choice(["GEOFence daemon", "EOF", "ssh"]), "type": "passive", "version": "EOF1.0", "is_local": False})
    if r < 0.3:
        n = rng.choice(NETS)
        if st and st.known_networks and rng.random() < 0.5:
            nn = sorted((x.ip, x.mask) for x in st.known_networks)
            n = nn[rng.randrange(len(nn))]
        return game_msg("ScanNetwork", source_host=ip(src), target_network={"ip": n[0], "mask": n[1]})
    if r < 0.5:
        return game_msg("FindServices", source_host=ip(src), target_host=ip(rng.choice(known)))
    if r < 0.65 and st and st.known_services:
        h = rng.choice(sorted(st.known_services, key=str))
        s = rng.choice(sorted(st.known_services[h]))
        return game_msg("ExploitService", source_host=ip(src), target_host=ip(str(h)), target_service=svc(s))
    if r < 0.8:
        return game_msg("FindData", source_host=ip(src), target_host=ip(rng.choice(ctrl or known)))
    if r < 0.9 and st and st.known_data:
        h = rng.choice(sorted(st.known_data, key=str))
        d = rng.choice(sorted(st.known_data[h]))
        return game_msg("ExfiltrateData", source_host=ip(str(h)), target_host=ip(rng.choice(ctrl)), data=dat(d))
    blocked = rng.choice(known) if rng.random() < 0.7 else rng.choice(["8.8.8.8", "10.99.0.1", "192.168.77.7"])      # also addresses outside the scenario
    return game_msg("BlockIP", source_host=ip(src), target_host=ip(rng.choice(ctrl or known)), blocked_host=ip(blocked))


def gen_invalid_game(rng):
    c = rng.randrange(11)
    if c == 9:
        # a parameter of the right class whose inner value cannot be hashed (a list where a text is expected)
        t = msg("ExploitService", source_host=ip("192.168.2.2"), target_host=ip("192.168.1.2"),
                target_service={"name": ["ssh"], "type": "passive", "version": "1", "is_local": False})
        at = "ExploitService"
    elif c == 10:
        t = msg("ExfiltrateData", source_host=ip("192.168.2.2"), target_host=ip("192.168.2.2"),
                data={"owner": ["User1"], "id": {"x": 1}, "size": 0, "type": ""})
        at = "ExfiltrateData"
    elif c == 6:
        t = msg("ScanNetwork")                                   # several required parameters missing at once
        at = "ScanNetwork"
    elif c == 7:
        t = msg("BlockIP")
        at = "BlockIP"
    elif c == 8:
        t = msg("ExfiltrateData", data={"owner": "a", "id": "b", "size": 0, "type": ""})
        at = "ExfiltrateData"
    elif c == 0:
        t = msg("ScanNetwork", source_host=ip("192.168.2.2"))
        at = "ScanNetwork"
    elif c == 1:
        t = msg("FindServices", target_host=ip("192.168.1.2"))
        at = "FindServices"
    elif c == 2:
        t = msg("ScanNetwork", source_host=ip("192.168.2.2"), target_network={"ip": "192.168.1.0", "mask": 99})
        at = "ScanNetwork"
    elif c == 3:
        t = msg("ExploitService", source_host=ip("192.168.2.2"), target_host=ip("192.168.1.2"))
        at = "ExploitService"
    elif c == 4:
        t = msg("BlockIP", source_host=ip("192.168.2.2"), target_host=ip("192.168.2.2"))
        at = "BlockIP"
    else:
        t = msg("ExfiltrateData", source_host=ip("192.168.2.2"), target_host=ip("192.168.2.2"), target_network={"ip": "x", "mask": 1})
        at = "ExfiltrateData"
    d = json.loads(t)
    return t, {"kind": "game", "atype": at, "as_dict": d, "valid": False}


GARBAGE = ["   ", "not json", "{", "[1,2]", "null", "{}", '{"action_type": "ActionType.Nope", "parameters": {}}',
           '{"action_type": "ActionType.ScanNetwork"}', '{"action_type": "ActionType.ScanNetwork", "parameters": {"bogus": 1}}',
           '{"action_type": "ActionType.FindData", "parameters": {"source_host": {"ip": "999.1.1.1"}}}',
           '{"parameters": {}}', '{"action_type": "ActionType.JoinGame", "parameters": {"agent_info": {"name": "x"}}}',
           '{"action_type": "ActionType.ResetGame", "parameters": {"request_trajectory": "maybe"}}',
           '{"action_type": "ActionType.ScanNetwork", "parameters": {"source_host": "1.1.1.1"}}',
           '{"action_type": "NotAnActionType.ResetGame", "parameters": {}}', '{"action_type": "my.ActionType.QuitGame", "parameters": {}}',
           '{"action_type": "ActionType.ActionType.ScanNetwork", "parameters": {"source_host": {"ip": "192.168.2.2"}, "target_network": {"ip": "192.168.1.0", "mask": 24}}}',
           '{"action_type": "xActionType.JoinGame", "parameters": {"agent_info": {"name": "x", "role": "Attacker"}}}',
           '{"action_type": "scannetwork", "parameters": {}}', " \n", "\t",
           # the enum prefix somewhere else than once at the start: not the name of a supported type
           '{"action_type": "ScanActionType.Network", "parameters": {"source_host": {"ip": "192.168.2.2"}, "target_network": {"ip": "192.168.1.0", "mask": 24}}}',
           '{"action_type": "QuitActionType.Game", "parameters": {}}', '{"action_type": "ResetGameActionType.", "parameters": {}}',
           '{"action_type": "ActionType.QuitGameActionType.", "parameters": {}}',
           # addresses that decode (ipaddress accepts numbers) but are not text: refused as bad requests
           '{"action_type": "ActionType.FindData", "parameters": {"source_host": {"ip": 3232235777}, "target_host": {"ip": 3232235777}}}',
           '{"action_type": "ActionType.FindServices", "parameters": {"source_host": {"ip": "192.168.2.2"}, "target_host": {"ip": true}}}',
           '{"action_type": "ActionType.BlockIP", "parameters": {"source_host": {"ip": "192.168.2.2"}, "target_host": {"ip": "192.168.2.2"}, "blocked_host": {"ip": 16843009}}}',
           # unknown fields INSIDE a parameter object: the nested decoders are as strict as the outer one
           '{"action_type": "ActionType.ExfiltrateData", "parameters": {"source_host": {"ip": "192.168.2.2"}, "target_host": {"ip": "213.47.23.195"}, "data": {"owner": "User1", "id": "DataFromServer1", "size": 0, "type": "", "extra": 1}}}',
           '{"action_type": "ActionType.ExploitService", "parameters": {"source_host": {"ip": "192.168.2.2"}, "target_host": {"ip": "192.168.1.2"}, "target_service": {"name": "ssh", "type": "passive", "version": "1", "is_local": false, "port": 22}}}',
           '{"action_type": "ActionType.FindData", "parameters": {"source_host": {"ip": "192.168.2.2", "mask": 24}, "target_host": {"ip": "192.168.2.2"}}}',
           '{"action_type": "ActionType.ScanNetwork", "parameters": {"source_host": {"ip": "192.168.2.2"}, "target_network": {"ip": "192.168.1.0", "mask": 24, "name": "lan"}}}',
           '{"action_type": "ActionType.JoinGame", "parameters": {"agent_info": {"name": "x", "role": "Attacker", "team": "red"}}}']


# a well-formed request followed by more bytes in the same message is not JSON: refused whole, nothing of it is played
_V_SCAN = '{"action_type": "ActionType.ScanNetwork", "parameters": {"source_host": {"ip": "192.168.2.2"}, "target_network": {"ip": "192.168.1.0", "mask": 24}}}'
_V_RESET = '{"action_type": "ActionType.ResetGame", "parameters": {"request_trajectory": false}}'
_V_QUIT = '{"action_type": "ActionType.QuitGame", "parameters": {}}'
_V_JOIN = '{"action_type": "ActionType.JoinGame", "parameters": {"agent_info": {"name": "x", "role": "Attacker"}}}'
TRAILING = [_V_SCAN + " x", _V_SCAN + _V_SCAN, _V_RESET + " }", _V_RESET + "EOF", _V_QUIT + ",", _V_QUIT + " " + _V_SCAN[:40], _V_JOIN + "]",
            _V_SCAN + "\n" + _V_RESET,
            # exactly one read buffer (ProtocolConfig.BUFFER_SIZE = 8192 bytes) of text that is not JSON: answered like any other
            # bad request, and nothing of it may linger and meet the next message of this or of another connection
            "x" * 8192]
GARBAGE += TRAILING


# agent names are arbitrary text chosen by the agent: empty, with path separators, dots, a NUL, non-ASCII, longer than a file name may be
ODD_NAMES = ["lone\ud83d", "", "a/b", "../up", "..", "nul\x00byte", "back\\slash", "n\u00e4me \u4e2d", "x" * 300, "\u00fc" * 200, " lead", "a_Attacker"]


# roles that are not allowed: unknown names and values that are not even text (a JSON list, object, number, null, boolean)
BAD_ROLES = ["Hacker", "", "attacker", ["Attacker"], {"role": "Attacker"}, 7, None, True, [], 1.5]


class Gen:
    """Drives one random session."""

    def __init__(self, rng, cfg, draw, n_events, burst=0.4, fault=0.15, bad=0.15, n_conns=None, objs=None, resets=0.12):
        self.rng = rng
        self.S = CR.Session(cfg, draw=draw, objs=objs)
        self.cfg = cfg
        self.n_events = n_events
        self.burst, self.fault, self.bad, self.resets = burst, fault, bad, resets
        self.next_port = 1
        self.names = {}
        self.n_conns = n_conns

    def new_addr(self):
        a = ("10.0.0.%d" % (self.next_port % 250 + 1), 40000 + self.next_port)
        self.next_port += 1
        return a

    def can_send(self, addr):
        c = self.S.d.conns[addr]
        return (not c.task.done()) and len(c.reader._buffer) == 0 and not c.reader._eof and c.reader._exception is None

    def live(self):
        return [a for a, c in self.S.d.conns.items() if not c.task.done()]

    def step_event(self):
        rng, S, g = self.rng, self.S, self.S.g
        live = self.live()
        req = int(self.cfg["env"]["required_players"])
        r = rng.random()
        if not live or (len(live) < req + 1 and r < 0.15) or (len(live) < req and r < 0.5):
            a = self.new_addr()
            S.connect(a)
            return
        a = rng.choice(live)
        if not self.can_send(a):
            S.run_iters(1)
            return
        r = rng.random()
        joined = a in g.agents
        if r < self.fault:
            k = rng.randrange(5)
            if k == 0:
                S.eof(a)
            elif k == 1:
                S.read_error(a)
            elif k == 2:
                S.write_fail(a)
            elif k == 3:
                S.send(a, b"\xff\xfe\x00\xfa", {"kind": "undecodable"})
            else:
                S.send(a, msg("QuitGame"), {"kind": "quit"})
            return
        if r < self.fault + self.bad:
            k = rng.randrange(6)
            if k == 0:
                S.send(a, rng.choice(GARBAGE), {"kind": "garbage"})
            elif k == 1:
                t, d = gen_invalid_game(rng)
                S.send(a, t, d)
            elif k == 2:
                S.send(a, json.dumps({"action_type": "ActionType.JoinGame", "parameters": {}}), {"kind": "join", "info": False})
            elif k == 3:
                role = rng.choice(BAD_ROLES)
                S.send(a, nsgenv.join("x", role), {"kind": "join", "name": "x", "role": role})
            elif k == 4:
                nm = rng.choice(["dup", "x", "a"])
                role = rng.choice(ROLES)
                S.send(a, nsgenv.join(nm, role), {"kind": "join", "name": nm, "role": role})    # second join if already joined
            else:
                t, d = gen_game(rng, g, a)        # game action possibly before joining
                S.send(a, t, d)
            return
        if not joined:
            nm = rng.choice(["a", "b", "c", "same"]) if rng.random() < 0.8 else rng.choice(ODD_NAMES)
            role = rng.choice(["Attacker", "Attacker", "Defender", "Benign"])
            S.send(a, nsgenv.join(nm, role), {"kind": "join", "name": nm, "role": role})
            return
        ended = g._episode_ends.get(a, False)
        if (ended and rng.random() < 0.6) or rng.random() < self.resets:
            tr = rng.random() < 0.5
            S.send(a, msg("ResetGame", request_trajectory=str(tr)) if tr or rng.random() < 0.5 else msg("ResetGame"),
                   {"kind": "reset", "traj": tr})
            return
        t, d = gen_game(rng, g, a)
        S.send(a, t, d)

    def run(self):
        rng, S = self.rng, self.S
        for _ in range(self.n_events):
            self.step_event()
            if rng.random() < self.burst:
                S.run_iters(rng.randrange(0, 4))
            else:
                S.settle()
        S.settle()
        return S


# ------------------------------------------------------------------------------------------------
# directed scenarios: multi-step histories that random generation reaches only rarely

def _scan(S, a):
    t, d = game_msg("ScanNetwork", source_host=ip("192.168.2.2"), target_network={"ip": "192.168.1.0", "mask": 24})
    S.send(a, t, d)


def _join(S, a, name, role):
    S.send(a, nsgenv.join(name, role), {"kind": "join", "name": name, "role": role})


def _leave(S, a, kind):
    if kind == "eof":
        S.eof(a)
    elif kind == "readerr":
        S.read_error(a)
    elif kind == "quit":
        S.send(a, msg("QuitGame"), {"kind": "quit"})
    else:
        S.send(a, b"\xff\xfe\x00\xfa", {"kind": "undecodable"})


def _reset(S, a, tr):
    S.send(a, msg("ResetGame", request_trajectory=str(tr)), {"kind": "reset", "traj": tr})


def directed_config(rng, required, max_steps, goal_at_once=False, defender=False):
    cfg, draw = gen_config(rng, required=required, defender=defender, max_steps=max_steps)
    A = cfg["coordinator"]["agents"]["Attacker"]
    g = copy.deepcopy(nsgenv.EMPTY_PART)
    if goal_at_once:
        g["known_networks"] = ["192.168.1.0/24"]          # known from the start: Success at the first action
    else:
        g["known_data"] = {"213.47.23.195": [["User1", "DataFromServer1"]]}
    A["goal"] = dict(g, description="goal", is_any_part_of_goal_random=False)
    cfg["coordinator"]["agents"]["Defender"]["goal"]["known_data"] = {"1.1.1.1": [["x", "y"]]}
    return cfg, draw


def directed(rng, k):
    """Run the k-th directed scenario; returns (Session, cfg, draw)."""
    kinds = ["eof", "readerr", "quit", "undecodable"]
    variant = (k // 24) % 2
    k = k % 24
    if k == 23:
        # three required players joining in the order Attacker, Defender, Attacker (agents of one role NOT adjacent in the order of
        # joining): everybody is paid by role and outcome - both attackers, whichever of them succeeds (variant 0: the first,
        # variant 1: nobody)
        cfg, draw = directed_config(rng, 3, 2)
        A = cfg["coordinator"]["agents"]["Attacker"]
        g0 = copy.deepcopy(nsgenv.EMPTY_PART)
        g0["known_hosts"] = ["192.168.1.2"]
        A["goal"] = dict(g0, description="goal", is_any_part_of_goal_random=False)
        cfg["coordinator"]["agents"]["Defender"].pop("max_steps", None)
        cfg["env"]["rewards"] = {"step": -1, "success": 100, "fail": -10}
        S = CR.Session(cfg, draw=draw)
        a1, dd, a2 = ("10.2.23.1", 1), ("10.2.23.2", 2), ("10.2.23.3", 3)
        S.connect(a1); S.connect(dd); S.connect(a2); S.settle()
        _join(S, a1, "att1", "Attacker"); _join(S, dd, "def", "Defender"); _join(S, a2, "att2", "Attacker"); S.settle()
        win, dwin = game_msg("ScanNetwork", source_host=ip("192.168.2.2"), target_network={"ip": "192.168.1.0", "mask": 24})
        lose, dlose = game_msg("ScanNetwork", source_host=ip("192.168.2.2"), target_network={"ip": "192.168.2.0", "mask": 24})
        fd, dfd = game_msg("FindData", source_host=ip("192.168.2.2"), target_host=ip("192.168.2.2"))
        for episode in range(2):
            first_wins = (variant + episode) % 2 == 0
            if first_wins:
                S.send(a1, win, dwin); S.settle()
            else:
                S.send(a1, lose, dlose); S.settle(); S.send(a1, lose, dlose); S.settle()
            S.send(a2, lose, dlose); S.settle(); S.send(a2, lose, dlose); S.settle()
            S.send(dd, fd, dfd); S.settle()
            for x in (a1, dd, a2):
                S.send(x, fd, dfd); S.settle()                           # refused: the same reason and reward
            _reset(S, a1, False); _reset(S, dd, True); _reset(S, a2, False); S.settle()
    elif k == 22:
        # a Defender with a step limit of its own uses it up while the attacker is still playing: its episode ends there, and what it
        # is told and paid at the end is decided by the attackers' outcome alone (variant 0: nobody succeeds -> Success and the
        # success reward; variant 1: the attacker succeeds afterwards -> Fail)
        cfg, draw = directed_config(rng, 2, 3)
        A = cfg["coordinator"]["agents"]["Attacker"]
        g0 = copy.deepcopy(nsgenv.EMPTY_PART)
        g0["known_hosts"] = ["192.168.1.2"]
        A["goal"] = dict(g0, description="goal", is_any_part_of_goal_random=False)
        cfg["coordinator"]["agents"]["Defender"]["max_steps"] = 2
        S = CR.Session(cfg, draw=draw)
        a, dd = ("10.2.22.1", 1), ("10.2.22.2", 2)
        S.connect(a); S.connect(dd); S.settle()
        _join(S, a, "att", "Attacker"); _join(S, dd, "def", "Defender"); S.settle()
        win, dwin = game_msg("ScanNetwork", source_host=ip("192.168.2.2"), target_network={"ip": "192.168.1.0", "mask": 24})
        lose, dlose = game_msg("ScanNetwork", source_host=ip("192.168.2.2"), target_network={"ip": "192.168.2.0", "mask": 24})
        fd, dfd = game_msg("FindData", source_host=ip("192.168.2.2"), target_host=ip("192.168.2.2"))
        for episode in range(2):
            S.send(a, lose, dlose); S.settle()
            S.send(dd, fd, dfd); S.settle()
            S.send(dd, fd, dfd); S.settle()                              # the defender's own limit: parked until the attacker is done
            if (variant + episode) % 2 == 0:
                S.send(a, lose, dlose); S.settle(); S.send(a, lose, dlose); S.settle()
            else:
                S.send(a, win, dwin); S.settle()
            S.send(dd, fd, dfd); S.settle()                              # refused: the same reason and reward
            _reset(S, a, True); _reset(S, dd, True); S.settle()
    elif k == 21:
        # depth of history WITHIN an episode: an attacker without a step limit (trajectories saved, global defender on with the draw
        # scripted to 0: whatever is checked is detected) plays FindData(X), then 99 actions that cross no threshold (one action of each
        # checked type in every window of five, never the same parameters twice), then FindData(X) AGAIN: the repeat counts over the
        # WHOLE episode, so action 101 is detected; the trajectory handed out holds all 101 actions
        cfg, _ = directed_config(rng, 1, None)
        cfg["coordinator"]["agents"]["Attacker"].pop("max_steps", None)
        cfg["env"]["use_global_defender"] = True
        cfg["env"]["save_trajectories"] = True
        draw = 0.0
        S = CR.Session(cfg, draw=draw)
        a = ("10.2.21.1", 1)
        S.connect(a); S.settle()
        _join(S, a, "long", "Attacker"); S.settle()
        fd, dfd = game_msg("FindData", source_host=ip("192.168.2.2"), target_host=ip("192.168.2.2"))
        S.send(a, fd, dfd); S.settle()
        n_mid = 99 if variant == 0 else 103
        for i in range(n_mid):
            if S.g._episode_ends.get(a):
                break
            # one action of each checked type in every window of five, never the same parameters twice, aimed at addresses that do not
            # exist (no effect, the view stays small): every ratio is 1/5, every run 1, every repeat count 1 - no threshold is crossed
            h = "10.9.%d.%d" % (i // 200, i % 200 + 1)
            c = i % 5
            if c == 0:
                t, d = game_msg("ScanNetwork", source_host=ip("192.168.2.2"), target_network={"ip": "10.9.%d.0" % (i % 250), "mask": 24})
            elif c == 1:
                t, d = game_msg("FindServices", source_host=ip("192.168.2.2"), target_host=ip(h))
            elif c == 2:
                t, d = game_msg("ExploitService", source_host=ip("192.168.2.2"), target_host=ip(h), target_service={"name": "ssh", "type": "passive", "version": "1", "is_local": False})
            elif c == 3:
                t, d = game_msg("FindData", source_host=ip("192.168.2.2"), target_host=ip(h))
            else:
                t, d = game_msg("ExfiltrateData", source_host=ip("192.168.2.2"), target_host=ip(h), data={"owner": "u", "id": "d%d" % i, "size": 0, "type": ""})
            S.send(a, t, d); S.settle()
        S.send(a, fd, dfd); S.settle()                                   # the same FindData again: checked, and (draw 0) detected
        S.send(a, fd, dfd); S.settle()                                   # refused
        _reset(S, a, True); S.settle()
        S.send(a, fd, dfd); S.settle()
        _reset(S, a, True); S.settle()
    elif k == 20:
        # all three roles, three required players. Variant 0: the attacker succeeds, everybody finishes and is paid, the attacker
        # asks for the reset; the Benign agent leaves and a new DEFENDER takes its place in the SAME episode and finishes: it is
        # paid for an episode in which an attacker succeeded (Fail), whatever the successful attacker has asked for since.
        # Variant 1: the attacker asks for a reset in the middle of its episode; the others' observations stay non-final and are
        # answered at once until the attacker has really finished
        cfg, draw = directed_config(rng, 3, 3)
        A = cfg["coordinator"]["agents"]["Attacker"]
        g0 = copy.deepcopy(nsgenv.EMPTY_PART)
        g0["known_hosts"] = ["192.168.1.2"]
        A["goal"] = dict(g0, description="goal", is_any_part_of_goal_random=False)
        cfg["coordinator"]["agents"]["Defender"].pop("max_steps", None)
        S = CR.Session(cfg, draw=draw)
        a, dd, x = ("10.2.20.1", 1), ("10.2.20.2", 2), ("10.2.20.3", 3)
        S.connect(a); S.connect(dd); S.connect(x); S.settle()
        _join(S, a, "att", "Attacker"); _join(S, dd, "def", "Defender"); _join(S, x, "ben", "Benign"); S.settle()
        win, dwin = game_msg("ScanNetwork", source_host=ip("192.168.2.2"), target_network={"ip": "192.168.1.0", "mask": 24})
        lose, dlose = game_msg("ScanNetwork", source_host=ip("192.168.2.2"), target_network={"ip": "192.168.2.0", "mask": 24})
        fd, dfd = game_msg("FindData", source_host=ip("192.168.2.2"), target_host=ip("192.168.2.2"))
        if variant == 0:
            for episode in range(2):
                S.send(a, win, dwin); S.settle()                         # success: parked until the others finish
                S.send(dd, fd, dfd); S.settle()
                S.send(x, fd, dfd); S.settle()
                _reset(S, a, False); S.settle()                          # the successful attacker asks for the next episode
                _leave(S, x, "quit" if episode == 0 else "eof"); S.settle()       # a Benign agent whose episode has ended says QuitGame
                x = ("10.2.20.%d" % (4 + episode), 4 + episode)
                S.connect(x); S.settle()
                _join(S, x, "late%d" % episode, "Defender" if episode == 0 else "Benign"); S.settle()
                S.send(x, fd, dfd); S.settle()                           # ends at once: no attacker is playing
                S.send(x, fd, dfd); S.settle()                           # refused: the same reason and reward
                _reset(S, dd, True); _reset(S, x, False); S.settle()
        else:
            S.send(a, lose, dlose); S.settle()
            _reset(S, a, False); S.settle()                              # mid-episode: its episode has not ended
            S.send(dd, fd, dfd); S.settle()                              # non-final: answered at once
            S.send(x, fd, dfd); S.settle()
            S.send(dd, fd, dfd); S.settle()
            _reset(S, dd, False); _reset(S, x, True); S.settle()         # consensus: the new episode starts for all three
            S.send(a, win, dwin); S.settle()
            S.send(dd, fd, dfd); S.send(x, fd, dfd); S.settle()
            _reset(S, a, True); _reset(S, dd, False); _reset(S, x, False); S.settle()
    elif k == 19:
        # blocks placed by ONE agent and learned by ANOTHER through FindData on a host it controls: the views held and sent
        # stay sets (they decode to themselves), and both agents - who now know blocks of the same host - can leave
        cfg, draw = directed_config(rng, 2, 12)
        cfg["coordinator"]["agents"]["Defender"].pop("max_steps", None)
        S = CR.Session(cfg, draw=draw)
        a, dd = ("10.2.19.1", 1), ("10.2.19.2", 2)
        S.connect(a); S.connect(dd); S.settle()
        _join(S, a, "att", "Attacker"); _join(S, dd, "def", "Defender"); S.settle()
        fd, dfd = game_msg("FindData", source_host=ip("192.168.2.2"), target_host=ip("192.168.2.2"))
        if variant == 1:
            S.send(a, fd, dfd); S.settle()
        for blocked in ("192.168.1.2", "192.168.1.3"):
            t, d = game_msg("BlockIP", source_host=ip("192.168.2.2"), target_host=ip("192.168.2.2"), blocked_host=ip(blocked))
            S.send(dd, t, d); S.settle()
            if variant == 1:
                S.send(a, fd, dfd); S.settle()
        S.send(a, fd, dfd); S.settle()
        S.send(dd, fd, dfd); S.settle()
        _scan(S, a); S.settle()
        if variant == 0:
            S.send(dd, msg("QuitGame"), {"kind": "quit"}); S.settle()
            S.send(a, msg("QuitGame"), {"kind": "quit"}); S.settle()
        else:
            _leave(S, a, "eof"); S.settle()
            _leave(S, dd, "quit"); S.settle()
        c, e = ("10.2.19.3", 3), ("10.2.19.4", 4)
        if variant == 1:
            c = ("fe80::1c", 45019, 0, 3)        # an IPv6 peer: its address is a 4-tuple (host, port, flow info, scope)
        S.connect(c); S.connect(e); S.settle()
        # (the name carries an unpaired surrogate - legal JSON text "\\ud83d"; the confirmation echoes what it must)
        _join(S, c, "att2\ud83d" if variant == 0 else "att2", "Attacker"); _join(S, e, "def2", "Defender"); S.settle()
        _scan(S, c); S.settle()
    elif k == 18:
        # two attackers that control the same hosts: one ends (out of steps) right after looking into a host, then the other
        # delivers the goal's datum to THAT host and succeeds. The ended agent's stored view, reason and reward stay as they
        # were when it ended (its final answer, built after the other's delivery, and every refusal afterwards)
        cfg, draw = directed_config(rng, 2, 3)
        A = cfg["coordinator"]["agents"]["Attacker"]
        A["start_position"] = dict(copy.deepcopy(nsgenv.EMPTY_PART), controlled_hosts=["213.47.23.195", "192.168.2.2", "192.168.1.2", "192.168.1.3"])
        g0 = copy.deepcopy(nsgenv.EMPTY_PART)
        g0["known_data"] = {"192.168.1.3": [["User1", "DataFromServer1"]]}
        A["goal"] = dict(g0, description="goal", is_any_part_of_goal_random=False)
        S = CR.Session(cfg, draw=draw)
        a, b = ("10.2.18.1", 1), ("10.2.18.2", 2)
        S.connect(a); S.connect(b); S.settle()
        _join(S, a, "a", "Attacker"); _join(S, b, "b", "Attacker"); S.settle()
        look, dlook = game_msg("FindData", source_host=ip("192.168.1.3"), target_host=ip("192.168.1.3"))
        src, dsrc = game_msg("FindData", source_host=ip("192.168.1.2"), target_host=ip("192.168.1.2"))
        ex, dex = game_msg("ExfiltrateData", source_host=ip("192.168.1.2"), target_host=ip("192.168.1.3"),
                           data={"owner": "User1", "id": "DataFromServer1", "size": 0, "type": ""})
        for it in range(2):
            _scan(S, a); S.settle()
            _scan(S, a); S.settle()
            S.send(b, src, dsrc); S.settle()
            S.send(a, look, dlook); S.settle()                          # a: third and last step, the goal is not reached
            S.send(b, ex, dex); S.settle()                              # b: delivers into the host a just looked into
            S.send(a, look, dlook); S.settle()                          # refused: the same view, reason and reward
            if variant == 1:
                _leave(S, b, "eof"); S.settle()
                b = ("10.2.18.%d" % (3 + it), 3 + it)
                S.connect(b); S.settle()
                _join(S, b, "c", "Attacker"); S.settle()
                S.send(b, src, dsrc); S.settle()
                S.send(a, look, dlook); S.settle()
                S.send(b, ex, dex); S.settle()
                S.send(a, look, dlook); S.settle()
            _reset(S, a, True); _reset(S, b, False); S.settle()
    elif k == 17:
        # an attacker succeeds in one episode and fails in the next (and the other way round): the defender's reason and bonus
        # are decided by THIS episode's attackers only - nothing of an earlier episode counts
        cfg, draw = directed_config(rng, 2, 2)
        A = cfg["coordinator"]["agents"]["Attacker"]
        g0 = copy.deepcopy(nsgenv.EMPTY_PART)
        g0["known_hosts"] = ["192.168.1.2"]                              # reached by scanning 192.168.1.0/24, not by 192.168.2.0/24
        A["goal"] = dict(g0, description="goal", is_any_part_of_goal_random=False)
        cfg["coordinator"]["agents"]["Defender"].pop("max_steps", None)
        if variant == 1:
            cfg["env"]["rewards"] = {"step": -1, "success": 0, "fail": -10}       # a success reward of nothing is still the SUCCESS reward
        S = CR.Session(cfg, draw=draw)
        a, dd = ("10.2.17.1", 1), ("10.2.17.2", 2)
        S.connect(a); S.connect(dd); S.settle()
        _join(S, a, "att", "Attacker"); _join(S, dd, "def", "Defender"); S.settle()
        win, dt = game_msg("ScanNetwork", source_host=ip("192.168.2.2"), target_network={"ip": "192.168.1.0", "mask": 24})
        lose, dl = game_msg("ScanNetwork", source_host=ip("192.168.2.2"), target_network={"ip": "192.168.2.0", "mask": 24})
        fd, dfd = game_msg("FindData", source_host=ip("192.168.2.2"), target_host=ip("192.168.2.2"))
        plan = [True, False, False, True] if variant == 0 else [False, True, False]
        for wins in plan:
            if wins:
                S.send(a, win, dt); S.settle()
            else:
                S.send(a, lose, dl); S.settle(); S.send(a, lose, dl); S.settle()      # runs out of steps
            S.send(dd, fd, dfd); S.settle()                                          # no attacker playing any more: the defender ends
            S.send(dd, fd, dfd); S.settle()                                          # refused: repeats reason and reward
            _reset(S, a, False); _reset(S, dd, True); S.settle()
    elif k == 16:
        # episodes without a single action, with an initial view that changes from episode to episode (a random start host in
        # a scenario with several start hosts): every handed-out trajectory starts with the initial view of ITS episode
        cfg, draw = directed_config(rng, 1, 4)
        cfg["env"]["scenario"] = "scenario1" if variant == 0 else "three_nets"
        cfg["env"]["save_trajectories"] = True
        A = cfg["coordinator"]["agents"]["Attacker"]
        A["start_position"]["controlled_hosts"] = ["213.47.23.195", "random"]
        g0 = copy.deepcopy(nsgenv.EMPTY_PART)
        g0["known_hosts"] = ["1.1.1.1"]
        A["goal"] = dict(g0, description="goal", is_any_part_of_goal_random=False)
        S = CR.Session(cfg, draw=draw)
        a = ("10.2.16.1", 1)
        S.connect(a); S.settle()
        # (trajectories are saved: the name - arbitrary text - is not usable as a file name as it stands)
        _join(S, a, "z/9" if variant == 0 else "z" * 300, "Attacker"); S.settle()
        for n_actions in (2, 0, 1, 0, 0, 2, 0):
            for _ in range(n_actions):
                st = S.g._agent_states.get(a)
                src = sorted((str(h) for h in st.controlled_hosts), key=lambda x: (not x.startswith("192.168."), x))[0]
                nets = sorted((n.ip, n.mask) for n in st.known_networks)
                n = nets[_ % len(nets)]
                t, d = game_msg("ScanNetwork", source_host=ip(src), target_network={"ip": n[0], "mask": n[1]})
                S.send(a, t, d); S.settle()
            _reset(S, a, True); S.settle()
    elif k == 15:
        # dynamic addresses with a REACHABLE goal: the win condition follows the re-labelling, episode after episode
        cfg, draw = directed_config(rng, 1, 6)
        cfg["env"]["use_dynamic_addresses"] = True
        A = cfg["coordinator"]["agents"]["Attacker"]
        g0 = copy.deepcopy(nsgenv.EMPTY_PART)
        if variant == 0:
            g0["known_hosts"] = ["192.168.1.2"]                          # found by scanning the (re-labelled) 192.168.1.0/24
        else:
            g0["known_networks"] = ["192.168.3.0/24"]
            g0["controlled_hosts"] = ["192.168.2.2"]                     # reached from the start, under every labelling
        A["goal"] = dict(g0, description="Find the host 192.168.1.2", is_any_part_of_goal_random=False)
        S = CR.Session(cfg, draw=draw)
        a = ("10.2.15.1", 1)
        S.connect(a); S.settle()
        _join(S, a, "dyn", "Attacker"); S.settle()
        for episode in range(3):
            for _ in range(6):
                if S.g._episode_ends.get(a):
                    break
                st = S.g._agent_states.get(a)
                src = sorted((str(h) for h in st.controlled_hosts), key=lambda x: (not x.startswith(("10.", "192.168.", "172.")), x))[0]
                unseen = sorted((n.ip, n.mask) for n in st.known_networks)
                n = unseen[_ % len(unseen)]
                t, d = game_msg("ScanNetwork", source_host=ip(src), target_network={"ip": n[0], "mask": n[1]})
                S.send(a, t, d); S.settle()
            t, d = game_msg("FindData", source_host=ip(src), target_host=ip(src))
            S.send(a, t, d); S.settle()                                  # refused once the episode has ended
            _reset(S, a, episode % 2 == 0); S.settle()
    elif k == 14:
        # a goal that lists two data for one host: it is reached when BOTH are there, whatever the order of delivery
        # (variant 0: the last-listed datum is delivered first); before that the episode goes on
        cfg, draw = directed_config(rng, 1, 12)
        A = cfg["coordinator"]["agents"]["Attacker"]
        g0 = copy.deepcopy(nsgenv.EMPTY_PART)
        if variant == 0:
            g0["known_data"] = {"213.47.23.195": [["User1", "DataFromServer1"], ["User2", "Data2FromServer1"]]}
        else:
            g0["known_data"] = {"192.168.1.2": [["User1", "DataFromServer1"]]}      # the agent will know MORE than the goal lists there
        A["goal"] = dict(g0, description="goal", is_any_part_of_goal_random=False)
        S = CR.Session(cfg, draw=draw)
        a = ("10.2.14.1", 1)
        S.connect(a); S.settle()
        _join(S, a, "a", "Attacker"); S.settle()
        _scan(S, a); S.settle()
        t, d = game_msg("FindServices", source_host=ip("192.168.2.2"), target_host=ip("192.168.1.2")); S.send(a, t, d); S.settle()
        st = S.g._agent_states[a]
        from AIDojoCoordinator.game_components import IP as _IP
        svcs = sorted(st.known_services.get(_IP("192.168.1.2"), []), key=lambda x: x.name)
        for sv in svcs:
            if S.g._episode_ends.get(a):
                break
            t, d = game_msg("ExploitService", source_host=ip("192.168.2.2"), target_host=ip("192.168.1.2"), target_service=svc(sv))
            S.send(a, t, d); S.settle()
        t, d = game_msg("FindData", source_host=ip("192.168.1.2"), target_host=ip("192.168.1.2")); S.send(a, t, d); S.settle()
        order = [("User2", "Data2FromServer1"), ("User1", "DataFromServer1")]
        for owner, did in order:
            t, d = game_msg("ExfiltrateData", source_host=ip("192.168.1.2"), target_host=ip("213.47.23.195"),
                            data={"owner": owner, "id": did, "size": 0, "type": ""})
            S.send(a, t, d); S.settle()
        _scan(S, a); S.settle()
        if not S.g._episode_ends.get(a):
            # an action without effect whose datum id carries an unpaired surrogate: recorded, and echoed in the requested trajectory
            t, d = game_msg("ExfiltrateData", source_host=ip("192.168.2.2"), target_host=ip("213.47.23.195"),
                            data={"owner": "User1", "id": "report\udc00", "size": 0, "type": ""})
            S.send(a, t, d); S.settle()
        _reset(S, a, True); S.settle()
    elif k == 13:
        # a Defender that reaches ITS OWN goal (an empty goal is satisfied at its first action) while no attacker succeeds:
        # its reason and bonus are decided by the attackers' outcome only
        cfg, draw = directed_config(rng, 2, 2)
        cfg["coordinator"]["agents"]["Defender"]["goal"]["known_data"] = {}
        cfg["coordinator"]["agents"]["Defender"].pop("max_steps", None)
        S = CR.Session(cfg, draw=draw)
        a, dd = ("10.2.13.1", 1), ("10.2.13.2", 2)
        S.connect(a); S.connect(dd); S.settle()
        order = [(a, "att", "Attacker"), (dd, "def", "Defender")]
        for x, nm, role in (order if variant == 0 else order[::-1]):
            _join(S, x, nm, role)
        S.settle()
        t, d = game_msg("FindData", source_host=ip("192.168.2.2"), target_host=ip("192.168.2.2"))
        S.send(dd, t, d); S.settle()                                     # the defender's own goal is reached
        _scan(S, a); S.settle(); _scan(S, a); S.settle()                 # the attacker runs out of steps
        S.send(dd, t, d); S.settle()
        _scan(S, a); S.settle()
        _reset(S, a, False); _reset(S, dd, True); S.settle()
    elif k == 12:
        # a finished and rewarded agent leaves; a new connection takes its place and plays to its end without a reset in between
        # (in the address-reuse twin of this session the newcomer comes from the departed agent's address)
        cfg, draw = directed_config(rng, 2, 2)
        S = CR.Session(cfg, draw=draw)
        a, b, c, e = ("10.2.12.1", 1), ("10.2.12.2", 2), ("10.2.12.3", 3), ("10.2.12.4", 4)
        S.connect(a); S.connect(b); S.settle()
        _join(S, a, "a", "Attacker"); _join(S, b, "b", "Attacker"); S.settle()
        for _ in range(2):
            _scan(S, a); S.settle(); _scan(S, b); S.settle()
        _leave(S, a, "quit" if variant == 0 else rng.choice(kinds)); S.settle()
        S.connect(c); S.settle()
        if variant == 1:
            # out of order on the new connection (in the twin: from the departed agent's address): refused, nothing remembered
            _reset(S, c, False); S.settle()
            _scan(S, c); S.settle()
        _join(S, c, "c", "Attacker"); S.settle()
        _scan(S, c); S.settle(); _scan(S, c); S.settle()                 # the newcomer's final observation carries its bonus
        _scan(S, c); S.settle()                                          # refused
        _reset(S, b, False); _reset(S, c, True); S.settle()
        _scan(S, c); S.settle()
        _leave(S, b, rng.choice(kinds)); S.settle()
        S.connect(e); S.settle()
        _reset(S, e, True); S.settle()                                   # a reset request before joining: refused
        _join(S, e, "e", rng.choice(["Attacker", "Defender"])); S.settle()
        _scan(S, c); S.settle()
    elif k == 11:
        # dynamic addresses: several consecutive collective resets (each one re-labels the network), actions taken from the
        # current view, a departure and a join after a re-labelling
        cfg, draw = directed_config(rng, 1 + variant, 3 if variant == 0 else 8)
        cfg["env"]["use_dynamic_addresses"] = True
        cfg["coordinator"]["agents"]["Defender"].pop("max_steps", None)
        A = cfg["coordinator"]["agents"]["Attacker"]
        g0 = copy.deepcopy(nsgenv.EMPTY_PART)
        g0["known_hosts"] = ["1.1.1.1"]                                  # unreachable under every labelling
        A["goal"] = dict(g0, description="goal", is_any_part_of_goal_random=False)
        S = CR.Session(cfg, draw=draw)
        ags = [("10.2.11.%d" % (i + 1), i + 1) for i in range(1 + variant)]
        for x in ags:
            S.connect(x)
        S.settle()
        for i, x in enumerate(ags):
            _join(S, x, "d%d" % i, "Attacker" if i == 0 else "Defender")   # the Defender starts with 'all_local'
        S.settle()

        def world_scan(x):
            # every network of the (re-labelled) world by the name the world gives it - public ones keep their host bits
            st = S.g._agent_states.get(x)
            if st is None:
                return
            src = sorted(str(h) for h in st.controlled_hosts)[0]
            for n in sorted((str(k.ip), k.mask) for k in S.g._networks):
                if S.g._episode_ends.get(x):
                    break
                t, d = game_msg("ScanNetwork", source_host=ip(src), target_network={"ip": n[0], "mask": n[1]})
                S.send(x, t, d); S.settle()

        def view_scan(x):
            st = S.g._agent_states.get(x)
            if st is None:
                return
            src = sorted(str(h) for h in st.controlled_hosts)[0]
            nets = sorted((n.ip, n.mask) for n in st.known_networks)
            n = nets[rng.randrange(len(nets))]
            t, d = game_msg("ScanNetwork", source_host=ip(src), target_network={"ip": n[0], "mask": n[1]})
            S.send(x, t, d)
        for episode in range(4):
            if episode == 0:
                # a block placed in the first episode must be gone (under every later labelling) after the reset
                st0 = S.g._agent_states.get(ags[0])
                own = sorted(str(h) for h in st0.controlled_hosts)
                t, d = game_msg("BlockIP", source_host=ip(own[-1]), target_host=ip(own[-1]), blocked_host=ip(own[0]))
                S.send(ags[0], t, d); S.settle()
            for _ in range(rng.choice([1, 3])):
                for x in ags:
                    view_scan(x); S.settle()
            if episode == 1:
                world_scan(ags[-1])
            for i, x in enumerate(ags):
                _reset(S, x, (episode + i) % 2 == 0)
            S.settle()
        view_scan(ags[0]); S.settle()
        _leave(S, ags[0], rng.choice(kinds)); S.settle()
        n = ("10.2.11.9", 9)
        S.connect(n); S.settle()
        _join(S, n, "late", "Attacker"); S.settle()
        view_scan(n); S.settle()
    elif k == 10:
        # an agent changes the world and leaves; the idle rest of the game resets; a newcomer joins: the reset must give the
        # pristine world whoever acted before (the remaining agents have not taken a single step)
        cfg, draw = directed_config(rng, 2, 6)
        cfg["coordinator"]["agents"]["Defender"].pop("max_steps", None)       # the busy defender must not run out of steps (it would then
        S = CR.Session(cfg, draw=draw)                                        # wait at the end barrier and its slot would stay taken)
        a, b, c = ("10.2.10.1", 1), ("10.2.10.2", 2), ("10.2.10.3", 3)
        S.connect(a); S.connect(b); S.settle()
        _join(S, a, "idle", "Attacker"); _join(S, b, "busy", "Defender"); S.settle()
        for blocked in ("192.168.1.3", "192.168.1.4"):
            t, d = game_msg("BlockIP", source_host=ip("192.168.1.2"), target_host=ip("192.168.1.2"), blocked_host=ip(blocked))
            S.send(b, t, d); S.settle()
        _leave(S, b, rng.choice(kinds)); S.settle()
        _reset(S, a, False); S.settle()
        S.connect(c); S.settle()
        _join(S, c, "new", "Defender"); S.settle()
        t, d = game_msg("FindServices", source_host=ip("192.168.1.2"), target_host=ip("192.168.1.3"))
        S.send(c, t, d); S.settle()
        _scan(S, a); S.settle()
        _reset(S, a, True); _reset(S, c, False); S.settle()
    elif k == 8:
        # two attackers and a defender: one attacker reaches the goal, the other runs out of steps; the defender's reason and
        # bonus must reflect that SOME attacker succeeded, whichever joined first
        cfg, draw = directed_config(rng, 3, 2)
        A = cfg["coordinator"]["agents"]["Attacker"]
        g0 = copy.deepcopy(nsgenv.EMPTY_PART)
        g0["known_hosts"] = ["192.168.1.2"]                              # reached by scanning 192.168.1.0/24
        A["goal"] = dict(g0, description="goal", is_any_part_of_goal_random=False)
        S = CR.Session(cfg, draw=draw)
        w, l, dd = ("10.2.8.1", 1), ("10.2.8.2", 2), ("10.2.8.3", 3)
        for x in (w, l, dd):
            S.connect(x)
        S.settle()
        order = [(w, "win"), (l, "lose")] if variant == 0 else [(l, "lose"), (w, "win")]
        for x, nm in order:
            _join(S, x, nm, "Attacker")
        _join(S, dd, "def", "Defender"); S.settle()
        t, d = game_msg("FindData", source_host=ip("192.168.2.2"), target_host=ip("192.168.2.2"))
        S.send(l, t, d); S.settle()
        _scan(S, w); S.settle()                                          # the winner reaches the goal
        S.send(l, t, d); S.settle()                                      # the loser times out
        S.send(dd, t, d); S.settle()                                     # the defender's step ends its episode: rewards
        S.send(dd, t, d); S.settle()                                     # refused probes repeat reason and reward
        _scan(S, w); S.settle()
        for x in (w, l, dd):
            _reset(S, x, False)
        S.settle()
    elif k == 9:
        # detection exactly at the step limit: the defender's decision comes before the timeout in the status rule
        cfg, draw = directed_config(rng, 1, 5, defender=True)
        S = CR.Session(cfg, draw=0.0)
        a = ("10.2.9.1", 1)
        S.connect(a); S.settle()
        _join(S, a, "a", "Attacker"); S.settle()
        fs, dfs = game_msg("FindServices", source_host=ip("192.168.2.2"), target_host=ip("192.168.2.2"))
        fd, dfd = game_msg("FindData", source_host=ip("192.168.2.2"), target_host=ip("192.168.2.2"))
        for t, d in ((fs, dfs), (fd, dfd), (fs, dfs)):
            S.send(a, t, d); S.settle()
        _scan(S, a); S.settle(); _scan(S, a); S.settle()                 # fifth action: window full, threshold met, draw 0.0
        _scan(S, a); S.settle()                                          # refused
        _reset(S, a, True); S.settle()
        draw = 0.0
    elif k == 7:
        # bad requests tour: every kind of bad request, before and after joining, with a second agent waiting at a barrier
        cfg, draw = directed_config(rng, 2, 4)
        S = CR.Session(cfg, draw=draw)
        a, b = ("10.2.7.1", 1), ("10.2.7.2", 2)
        S.connect(a); S.connect(b); S.settle()
        t, d = game_msg("FindData", source_host=ip("192.168.2.2"), target_host=ip("192.168.2.2"))
        S.send(a, t, d); S.settle()                                   # game action before joining
        _reset(S, a, False); S.settle()                               # reset before joining
        S.send(a, nsgenv.join("x", "Hacker"), {"kind": "join", "name": "x", "role": "Hacker"}); S.settle()
        for role in rng.sample(BAD_ROLES[3:], 3):                     # roles that are not text
            S.send(a, nsgenv.join("x", role), {"kind": "join", "name": "x", "role": role}); S.settle()
        _join(S, a, "a", "Attacker"); S.settle()                      # held at the start barrier
        _join(S, b, "b", rng.choice(["Attacker", "Defender"])); S.settle()
        _join(S, a, "a2", "Attacker"); S.settle()                     # second join of a joined agent
        _scan(S, a); S.settle()
        for gb in rng.sample(GARBAGE, 5) + [x for x in GARBAGE if '"extra"' in x or '"port"' in x or '"mask": 24}, "target_host"' in x or '"name": "lan"' in x or '"team"' in x or "3232235777" in x or "ActionType.\"" in x or "ActionType.Network" in x or "ActionType.Game" in x] + TRAILING:
            S.send(rng.choice([a, b]), gb, {"kind": "garbage"}); S.settle()
        t, d = gen_invalid_game(rng)
        S.send(b, t, d); S.settle()
        _reset(S, a, True); S.settle()                                # a waits at the reset barrier
        _join(S, b, "b2", "Defender"); S.settle()                     # second join while the other waits
        S.send(b, rng.choice(GARBAGE), {"kind": "garbage"}); S.settle()
        t, d = game_msg("BlockIP", source_host=ip("192.168.2.2"), target_host=ip("192.168.2.2"), blocked_host=ip("8.8.8.8"))
        S.send(b, t, d); S.settle()
        _reset(S, b, False); S.settle()
    elif k == 0:
        # a successful attacker waits; the other agent leaves; a new defender joins the finished game and ends
        cfg, draw = directed_config(rng, 2, 5, goal_at_once=True)
        S = CR.Session(cfg, draw=draw)
        a, b, c = ("10.2.0.1", 1), ("10.2.0.2", 2), ("10.2.0.3", 3)
        S.connect(a); S.connect(b); S.settle()
        _join(S, a, "a", "Attacker"); _join(S, b, "b", rng.choice(["Attacker", "Defender"])); S.settle()
        _scan(S, a); S.settle()
        _leave(S, b, rng.choice(kinds)); S.settle()
        S.connect(c); S.settle()
        _join(S, c, "c", "Defender"); S.settle()
        t, d = game_msg("FindData", source_host=ip("192.168.2.2"), target_host=ip("192.168.2.2"))
        S.send(c, t, d); S.settle()
        _scan(S, a); S.settle()
        _reset(S, a, True); _reset(S, c, False); S.settle()
    elif k == 1:
        # finals delivered, then another agent leaves before the reset, then refused probes
        cfg, draw = directed_config(rng, 2, 2)
        S = CR.Session(cfg, draw=draw)
        a, b = ("10.2.1.1", 1), ("10.2.1.2", 2)
        S.connect(a); S.connect(b); S.settle()
        _join(S, a, "a", "Attacker"); _join(S, b, "b", rng.choice(["Attacker", "Defender"])); S.settle()
        for _ in range(2):
            _scan(S, a); S.settle()
        t, d = game_msg("FindData", source_host=ip("192.168.2.2"), target_host=ip("192.168.2.2"))
        for _ in range(2):
            S.send(b, t, d); S.settle()
        _scan(S, a); S.settle()
        _leave(S, b, rng.choice(kinds)); S.settle()
        _scan(S, a); S.settle()
        _reset(S, a, True); S.settle()
    elif k == 2:
        # one agent parked at the end barrier, the other (still playing) leaves
        cfg, draw = directed_config(rng, 2, 2)
        S = CR.Session(cfg, draw=draw)
        a, b = ("10.2.2.1", 1), ("10.2.2.2", 2)
        S.connect(a); S.connect(b); S.settle()
        _join(S, a, "a", "Attacker"); _join(S, b, "b", "Attacker"); S.settle()
        _scan(S, a); S.settle(); _scan(S, b); S.settle(); _scan(S, a); S.settle()
        _leave(S, b, rng.choice(kinds)); S.settle()
        _scan(S, a); S.settle()
    elif k == 3:
        # three agents: reset requests and a departure while the others wait for the reset
        cfg, draw = directed_config(rng, 3, 1)
        S = CR.Session(cfg, draw=draw)
        a, b, c = ("10.2.3.1", 1), ("10.2.3.2", 2), ("10.2.3.3", 3)
        for x in (a, b, c):
            S.connect(x)
        S.settle()
        _join(S, a, "a", "Attacker"); _join(S, b, "b", "Attacker"); _join(S, c, "c", "Attacker"); S.settle()
        _scan(S, a); _scan(S, b); S.settle()
        _reset(S, a, False); S.settle()
        who = rng.choice([b, c])
        _leave(S, who, rng.choice(kinds)); S.settle()
        other = c if who == b else b
        _scan(S, other); S.settle()
        _reset(S, other, True); S.settle()
    elif k == 4:
        # bursts: a join arrives together with the last action / the last reset request
        cfg, draw = directed_config(rng, 2, 2)
        S = CR.Session(cfg, draw=draw)
        a, b, c = ("10.2.4.1", 1), ("10.2.4.2", 2), ("10.2.4.3", 3)
        S.connect(a); S.connect(b); S.settle()
        _join(S, a, "a", "Attacker"); _join(S, b, "b", "Attacker"); S.settle()
        _scan(S, a); S.settle()
        S.eof(b); S.settle()
        S.connect(c); S.settle()
        _scan(S, a); _join(S, c, "c", "Attacker"); S.settle()
        _scan(S, c); S.settle(); _scan(S, c); S.settle()
        _reset(S, a, False); S.run_iters(rng.randrange(0, 3)); _reset(S, c, True); S.settle()
    elif k == 5:
        # two episodes: reset without / with the trajectory request, with the global defender on
        cfg, draw = directed_config(rng, 1, 3, defender=True)
        S = CR.Session(cfg, draw=0.999)
        a = ("10.2.5.1", 1)
        S.connect(a); S.settle()
        _join(S, a, "a", "Attacker"); S.settle()
        _scan(S, a); S.settle(); _scan(S, a); S.settle()
        _reset(S, a, False); S.settle()
        _scan(S, a); S.settle()
        _reset(S, a, True); S.settle()
        _reset(S, a, True); S.settle()
        draw = 0.999
    else:
        # connection slots: over-limit connections, quits and reconnects
        cfg, draw = directed_config(rng, 1, 2)
        S = CR.Session(cfg, draw=draw)
        addrs = [("10.2.6.%d" % i, i) for i in range(1, 7)]
        S.connect(addrs[0]); S.connect(addrs[1]); S.settle()
        _join(S, addrs[0], "a", "Attacker"); S.settle()
        if variant == 1:
            # a stray newline / blank message is a message: it is answered (BAD_REQUEST), then the peer goes away without
            # saying goodbye - the slot must come back
            S.send(addrs[0], rng.choice(["\n", "   ", "\t\n"]), {"kind": "garbage"}); S.settle()
            _leave(S, addrs[0], rng.choice(["eof", "readerr"])); S.settle()
        else:
            _leave(S, addrs[0], "quit"); S.settle()
        S.connect(addrs[2]); S.settle()
        _join(S, addrs[2], "b", "Attacker"); S.settle()
        S.write_fail(addrs[2]); _scan(S, addrs[2]); S.settle()
        S.connect(addrs[3]); S.settle()
        _join(S, addrs[3], "c", "Attacker"); S.settle()
        _leave(S, addrs[3], rng.choice(kinds)); S.settle()
        S.connect(addrs[4]); S.connect(addrs[5]); S.settle()
        _join(S, addrs[4], "d", "Defender"); S.settle()
    S.settle()
    return S, cfg, draw
