"""C08: a reset restores the world."""
import check as CK
from props import worldcommon as WC
from props.c02 import ASSUME
from props.c02 import replay as _walk_replay

TRANSLATORS = ["enums", "defender", "dispatch"]
COQ_FILES = ["Props/C08.v"]


def replay(ctx, payload):
    if payload.get("kind") in ("coordinator_session", "coordinator_session_reuse_twin"):
        from props import coordcommon as CC
        return CC.replay_session(ctx, "C08", payload)
    return _walk_replay(ctx, payload)


def correspondence(ctx):
    th = ctx.tier == "thorough"
    # the reset as the GAME performs it (coordinator reset task, after any interleaving of actions, departures and joins):
    # multi-agent sessions on the real coordinator; a monitor compares the world tables with the pristine ones whenever the
    # reset task has reset the game (tagged C08 in coordcommon); the sessions are also followed by the coordinator model
    from props import coordcommon as CC
    CC.run_sessions(ctx, "C08", 70 if th else 38,
                    lambda r: dict(n_events=r.choice([50, 80]), burst=0.15, fault=0.06, bad=0.02, resets=0.3),
                    lambda r: dict(required=r.choice([1, 2, 2, 3]), max_steps=r.choice([2, 3, 6])))
    sess_cov = {k: ctx.coverage.get(k) for k in ("sessions", "labels_followed", "response_and_barrier_statistics")}
    ctx.coverage = {"coordinator_sessions": sess_cov}
    WC.world_suite(ctx, "C08", tags={"reset", "init", "load"}, walks_per_spec=4 if th else 1, n_generated=24 if th else 6,
                   n_steps=160 if th else 80, perturb=0.0, resets=20)
    ctx.assumptions += ASSUME + ["static addresses (dynamic re-labelling is C13)"]
