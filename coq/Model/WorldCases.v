(* Support for the world correspondence checks: canonical forms and comparisons. *)
From stdpp Require Import gmap.
From Coq Require Import ZArith NArith.
From NSG Require Import Model.World Model.Load Model.Remap.

Definition canon_map {K A} `{Countable K} `{Countable A} (m : gmap K (gset A)) : list (K * list A) :=
  map (fun kv => (fst kv, elements (snd kv))) (map_to_list m).

Definition view_canon (v : view) :=
  (elements (v_ctrl v), elements (v_hosts v), canon_map (v_svcs v), canon_map (v_data v),
   elements (v_nets v), canon_map (v_blocks v)).

Definition view_eqb (a b : view) : bool := bool_decide (view_canon a = view_canon b).

(* the tables of the implementation that the harness can read out *)
Definition tables_canon (w : world) :=
  (map_to_list (w_ip2host w), canon_map (w_nets w), canon_map (w_services w), canon_map (w_data w),
   canon_map (w_fw w), canon_map (w_blocks w)).
Definition pristine_canon (w : world) := (canon_map (w_data0 w), canon_map (w_fw0 w)).

Definition world_eqb (a b : world) : bool :=
  bool_decide (tables_canon a = tables_canon b) && bool_decide (pristine_canon a = pristine_canon b).

(* build tables from association lists written by the harness *)
Definition mk_map {K A} `{Countable K} `{Countable A} (l : list (K * list A)) : gmap K (gset A) :=
  list_to_map (map (fun kv => (fst kv, list_to_set (snd kv))) l).

Definition mk_view (ctrl hosts : list ip) (svcs : list (ip * list svc)) (dt : list (ip * list data))
           (nets : list net) (blocks : list (ip * list ip)) : view :=
  {| v_ctrl := list_to_set ctrl; v_hosts := list_to_set hosts; v_svcs := mk_map svcs; v_data := mk_map dt;
     v_nets := list_to_set nets; v_blocks := mk_map blocks |}.

Definition mk_world (ip2host : list (ip * node)) (nets : list (net * list ip)) (svcs : list (node * list svc))
           (dt : list (node * list data)) (fw : list (ip * list ip)) (blocks : list (ip * list ip))
           (dt0 : list (node * list data)) (fw0 : list (ip * list ip)) : world :=
  {| w_ip2host := list_to_map ip2host; w_nets := mk_map nets; w_services := mk_map svcs; w_data := mk_map dt;
     w_fw := mk_map fw; w_blocks := mk_map blocks; w_data0 := mk_map dt0; w_fw0 := mk_map fw0 |}.

(* run a sequence of (agent index, action) on a world with one view per agent; returns after every
   step whether the model's world and acting agent's view equal the expected ones *)
Fixpoint false_indices (i : nat) (l : list bool) : list nat :=
  match l with
  | [] => []
  | true :: tl => false_indices (S i) tl
  | false :: tl => i :: false_indices (S i) tl
  end.

Inductive op :=
| OStep (agent : nat) (a : gaction) (expected_view : view) (expected_world : option world)
| OReset (expected_world : world)
| OInit (agent : nat) (sp : start_pos) (oracle : list ip) (expected_view : view)
| OSetView (agent : nat) (v : view)
| ORemap (m : mapping) (expected_world : world)       (* dynamic addresses: reset with re-labelling *)
| OEquiv (agent : nat) (m : mapping) (a : gaction).   (* hypotheses of the equivariance theorem for the next action *)

Fixpoint run (w : world) (views : list view) (ops : list op) : list bool :=
  match ops with
  | [] => []
  | OStep ag a ev ew :: tl =>
      let v := nth ag views (mk_view [] [] [] [] [] []) in
      let '(w', v') := step w v a in
      let views' := firstn ag views ++ v' :: skipn (S ag) views in
      (view_eqb v' ev && match ew with Some e => world_eqb w' e | None => true end) :: run w' views' tl
  | OReset ew :: tl =>
      let w' := reset w in world_eqb w' ew :: run w' views tl
  | OInit ag sp oracle ev :: tl =>
      let v' := init_view w sp oracle in
      let views' := firstn ag views ++ v' :: skipn (S ag) views in
      view_eqb v' ev :: run w views' tl
  | OSetView ag v' :: tl =>
      let views' := firstn ag views ++ v' :: skipn (S ag) views in
      true :: run w views' tl
  | ORemap m ew :: tl =>
      let w0 := reset w in
      let w' := rekey_world m w0 in
      (valid_mapping w0 m && world_eqb w' ew) :: run w' views tl
  | OEquiv ag m a :: tl =>
      equiv_ready m w (nth ag views (mk_view [] [] [] [] [] [])) [a] :: run w views tl
  end.

Definition mk_mapping (ips : list (ip * ip)) (nets : list (net * net)) : mapping :=
  {| m_ip := list_to_map ips; m_net := list_to_map nets |}.

(* loader check: the model's load of the scenario equals the implementation's tables *)
Definition check_load (sc : scenario) (expected : world) (start : list ip) : bool :=
  world_eqb (load sc) expected && bool_decide (load_start sc = start).
