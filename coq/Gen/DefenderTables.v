(* GENERATED from AIDojoCoordinator/global_defender.py by harness/translate/defender.py; do not edit *)
From NSG Require Import Base.Prelude Model.Defender.
From Coq Require Import PrimFloat.

Definition gen_prob (t : atype) : option rat :=
  match t with
  | ScanNetwork => Some ((3602879701896397)%Z, (72057594037927936)%positive)
  | FindServices => Some ((5404319552844595)%Z, (72057594037927936)%positive)
  | FindData => Some ((3602879701896397)%Z, (144115188075855872)%positive)
  | ExploitService => Some ((3602879701896397)%Z, (36028797018963968)%positive)
  | ExfiltrateData => Some ((3602879701896397)%Z, (144115188075855872)%positive)
  | BlockIP => Some ((5764607523034235)%Z, (576460752303423488)%positive)
  | _ => None
  end.

Definition gen_prob_decimal (t : atype) : option rat :=
  match t with
  | ScanNetwork => Some ((1)%Z, (20)%positive)
  | FindServices => Some ((3)%Z, (40)%positive)
  | FindData => Some ((1)%Z, (40)%positive)
  | ExploitService => Some ((1)%Z, (10)%positive)
  | ExfiltrateData => Some ((1)%Z, (40)%positive)
  | BlockIP => Some ((1)%Z, (100)%positive)
  | _ => None
  end.

Definition gen_ratio (t : atype) : option rat :=
  match t with
  | ScanNetwork => Some ((1)%Z, (4)%positive)
  | FindServices => Some ((3)%Z, (10)%positive)
  | FindData => Some ((1)%Z, (2)%positive)
  | ExploitService => Some ((1)%Z, (4)%positive)
  | ExfiltrateData => Some ((1)%Z, (4)%positive)
  | BlockIP => Some ((1)%Z, (1)%positive)
  | _ => None
  end.

Definition gen_ratio_float (t : atype) : option float :=
  match t with
  | ScanNetwork => Some (0x1.0000000000000p-2)%float
  | FindServices => Some (0x1.3333333333333p-2)%float
  | FindData => Some (0x1.0000000000000p-1)%float
  | ExploitService => Some (0x1.0000000000000p-2)%float
  | ExfiltrateData => Some (0x1.0000000000000p-2)%float
  | BlockIP => Some (0x1.0000000000000p+0)%float
  | _ => None
  end.

Definition gen_consec (t : atype) : option nat :=
  match t with
  | ScanNetwork => Some 2%nat
  | FindServices => Some 3%nat
  | ExfiltrateData => Some 2%nat
  | _ => None
  end.

Definition gen_repeat (t : atype) : option nat :=
  match t with
  | FindData => Some 2%nat
  | ExploitService => Some 2%nat
  | _ => None
  end.

Definition gen_tables : tables :=
  {| t_prob := gen_prob; t_ratio := gen_ratio; t_consec := gen_consec; t_repeat := gen_repeat |}.

Definition gen_tw_size : nat := 5%nat.
