(* C17 - The global defender detects only past its thresholds, with the stated odds.
   Statements only; proofs are in Proofs/DefenderFacts.v. *)
From Coq Require Import ZArith NArith List Bool.
From NSG Require Import Base.Prelude Model.Defender Proofs.DefenderFacts Model.Coord Model.CoordExec Proofs.CoordAgentStep Proofs.CoordDetect Gen.DefenderTables.
Import ListNotations.

(* The decision, for ALL tables, window sizes, histories, actions and draws:
   detection <-> episode (with this action) at least one window long, monitored type,
   threshold condition (share in the window reaches the ratio threshold, or - depending on the
   type - a run of that length exists in the window / the identical action occurs that often in
   the episode), and the draw is below the type's probability. *)
Theorem C17_iff : forall T tw hist a roll,
  wf_tables T = true ->
  (decide T tw hist a roll = Some true <->
   tw <= length hist + 1 /\ monitored T (fst a) = true /\ trigger T tw hist a /\ draw_below T (fst a) roll).
Proof. exact decide_iff. Qed.

(* the function is total on well-formed tables (the code's dictionary lookups cannot fail) *)
Theorem C17_total : forall T tw hist a roll,
  wf_tables T = true -> exists b, decide T tw hist a roll = Some b.
Proof. exact decide_total. Qed.

(* the code's groupby-based "longest run" is exactly: some k consecutive occurrences exist *)
Theorem C17_run : forall t k l, k <= max_consecutive t l <-> has_run t k l.
Proof. exact max_consecutive_spec. Qed.

(* C17_draw: when the other conjuncts hold, the draws that detect are exactly those below the
   probability, so a uniform draw detects with that probability. *)
Theorem C17_draw : forall T tw hist a roll p,
  wf_tables T = true -> tw <= length hist + 1 -> monitored T (fst a) = true -> trigger T tw hist a ->
  t_prob T (fst a) = Some p ->
  (decide T tw hist a roll = Some true <-> rat_lt roll p = true).
Proof. exact decide_draw. Qed.

(* non-vacuity: a concrete history that satisfies the hypotheses and is detected / not detected *)
Example C17_nonvacuous :
  let T := {| t_prob := fun t => match t with ScanNetwork => Some (1%Z, 20%positive) | _ => None end;
              t_ratio := fun t => match t with ScanNetwork => Some (1%Z, 4%positive) | _ => None end;
              t_consec := fun t => match t with ScanNetwork => Some 2 | _ => None end;
              t_repeat := fun _ => None |} in
  let h := [(FindData, 1%N); (ScanNetwork, 2%N); (FindData, 3%N); (FindServices, 4%N)] in
  wf_tables T = true /\
  decide T 5 h (ScanNetwork, 7%N) (1%Z, 100%positive) = Some true /\
  decide T 5 h (ScanNetwork, 7%N) (1%Z, 20%positive) = Some false /\
  decide T 5 (tl h) (ScanNetwork, 7%N) (0%Z, 1%positive) = Some false.
Proof. vm_compute. repeat split; reflexivity. Qed.

(* ---- the defender inside the game (Model/Coord.v, for every reachable state of the coordinator, any number of
        agents, any interleaving) ----
   The coordinator's detection function is the defender's decision on the tables, with window tw and draw roll
   (the executable instance x_detect of the correspondence check is this function with tw = 5). *)
Definition defender_detect (T : tables) (tw : nat) (roll : rat) (hist : list act) (a : act) : bool :=
  match decide T tw hist a roll with Some true => true | _ => false end.

(* "a detected agent's episode ends with reason Fail", and ONLY a detected agent's: in one label the status of an
   agent that is not a Defender becomes Fail only in its own game handler, by a counted step in which the goal was not
   reached and the defender's condition of C17_iff holds for the new action and EXACTLY the actions recorded in the
   agent's trajectory (the episode's history and nothing else); that very step ends the episode, with the step reward
   and the end bonus still to be paid. *)
Theorem C17_game_fail_only_by_detection :
  forall (V W : Type) (wstep : W -> V -> act -> W * V) (wreset : W -> W) (winit : W -> role -> W * V)
         (goal : role -> V -> bool) (cfg : config) (T : tables) (tw : nat) (roll : rat)
         (w : W) (ls0 : list (@label act)) (s s' : @state V W act) (l : @label act) (c : addr) (a a' : @agent V act),
    wf_tables T = true ->
    execs wstep wreset winit goal (defender_detect T tw roll) cfg (init_state w) ls0 = Some s ->
    exec wstep wreset winit goal (defender_detect T tw roll) cfg s l = Some s' ->
    alookup c (agents s) = Some a -> alookup c (agents s') = Some a' ->
    a_role a <> RDefender -> a_status a <> SFail -> a_status a' = SFail ->
    exists id action v',
      l = LRun (THandler id) /\ goal (a_role a) v' = false /\
      (tw <= length (t_actions (a_traj a)) + 1 /\ monitored T (fst action) = true /\
       trigger T tw (t_actions (a_traj a)) action /\ draw_below T (fst action) roll) /\
      a_ended a = false /\ a_ended a' = true /\ a_steps a' = S (a_steps a) /\ a_view a' = v' /\
      a_reward a' = r_step cfg /\ a_rewarded a' = false.
Proof.
  intros V W wstep wreset winit goal cfg T tw roll w ls0 s s' l c a a' HT H0 He Ha Ha' Hrole Hn Hf.
  destruct (fail_origin_reachable wstep wreset winit goal (defender_detect T tw roll) cfg w ls0 s s' l c a a' H0 He Ha Ha' Hn Hf)
    as [[id [action [v' [Hl [Hg [Hd R]]]]]] | [_ [Hr _]]]; [|contradiction].
  exists id, action, v'. split; [exact Hl|]. split; [exact Hg|]. split; [|exact R].
  apply (decide_iff T tw (t_actions (a_traj a)) action roll HT).
  unfold defender_detect in Hd. destruct (decide T tw (t_actions (a_traj a)) action roll) as [[|]|]; [reflexivity | discriminate | discriminate].
Qed.

(* every counted step applies the status rule with the defender's decision on the trajectory's actions: goal first,
   then detection, then the step limit; a terminal status ends the episode in that step *)
Theorem C17_game_step_rule :
  forall (V W : Type) (wstep : W -> V -> act -> W * V) (wreset : W -> W) (winit : W -> role -> W * V)
         (goal : role -> V -> bool) (cfg : config) (T : tables) (tw : nat) (roll : rat)
         (w : W) (ls0 : list (@label act)) (s s' : @state V W act) (l : @label act) (c : addr) (a a' : @agent V act),
    execs wstep wreset winit goal (defender_detect T tw roll) cfg (init_state w) ls0 = Some s ->
    exec wstep wreset winit goal (defender_detect T tw roll) cfg s l = Some s' ->
    alookup c (agents s) = Some a -> alookup c (agents s') = Some a' ->
    l <> LRun TReset -> a_steps a' = S (a_steps a) ->
    exists action,
      a_status a' =
        (if goal (a_role a) (a_view a') then SSuccess
         else if defender_detect T tw roll (t_actions (a_traj a)) action then SFail
         else if is_timeout cfg (bump a) then STimeout else a_status a) /\
      (terminal (a_status a') = true -> a_ended a' = true) /\ a_ended a = false.
Proof.
  intros V W wstep wreset winit goal cfg T tw roll w ls0 s s' l c a a' H0 He Ha Ha' Hl Hs.
  destruct (step_status_reachable wstep wreset winit goal (defender_detect T tw roll) cfg w ls0 s s' l c a a' H0 He Ha Ha' Hl Hs)
    as [action [Hst [Ht [Hend _]]]].
  exists action. split; [exact Hst|]. split; [exact Ht | exact Hend].
Qed.

(* "... and the fail reward": the reward task pays an ended, not yet rewarded attacker whose status is Fail the fail
   reward on top of what it holds, marks it rewarded (C05: at most once per episode) and leaves the reason alone *)
Theorem C17_game_fail_reward :
  forall (V : Type) (cfg : config) (succ : bool) (a : @agent V act),
    a_role a = RAttacker -> a_status a = SFail -> a_ended a = true -> a_rewarded a = false ->
    a_reward (reward_agent cfg succ a) = (a_reward a + r_fail cfg)%Z /\ a_rewarded (reward_agent cfg succ a) = true /\
    a_status (reward_agent cfg succ a) = SFail.
Proof. intros V cfg succ a. exact (reward_agent_fail cfg succ a). Qed.

(* non-vacuity: with the tables generated from global_defender.py and draw 0, one attacker repeating one scan is
   detected at its fifth action (window 5): status Fail, episode ended, step reward held, and after the reward task
   the fail reward on top; the first four actions do not end the episode *)
Example C17_game_nonvacuous :
  let cfg := {| required := 1; max_steps := fun _ => None; r_step := (-1)%Z; r_succ := 100%Z; r_fail := (-10)%Z;
                allowed := fun _ => true; save_traj := false |} in
  let ex := execs x_wstep x_wreset x_winit (x_goal []) (defender_detect gen_tables 5 (0%Z, 1%positive)) cfg in
  let g := MGame (ScanNetwork, 3%N) true in
  let join := [LConnect 1%N; LArrive 1%N (CMsg (MJoin (Some (7%N, Some RAttacker)))); LRun (TConn 1%N); LRun TDispatch; LRun (THandler 0); LRun (TConn 1%N)] in
  let play k := [LArrive 1%N (CMsg g); LRun (TConn 1%N); LRun TDispatch; LRun (THandler k); LRun (TConn 1%N)] in
  let four := join ++ play 1 ++ play 2 ++ play 3 ++ play 4 in
  let fifth := [LArrive 1%N (CMsg g); LRun (TConn 1%N); LRun TDispatch; LRun (THandler 5)] in
  wf_tables gen_tables = true /\
  match ex (init_state [5%N; 6%N; 8%N; 9%N; 10%N; 11%N; 12%N]) four with
  | Some s =>
      match alookup 1%N (agents s), ex s fifth with
      | Some a, Some s' =>
          a_ended a = false /\ a_status a = SPlayingTO /\ length (t_actions (a_traj a)) = 4 /\
          match alookup 1%N (agents s'), ex s' [LRun TRewards] with
          | Some a', Some s'' =>
              a_status a' = SFail /\ a_ended a' = true /\ a_reward a' = (-1)%Z /\ a_rewarded a' = false /\
              match alookup 1%N (agents s'') with
              | Some a'' => a_status a'' = SFail /\ a_reward a'' = (-11)%Z /\ a_rewarded a'' = true
              | None => False
              end
          | _, _ => False
          end
      | _, _ => False
      end
  | None => False
  end.
Proof. vm_compute. repeat split; reflexivity. Qed.

Print Assumptions C17_iff.
Print Assumptions C17_total.
Print Assumptions C17_run.
Print Assumptions C17_draw.
Print Assumptions C17_game_fail_only_by_detection.
Print Assumptions C17_game_step_rule.
Print Assumptions C17_game_fail_reward.
