(* C11 - Views are well-formed, only grow, and contain only what exists.
   Statements only; proofs in Proofs/WorldInv.v. *)
From stdpp Require Import gmap.
From Coq Require Import ZArith NArith.
From NSG Require Import Model.Coord Proofs.CoordAgentStep Proofs.CoordViews Model.World Model.Load Model.Game Proofs.WorldStep Proofs.WorldInv Proofs.InitViewFacts Proofs.Game.

(* one step: the monotone parts of the view never shrink (networks, hosts, controlled hosts,
   data per host, blocks per host) *)
Theorem C11_mono_step : forall w v a, view_le v (snd (step w v a)).
Proof. exact step_mono. Qed.

(* one step keeps the view well-formed: controlled hosts are known, services are known only for
   known hosts, data only on controlled hosts *)
Theorem C11_wf_step : forall w v a, wf_view v -> wf_view (snd (step w v a)).
Proof. exact step_wf. Qed.

(* one step keeps everything in the view anchored in the world: hosts exist, services are
   services of that host's node, data is located on that host's node *)
Theorem C11_exists_step : forall w v a, anchored w v -> anchored (fst (step w v a)) (snd (step w v a)).
Proof. exact step_anchored. Qed.
Theorem C11_exists_others : forall w v u a, anchored w v -> anchored (fst (step w u a)) v.
Proof. exact anchored_world_step. Qed.

(* every reachable state of any number of agents, after any interleaved action sequence *)
Theorem C11_invariant : forall s l, minv s -> minv (mrun s l).
Proof. exact mrun_inv. Qed.
Theorem C11_mono : forall s l ag v, snd s !! ag = Some v ->
  exists v', snd (mrun s l) !! ag = Some v' /\ view_le v v'.
Proof. exact mrun_mono. Qed.

(* non-vacuity: an initial state that satisfies the invariant *)
Example C11_nonvacuous :
  let w := {| w_ip2host := {[1%N := 10%N; 2%N := 20%N]}; w_nets := ∅; w_services := ∅; w_data := ∅;
              w_fw := {[1%N := {[2%N]}]}; w_blocks := ∅; w_data0 := ∅; w_fw0 := ∅ |} in
  let v := {| v_ctrl := {[1%N]}; v_hosts := {[1%N; 2%N]}; v_svcs := ∅; v_data := ∅; v_nets := ∅; v_blocks := ∅ |} in
  minv (w, {[0 := v]}).
Proof.
  intros w v ag u Hu. simpl in Hu. apply lookup_singleton_Some in Hu as [_ <-]. split.
  - repeat split; simpl; set_solver.
  - repeat split; simpl.
    + intros h Hh. assert (h = 1%N \/ h = 2%N) as [->| ->] by set_solver; vm_compute; eauto.
    + intros h K s HK. rewrite lookup_empty in HK. discriminate.
    + intros h K d HK. rewrite lookup_empty in HK. discriminate.
Qed.

(* the whole game (Model/Game.v: the coordinator model running on the world model): in every reachable state - any number
   of agents, any interleaving of joins, actions, departures, faults, rewards and resets - the stored view of every agent
   is well formed and anchored in the current world, provided the configured start positions are well formed and anchored
   in the scenario (sp_ok) and the random start hosts are hosts of the scenario (Proofs/CoordViews.v, Proofs/Game.v) *)
Theorem C11_whole_game : forall (sp : role -> start_pos) (goal : role -> view -> bool) (detect : list gaction -> gaction -> bool)
    (cfg : config) (W0 : gworld) (ls : list (@label gaction)) (s : @state view gworld gaction),
  GQ sp W0 ->
  @execs view gworld gaction g_wstep g_wreset (g_winit sp) goal detect cfg (init_state W0) ls = Some s ->
  forall c a, alookup c (agents s) = Some a -> wf_view (a_view a) /\ anchored (fst (Coord.world s)) (a_view a).
Proof. exact game_views_ok. Qed.

(* ... and only grows: between two points of an episode (no run of the reset task in between) the view stored for an agent
   only grows, whatever the other agents, the reward task, departures and joins do in between (Proofs/CoordViewStep.v:
   a label changes a stored view only by the world's answer to the agent's own action, or by the reset) *)
Theorem C11_whole_game_mono : forall (sp : role -> start_pos) (goal : role -> view -> bool) (detect : list gaction -> gaction -> bool)
    (cfg : config) (W0 : gworld) (ls0 ls : list (@label gaction)) (s s' : @state view gworld gaction) c a,
  @execs view gworld gaction g_wstep g_wreset (g_winit sp) goal detect cfg (init_state W0) ls0 = Some s ->
  @execs view gworld gaction g_wstep g_wreset (g_winit sp) goal detect cfg s ls = Some s' ->
  no_reset ls -> alookup c (agents s) = Some a ->
  (exists a', alookup c (agents s') = Some a' /\ view_le (a_view a) (a_view a')) \/
  gone_along g_wstep g_wreset (g_winit sp) goal detect cfg s ls c.
Proof. exact game_views_grow. Qed.

(* the lifting principle behind it, for any relation between world and view that the world model keeps *)
Theorem C11_lifting : forall (V W G : Type) (wstep : W -> V -> G -> W * V) (wreset : W -> W) (winit : W -> role -> W * V)
    (goal : role -> V -> bool) (detect : list G -> G -> bool) (cfg : config) (Q : W -> Prop) (P : W -> V -> Prop),
  (forall w v a, Q w -> Q (fst (wstep w v a))) -> (forall w, Q w -> Q (wreset w)) -> (forall w r, Q w -> Q (fst (winit w r))) ->
  (forall w v a, Q w -> P w v -> P (fst (wstep w v a)) (snd (wstep w v a))) ->
  (forall w v u a, Q w -> P w u -> P w v -> P (fst (wstep w u a)) v) ->
  (forall w r, Q w -> P (fst (winit w r)) (snd (winit w r))) ->
  (forall w r v, Q w -> P w v -> P (fst (winit w r)) v) ->
  forall w ls (s : @state V W G), Q w -> @execs V W G wstep wreset winit goal detect cfg (init_state w) ls = Some s ->
  VI Q P s.
Proof. exact @VI_reachable. Qed.

(* non-vacuity: a concrete scenario and start position satisfy the hypotheses, and a run of the whole game reaches a
   state with a joined agent that has played one action *)
Example C11_whole_game_nonvacuous :
  let w0 := {| w_ip2host := {[1%N := 10%N; 2%N := 20%N]}; w_nets := ∅; w_services := ∅; w_data := ∅;
               w_fw := {[1%N := {[2%N]}]}; w_blocks := ∅; w_data0 := ∅; w_fw0 := {[1%N := {[2%N]}]} |} in
  let sp := fun _ : role => {| sp_nets := []; sp_hosts := [2%N]; sp_ctrl := [SHost 1%N]; sp_svcs := []; sp_data := [] |} in
  let cfg := Build_config 1 (fun _ => Some 5) (-1)%Z 100%Z (-10)%Z (fun _ => true) false in
  GQ sp (w0, []) /\ pristine w0 /\
  match @execs view gworld gaction g_wstep g_wreset (g_winit sp) (fun _ _ => false) (fun _ _ => false) cfg (init_state (w0, []))
          [LConnect 1%N; LArrive 1%N (CMsg (MJoin (Some (7%N, Some RAttacker)))); LRun (TConn 1%N); LRun TDispatch; LRun (THandler 0);
           LRun (TConn 1%N); LArrive 1%N (CMsg (MGame (AScan 1%N (0%N, 0%N)) true)); LRun (TConn 1%N); LRun TDispatch; LRun (THandler 1)] with
  | Some s => match alookup 1%N (agents s) with
              | Some a => bool_decide (1%N ∈ v_ctrl (a_view a)) = true /\ a_steps a = 1
              | None => False
              end
  | None => False
  end.
Proof.
  split; [|split].
  - split; [|split].
    + constructor.
      * intros i Hi. exfalso. apply elem_of_elements in Hi. revert Hi. match goal with |- _ ∈ ?l -> _ => assert (E : l = []) by (vm_compute; reflexivity); rewrite E end. intros Hi. inversion Hi.
      * intros n. reflexivity.
    + constructor.
    + intros r. constructor; simpl.
      * intros h [<-|[]]. vm_compute. eauto.
      * intros h [[= <-]|[]]. vm_compute. eauto.
      * intros h l [].
      * intros h l [].
      * intros h l s [].
      * intros h l d [].
  - repeat split.
  - vm_compute. split; reflexivity.
Qed.

Print Assumptions C11_mono_step.
Print Assumptions C11_wf_step.
Print Assumptions C11_exists_step.
Print Assumptions C11_exists_others.
Print Assumptions C11_invariant.
Print Assumptions C11_mono.
Print Assumptions C11_whole_game.
Print Assumptions C11_lifting.
Print Assumptions C11_whole_game_mono.
