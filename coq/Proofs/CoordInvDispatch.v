(* Preservation of the structural invariant by the dispatcher (run_game). *)
From Coq Require Import ZArith NArith List Bool Arith Lia.
From NSG Require Import Model.Coord Proofs.CoordBase Proofs.CoordInv Proofs.CoordInvConn.
Import ListNotations.

Section InvDispatch.
  Context {V W G : Type}.
  Notation state := (@state V W G).
  Notation conn := (@conn V G).
  Notation handler := (@handler V G).
  Notation msg := (@msg G).
  Notation Inv := (@Inv V W G).

  Lemma dispatch1_aq (s : state) x q : set_aq (dispatch1 s x) q = dispatch1 (set_aq s q) x.
  Proof. destruct x as [c m]; destruct m; reflexivity. Qed.

  Lemma nq_respond (cs : list (addr * conn)) c cn (item : qitem) :
    alookup c cs = Some cn ->
    nq c (aupdate c (fun x => if has_queue x then c_set_queue x (c_queue x ++ [item]) else x) cs) =
    length (c_queue cn) + (if has_queue cn then 1 else 0).
  Proof.
    intros Hl. unfold nq. rewrite alookup_aupdate_eq, Hl. simpl.
    destruct (has_queue cn); simpl; [rewrite app_length; simpl; lia | lia].
  Qed.

  Lemma nactive_respond (cs : list (addr * conn)) c (item : qitem) :
    nactive (aupdate c (fun x => if has_queue x then c_set_queue x (c_queue x ++ [item]) else x) cs) = nactive cs.
  Proof.
    unfold nactive. induction cs as [|[k v] tl IH]; simpl; [reflexivity|].
    destruct (N.eqb c k); simpl.
    - destruct (has_queue v); [|reflexivity]. simpl. destruct (active (c_state v)); reflexivity.
    - destruct (active (c_state v)); simpl; rewrite IH; reflexivity.
  Qed.

  Lemma inv_dispatch1 (s : state) c m q :
    Inv (set_aq s ((c, m) :: q)) -> Inv (set_aq (dispatch1 s (c, m)) q).
  Proof.
    intros Hi. set (s0 := set_aq s ((c, m) :: q)) in *.
    destruct (alookup c (conns s)) as [cn|] eqn:Hl.
    2:{ exfalso. apply (I_known_aq s0 Hi c m); [left; reflexivity | exact Hl]. }
    pose proof (I_tok s0 Hi c cn Hl) as Ht.
    assert (Hone : tok s0 c = 1 + naq c q + nh c (handlers s) + nq c (conns s)).
    { unfold tok, s0. simpl. unfold naq at 1. simpl. rewrite N.eqb_refl. simpl. fold (naq c q). lia. }
    apply (inv_local s0 _ c Hi).
    - intros c' Hne. destruct m; simpl; try reflexivity. apply alookup_aupdate_ne. congruence.
    - destruct m; simpl; try apply (I_conns s0 Hi). rewrite map_fst_aupdate. apply (I_conns s0 Hi).
    - intros c' Hne. split.
      + unfold s0. simpl. destruct m; simpl; unfold naq; simpl;
          (destruct (N.eqb c c') eqn:E; [apply N.eqb_eq in E; congruence | reflexivity]).
      + destruct m; simpl; try reflexivity; rewrite nh_app, nh_one; simpl;
          (destruct (N.eqb c c') eqn:E; [apply N.eqb_eq in E; congruence | lia]).
    - intros c' m' Hin. right. unfold s0. simpl. right. destruct m; exact Hin.
    - intros h' Hin. destruct m; simpl in Hin; try (right; exists h'; split; [exact Hin | reflexivity]);
        (apply in_app_or in Hin as [Hin|[<-|[]]]; [right; exists h'; split; [exact Hin|reflexivity] | left; reflexivity]).
    - destruct (I_ids s0 Hi) as [Hnd Hlt]. simpl in Hnd, Hlt.
      destruct m; simpl; try (split; assumption);
        (split; [rewrite map_app; simpl; apply NoDup_app_one; [exact Hnd|]; intros Hin; apply in_map_iff in Hin as (h & Hh & Hin); specialize (Hlt h Hin); lia
                | intros h Hin; apply in_app_or in Hin as [Hin|[<-|[]]]; [specialize (Hlt h Hin); lia | simpl; lia]]).
    - pose proof (I_served s0 Hi) as Hs. simpl in Hs. destruct m; simpl; try exact Hs. rewrite nactive_respond. exact Hs.
    - destruct m; apply (I_agents s0 Hi).
    - intros h Hin Hp. pose proof (I_parked s0 Hi) as Hpk. simpl in Hpk.
      destruct m; simpl in *; try (apply Hpk; assumption);
        (apply in_app_or in Hin as [Hin|[<-|[]]]; [apply Hpk; assumption | discriminate Hp]).
    - (* at c *)
      intros cn' Hl'.
      destruct m.
      1:{ (* garbage: reply BAD_REQUEST *)
        simpl in Hl'. rewrite alookup_aupdate_eq, Hl in Hl'. simpl in Hl'. injection Hl' as <-.
        destruct (c_state cn) eqn:Hst; simpl in Ht; try lia.
        * (* awaiting *)
          assert (Hz : naq c q = 0 /\ nh c (handlers s) = 0 /\ nq c (conns s) = 0) by lia. destruct Hz as (Hz1 & Hz2 & Hz3).
          unfold has_queue. rewrite Hst. simpl. rewrite Hst. unfold tok. simpl.
          rewrite (nq_respond _ c cn _ Hl). unfold has_queue. rewrite Hst. unfold nq in Hz3. rewrite Hl in Hz3. lia.
        * (* closed: the entry must have been a QuitGame *)
          destruct Ht as (_ & Hm & _). specialize (Hm MGarbage (or_introl eq_refl)). discriminate. }
      all: simpl in Hl'; rewrite Hl in Hl'; injection Hl' as <-.
        all: destruct (c_state cn) eqn:Hst; simpl in Ht; try lia.
        all: try (unfold tok; simpl; rewrite nh_app, nh_one; simpl; rewrite N.eqb_refl; lia).
        all: destruct Ht as (Hq & Hm & Hh); split; [exact Hq|]; split;
          [ intros m' Hin; apply Hm; right; exact Hin
          | intros h Hin Ha; apply in_app_or in Hin as [Hin|[<-|[]]]; [apply Hh; assumption|];
            unfold spawned_msg; simpl; f_equal; apply (Hm _ (or_introl eq_refl)) ].
    - intros _. destruct m; simpl; try (rewrite Hl; discriminate). rewrite alookup_aupdate_eq, Hl. discriminate.
    - intros h Hin Ha. pose proof (I_nogarbage s0 Hi) as Hng. simpl in Hng.
      destruct m; simpl in Hin; try (apply Hng; assumption);
        (apply in_app_or in Hin as [Hin|[<-|[]]]; [apply Hng; assumption | discriminate]).
  Qed.

  Lemma inv_dispatch_fold q (s : state) : Inv (set_aq s q) -> Inv (set_aq (fold_left dispatch1 q s) []).
  Proof.
    revert s. induction q as [|[c m] tl IH]; intros s Hi; simpl; [exact Hi|].
    apply IH. apply inv_dispatch1. exact Hi.
  Qed.

  Theorem inv_dispatch_run (s s' : state) : Inv s -> dispatch_run s = Some s' -> Inv s'.
  Proof.
    intros Hi. unfold dispatch_run. destruct (aq s) as [|x q] eqn:Hq; [discriminate|]. intros [= <-].
    assert (Hi' : Inv (set_aq (set_aq s []) (x :: q))).
    { eapply inv_ext; [| | | | | | exact Hi]; simpl; try reflexivity. symmetry. exact Hq. }
    pose proof (inv_dispatch_fold (x :: q) (set_aq s []) Hi') as Hf.
    assert (Haq : forall l (t : state), aq t = [] -> aq (fold_left dispatch1 l t) = []).
    { induction l as [|[c m] tl IH]; intros t Ht; simpl; [exact Ht|]. apply IH. destruct m; exact Ht. }
    eapply inv_ext; [| | | | | | exact Hf]; try reflexivity.
    cbn [aq set_aq]. apply (Haq (x :: q)). reflexivity.
  Qed.
End InvDispatch.
