"""C12: agents affect each other only through the shared network."""
import check as CK
from props import worldcommon as WC
from props.c02 import ASSUME, replay

TRANSLATORS = []
COQ_FILES = ["Props/C12.v"]


def correspondence(ctx):
    th = ctx.tier == "thorough"
    WC.world_suite(ctx, "C12", tags={"pre", "nopre"}, walks_per_spec=4 if th else 1, n_generated=24 if th else 6,
                   n_steps=200 if th else 90, perturb=0.0, resets=0, n_agents=(2, 3), shared_every=2)
    ctx.assumptions += ASSUME + ["aliasing between agents' views is outside the value-semantic model: decided by deep snapshots (partial)"]
